"""C20: a handle dropped while page writes of a failed commit are still queued — no file operation of the old handle may complete after another open succeeded"""
_RUN = {"cmd": "flock-queued", "args": ["--early", "6"], "cases": {"quick": 3, "thorough": 12}, "shards": {"quick": 1, "thorough": 4}}
_RULE = (" flock-queued: a commit that fails fast with bucket exhaustion (16 buckets, 100 000 keys of 1000 bytes, 16 commit workers, ONE I/O worker) poisons the handle while ~100 MiB of page writes of the same commit are "
         "queued or about to be queued; the handle is dropped once 8 MiB of them have reached `ln` (thousands in flight: counter queued_writes_inflight_at_drop) while another thread spins on Nomt::open of the directory; from the "
         "moment that open succeeds the I/O hook must see NO write / resize / fsync of the old handle begin or complete (`C20 background writers of the dropped handle were still running …`). Up to six extra rounds drop the handle "
         "at once: the replay of the known finding F26 (the orphaned beatree task still ALLOCATING extends `ln` after the lock was released).")
EXTRA = {"C20": {"runs": [dict(_RUN)], "rule": _RULE}}
