#!/usr/bin/env python3
"""Constants translator: Rust sources of nomt  ->  lean/NomtModel/Generated/Constants.lean

Reads the CURRENT working tree of the Rust project (default /repo, override: env NOMT_REPO or
argv[1]), extracts the constants the Lean model and its property theorems depend on with regular
expressions, evaluates their defining integer expressions with a small safe evaluator (only integer
literals, already extracted constants, + - * / % << >> | & ^ and parentheses) and writes one
`def NAME : Nat := value` per constant into namespace `Nomt.Gen`.

`lean/NomtModel/Store/ConstantsCheck.lean` ties the hand-written constants of the decoders /
models to these generated values and states the layout laws the properties rely on, so a changed
constant in the Rust source breaks a kernel-checked proof obligation.

Exit code != 0 with a message naming the constant if anything cannot be found or evaluated (a
renamed / removed constant must be noticed, never silently dropped).  The output is deterministic
(no timestamps); the file is only rewritten when its content changes.
"""
import ast
import os
import re
import sys

ROOT = os.path.dirname(os.path.dirname(os.path.abspath(__file__)))
_args = [a for a in sys.argv[1:] if not a.startswith("-")]
REPO = _args[0] if _args else os.environ.get("NOMT_REPO", "/repo")
OUT = os.path.join(ROOT, "lean", "NomtModel", "Generated", "Constants.lean")
SEARCH_DIRS = ["nomt/src", "core/src"]


class GenError(Exception):
    pass


# ------------------------------------------------------------------ safe integer expressions

_BINOPS = {
    ast.Add: lambda a, b: a + b,
    ast.Sub: lambda a, b: a - b,
    ast.Mult: lambda a, b: a * b,
    ast.FloorDiv: lambda a, b: a // b,
    ast.Mod: lambda a, b: a % b,
    ast.LShift: lambda a, b: a << b,
    ast.RShift: lambda a, b: a >> b,
    ast.BitOr: lambda a, b: a | b,
    ast.BitAnd: lambda a, b: a & b,
    ast.BitXor: lambda a, b: a ^ b,
}

_INT_TYPES = r"(?:usize|isize|u8|u16|u32|u64|u128|i8|i16|i32|i64|i128)"


def rust_to_py(expr):
    """Rust integer expression -> Python expression text (same precedence for the operators used:
    * / %  >  + -  >  << >>  >  &  >  ^  >  |  in both languages)."""
    e = expr.strip()
    e = re.sub(r"\bas\s+" + _INT_TYPES + r"\b", "", e)            # casts (no truncation happens for the values used)
    e = re.sub(r"(?<=[0-9a-fA-F_])" + _INT_TYPES + r"\b", "", e)   # literal suffixes 4096usize
    e = re.sub(r"(?<![\w.])([A-Za-z_][A-Za-z0-9_]*::)+", "", e)    # paths  crate::io::PAGE_SIZE
    e = e.replace("/", "//")
    return e


def eval_int(expr, env, what):
    py = rust_to_py(expr)
    try:
        tree = ast.parse(py, mode="eval")
    except SyntaxError as ex:
        raise GenError(f"{what}: cannot parse expression `{expr}` ({ex.msg})")

    def go(n):
        if isinstance(n, ast.Expression):
            return go(n.body)
        if isinstance(n, ast.Constant) and isinstance(n.value, int) and not isinstance(n.value, bool):
            return n.value
        if isinstance(n, ast.Name):
            if n.id not in env:
                raise GenError(f"{what}: expression `{expr}` uses `{n.id}`, which has not been extracted")
            return env[n.id]
        if isinstance(n, ast.BinOp) and type(n.op) in _BINOPS:
            a, b = go(n.left), go(n.right)
            if isinstance(n.op, (ast.FloorDiv, ast.Mod)) and b == 0:
                raise GenError(f"{what}: division by zero in `{expr}`")
            if isinstance(n.op, (ast.LShift, ast.RShift)) and not (0 <= b <= 4096):
                raise GenError(f"{what}: shift amount out of range in `{expr}`")
            return _BINOPS[type(n.op)](a, b)
        if isinstance(n, ast.UnaryOp) and isinstance(n.op, ast.UAdd):
            return go(n.operand)
        raise GenError(f"{what}: unsupported syntax in expression `{expr}`")

    v = go(tree)
    if v < 0:
        raise GenError(f"{what}: expression `{expr}` is negative ({v})")
    return v


# ------------------------------------------------------------------ source access

_files = {}


def read(rel):
    if rel not in _files:
        p = os.path.join(REPO, rel)
        if not os.path.isfile(p):
            return None
        with open(p, encoding="utf-8") as fh:
            _files[rel] = strip_verif_items(fh.read())
    return _files[rel]


def strip_verif_items(text):
    """The instrumentation under `#[cfg(nomt_verif)]` is not part of the code under study: blank out every item that
    attribute guards (a `mod … { … }` / `impl` / `fn` block up to its matching brace, or a one-line item up to `;`),
    keeping the line structure so that reported line numbers stay true."""
    out = list(text)
    for m in re.finditer(r"#\[cfg\(nomt_verif\)\]", text):
        i = m.end()
        # the guarded item ends at the first `;` at brace depth 0 or at the brace matching the first `{`
        depth, j, seen_brace = 0, i, False
        while j < len(text):
            c = text[j]
            if c == "{":
                depth += 1
                seen_brace = True
            elif c == "}":
                depth -= 1
                if seen_brace and depth == 0:
                    j += 1
                    break
                if depth < 0:
                    break
            elif c == ";" and depth == 0:
                j += 1
                break
            j += 1
        for k in range(m.start(), min(j, len(text))):
            if out[k] != "\n":
                out[k] = " "
    return "".join(out)


def all_rs():
    out = []
    for d in SEARCH_DIRS:
        for dp, _, fs in os.walk(os.path.join(REPO, d)):
            for f in sorted(fs):
                if f.endswith(".rs"):
                    out.append(os.path.relpath(os.path.join(dp, f), REPO))
    return sorted(out)


def line_of(text, pos):
    return text.count("\n", 0, pos) + 1


def const_re(name):
    return re.compile(
        r"^[ \t]*(?:pub(?:\([a-z: ]+\))?[ \t]+)?const[ \t]+" + re.escape(name) +
        r"[ \t]*:[ \t]*([^=;]+?)[ \t]*=[ \t]*([^;]+);", re.M)


def find_const(name, candidates):
    """-> (rel file, line, type, expression text, full source line).  Looks into the candidate files
    first; if the definition moved, accepts a UNIQUE definition elsewhere under nomt/src, core/src."""
    rx = const_re(name)
    for rel in candidates:
        t = read(rel)
        if t is None:
            continue
        ms = list(rx.finditer(t))
        if len(ms) > 1:
            raise GenError(f"constant {name}: defined {len(ms)} times in {rel}")
        if ms:
            m = ms[0]
            return rel, line_of(t, m.start()), m.group(1), " ".join(m.group(2).split()), " ".join(m.group(0).split())
    hits = []
    for rel in all_rs():
        t = read(rel)
        for m in rx.finditer(t):
            hits.append((rel, line_of(t, m.start()), m.group(1), " ".join(m.group(2).split()), " ".join(m.group(0).split())))
    if len(hits) == 1:
        return hits[0]
    if not hits:
        raise GenError(f"constant {name}: no definition `const {name}: … = …;` in {', '.join(candidates)} "
                       f"nor anywhere under {', '.join(SEARCH_DIRS)} of {REPO} (renamed or removed?)")
    raise GenError(f"constant {name}: not in {', '.join(candidates)} and ambiguous elsewhere: "
                   + ", ".join(f"{h[0]}:{h[1]}" for h in hits))


# ------------------------------------------------------------------ what to extract

# (lean name, rust name, candidate files, names of the rust constants its expression may use -> lean names)
CONSTS = [
    ("PAGE_SIZE", "PAGE_SIZE", ["nomt/src/io/mod.rs"]),
    # leaf layout
    ("LEAF_NODE_BODY_SIZE", "LEAF_NODE_BODY_SIZE", ["nomt/src/beatree/leaf/node.rs"]),
    ("MAX_LEAF_VALUE_SIZE", "MAX_LEAF_VALUE_SIZE", ["nomt/src/beatree/leaf/node.rs"]),
    ("MAX_OVERFLOW_CELL_NODE_POINTERS", "MAX_OVERFLOW_CELL_NODE_POINTERS", ["nomt/src/beatree/leaf/node.rs", "nomt/src/beatree/ops/overflow.rs"]),
    ("MAX_OVERFLOW_VALUE_SIZE", "MAX_OVERFLOW_VALUE_SIZE", ["nomt/src/beatree/leaf/node.rs"]),
    ("LEAF_OVERFLOW_BIT", "OVERFLOW_BIT", ["nomt/src/beatree/leaf/node.rs"]),
    # overflow pages
    ("OVERFLOW_BODY_SIZE", "BODY_SIZE", ["nomt/src/beatree/ops/overflow.rs"]),
    ("OVERFLOW_MAX_PNS", "MAX_PNS", ["nomt/src/beatree/ops/overflow.rs"]),
    ("OVERFLOW_HEADER_SIZE", "HEADER_SIZE", ["nomt/src/beatree/ops/overflow.rs"]),
    # free list
    ("FREELIST_MAX_PNS_PER_PAGE", "MAX_PNS_PER_PAGE", ["nomt/src/beatree/allocator/free_list.rs"]),
    ("GROW_STORE_BY_PAGES", "GROW_STORE_BY_PAGES", ["nomt/src/beatree/allocator/mod.rs"]),
    # branch nodes
    ("BRANCH_NODE_SIZE", "BRANCH_NODE_SIZE", ["nomt/src/beatree/branch/mod.rs", "nomt/src/beatree/branch/node.rs"]),
    ("BRANCH_NODE_HEADER_SIZE", "BRANCH_NODE_HEADER_SIZE", ["nomt/src/beatree/branch/node.rs", "nomt/src/beatree/branch/mod.rs"]),
    ("BRANCH_NODE_BODY_SIZE", "BRANCH_NODE_BODY_SIZE", ["nomt/src/beatree/branch/node.rs", "nomt/src/beatree/branch/mod.rs"]),
    # merkle pages
    ("PAGE_ELISION_THRESHOLD", "PAGE_ELISION_THRESHOLD", ["nomt/src/merkle/page_walker.rs", "nomt/src/merkle/mod.rs"]),
    ("DEPTH", "DEPTH", ["core/src/page.rs"]),
    ("NODES_PER_PAGE", "NODES_PER_PAGE", ["core/src/page.rs"]),
    ("MAX_PAGE_DEPTH", "MAX_PAGE_DEPTH", ["core/src/page_id.rs"]),
    ("MAX_CHILD_INDEX", "MAX_CHILD_INDEX", ["core/src/page_id.rs"]),
    ("NUM_CHILDREN", "NUM_CHILDREN", ["core/src/page_id.rs"]),
    # bitbox meta map
    ("EMPTY", "EMPTY", ["nomt/src/bitbox/meta_map.rs"]),
    ("TOMBSTONE", "TOMBSTONE", ["nomt/src/bitbox/meta_map.rs"]),
    ("FULL_MASK", "FULL_MASK", ["nomt/src/bitbox/meta_map.rs"]),
    # manifest
    ("META_SIZE", "META_SIZE", ["nomt/src/store/meta.rs"]),
    ("META_VERSION", "VERSION", ["nomt/src/store/meta.rs"]),
    # seglog
    ("SEGLOG_RECORD_ALIGNMENT", "RECORD_ALIGNMENT", ["nomt/src/seglog/mod.rs"]),
    ("SEGLOG_HEADER_SIZE", "HEADER_SIZE", ["nomt/src/seglog/mod.rs"]),
    ("SEGLOG_MAX_RECORD_PAYLOAD_SIZE", "MAX_RECORD_PAYLOAD_SIZE", ["nomt/src/seglog/mod.rs"]),
    # api
    ("MAX_COMMIT_CONCURRENCY", "MAX_COMMIT_CONCURRENCY", ["nomt/src/lib.rs"]),
    # io pool
    ("MAX_IO_ATTEMPTS", "MAX_IO_ATTEMPTS", ["nomt/src/io/mod.rs"]),
]

# constants that are not `const` items but literals inside code; (lean name, file, regex with ONE group = the
# integer expression, description).  The regex must match exactly once.
PATTERNS = [
    ("FULL_ENTRY_SHIFT", "nomt/src/bitbox/meta_map.rs",
     r"fn full_entry\(hash: u64\) -> u8 \{\s*\(hash >> (\d+)\) as u8 \^ FULL_MASK\s*\}",
     "`full_entry`: the tag is `hash >> 57`"),
    ("META_BYTES_PER_PAGE", "nomt/src/bitbox/meta_map.rs",
     r"pub fn page_index\(&self, bucket: usize\) -> usize \{\s*bucket / (\d+)\s*\}",
     "`MetaMap::page_index`"),
    ("ALLOCATE_BUCKET_ATTEMPTS", "nomt/src/bitbox/mod.rs",
     r"fn allocate_bucket\((?:(?!\bfn\b).)*?\bi \+= 1;\s*if i >= (\d+) \{",
     "`allocate_bucket`: gives up when its counter reaches this value"),
    ("PROBE_BOUND_FACTOR", "nomt/src/bitbox/mod.rs",
     r"if self\.step > (\d+) \* meta_map\.len\(\) as u64 \{\s*return ProbeResult::Exhausted;",
     "`ProbeSequence::next`: `step > 2 * len` => `Exhausted`"),
]

META_FIELDS = ["magic", "version", "ln_freelist_pn", "ln_bump", "bbn_freelist_pn", "bbn_bump", "sync_seqn",
               "bitbox_num_pages", "bitbox_seed", "rollback_start_live", "rollback_end_live"]


def extract():
    out = []       # (lean name, value, provenance text)
    env_by_file = {}   # rust names visible when evaluating: all extracted so far, by rust name
    env = {}
    for lean, rust, cands in CONSTS:
        rel, ln, ty, expr, src = find_const(rust, cands)
        # names are resolved against what was extracted before; same-named constants of other files
        # (HEADER_SIZE, BODY_SIZE) are kept apart by preferring the definition of the same file
        local = dict(env)
        local.update(env_by_file.get(rel, {}))
        v = eval_int(expr, local, f"constant {rust} ({rel}:{ln})")
        m = re.fullmatch(r"u(8|16|32|64|128)|usize", ty.strip())
        if m:
            bits = 64 if ty.strip() == "usize" else int(m.group(1))
            if v >= 1 << bits:
                raise GenError(f"constant {rust} ({rel}:{ln}): value {v} does not fit its type {ty}")
        env_by_file.setdefault(rel, {})[rust] = v
        env.setdefault(rust, v)
        out.append((lean, v, f"{rel}: `{src}`"))

    # MAGIC: [u8; 4] = *b"NOMT"  -> the little-endian u32 the decoder reads
    rel = "nomt/src/store/meta.rs"
    t = read(rel)
    if t is None:
        raise GenError(f"{rel}: file not found under {REPO}")
    ms = list(re.finditer(r'^[ \t]*(?:pub(?:\([a-z: ]+\))?[ \t]+)?const[ \t]+MAGIC[ \t]*:[ \t]*\[u8;[ \t]*4\][ \t]*=[ \t]*\*b"([^"\\]{4})";', t, re.M))
    if len(ms) != 1:
        raise GenError(f"constant MAGIC: expected exactly one `const MAGIC: [u8; 4] = *b\"....\";` in {rel}, found {len(ms)}")
    out.append(("META_MAGIC", int.from_bytes(ms[0].group(1).encode("ascii"), "little"),
                f"{rel}: `{' '.join(ms[0].group(0).split())}` read as a little-endian u32"))

    # field offsets of Meta::encode_to, cross-checked against Meta::decode
    enc = re.search(r"pub fn encode_to\(&self, buf: &mut \[u8\]\) \{(.*?)\n    \}", t, re.S)
    dec = re.search(r"pub fn decode\(buf: &\[u8\]\) -> Self \{(.*?)\n        Self \{", t, re.S)
    if not enc or not dec:
        raise GenError(f"{rel}: cannot find the bodies of `Meta::encode_to` / `Meta::decode`")
    enc_r = {m.group(3): (int(m.group(1)), int(m.group(2)), line_of(t, enc.start(1) + m.start()))
             for m in re.finditer(r"buf\[(\d+)\.\.(\d+)\]\s*\.copy_from_slice\(&self\.(\w+)", enc.group(1))}
    dec_r = {m.group(1): (int(m.group(2)), int(m.group(3)))
             for m in re.finditer(r"let (\w+) =[^;]*?buf\[(\d+)\.\.(\d+)\]", dec.group(1))}
    if sorted(enc_r) != sorted(META_FIELDS):
        raise GenError(f"{rel}: `Meta::encode_to` writes the fields {sorted(enc_r)}, expected {sorted(META_FIELDS)} "
                       "(a field was added, removed or renamed: update META_FIELDS, the Lean decoder and ConstantsCheck.lean)")
    for f in META_FIELDS:
        if f not in dec_r:
            raise GenError(f"{rel}: `Meta::decode` does not read the field {f}")
        if dec_r[f] != enc_r[f][:2]:
            raise GenError(f"{rel}: field {f}: encode_to writes buf[{enc_r[f][0]}..{enc_r[f][1]}] but decode reads buf[{dec_r[f][0]}..{dec_r[f][1]}]")
        a, b, ln = enc_r[f]
        out.append((f"META_{f.upper()}_START", a, f"{rel}: `buf[{a}..{b}]` <- `self.{f}` (encode_to; decode reads the same range)"))
        out.append((f"META_{f.upper()}_END", b, f"{rel}"))

    for lean, rel, rx, descr in PATTERNS:
        t = read(rel)
        if t is None:
            raise GenError(f"constant {lean}: {rel} not found under {REPO}")
        ms = list(re.finditer(rx, t, re.S))
        if len(ms) != 1:
            raise GenError(f"constant {lean}: the code pattern of {descr} was found {len(ms)} times in {rel}, expected once "
                           "(the code changed shape: look at it and update the pattern or the model)")
        v = eval_int(ms[0].group(1), env, f"constant {lean}")
        out.append((lean, v, f"{rel}: {descr}"))

    names = [o[0] for o in out]
    dup = {n for n in names if names.count(n) > 1}
    if dup:
        raise GenError(f"duplicate generated names: {sorted(dup)}")
    return out


def render(consts):
    lines = [
        "/-!",
        "# GENERATED FILE — do not edit",
        "",
        "Written by `tools/gen_constants.py` from the Rust sources of nomt (working tree of `/repo`; the",
        "source file of every value is given in its doc comment).  `tools/check.py` and",
        "`tools/setup.py` regenerate it on every run; `Store/ConstantsCheck.lean` ties the hand-written",
        "constants of the Lean decoders and models to these values.",
        "-/",
        "namespace Nomt.Gen",
        "",
    ]
    for name, v, prov in consts:
        lines.append(f"/-- {prov} -/")
        lines.append(f"def {name} : Nat := {v}")
        lines.append("")
    lines.append("end Nomt.Gen")
    return "\n".join(lines) + "\n"


def main():
    try:
        if not os.path.isdir(REPO):
            raise GenError(f"source tree {REPO} not found")
        consts = extract()
    except GenError as ex:
        print(f"gen_constants: ERROR: {ex}", file=sys.stderr)
        return 2
    text = render(consts)
    os.makedirs(os.path.dirname(OUT), exist_ok=True)
    old = None
    if os.path.exists(OUT):
        with open(OUT, encoding="utf-8") as fh:
            old = fh.read()
    if old != text:
        with open(OUT, "w", encoding="utf-8") as fh:
            fh.write(text)
    print(f"gen_constants: {len(consts)} constants from {REPO} -> {os.path.relpath(OUT, ROOT)}"
          + ("" if old == text else " (changed)"))
    if "-v" in sys.argv:
        for n, v, p in consts:
            print(f"  {n} = {v}    -- {p}")
    return 0


if __name__ == "__main__":
    sys.exit(main())
