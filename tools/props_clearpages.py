"""directed crash history `script-clear-pages` + the clean-reopen probe of the crash enumeration (C10 / C19 / C03)"""
import props as P
_RUN = dict(P.CRASH("crash", "script-clear-pages", 1, 1, steps=12, shards_q=1, wal=True), fixed_seed=1, corpus=True, shards={"quick": 1, "thorough": 1}, cases={"quick": 1, "thorough": 1})
_RULE = (" script-clear-pages (corpus, crash at EVERY I/O event of every operation): a cluster well above the elision threshold is deleted entirely, rebuilt and deleted again after a reopen, so that commits "
         "CLEAR stored merkle pages (tombstones); after every recovery the dump child probes what a CLEAN close and reopen of the recovered directory shows, on a copy taken before the follow-up commit "
         "(and again after it): hash-table occupancy, root and sync sequence number must be those of the recovering handle (`C10 hash-table occupancy changed across a clean close / reopen of the recovered store`, "
         "`C19 reported hash-table occupancy after a clean reopen …`; counter clean_reopen_after_recovery). The same probe runs in every crash / power-loss / nested run.")
EXTRA = {"C10": {"runs": [dict(_RUN)], "rule": _RULE}, "C19": {"runs": [P._with_driver(dict(_RUN))], "rule": _RULE}, "C03": {"runs": [dict(_RUN)], "rule": _RULE}}
