# Unit Q44 — the I/O pool (io/mod.rs, io/linux.rs, io/unix.rs, io/fsyncer.rs, the callers' counting loops; hook H25).  Loaded by props.py.
IOPOOL_RUN = {"cmd": "iopool", "mode": "iopool", "cases": {"quick": 240, "thorough": 8000}, "shards": {"quick": 4, "thorough": 16}}
IOPOOL_RULE = (
    " iopool run (hook H25 nomt::verif_api::io_pool): every run starts with the verdict table of the REAL IoKind::get_result (both kinds x 22 results x 7 errno values, `gr` lines); a case is one of — "
    "(worker, 4/8) the REAL linux.rs::run_worker on a thread of its own over a scripted kernel in lock-step: at every call of the worker into the ring (complete_queue.sync, every submit_queue.push, "
    "submit_and_wait) the harness decides what happened meanwhile — sends of reads / writes (Write, WriteArc, WriteRaw) on up to five handles (make_handle, make_new_sibiling_handle, clone), shutdown of "
    "the pool with I/O pending, which in-flight entries the kernel completed, in which order, with which result (full, 0, short, above the page, -EINTR, -errno) and which stale errno the thread has when "
    "the entry is classified, spurious completions, submit_and_wait interrupted or failing; submission queues of 1..40 entries and the real 1024, bursts of > 1024 outstanding commands (wait = 1), commands "
    "that stay short for ever; one `w` line per park = the actions, answered by the deliveries seen on every handle and the next call (slab key, command, attempt number), compared with the transition "
    "system of Store/IoPoolModel.lean (the definitions of T14_io_exactly_once); (execute, 1/8) the REAL unix.rs::execute with scripted pread / pwrite answers and on real files — RLIMIT_FSIZE beyond / inside "
    "/ at the page, /dev/full, wrong open mode, whole / partial / missing last page — the logged kernel answers are the `ux` line; (pool, 1/8) the REAL start_io_pool (io_uring) on the same real-file "
    "scenarios, attempts counted at the real submit_queue.push, then 1..300 writes in flight at shutdown; (write_ht, 1/8) the REAL bitbox::writeout::write_ht on the real pool with 0..5 injected page-write "
    "failures (`ht` line: arrivals -> result, completions left); (fsyncer, 1/8) the REAL Fsyncer: random fsync() / wait() sequences with injected results that carry the request number (`ffsync` / `fwait`). "
    "Oracles independent of Lean: C14 exactly one completion per command, on the channel of the handle it was sent on, carrying that command; its result == the harness's own verdict table applied to the "
    "results fed for it (Ok / Err(|res|) / Err(short) after 16); never more than MAX_IO_ATTEMPTS submission entries per command and none after its completion; every entry asks the kernel for the command's fd / offset "
    "/ 4096 bytes / opcode; a slab key is never reused while its entry is queued, in flight or completed-unseen; wait == 1 iff 1024 commands are in the slab; send / make_handle fail after shutdown; the worker "
    "exits only after shutdown and with every command completed; no call into the ring for 10 s = hang; execute / pool: expected result per scenario, Ok write => the page is in the file, Ok read => the "
    "buffer holds it; write_ht: result == first injected error in page order, every completion received, exactly the non-failing pages written; C04 fsyncer: wait() returns the result of the request "
    "before it (never a stale one), fsync() is accepted iff no request is outstanding.  distinct & non-trivial = distinct (capacity, commands, event string) of worker cases + distinct `ux` / `ht` / fsyncer inputs."
)
EXTRA = {
    "C14": {"runs": [dict(IOPOOL_RUN)], "rule": IOPOOL_RULE,
            "assumptions": ["the kernel posts exactly one completion per submitted entry (spurious completions for keys the slab does not hold are exercised; a duplicate for a live key is outside the model's contract)",
                            "the `slab` crate by its documented behaviour (most recently freed key first), crossbeam channels as FIFO queues, one worker thread per transition system (several workers = several copies sharing the command channel)",
                            "the leaf / branch stages' `submitted_io` equals the number of writes they sent on the handle (NodesTracker; not part of this unit)"]},
    "C04": {"runs": [dict(IOPOOL_RUN)], "rule": IOPOOL_RULE},
}
