#!/usr/bin/env python3
"""Self-test of tools/gen_functions.py on a synthetic Rust file (tools/tests/gen_functions_syn.rs): a `for` loop with `break`,
a reversed `for`, a `while` loop.  Translates them, runs the Lean definitions (`#eval`) and compares with the values Rust computes."""
import importlib.util, os, shutil, subprocess, sys, tempfile
ROOT = os.path.dirname(os.path.dirname(os.path.abspath(__file__)))
tmp = tempfile.mkdtemp(prefix="genfn-selftest-")
os.makedirs(os.path.join(tmp, "nomt", "src"))
os.makedirs(os.path.join(tmp, "core", "src"))
shutil.copy(os.path.join(ROOT, "tools", "tests", "gen_functions_syn.rs"), os.path.join(tmp, "nomt", "src", "syn.rs"))
sys.argv = ["gen_functions.py", tmp]
spec = importlib.util.spec_from_file_location("gf", os.path.join(ROOT, "tools", "gen_functions.py"))
gf = importlib.util.module_from_spec(spec)
spec.loader.exec_module(gf)
gf.TARGETS = [("tri", "tri", "nomt/src/syn.rs"), ("low_bit", "low_bit", "nomt/src/syn.rs"), ("count_down", "count_down", "nomt/src/syn.rs")]
text, _ = gf.generate()
lean = os.path.join(tmp, "Syn.lean")
open(lean, "w").write(text.replace("Nomt.GenFn", "Syn") + "\n#eval Syn.tri 5\n#eval Syn.tri 2000\n#eval Syn.low_bit 12\n#eval Syn.count_down 100 37\n#eval Syn.count_down 3 37\n")
out = subprocess.run(["lake", "env", "lean", lean], cwd=os.path.join(ROOT, "lean"), capture_output=True, text=True).stdout.split("\n")
want = ["some 10", "some 499500", "some 2", "some (some 6)", "none"]
got = [l for l in out if l.strip()]
shutil.rmtree(tmp)
print("gen_functions selftest:", "ok" if got == want else f"FAILED: {got} != {want}")
sys.exit(0 if got == want else 1)
