"""hasher unit: the same history on Nomt<Blake3Hasher> and Nomt<Sha2Hasher> vs the specification instantiated at both hashers (driver mode `hasher`)."""
HASHER_RUN = {"cmd": "hasher", "mode": "hasher", "cases": {"quick": 24, "thorough": 1600}, "shards": {"quick": 4, "thorough": 16}}
HASHER_RULE = (" hasher runs: per case ONE generated history (session commits with read_write witnesses, chains of two overlays committed in order, rollback(1..2), reopen under another "
               "configuration — workers 1..8, cache sizes, warm-up, upper levels —, proofs of present / diverging / random keys; value lengths around the SHA-256 padding boundaries 55/56/63/64/119/120, "
               "the BLAKE3 chunk boundary 1024 and the in-leaf / overflow boundary) is executed on a fresh Nomt<Blake3Hasher> AND a fresh Nomt<Sha2Hasher>; every root (finished session, overlay, "
               "Nomt::root after commit / rollback / reopen) is an `hroot` line, every proof an `hprove` line, value hashes of lengths 0..300 are `hvalue` lines, compared with the Lean specification "
               "(nodeAt / proveSpec) instantiated at blakeHasher and shaHasher (SHA-256 and arbitrary-length BLAKE3 implemented in Lean). Oracles independent of Lean: a reference trie generic over NodeHasher, "
               "the real verifier (PathProof::verify::<H>, confirm_value / confirm_nonexistence, verify_update::<H> replaying every witness to the reported root), a BTreeMap per state, and the cross-hasher "
               "trace: values read, Ok / Err of every call and the shape of every witness must not depend on the hasher (`C13 the history behaves differently under blake3 and sha2`).")
EXTRA = {
    "C13": {"runs": [dict(HASHER_RUN)], "rule": HASHER_RULE,
            "trusted_base": ["SHA-256 implemented in Lean (Basic/Sha256.lean), validated only by agreeing with the sha2 crate on every hvalue / hroot / hprove line"]},
    "C02": {"runs": [dict(HASHER_RUN)], "rule": HASHER_RULE},
}
