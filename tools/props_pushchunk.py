# plug-in unit (proof agent Q48): `BranchNodeBuilder::push_chunk` (nomt/src/beatree/branch/node.rs) and `LeafBuilder::push_chunk`
# (nomt/src/beatree/leaf/node.rs) = pushing the items one by one, at the level of the decoded node.  Lean: the mirror
# `builderPushChunk` (Store/BitOpsBuilder.lean) / the leaf-updater mirror (Store/LeafUpd*.lean), theorems in Props/C16_*PushChunk*;
# harness `vharness pushchunk` = the REAL LeafBuilder call by call (hook H29 `verif_api::leaf_builder`), `lb` lines, driver mode `pushchunk`
# (Driver/PushChunkMode.lean, byte-level mirror lbNew / lbPush / lbPushChunk / lbFinish of Store/LeafPushChunk.lean);
# `vharness pushchunk-branch` emits the `bn` / `gk` lines of driver mode `bitops` (hook H7 `verif_api::branch_node`);
# `vharness pushchunk-leaf` the lines of driver mode `leafupd` (hook H13 `verif_api::leaf_updater`).
# Notes: notes/Q48_tie.md, notes/Q48.md
PUSHCHUNK_LB_RUN = {"cmd": "pushchunk", "mode": "pushchunk", "cases": {"quick": 1500, "thorough": 30000}, "shards": {"quick": 4, "thorough": 16}}
PUSHCHUNK_RUN = {"cmd": "pushchunk-branch", "mode": "bitops", "cases": {"quick": 600, "thorough": 12000}, "shards": {"quick": 4, "thorough": 16}}
PUSHCHUNK_LEAF_RUN = {"cmd": "pushchunk-leaf", "mode": "leafupd", "cases": {"quick": 1500, "thorough": 30000}, "shards": {"quick": 4, "thorough": 16}}
PUSHCHUNK_RULE = (
    " pushchunk-branch runs: a case = one base branch node built by the REAL BranchNodeBuilder::push on a page of random initial contents and one new node built by the REAL builder from "
    "pushes and push_chunks of the base (page bytes after `finish` compared with the mirror `builderPushChunk`, `panic` on both sides where the code panics; every key of both nodes read back by the real `get_key`, "
    "a sample of these `gk` lines compared with the mirror too). Directed geometries: base / new prefix_len next to 0 / 8 / 64 / 128 / 248 / 255 with a difference of 0 / 1 / 7 / 8 / 9 / 63 / 64 / 65 bits in either direction "
    "(fast path, slow path with carried prefix bits, slow path dropping separator bits); chunks of 0 / 1 / some / all compressed separators / the whole node; `from = 0` with a first separator shorter than the base prefix "
    "(F22's shape: the all-zero key or a key cut inside the prefix in front of keys with many leading zero bits) under a shrinking, an equal and a growing prefix; the kept range cut into 1..3 segments, each one push_chunk or "
    "one push per item (push_chunk as first call = `set_prefix` runs, as a later call = it does not; C / PC / CP / CPC / CC …), pushes of fresh compressed keys in front and behind, uncompressed pushes behind; `updated` page "
    "numbers inside the chunk, behind the chunk but overwritten later, behind the node (panic); malformed: a chunk crossing the new node's prefix_compressed (the `assert!`), to < from, to behind the base node, an empty chunk at "
    "from = n, an empty chunk on the fast path at index 0 / from 0 (`cell(to - 1)` underflows: push_chunk of nothing is NOT a no-op there), a chunk reaching into the base's uncompressed separators (not rejected). "
    "Oracles independent of the model (`C16 pushchunk: …`): no panic on a well-formed request; the real get_key(new, index + k) = the real get_key(base, from + k) and node pointer = the base's or the updated one for every k; "
    "the node decodes (every key by the real get_key, every node pointer, the header) exactly as the node a SECOND real builder makes from push(key, separator_len, pn) one by one under the same header — byte equality of the two "
    "pages is counted, not required (`pc_bytes_equal` / `pc_bytes_differ` / `pc_cells_differ`: a short first separator kept under a shrinking prefix gets a non-canonical cell); a chunk crossing prefix_compressed panics. "
    "pushchunk-leaf runs: a case = one base leaf of 1..12 cells (inline values and overflow cells) built by the real LeafBuilder and a change list leaving kept runs of a chosen shape, driven through the REAL LeafUpdater "
    "(`digest` -> `build_leaf` -> one LeafBuilder::push_chunk per KeepChunk): whole leaf kept as the only call (rebase offset 0), insert in front (chunk not first, offset > 0), first cells deleted (offset < 0), a middle cell deleted / "
    "replaced by a shorter / equal / longer value (second chunk not first, either sign), all but one cell deleted, insert behind; every call compared with the `leafupd` mirror. Oracle (`C16 pushchunk-leaf: …` / `C01 …`): the "
    "produced leaf read back through the real LeafNode::{n, key, value} — key, cell bytes and overflow bit of every cell — is the base leaf with the changes applied. A chunk of 0 cells is not reachable through the updater. "
    "pushchunk runs (`lb <n> <total> <k> op…` -> `ok <page>` | `panic`; op = `P key overflow value` | `C from to <base page>`): the REAL LeafBuilder call by call — new(n, total), page bytes [2, 4096) zeroed, push_cell / push_chunk on a "
    "caller-supplied base page, finish — vs the byte-level mirror lbNew / lbPush / lbPushChunk / lbFinish, WHOLE PAGE compared. A case = a base leaf from a first real builder (1..10 cells, inline values 0..1300 bytes, overflow cells "
    "40 + 4k bytes with the overflow bit; emitted as an `lb` line of pushes) and a new leaf keeping runs of base cells as C ops (1 / all / some cells, a run cut into two C ops), dropping / re-pushing / replacing others, fresh cells in "
    "front / between / behind (rebase difference positive / zero / negative, chunk first or later call, overflow cells rebased); total exact or off by one either way (finish assert / underflow); malformed: to > n_base, n too small, "
    "to < from, an EMPTY range at (0,0) and (n_base,n_base) (panic), inside (no-op; panic when the builder is already full), a chunk into a full builder. Oracle (`C16 pushchunk: …`): no panic on a well-formed request and the "
    "finished leaf read back through the real LeafNode::{n, key, value} is exactly the list of (key, value bytes, overflow bit) pushed / kept; byte equality with the push_cell-only leaf is counted (`lb_bytes_equal_one_by_one`)."
)
_TB = ["hook H29 zeroes the page bytes [2, 4096) after LeafBuilder::new (the pool hands out pages with undefined contents; the builder never reads them)"]
EXTRA = {
    "C16": {"runs": [PUSHCHUNK_LB_RUN, PUSHCHUNK_RUN, PUSHCHUNK_LEAF_RUN], "rule": PUSHCHUNK_RULE, "trusted_base": _TB},
    "C01": {"runs": [PUSHCHUNK_LB_RUN, PUSHCHUNK_RUN, PUSHCHUNK_LEAF_RUN], "rule": PUSHCHUNK_RULE, "trusted_base": _TB},
}
