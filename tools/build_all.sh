#!/bin/bash
# builds every Props module + the driver (run before committing any Lean change; check.py builds only one property's modules)
cd "$(dirname "$0")/../lean" && LEAN_NUM_THREADS=${LEAN_NUM_THREADS:-8} lake build $(ls NomtModel/Props/*.lean | sed 's#/#.#g; s#\.lean$##') NomtModel nomt_model 2>&1 | grep -v "^✔\|^ℹ\|Replayed\|^trace" | tail -20
