#!/bin/bash
# builds every Props module + the driver (run before committing any Lean change; check.py builds only one property's modules)
ROOT="$(cd "$(dirname "$0")/.." && pwd)"
cd "$ROOT/lean" && LEAN_NUM_THREADS=${LEAN_NUM_THREADS:-8} lake build $(ls NomtModel/Props/*.lean | sed 's#/#.#g; s#\.lean$##') NomtModel nomt_model 2>&1 | grep -v "^✔\|^ℹ\|Replayed\|^trace" | tail -20
# every Props module must be importable together with every other one (a property's axiom audit imports all its Props files at once:
# two modules declaring the same name make that import fail)
cd "$ROOT/lean" && mkdir -p .lake/audit && ls NomtModel/Props/*.lean | sed 's#/#.#g; s#\.lean$##; s#^#import #' > .lake/audit/AllProps.lean && lake env lean .lake/audit/AllProps.lean 2>&1 | head -5
