#!/usr/bin/env python3
"""
Evaluate one seeded change produced by an independent sub-agent.

  python3 tools/seeded.py <name> <worktree> <property> [--checks C01,C09,...] [--skip-confirm]

1. confirm in the scratch worktree (CARGO_TARGET_DIR=/tmp/mut-target-<name>, removed afterwards): the demonstration fails with the
   change and passes without it; the existing test suite passes with the change;
2. copy patch.diff / demo / notes into /verif/seeded/<name>/;
3. apply the patch to /repo, run the listed checks (quick tier), undo the patch (git checkout -- .);
4. write /verif/seeded/<name>/meta.json with what was run and which checks raised a VIOLATION.
"""
import sys, os, subprocess, json, shutil, re, time
ROOT = "/verif"
name, wt, prop = sys.argv[1], sys.argv[2], sys.argv[3]
checks = [prop]
skip_confirm = "--skip-confirm" in sys.argv
if "--checks" in sys.argv:
    checks = sys.argv[sys.argv.index("--checks") + 1].split(",")
TARGET = f"/tmp/mut-target-{name}"  # one build directory per worktree: a shared one serves stale test binaries
env = dict(os.environ, CARGO_TARGET_DIR=TARGET, CARGO_NET_OFFLINE="true")
def sh(cmd, cwd=None, timeout=3600, plain_env=False):
    # the shared target dir is only for the confirmation builds in the scratch worktree; the checks must build
    # into the harness' own target directory
    e = dict(os.environ, CARGO_NET_OFFLINE="true") if plain_env else env
    e.pop("CARGO_TARGET_DIR", None) if plain_env else None
    p = subprocess.run(cmd, shell=True, cwd=cwd, stdout=subprocess.PIPE, stderr=subprocess.STDOUT, text=True, env=e, timeout=timeout)
    return p.returncode, p.stdout
d = f"{ROOT}/seeded/{name}"
os.makedirs(d, exist_ok=True)
meta = {"name": name, "property": prop, "worktree": wt, "ran": []}
deliv = f"{wt}/DELIVERY"
for f in ("patch.diff", "demo.rs", "notes.md"):
    if os.path.exists(f"{deliv}/{f}"):
        shutil.copy(f"{deliv}/{f}", f"{d}/{f}")
patch = f"{d}/patch.diff"
# ---- locate the demo test in the worktree
demo_line = open(f"{d}/demo.rs").read().splitlines()[:12] if os.path.exists(f"{d}/demo.rs") else []
demo_path = None
for cand in ("nomt/tests/mut_demo.rs", "core/tests/mut_demo.rs"):
    if os.path.exists(f"{wt}/{cand}"):
        demo_path = cand
crate = "nomt" if demo_path and demo_path.startswith("nomt/") else "nomt-core"
if not skip_confirm and demo_path:
    def run_demo():
        rc, out = sh(f"cargo test --offline -p {crate} --test mut_demo 2>&1 | tail -25", cwd=wt)
        ok = ("test result: ok" in out) and ("test result: FAILED" not in out) and ("error" not in out.lower().split("test result")[0][-400:] if "test result" in out else False)
        sh(f"rm -rf {wt}/nomt/test {wt}/core/test")
        return ok, out[-1500:]
    # state with the change applied?
    rc, st = sh("git status --porcelain", cwd=wt)
    applied = any(l.strip().startswith("M ") or l.startswith(" M") for l in st.splitlines())
    if not applied:
        sh(f"git apply {patch}", cwd=wt)
    ok_with, out_with = run_demo()
    sh(f"git apply -R {patch}", cwd=wt)
    ok_without, out_without = run_demo()
    sh(f"git apply {patch}", cwd=wt)
    meta["demo_with_change_passes"] = ok_with
    meta["demo_without_change_passes"] = ok_without
    meta["ran"].append(f"cargo test -p {crate} --test mut_demo (with change: {'pass' if ok_with else 'FAIL'}; without: {'pass' if ok_without else 'FAIL'})")
    os.makedirs("/tmp/rt", exist_ok=True)
    if "--no-suite" in sys.argv:
        # the sub-agent's own suite run (recorded in its notes.md) is taken over; only the demonstration is re-confirmed here
        rc, out = 0, "suite not repeated here (--no-suite): see notes.md for the sub-agent's run"
    else:
      rc, out = sh("flock /tmp/rt/suite.lock cargo nextest run --workspace --no-fail-fast --test-threads 8 --offline 2>&1 | grep -E 'Summary|FAIL' | grep -v trickfs | head -8", cwd=wt)
    sh(f"rm -rf {wt}/nomt/test {wt}/*/test")
    meta["suite_with_change"] = out.strip()[-600:]
    meta["ran"].append("cargo nextest run --workspace (with the change): " + out.strip().splitlines()[0] if out.strip() else "no summary")
    meta["confirmed"] = (not ok_with) and ok_without
    shutil.rmtree(TARGET, ignore_errors=True)
if "--no-checks" in sys.argv:
    old = json.load(open(f"{d}/meta.json")) if os.path.exists(f"{d}/meta.json") else {}
    old.update({k: meta[k] for k in meta if k not in ("ran",)})
    old["ran"] = sorted(set(old.get("ran", []) + meta["ran"]))
    json.dump(old, open(f"{d}/meta.json", "w"), indent=1)
    print(json.dumps({k: old.get(k) for k in ("name", "confirmed", "demo_with_change_passes", "demo_without_change_passes")}))
    sys.exit(0)
# ---- run the checks against /repo with the patch applied
rc, out = sh("git status --porcelain", cwd="/repo")
if out.strip():
    print("refusing: /repo has uncommitted changes:\n" + out); sys.exit(2)
rc, out = sh(f"git apply --check {patch} && git apply {patch}", cwd="/repo")
if rc != 0:
    # later hook commits may have touched the context lines of an older patch: retry with fuzz (the change itself is unchanged)
    rc, out2 = sh(f"patch -p1 -F3 --no-backup-if-mismatch < {patch}", cwd="/repo")
    meta["ran"].append("patch applied with fuzz (context lines moved by later hook commits)")
    if rc != 0:
        sh("git checkout -- .", cwd="/repo")
        print("patch does not apply to /repo:\n" + out + out2); sys.exit(2)
results = {}
try:
    for c in checks:
        t0 = time.time()
        rc, out = sh(f"python3 tools/check.py {c} --tier quick", cwd=ROOT, timeout=3600, plain_env=True)
        viol = [l for l in out.splitlines() if l.startswith("VIOLATION")]
        msg = [l for l in out.splitlines() if l.startswith("implementation fails") or l.startswith("model and implementation") or l.startswith("proof obligation")]
        results[c] = {"exit": rc, "violation_lines": viol, "first_message": (msg[0][:500] if msg else ""), "wall_s": round(time.time() - t0, 1)}
        print(c, "exit", rc, viol[:1], (msg[0][:200] if msg else ""))
finally:
    sh("git checkout -- .", cwd="/repo")
if skip_confirm and os.path.exists(f"{d}/meta.json"):
    # keep the confirmation recorded by an earlier run
    old = json.load(open(f"{d}/meta.json"))
    for k in ("confirmed", "demo_with_change_passes", "demo_without_change_passes", "suite_with_change"):
        if k in old and k not in meta:
            meta[k] = old[k]
    meta["ran"] = sorted(set(old.get("ran", []) + meta["ran"]))
meta["checks_run_with_change_applied_to_repo"] = results
meta["detected_by"] = [c for c, r in results.items() if r["exit"] != 0]
meta["ran"].append("git -C /repo apply patch.diff; python3 tools/check.py <id> --tier quick for " + ",".join(checks) + "; git -C /repo checkout -- .")
json.dump(meta, open(f"{d}/meta.json", "w"), indent=1)
print(json.dumps({k: meta[k] for k in meta if k not in ("checks_run_with_change_applied_to_repo",)}, indent=1)[:1500])
