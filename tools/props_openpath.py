# Unit Q37 — the OPEN path (Nomt::open, compute_root_node, Store::open / create, Meta, ht_file, Options; hook H23).  Loaded by props.py.
OPENPATH_RUN = {"cmd": "openpath", "mode": "openpath", "cases": {"quick": 400, "thorough": 12000}, "shards": {"quick": 4, "thorough": 16}}
OPENPATH_RULE = (
    " openpath run (hook H23 nomt::verif_api::openpath): a case is one of — (dir, 5/10) a REAL directory made through the real API under configuration A (buckets 1..6000, seed, rollback flag, workers) in one "
    "of nine shapes (never written; ONE key with a 0 / 1 / 1332 / 1333 / 70 000-byte value; two keys on the same / on different sides of the root; many; emptied; shrunk to one; shrunk to two; rolled back "
    "to empty; a short history), closed and REOPENED under a freshly drawn configuration B (other bucket count / seed / rollback flag / upper levels / cache sizes 0..256 MiB / workers 1..100 / warm-up / "
    "prepopulation), a third of the cases committing once more under B and re-reading the manifest; one `open` line carries the manifest bytes, B, the lengths of ht / wal, the root page slots and the "
    "first items as the REAL compute_root_node met them, the answer = the parameters the opened store runs with (Sync seqn / bucket count / seed, table seed, frontiers and free-list heads of both allocators, "
    "rollback range, worker count) + the root, compared with the mirror Store/OpenPath.lean (nomtOpen = clampOptions, storeOpen, computeRootNode over the BeatreeIterator mirror: the definitions of "
    "T10_root_at_open / T10_open_uses_manifest / T20_open_order); (meta, 2/10) Meta::read + validate on generated files (valid, one field damaged, random; lengths 0 / 1 / 63 / 64 / 4095 / 4096 / 8192), "
    "Meta::encode_to and create_new on generated fields, byte for byte; (ht, 1/10) ht_file::open on sparse files of exact / off-by-a-byte / off-by-a-page / zero length for bucket counts up to 2^32-1 "
    "(predicted overflow panics of the debug build must agree) and ht_file::create; (effective, 1/10) Nomt::open on a fresh directory with commit_concurrency 0..1000 and cache sizes 0..2^45 MiB (verdict "
    "class + shard count); (corrupt, 1/10) a real directory whose manifest is damaged in one of twelve ways, reopened under catch_unwind: the verdict class vs the mirror, panics COUNTED per site "
    "(notes/Q37.md (e); `vharness openpath-findings` reports them as oracle failures).  Oracles independent of Lean: C02 root reported after reopen == root recomputed by the real compute_root_node == "
    "reference trie; C10 root page stored iff >= 2 keys and its two top slots == reference nodes of the two halves, the iterator's first item == smallest committed key (overflow iff value > 1332 bytes, "
    "stored hash == hash of the value), seqn and occupancy == the pre-close values, values read back, a cleanly closed directory is never refused, decode(encode(m)) == m, validate == its three documented "
    "checks, full_count == bytes with the top bit; C13 seed / bucket count / frontiers / free-list heads of the opened store == the MANIFEST's for every B, also in the manifest written by a commit under B; "
    "shard count == min(workers, 64); C20 a second open of a live directory is refused and changes no file.  distinct & non-trivial = distinct protocol lines of the open / meta / htopen / effective kinds."
)
EXTRA = {
    "C10": {"runs": [dict(OPENPATH_RUN)], "rule": OPENPATH_RULE,
            "assumptions": ["the parts of the open sequence modelled elsewhere are parameters of the mirror: beatree Tree::open (free lists, index reconstruction), bitbox::recover, Rollback::read, Store::load_page",
                            "RootInv (root page stored iff >= 2 items, top slots = nodeAt) is a hypothesis of T10_root_at_open; it is the root-page clause of checkMerkle (image monitor) and an oracle of this run"]},
    "C02": {"runs": [dict(OPENPATH_RUN)], "rule": OPENPATH_RULE},
    "C13": {"runs": [dict(OPENPATH_RUN)], "rule": OPENPATH_RULE},
    "C20": {"runs": [dict(OPENPATH_RUN)], "rule": OPENPATH_RULE},
}
