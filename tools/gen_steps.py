#!/usr/bin/env python3
"""Step-order translator: the ORDER of the effectful steps of chosen Rust functions -> lean/NomtModel/Generated/StepOrder.lean

Several defects of this code base were one-line ORDER mistakes (F1: rollback delta appended before the root check; F6: overlay marked
committed before the root check; F8: error without poison; F17: WAL truncated before the table fsync).  For every function in TARGETS
this script reads the CURRENT source (default /repo, override env NOMT_REPO or argv[1]), removes comments, string literals and
`#[cfg(nomt_verif)]` instrumentation, and lists — in textual order, which for these straight-line functions (no loops around the steps,
asserted below) is execution order — every occurrence of a configured step pattern, together with
  * `fallible`: the call is followed by `?` or is the scrutinee of `if let Err(..) =` / `match`,
  * `depth`: brace depth relative to the function body (0 = top level; steps inside `{ let shared = …lock(); … }` or `if let Some(..)` are deeper),
  * `under`: the innermost enclosing `if` / `if let` / `match` / `else` head (normalised text, "" at top level).
Output: one Lean definition `Nomt.GenOrder.<name> : List Step` per function.  The pipeline / choreography models prove by `decide` that
their own step sequence is this list, so reordering two steps, dropping one, or losing a `?` in the Rust text breaks a kernel-checked
obligation on the next run, while renaming locals, re-wrapping lines or editing comments does not.
A pattern that no longer occurs, a function that cannot be found, or a step that ends up inside a loop is an ERROR (exit 1).
"""
import os
import re
import sys

ROOT = os.path.dirname(os.path.dirname(os.path.abspath(__file__)))
sys.path.insert(0, os.path.join(ROOT, "tools"))
import gen_constants as GC  # noqa: E402

_args = [a for a in sys.argv[1:] if not a.startswith("-")]
REPO = _args[0] if _args else os.environ.get("NOMT_REPO", "/repo")
GC.REPO = REPO
OUT = os.path.join(ROOT, "lean", "NomtModel", "Generated", "StepOrder.lean")


class StepError(Exception):
    pass


# step name -> regex (on comment-free, whitespace-normalised text)
LIB_STEPS = [
    ("guard_write", r"access_lock\s*\.\s*write\s*\("),
    ("guard_try", r"access_lock\s*\.\s*try_write\s*\("),
    ("busy_return", r"return\s+Ok\s*\(\s*Some\s*\(\s*self\s*\)\s*\)"),
    ("poison_check", r"is_poisoned\s*\(\s*\)"),
    ("marker_check", r"parent_matches_marker\s*\("),
    ("root_check", r"shared\s*\.\s*root\s*!=\s*"),
    ("mark_committed", r"mark_committed\s*\(\s*\)"),
    ("root_set", r"shared\s*\.\s*root\s*=[^=]"),
    ("marker_set", r"last_commit_marker\s*=[^=]"),
    ("rollback_commit", r"rollback\s*\.\s*commit\s*\("),
    ("rollback_commit_nb", r"rollback\s*\.\s*commit_nonblocking\s*\("),
    ("delta_handback", r"self\s*\.\s*rollback_delta\s*=\s*Some"),
    ("poison", r"store\s*\.\s*poison\s*\(\s*\)"),
    ("store_commit", r"store\s*\.\s*commit\s*\("),
    ("truncate", r"rollback\s*\.\s*truncate\s*\("),
    ("begin_session", r"begin_session\s*\("),
    ("finish", r"\.\s*finish\s*\("),
    ("inner_commit", r"\.\s*commit\s*\(\s*&\s*self\s*\)"),
    ("bail", r"anyhow::bail!|\bbail!"),
    ("return_err", r"return\s+Err\s*\("),
]
SYNC_STEPS = [
    ("bitbox_begin", r"bitbox_sync\s*\.\s*begin_sync\s*\("),
    ("beatree_begin", r"beatree_sync\s*\.\s*begin_sync\s*\("),
    ("rollback_begin", r"rollback\s*\.\s*begin_sync\s*\("),
    ("bitbox_wait_pre_meta", r"bitbox_sync\s*\.\s*wait_pre_meta\s*\("),
    ("beatree_wait_pre_meta", r"beatree_sync\s*\.\s*wait_pre_meta\s*\("),
    ("meta_write", r"Meta::write\s*\("),
    ("seqn_bump", r"self\s*\.\s*sync_seqn\s*\+=\s*1"),
    ("rollback_post_meta", r"rollback\s*\.\s*post_meta\s*\("),
    ("bitbox_post_meta", r"bitbox_sync\s*\.\s*post_meta\s*\("),
    ("beatree_post_meta", r"beatree_sync\s*\.\s*post_meta\s*\("),
    ("rollback_wait_post_meta", r"rollback\s*\.\s*wait_post_meta\s*\("),
    ("panic_point", r"panic!\s*\("),
]
STORE_STEPS = [
    ("sync_lock", r"self\s*\.\s*sync\s*\.\s*lock\s*\("),
    ("poison_check", r"poisoned\s*\.\s*load\s*\("),
    ("bail", r"anyhow::bail!|\bbail!"),
    ("sync", r"sync\s*\.\s*sync\s*\("),
    ("poison", r"poisoned\s*\.\s*store\s*\(\s*true"),
    ("return_err", r"return\s+Err\s*\("),
]
META_STEPS = [
    ("encode", r"encode_to\s*\("),
    ("write", r"write_all_at\s*\("),
    ("fsync", r"sync_all\s*\("),
]
RECOVER_STEPS = [
    ("wal_open", r"WalBlobReader::new\s*\("),
    ("seqn_check", r"sync_seqn\s*\(\s*\)\s*!=\s*sync_seqn"),
    ("wal_truncate", r"truncate_wal\s*\("),
    ("early_return", r"return\s+Ok\s*\(\s*\(\s*\)\s*\)"),
    ("read_entry", r"read_entry\s*\("),
    ("set_tombstone", r"set_tombstone\s*\("),
    ("set_full", r"set_full\s*\("),
    ("read_bucket_page", r"io::read_page\s*\("),
    ("apply_diff", r"unpack_changed_nodes\s*\("),
    ("ht_write", r"ht_fd\s*\.\s*write_all_at\s*\("),
    ("ht_fsync", r"ht_fd\s*\.\s*sync_all\s*\("),
]
WRITEOUT_STEPS = [
    ("submit_page", r"io_handle\s*\.\s*send\s*\(|\.\s*send\s*\(\s*IoCommand"),
    ("await_completion", r"io_handle\s*\.\s*recv\s*\(|\.\s*recv\s*\(\s*\)"),
    ("keep_first_error", r"result\s*=\s*completion\s*\.\s*result"),
    ("propagate_result", r"\bresult\s*\?"),
    ("fsync", r"sync_all\s*\("),
    ("set_len", r"set_len\s*\("),
    ("write", r"write_all_at\s*\(|write_all\s*\("),
]

CTRL_STEPS = [
    ("tree_commit", r"Tree::commit\s*\("),
    ("prepare_sync", r"prepare_sync\s*\("),
    ("request_bbn_fsync", r"bbn_fsync\s*\.\s*fsync\s*\("),
    ("request_ln_fsync", r"ln_fsync\s*\.\s*fsync\s*\("),
    ("join_begin_task", r"join_task\s*\(\s*&\s*self\s*\.\s*begin_sync_result_rx\s*\)"),
    ("join_wal_task", r"join_task\s*\(\s*&\s*self\s*\.\s*pre_meta_result_rx\s*\)"),
    ("await_bbn_fsync", r"bbn_fsync\s*\.\s*wait\s*\("),
    ("await_ln_fsync", r"ln_fsync\s*\.\s*wait\s*\("),
    ("set_ht_pages", r"ht_to_write\s*\.\s*lock\s*\(\s*\)\s*=\s*Some"),
    ("spawn_wal_writeout", r"spawn_wal_writeout\s*\("),
    ("take_ht_pages", r"ht_to_write\s*\.\s*lock\s*\(\s*\)\s*\.\s*take\s*\("),
    ("write_ht_call", r"writeout::write_ht\s*\("),
    ("truncate_wal_call", r"writeout::truncate_wal\s*\("),
    ("write_wal_call", r"writeout::write_wal\s*\("),
    ("spawn_task", r"\bspawn_task\s*\("),
]

# the open path (unit Q37): `Store::open`, `create`, `Flock::lock`
OPEN_STEPS = [
    ("empty_check", r"is_directory_empty\s*\("),
    ("create_call", r"=\s*create\s*\("),
    ("create_dir_all", r"create_dir_all\s*\("),
    ("dir_open", r"File::open\s*\(\s*&\s*o\s*\.\s*path\s*\)|options\s*\.\s*open\s*\(\s*&\s*o\s*\.\s*path\s*\)"),
    ("flock_lock", r"Flock::lock\s*\("),
    ("file_create", r"File::create\s*\("),
    ("meta_write", r"Meta::write\s*\("),
    ("bitbox_create", r"bitbox::create\s*\("),
    ("beatree_create", r"beatree::create\s*\("),
    ("dir_fsync", r"db_dir_fd\s*\.\s*sync_all\s*\("),
    ("io_pool_start", r"start_io_pool\s*\("),
    ("file_open_rw", r"options\s*\.\s*open\s*\(\s*&\s*o\s*\.\s*path\s*\.\s*join"),
    ("meta_read", r"Meta::read\s*\("),
    ("meta_validate", r"meta\s*\.\s*validate\s*\("),
    ("tree_open", r"Tree::open\s*\("),
    ("db_open", r"DB::open\s*\("),
    ("rollback_read", r"Rollback::read\s*\("),
    ("sync_new", r"Sync::new\s*\("),
    ("lock_file_open", r"\.\s*open\s*\(\s*lock_path\s*\)"),
    ("try_lock", r"try_lock_exclusive\s*\("),
    ("bail", r"anyhow::bail!|\bbail!"),
]

# `Nomt::begin_session` (unit Q45): the access read guard must be taken BEFORE anything that opens a beatree read
# transaction (the rollback delta builder, the merkle updater) — a writer that got the lock waits in `block_until_zero`
# for every read transaction, a `begin_session` queued behind that writer must therefore not hold one yet.
SESSION_STEPS = [
    ("guard_read", r"RwLock::read_arc\s*\(\s*&\s*self\s*\.\s*access_lock"),
    ("delta_builder", r"\.\s*delta_builder\s*\("),
    ("root_read", r"self\s*\.\s*root\s*\(\s*\)"),
    ("updater_begin", r"merkle_update_pool\s*\.\s*begin\b"),
]
# fields of `struct Session` in DECLARATION order = drop order: the two owners of read transactions must be dropped before the read guard
FIELD_STEPS = [
    ("field_updater", r"\bmerkle_updater\s*:"),
    ("field_delta", r"\brollback_delta\s*:"),
    ("field_guard", r"\baccess_guard\s*:"),
]

# (lean name, file, fn name, enclosing `impl X` (or None), steps, allow_loops)
TARGETS = [
    ("finished_commit", "nomt/src/lib.rs", "commit", "FinishedSession", LIB_STEPS, False),
    ("finished_try_commit", "nomt/src/lib.rs", "try_commit_nonblocking", "FinishedSession", LIB_STEPS, False),
    ("overlay_commit", "nomt/src/lib.rs", "commit", "Overlay", LIB_STEPS, False),
    ("overlay_try_commit", "nomt/src/lib.rs", "try_commit_nonblocking", "Overlay", LIB_STEPS, False),
    ("nomt_rollback", "nomt/src/lib.rs", "rollback", "Nomt", LIB_STEPS, True),
    ("nomt_begin_session", "nomt/src/lib.rs", "begin_session", "Nomt", SESSION_STEPS, False),
    ("store_commit", "nomt/src/store/mod.rs", "commit", "Store", STORE_STEPS, False),
    ("sync", "nomt/src/store/sync.rs", "sync", "Sync", SYNC_STEPS, False),
    ("meta_write", "nomt/src/store/meta.rs", "write", "Meta", META_STEPS, False),
    ("bitbox_recover", "nomt/src/bitbox/mod.rs", "recover", None, RECOVER_STEPS, True),
    ("write_ht", "nomt/src/bitbox/writeout.rs", "write_ht", None, WRITEOUT_STEPS, True),
    ("truncate_wal", "nomt/src/bitbox/writeout.rs", "truncate_wal", None, WRITEOUT_STEPS, False),
    ("write_wal", "nomt/src/bitbox/writeout.rs", "write_wal", None, WRITEOUT_STEPS, False),
    ("ctl_beatree_begin_sync", "nomt/src/beatree/mod.rs", "begin_sync", "SyncController", CTRL_STEPS, False),
    ("ctl_beatree_wait_pre_meta", "nomt/src/beatree/mod.rs", "wait_pre_meta", "SyncController", CTRL_STEPS, False),
    ("ctl_bitbox_begin_sync", "nomt/src/bitbox/mod.rs", "begin_sync", "SyncController", CTRL_STEPS, False),
    ("ctl_bitbox_spawn_wal_writeout", "nomt/src/bitbox/mod.rs", "spawn_wal_writeout", "SyncController", CTRL_STEPS, False),
    ("ctl_bitbox_wait_pre_meta", "nomt/src/bitbox/mod.rs", "wait_pre_meta", "SyncController", CTRL_STEPS, False),
    ("ctl_bitbox_post_meta", "nomt/src/bitbox/mod.rs", "post_meta", "SyncController", CTRL_STEPS, False),
    ("store_open", "nomt/src/store/mod.rs", "open", "Store", OPEN_STEPS, False),
    ("store_create", "nomt/src/store/mod.rs", "create", None, OPEN_STEPS, False),
    ("flock_lock_fn", "nomt/src/store/flock.rs", "lock", "Flock", OPEN_STEPS, False),
]


ALL_NAMES = []
for _steps in (LIB_STEPS, SYNC_STEPS, STORE_STEPS, META_STEPS, RECOVER_STEPS, WRITEOUT_STEPS, CTRL_STEPS, OPEN_STEPS, SESSION_STEPS, FIELD_STEPS):
    for _n, _ in _steps:
        if _n not in ALL_NAMES:
            ALL_NAMES.append(_n)


def strip_noise(text):
    """comments and string / char literals -> spaces (positions preserved)"""
    out, i, n = list(text), 0, len(text)
    while i < n:
        c = text[i]
        if text.startswith("//", i):
            j = text.find("\n", i)
            j = n if j < 0 else j
            for k in range(i, j):
                out[k] = " "
            i = j
        elif text.startswith("/*", i):
            j = text.find("*/", i)
            j = n if j < 0 else j + 2
            for k in range(i, j):
                if out[k] != "\n":
                    out[k] = " "
            i = j
        elif c == '"':
            j = i + 1
            while j < n and text[j] != '"':
                j += 2 if text[j] == "\\" else 1
            for k in range(i + 1, min(j, n)):
                if out[k] != "\n":
                    out[k] = " "
            i = j + 1
        else:
            i += 1
    return "".join(out)


def find_impl_block(text, impl):
    """span of `impl[<..>] impl [for ..] { … }` blocks whose self type is `impl` (all of them, concatenated spans)"""
    spans = []
    for m in re.finditer(r"^impl\b[^{;]*\{", text, re.M):
        head = m.group(0)
        # self type = last path segment before `{` / `for X`
        h = re.sub(r"<[^{]*?>", "", head)
        mt = re.search(r"impl\s+(?:[\w:]+\s+for\s+)?([\w:]+)\s*\{", h)
        if not mt or mt.group(1).split("::")[-1] != impl:
            continue
        depth, k = 0, m.end() - 1
        while k < len(text):
            if text[k] == "{":
                depth += 1
            elif text[k] == "}":
                depth -= 1
                if depth == 0:
                    break
            k += 1
        spans.append((m.end(), k))
    return spans


def find_fn(rel, name, impl):
    raw = GC.read(rel)
    if raw is None:
        raise StepError(f"{rel}: file not found in {REPO}")
    text = strip_noise(raw)
    cut = re.search(r"#\[cfg\(test\)\]\s*mod\s+\w+\s*\{", text)
    if cut:
        text = text[:cut.start()]
    spans = find_impl_block(text, impl) if impl else [(0, len(text))]
    if not spans:
        raise StepError(f"{rel}: no `impl {impl}` block (renamed or moved?)")
    hits = []
    for (a, b) in spans:
        for m in re.finditer(r"\bfn\s+" + re.escape(name) + r"\s*(?:<[^>{]*>)?\s*\(", text[a:b]):
            # depth of the match inside the impl block must be 0 (a method of THIS impl, not of a nested item)
            pre = text[a:a + m.start()]
            if impl and pre.count("{") - pre.count("}") != 0:
                continue
            if not impl and (pre.count("{") - pre.count("}")) != 0:
                continue
            hits.append(a + m.start())
    if len(hits) != 1:
        raise StepError(f"{rel}: expected exactly one `fn {name}` in {'impl ' + impl if impl else 'the file (top level)'}, found {len(hits)}")
    i = hits[0]
    j = text.index("{", text.index(")", i))
    # the body starts at the first `{` after the signature (skip `where` clauses / return types without braces)
    depth, k = 0, j
    while k < len(text):
        if text[k] == "{":
            depth += 1
        elif text[k] == "}":
            depth -= 1
            if depth == 0:
                break
        k += 1
    return text[j + 1:k], raw.count("\n", 0, i) + 1


def enclosing_heads(body, pos):
    """stack of (head text, is_loop) of the blocks enclosing `pos` in `body`"""
    stack, i = [], 0
    last_stmt = 0
    while i < pos:
        c = body[i]
        if c == "{":
            head = " ".join(body[last_stmt:i].split())
            stack.append(head)
            last_stmt = i + 1
        elif c == "}":
            if stack:
                stack.pop()
            last_stmt = i + 1
        elif c == ";":
            last_stmt = i + 1
        i += 1
    return stack


def head_kind(head):
    h = head.strip()
    m = re.search(r"(?:^|[^\w])(else\s+if\s+let|else\s+if|if\s+let|if|match|else|for|while|loop)\b(.*)$", h)
    if not m:
        return "", False
    kw = " ".join(m.group(1).split())
    rest = " ".join(m.group(2).split())
    rest = re.sub(r"\s+", " ", rest)[:80]
    return (kw + (" " + rest if rest else "")).strip(), kw in ("for", "while", "loop")


def extract(lean, rel, name, impl, steps, allow_loops):
    body, line = find_fn(rel, name, impl)
    what = f"{rel}:{line} fn {name}" + (f" (impl {impl})" if impl else "")
    found = []
    for sname, rx in steps:
        for m in re.finditer(rx, body):
            found.append((m.start(), m.end(), sname))
    found.sort()
    # drop a shorter match that starts inside a longer one (e.g. root_check vs root_set cannot overlap; store_commit vs inner_commit can)
    res, last_end = [], -1
    for (a, b, s) in found:
        if a < last_end:
            continue
        res.append((a, b, s))
        last_end = b
    if not res:
        raise StepError(f"{what}: none of the step patterns occurs any more")
    out = []
    for (a, b, s) in res:
        heads = enclosing_heads(body, a)
        kinds = [head_kind(h) for h in heads]
        in_loop = any(k[1] for k in kinds)
        if in_loop and not allow_loops:
            raise StepError(f"{what}: step `{s}` is now inside a loop — textual order is no longer execution order; extend the translator")
        under = ""
        for k in reversed(kinds):
            if k[0]:
                under = k[0]
                break
        # fallible: `?` after the balanced call, or scrutinee of `if let Err` / `match`
        fall = False
        if body[b - 1] == "(":
            d, k2 = 1, b
            while k2 < len(body) and d:
                d += body[k2] == "("
                d -= body[k2] == ")"
                k2 += 1
            rest = body[k2:k2 + 12].lstrip()
            fall = rest.startswith("?")
            if body[k2:].strip() == "":
                fall = True          # tail expression of the function: its Result IS the function's result
            stmt_start = max(body.rfind(";", 0, a), body.rfind("{", 0, a), body.rfind("}", 0, a)) + 1
            pre = " ".join(body[stmt_start:a].split())
            if re.search(r"\b(if\s+let\s+Err|match)\b", pre) or re.search(r"\blet\s+\w+\s*=\s*match\b", pre):
                fall = True
        else:
            rest = body[b:b + 12].lstrip()
            fall = rest.startswith("?") or body[a:b].rstrip().endswith("?")
        out.append((s, fall, len(heads), under, in_loop))
    return what, out


def extract_struct(rel, name, steps):
    """the fields of `struct name` matching `steps`, in declaration order (= the order in which Rust drops them)"""
    # (the raw file: the instrumentation stripper works on statements and would swallow the field that follows a cfg'd field)
    try:
        with open(os.path.join(REPO, rel)) as fh:
            raw = fh.read()
    except OSError:
        raise StepError(f"{rel}: file not found in {REPO}")
    text = strip_noise(raw)
    hits = list(re.finditer(r"\bstruct\s+" + re.escape(name) + r"\s*(?:<[^>{]*>)?\s*\{", text))
    if len(hits) != 1:
        raise StepError(f"{rel}: expected exactly one `struct {name}`, found {len(hits)}")
    j = hits[0].end() - 1
    depth, k = 0, j
    while k < len(text):
        if text[k] == "{":
            depth += 1
        elif text[k] == "}":
            depth -= 1
            if depth == 0:
                break
        k += 1
    body = text[j + 1:k]
    found = sorted((m.start(), sname) for sname, rx in steps for m in re.finditer(rx, body))
    if len(found) != len(steps):
        raise StepError(f"{rel}: struct {name}: expected each of {[n for n, _ in steps]} exactly once, found {[n for _, n in found]}")
    what = f"{rel}:{raw.count(chr(10), 0, hits[0].start()) + 1} struct {name} (field declaration order)"
    return what, [(n, False, 0, "", False) for _, n in found]


def lean_str(s):
    return '"' + s.replace("\\", "\\\\").replace('"', '\\"') + '"'


def generate():
    parts, report = [], []
    for (lean, rel, name, impl, steps, allow_loops) in TARGETS:
        what, out = extract(lean, rel, name, impl, steps, allow_loops)
        rows = ",\n".join(f"  ⟨.{s}, {'true' if f else 'false'}, {d}, {lean_str(u)}, {'true' if lp else 'false'}⟩" for (s, f, d, u, lp) in out)
        parts.append(f"/-- `{what}` -/\ndef {lean} : List Step := [\n{rows}]\n")
        report.append(f"{lean} <- {what}: " + " ".join(s + ("?" if f else "") for (s, f, _, _, _) in out))
    for (lean, rel, name, steps) in [("session_fields", "nomt/src/lib.rs", "Session", FIELD_STEPS)]:
        what, out = extract_struct(rel, name, steps)
        rows = ",\n".join(f"  ⟨.{s}, false, 0, \"\", false⟩" for (s, _, _, _, _) in out)
        parts.append(f"/-- `{what}` -/\ndef {lean} : List Step := [\n{rows}]\n")
        report.append(f"{lean} <- {what}: " + " ".join(s for (s, _, _, _, _) in out))
    header = ("/-!\nGENERATED by tools/gen_steps.py from the Rust sources — do not edit.\n"
              "The effectful steps of the commit / rollback / sync / recovery functions in the order the CURRENT source performs them.\n-/\n"
              "namespace Nomt.GenOrder\n\n"
              "/-- the step vocabulary (every pattern of tools/gen_steps.py) -/\ninductive N where\n" + "".join(f"  | {n}\n" for n in ALL_NAMES) + "  deriving Repr, DecidableEq\n\n"
              "/-- one step: its name, whether its failure is propagated (`?` / `if let Err` / `match` / tail expression), brace depth inside the function body,\n"
              "the innermost enclosing conditional (informative only: it mentions local names), whether it sits inside a loop -/\n"
              "structure Step where\n  name : N\n  fallible : Bool\n  depth : Nat\n  under : String\n  inLoop : Bool\n  deriving Repr\n\n"
              "/-- the names only -/\ndef names (l : List Step) : List N := l.map (·.name)\n"
              "/-- name and fallibility -/\ndef sig (l : List Step) : List (N × Bool) := l.map fun s => (s.name, s.fallible)\n\n")
    return header + "\n".join(parts) + "\nend Nomt.GenOrder\n", report


def main():
    try:
        text, report = generate()
    except (StepError, GC.GenError) as ex:
        print(f"gen_steps: ERROR: {ex}")
        return 1
    os.makedirs(os.path.dirname(OUT), exist_ok=True)
    old = open(OUT).read() if os.path.exists(OUT) else None
    if old != text:
        with open(OUT, "w") as fh:
            fh.write(text)
    if "-v" in sys.argv:
        print("\n".join(report))
    print(f"gen_steps: {len(report)} functions -> {os.path.relpath(OUT, ROOT)}" + ("" if old == text else " (rewritten)"))
    return 0


if __name__ == "__main__":
    sys.exit(main())
