#!/bin/bash
# run every check of a tier sequentially (vetting aid, not a registered command): tools/run_all.sh quick|thorough [ids...]
tier=${1:-quick}; shift
ids=${@:-C01 C02 C03 C04 C05 C06 C07 C08 C09 C10 C11 C12 C13 C14 C15 C16 C17 C18 C19 C20}
for c in $ids; do
  s=$(date +%s)
  out=$(python3 tools/check.py $c --tier $tier 2>&1 | grep -E "^OK|VIOLATION|KNOWN-FINDING|fails the|disagree|obligation" | cut -c1-400)
  echo "[$c $(( $(date +%s) - s ))s] $out"
done
