#!/usr/bin/env python3
"""Robustness experiments of the function translator (notes/Q36.md): apply source edits to a scratch copy of core/src + nomt/src
(/tmp/genfn-scratch, passed as NOMT_REPO), regenerate, rebuild the GenFn obligations, report.  HARMLESS rewrites must re-prove,
MUTATIONS must fail.  Leaves the worktree regenerated from /repo.  ~20 s per experiment."""
import os, shutil, subprocess, sys, time
WT = os.path.dirname(os.path.dirname(os.path.abspath(__file__)))
SCR = "/dev/shm/nomt-verif-genfn-scratch"
MODS = ["NomtModel.Props.C01_GenFn", "NomtModel.Props.C02_GenFn", "NomtModel.Props.C05_GenFn", "NomtModel.Props.C09_GenFn",
        "NomtModel.Props.C13_GenFn", "NomtModel.Props.C14_GenFn", "NomtModel.Props.C16_GenFn", "NomtModel.Props.C19_GenFn"]

def reset():
    for d in ("core/src", "nomt/src"):
        shutil.rmtree(os.path.join(SCR, d), ignore_errors=True)
        shutil.copytree(os.path.join("/repo", d), os.path.join(SCR, d))

def run(name, edits):
    reset()
    for rel, old, new in edits:
        p = os.path.join(SCR, rel)
        s = open(p).read()
        if s.count(old) != 1:
            print(f"{name}: EDIT DOES NOT APPLY ({rel}: {s.count(old)} matches of {old[:40]!r})")
            return
        open(p, "w").write(s.replace(old, new))
    subprocess.run([sys.executable, "tools/gen_constants.py"], cwd=WT, env=dict(os.environ, NOMT_REPO=SCR), capture_output=True, text=True)
    g = subprocess.run([sys.executable, "tools/gen_functions.py"], cwd=WT, env=dict(os.environ, NOMT_REPO=SCR), capture_output=True, text=True)
    if g.returncode:
        print(f"{name}: GENERATOR ERROR: {g.stdout.strip()}")
        return
    t = time.time()
    b = subprocess.run(["lake", "build"] + MODS, cwd=WT + "/lean", env=dict(os.environ, LEAN_NUM_THREADS="4"), capture_output=True, text=True)
    errs = [l for l in b.stdout.splitlines() if l.startswith("error:") and ".lean:" in l]
    mods = sorted(set(l.split(":")[1].strip().split("/")[-1] for l in errs))
    print(f"{name}: {'RE-PROVES' if b.returncode == 0 else 'FAILS in ' + ', '.join(mods) + ' (' + str(len(errs)) + ' errors; first: ' + errs[0][:150] + ')' if errs else 'FAILS (' + ' | '.join((b.stdout + b.stderr).strip().splitlines()[-3:])[:300] + ')'}  [{time.time() - t:.0f} s]")

os.makedirs(SCR + "/core", exist_ok=True)
os.makedirs(SCR + "/nomt", exist_ok=True)
HARMLESS = [
 ("H1 trie_pos: depth_in_page as early return + local, child_node_indices `2 * i + 2`, flipped ||", [
   ("core/src/trie_pos.rs", """        if self.depth == 0 {
            0
        } else {
            self.depth as usize - ((self.depth as usize - 1) / DEPTH) * DEPTH
        }""", """        if self.depth == 0 {
            return 0;
        }
        let d = self.depth as usize;
        d - DEPTH * ((d - 1) / DEPTH)"""),
   ("core/src/trie_pos.rs", "if depth == 0 || depth > DEPTH - 1 {", "if depth > DEPTH - 1 || depth == 0 {"),
   ("core/src/trie_pos.rs", "let left = self.node_index * 2 + 2;", "let left = 2 * self.node_index + 2;"),
 ]),
 ("H2 trie_pos: child_page_index through a local, ChildPageIndex::new with if/else, right() = 1 + self.0", [
   ("core/src/trie_pos.rs", "        ChildPageIndex::new(bottom_node_index(self.node_index)).unwrap()", "        let bottom = bottom_node_index(self.node_index);\n        ChildPageIndex::new(bottom).unwrap()"),
   ("core/src/page_id.rs", """        if index > MAX_CHILD_INDEX {
            return None;
        }
        Some(Self(index))""", """        if index <= MAX_CHILD_INDEX {
            Some(Self(index))
        } else {
            None
        }"""),
   ("core/src/trie_pos.rs", "        self.0 + 1\n", "        1 + self.0\n"),
 ]),
 ("H3 meta_map: flipped comparisons, local for the tag", [
   ("nomt/src/bitbox/meta_map.rs", "self.bitvec[bucket] == EMPTY", "EMPTY == self.bitvec[bucket]"),
   ("nomt/src/bitbox/meta_map.rs", "self.bitvec[bucket] != full_entry(raw_hash)", "let tag = full_entry(raw_hash);\n        tag != self.bitvec[bucket]"),
   ("nomt/src/bitbox/meta_map.rs", "self.bitvec[bucket] = full_entry(hash);", "let tag = full_entry(hash);\n        self.bitvec[bucket] = tag;"),
 ]),
 ("H4 page_diff: reordered lets, typed literal, `x = x & !CLEAR_BIT`", [
   ("nomt/src/page_diff.rs", """        assert!(slot_index < NODES_PER_PAGE);
        let word = slot_index / 64;
        let index = slot_index % 64;
        let mask = 1 << index;
        self.changed_nodes[word] |= mask;
        self.changed_nodes[1] &= !CLEAR_BIT;""", """        assert!(slot_index < NODES_PER_PAGE);
        let index = slot_index % 64;
        let word = slot_index / 64;
        let mask = 1u64 << index;
        self.changed_nodes[word] = self.changed_nodes[word] | mask;
        self.changed_nodes[1] = self.changed_nodes[1] & !CLEAR_BIT;"""),
   ("nomt/src/page_diff.rs", "self.changed_nodes[1] & CLEAR_BIT == CLEAR_BIT", "CLEAR_BIT == self.changed_nodes[1] & CLEAR_BIT"),
 ]),
 ("H5 ProbeSequence::next: one-line triangular step, flipped bound test, `if !hint_not_match { return } `", [
   ("nomt/src/bitbox/mod.rs", """            self.bucket += self.step;
            self.step += 1;
            self.bucket %= meta_map.len() as u64;""", """            let n = meta_map.len() as u64;
            self.bucket = (self.bucket + self.step) % n;
            self.step = self.step + 1;"""),
   ("nomt/src/bitbox/mod.rs", "if self.step > 2 * meta_map.len() as u64 {", "if 2 * meta_map.len() as u64 < self.step {"),
   ("nomt/src/bitbox/mod.rs", """            if meta_map.hint_not_match(self.bucket as usize, self.hash) {
                continue;
            }

            return ProbeResult::PossibleHit(self.bucket);""", """            if !meta_map.hint_not_match(self.bucket as usize, self.hash) {
                return ProbeResult::PossibleHit(self.bucket);
            }"""),
 ]),
 ("H6 gauges / separator sizes: locals, `self.n = self.n + n`, commuted products", [
   ("nomt/src/beatree/ops/update/leaf_updater.rs", "        self.n += n;\n        self.value_size_sum += values_size;", "        self.n = self.n + n;\n        self.value_size_sum = values_size + self.value_size_sum;"),
   ("nomt/src/beatree/branch/node.rs", """    first_separator_length.saturating_sub(prefix_len) + pre_compression_size_sum
        - (prefix_compressed_items - 1) * prefix_len""", """    let first = first_separator_length.saturating_sub(prefix_len);
    let saved = prefix_len * (prefix_compressed_items - 1);
    first + pre_compression_size_sum - saved"""),
   ("nomt/src/beatree/branch/node.rs", "    let expansion = prefix_len * n;\n", "    let expansion = n * prefix_len;\n"),
 ]),
 ("H7 get_nth_pop: commuted offset, FastIterOnes::next with a local, RecordId::prev with `> 0`", [
   ("nomt/src/beatree/allocator/free_list.rs", """            } else {
                let portion_offset = 2 + (n / MAX_PNS_PER_PAGE);
                n = n % MAX_PNS_PER_PAGE;

                portions[n_portions - portion_offset].1[MAX_PNS_PER_PAGE - n - 1]
            }
        } else {""", """            } else {
                let portion_offset = (n / MAX_PNS_PER_PAGE) + 2;
                let m = n % MAX_PNS_PER_PAGE;

                portions[n_portions - portion_offset].1[MAX_PNS_PER_PAGE - 1 - m]
            }
        } else {"""),
   ("nomt/src/page_diff.rs", """            x => {
                self.0 &= !(1 << x);
                Some(x as usize)
            }""", """            x => {
                let bit = 1u64 << x;
                self.0 = self.0 & !bit;
                Some(x as usize)
            }"""),
   ("nomt/src/seglog/mod.rs", """        if self.0 == 0 {
            None
        } else {
            Some(RecordId(self.0 - 1))
        }""", """        if self.0 > 0 {
            Some(RecordId(self.0 - 1))
        } else {
            None
        }"""),
 ]),
]
MUTATIONS = [
 ("M1 depth_in_page: `(depth - 1) / DEPTH` -> `depth / DEPTH`", [("core/src/trie_pos.rs", "((self.depth as usize - 1) / DEPTH) * DEPTH", "(self.depth as usize / DEPTH) * DEPTH")]),
 ("M2 hint_tombstone compares with EMPTY", [("nomt/src/bitbox/meta_map.rs", "self.bitvec[bucket] == TOMBSTONE", "self.bitvec[bucket] == EMPTY")]),
 ("M3 set_changed no longer erases the clear bit", [("nomt/src/page_diff.rs", "        self.changed_nodes[1] &= !CLEAR_BIT;\n", "")]),
 ("M4 ProbeSequence::next bound `step > n` instead of `2n`", [("nomt/src/bitbox/mod.rs", "if self.step > 2 * meta_map.len() as u64 {", "if self.step > meta_map.len() as u64 {")]),
 ("M5 ProbeSequence::next linear probing (`self.bucket += 1`)", [("nomt/src/bitbox/mod.rs", "            self.bucket += self.step;\n", "            self.bucket += 1;\n")]),
 ("M6 compressed_separator_range_size: `items * prefix_len`", [("nomt/src/beatree/branch/node.rs", "- (prefix_compressed_items - 1) * prefix_len", "- prefix_compressed_items * prefix_len")]),
 ("M7 get_nth_pop: `MAX_PNS_PER_PAGE - n` without `- 1` (fragmented second portion)", [("nomt/src/beatree/allocator/free_list.rs", "portions[n_portions - 2].1[MAX_PNS_PER_PAGE - n - 1]", "portions[n_portions - 2].1[MAX_PNS_PER_PAGE - n]")]),
 ("M8 RecordId::prev of nil is Some(0) (saturating)", [("nomt/src/seglog/mod.rs", """        if self.0 == 0 {
            None
        } else {
            Some(RecordId(self.0 - 1))
        }""", "        Some(RecordId(self.0.saturating_sub(1)))")]),
 ("M9 child_page_index: assert `>= 61`", [("core/src/trie_pos.rs", "assert!(self.node_index >= 62);", "assert!(self.node_index >= 61);")]),
 ("M10 LeafGauge::body_size_after forgets the new values", [("nomt/src/beatree/ops/update/leaf_updater.rs", "leaf_node::body_size(self.n + n, self.value_size_sum + values_size)", "leaf_node::body_size(self.n + n, self.value_size_sum)")]),
 ("M11 FastIterOnes::next does not erase the bit", [("nomt/src/page_diff.rs", "                self.0 &= !(1 << x);\n", "")]),
 ("S1 seeded C16-branch-body-size-split-rounding", [("nomt/src/beatree/branch/node.rs", "(n * 2) + (prefix_len + total_separator_lengths + 7) / 8 + (n * 4)", "(n * 2) + (prefix_len + 7) / 8 + (total_separator_lengths + 7) / 8 + (n * 4)")]),
 ("U1 leaves the subset: hint_empty through an iterator", [("nomt/src/bitbox/meta_map.rs", "self.bitvec[bucket] == EMPTY", "self.bitvec.iter().nth(bucket).map_or(false, |b| *b == EMPTY)")]),
]

ROUND2_HARMLESS = [
 ("H8 get_result: flipped comparison, negated `matches!` with swapped arms; MAX_IO_ATTEMPTS = 2 * 8", [
   ("nomt/src/io/mod.rs", "_ if res == PAGE_SIZE as isize => IoKindResult::Ok,", "_ if PAGE_SIZE as isize == res => IoKindResult::Ok,"),
   ("nomt/src/io/mod.rs", """                if matches!(os_err.kind(), std::io::ErrorKind::Interrupted) {
                    IoKindResult::Retry
                } else {
                    IoKindResult::Err
                }""", """                if !matches!(os_err.kind(), std::io::ErrorKind::Interrupted) {
                    IoKindResult::Err
                } else {
                    IoKindResult::Retry
                }"""),
   ("nomt/src/io/mod.rs", "const MAX_IO_ATTEMPTS: usize = 16;", "const MAX_IO_ATTEMPTS: usize = 2 * 8;"),
 ]),
 ("H9 get_result: `0 == res`, `-1 == res`", [
   ("nomt/src/io/mod.rs", "IoKind::Read(_, _, _) if res == 0 => IoKindResult::Ok,", "IoKind::Read(_, _, _) if 0 == res => IoKindResult::Ok,"),
   ("nomt/src/io/mod.rs", "_ if res == -1 => {", "_ if -1 == res => {"),
 ]),
 ("H10 ProbeSequence::new through a local `n` and reordered fields, PageDiff::join with swapped operands", [
   ("nomt/src/bitbox/mod.rs", """        Self {
            hash,
            bucket: hash % meta_map.len() as u64,
            step: 0,
        }""", """        let n = meta_map.len() as u64;
        Self {
            step: 0,
            bucket: hash % n,
            hash,
        }"""),
   ("nomt/src/page_diff.rs", "self.changed_nodes[0] | diff.changed_nodes[0],", "diff.changed_nodes[0] | self.changed_nodes[0],"),
 ]),
 ("H11 prefix_len: `if equal { bit_len = bit_len + 1 } else { break }`", [
   ("nomt/src/beatree/ops/bit_ops.rs", """            if (key_a[byte] & mask) != (key_b[byte] & mask) {
                break 'byte_loop;
            }
            bit_len += 1;""", """            if (key_a[byte] & mask) == (key_b[byte] & mask) {
                bit_len = bit_len + 1;
            } else {
                break 'byte_loop;
            }"""),
 ]),
 ("H12 prefix_len: bytes through locals, operands swapped (does NOT re-prove: the proof names the masked bytes in the source's order)", [
   ("nomt/src/beatree/ops/bit_ops.rs", """            if (key_a[byte] & mask) != (key_b[byte] & mask) {""", """            let x = key_a[byte];
            let y = key_b[byte];
            if (y & mask) != (x & mask) {"""),
 ]),
]
ROUND2_MUTATIONS = [
 ("M12 get_result: a zero-byte transfer is Ok for every kind", [("nomt/src/io/mod.rs", "IoKind::Read(_, _, _) if res == 0 => IoKindResult::Ok,", "_ if res == 0 => IoKindResult::Ok,")]),
 ("M13 get_result: an interrupted syscall is an error", [("nomt/src/io/mod.rs", """                    IoKindResult::Retry
                } else {
                    IoKindResult::Err""", """                    IoKindResult::Err
                } else {
                    IoKindResult::Err""")]),
 ("M14 MAX_IO_ATTEMPTS = 17", [("nomt/src/io/mod.rs", "const MAX_IO_ATTEMPTS: usize = 16;", "const MAX_IO_ATTEMPTS: usize = 17;")]),
 ("M15 ProbeSequence::new starts at step 1", [("nomt/src/bitbox/mod.rs", "            bucket: hash % meta_map.len() as u64,\n            step: 0,", "            bucket: hash % meta_map.len() as u64,\n            step: 1,")]),
 ("M16 PageDiff::join intersects", [("nomt/src/page_diff.rs", "self.changed_nodes[1] | diff.changed_nodes[1],", "self.changed_nodes[1] & diff.changed_nodes[1],")]),
 ("M17 prefix_len looks at 31 bytes", [("nomt/src/beatree/ops/bit_ops.rs", "'byte_loop: for byte in 0..32 {", "'byte_loop: for byte in 0..31 {")]),
 ("M18 prefix_len: mask `1 << bit` (least significant bit first)", [("nomt/src/beatree/ops/bit_ops.rs", "            let mask = 1 << (7 - bit);\n            if (key_a[byte] & mask) != (key_b[byte] & mask) {", "            let mask = 1 << bit;\n            if (key_a[byte] & mask) != (key_b[byte] & mask) {")]),
]
EXPS = HARMLESS + MUTATIONS + ROUND2_HARMLESS + ROUND2_MUTATIONS
if len(sys.argv) > 1:
    EXPS = [e for e in EXPS if any(e[0].startswith(a + ' ') for a in sys.argv[1:])]
for name, edits in EXPS:
    run(name, edits)
shutil.rmtree(SCR, ignore_errors=True)
subprocess.run([sys.executable, "tools/gen_constants.py"], cwd=WT)
subprocess.run([sys.executable, "tools/gen_functions.py"], cwd=WT)
