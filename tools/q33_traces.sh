#!/bin/bash
# Q33 helper: run `placement` histories and count the monitor's answers (used to check that the tightened `pageCheckBbn`
# rejects no real trace).  usage: tools/q33_traces.sh <name> <vharness placement args…>
W=/dev/shm/nomt-verif-q33
mkdir -p $W
cd "$(dirname "$0")/.."
n=$1; shift
timeout 900 harness/target/debug/vharness placement --out $W/$n "$@" > $W/$n.log 2>&1
lean/.lake/build/bin/nomt_model image < $W/$n/ops.txt > $W/$n.model
echo "$n: lines=$(wc -l < $W/$n/ops.txt) ok=$(grep -c '^ok' $W/$n.model) bad=$(grep -c '^bad' $W/$n.model) bbn_writes=$(grep -o 'bbn_writes=[0-9]*' $W/$n.model | cut -d= -f2 | paste -sd+ | bc)"
grep '^bad' $W/$n.model | cut -c1-240 | head -3
rm -rf $W/$n
