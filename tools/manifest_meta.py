"""Texts of MANIFEST.json per claimed property."""
HOOK_COMMITS = []
NOTES = "All claimed checks use one technique: machine-checked proof in Lean 4 about a hand-written model, tied to /repo by a correspondence (differential) run of the compiled Lean model against the real code on every invocation. See DESIGN.md."
NOT_YET = {}
CLAIMS = {
    "C08": {
        "text": "Kernel-checked theorems over the Lean mirror of PathProof::verify/confirm_*/verify_update: T8.1 path-proof soundness for every set, every proof object, every key (all inputs, unbounded), T8.4 root binding, T8.3 algorithmic core of update verification (…_partial: glue from verify to PathOK held by correspondence). The mirror is tied to core/src/proof/path_proof.rs by running both on an adversarial proof stream every run, and a truth oracle checks that nothing false is ever confirmed by the real verifier.",
        "design_ref": "§4 C08",
        "note": "Trusted: Lean kernel; axioms propext/Classical.choice/Quot.sound; Hasher.Sound for Blake3 (hypothesis); hand-written mirror + differential generator quality; multi-proof soundness T8.2 not yet a theorem.",
        "technique": "Lean 4 theorem (induction on the proven path, for all proof objects) + model-vs-implementation differential on adversarial proofs",
    },
    "C18": {
        "text": "Mirrors of the verifiers with every slice/subtraction site as an explicit Outcome.panic; T18.1 proves PathProof::verify and confirm_* never reach a panic site for any input; the differential runs the real verifiers under catch_unwind on malformed objects and requires the model to predict ok/error/panic line by line.",
        "design_ref": "§4 C18",
        "note": "Trusted: Lean kernel; mirror fidelity is what the differential checks. Multi-proof totality theorems are added as the multi-proof mirror lands.",
        "technique": "Lean 4 theorem (no panic site reachable) + differential under catch_unwind on malformed inputs",
    },
}
