"""Texts of MANIFEST.json per claimed property."""
HOOK_COMMITS = ["e612c74 verif hook: cfg(nomt_verif)-guarded I/O event hook and rollback segment size override",
                "41b843e verif hook: report the hash-table fsync of bitbox recovery (cfg nomt_verif)",
                "44a4879 verif hook: verif_api exposing the free list and bitbox probing to the harness (cfg nomt_verif)",
                "aa0c667 verif hook: Nomt::verif_load_page (Store::load_page for an arbitrary page) and BucketIndex::verif_index (cfg nomt_verif)"]
NOTES = "All claimed checks use one technique: machine-checked proof in Lean 4 about a hand-written model, tied to /repo by a correspondence (differential) run of the compiled Lean model against the real code on every invocation. See DESIGN.md."
NOT_YET = {}
CLAIMS = {
    "C08": {
        "text": "Kernel-checked theorems over the Lean mirror of PathProof::verify/confirm_*/verify_update: T8.1 path-proof soundness for every set, every proof object, every key (all inputs, unbounded), T8.4 root binding, T8.3 update verification is sound and complete (an ok verdict is the root of the updated set; with the checks passed the verdict is that root). The mirror is tied to core/src/proof/path_proof.rs by running both on an adversarial proof stream every run, and a truth oracle checks that nothing false is ever confirmed by the real verifier.",
        "design_ref": "§4 C08",
        "note": "Trusted: Lean kernel; axioms propext/Classical.choice/Quot.sound; Hasher.Sound for Blake3 (hypothesis); hand-written mirror + differential generator quality; multi-proof soundness T8.2 and the multi-proof update (T7.4) are theorems in C07's module.",
        "technique": "Lean 4 theorem (induction on the proven path, for all proof objects) + model-vs-implementation differential on adversarial proofs",
    },
    "C18": {
        "text": "Mirrors of the verifiers with every slice/subtraction site as an explicit Outcome.panic; T18.1 proves PathProof::verify and confirm_* never reach a panic site for any input; the differential runs the real verifiers under catch_unwind on malformed objects and requires the model to predict ok/error/panic line by line.",
        "design_ref": "§4 C18",
        "note": "Trusted: Lean kernel; mirror fidelity is what the differential checks. T18.5 / T18.5a / T18.5b: the multi-proof update never reaches a panic site on any object verify_multi_proof accepted (for any root), given the key lengths the Rust types guarantee; a hand-made unverified object shows acceptance is necessary.",
        "technique": "Lean 4 theorem (no panic site reachable) + differential under catch_unwind on malformed inputs",
    },
    "C01": {
        "text": "Sequential key-value model (sorted association list, Lean) with kernel-checked read-after-write laws (T1.1a/b, for all maps, keys and values); the real store is driven through generated multi-commit histories (thousands of keys, values 0..70 KiB straddling the in-leaf / overflow boundaries, reopen, rollback, overlays) and every Nomt::read / Session::read is compared with a BTreeMap oracle (bytes) and with the Lean model (value hashes).",
        "design_ref": "§4 C01",
        "note": "Trusted: Lean kernel; the B-tree update algorithm is not modelled (specification-level model + differential); generator quality bounds the tie. T1.2/T1.3/T1.4-T1.6 (history law, overflow arithmetic, image decoder) are stretch items.",
        "technique": "Lean 4 theorems on the sequential map model + API-history differential of the real store against the compiled Lean model and a BTreeMap oracle",
    },
    "C02": {
        "text": "T2.1: the Lean mirror of core build_trie equals the specified trie root nodeAt for every canonically arranged key list (proved by a block induction, unbounded); T2.1b sorted => canonical; T2.2 empty/single; T2.4 root injective under Hasher.Sound; T2.6 compaction-table law. Every root the real store reports in generated histories is compared with the executed Lean specification nodeAt over Blake3 implemented in Lean.",
        "design_ref": "§4 C02",
        "note": "Trusted: Lean kernel; Hasher.Sound for Blake3; page_walker / workers are not modelled — tied by the root differential on every commit, overlay and reopen.",
        "technique": "Lean 4 theorem (build_trie mirror = specification, induction) + root differential against the executed Lean specification",
    },
    "C05": {
        "text": "T5.1 completeness and T5.2 truthfulness of the specified path proof proveSpec for every canonical set and every key (present/absent, any divergence depth), kernel-checked; T5.5 on accepted images: whenever the image monitor accepts a real ht file (wfTable), the decoded table satisfies the table invariant, so the modelled lookup of page p answers bucket b iff b is full, tagged and labelled p (every stored merkle page is found, nothing else is); T5.5 (bitbox): the mirrored ProbeSequence / lookup / allocate_bucket / tombstone functions are total within 2n+2 steps (period of the triangular sequence), a lookup answers exactly 'stored at b' / 'stored nowhere' in every table reachable from empty by inserts and removes, stale tombstone labels are never found; Session::prove of the real store must return exactly proveSpec's terminal and siblings (byte-for-byte) for generated query keys on plain and overlay sessions, cold and warm, and verify + confirm with the real verifier.",
        "design_ref": "§4 C05",
        "note": "Trusted: Lean kernel; Hasher.Sound; seek not modelled (tied by proof equality); bitbox probing is modelled (T5.5 family) and tied to the code step by step: alloc-probe (real ProbeSequence::new/next, allocate_bucket, hash_raw_page_id) and alloc-lookup (real Store::load_page on dense tiny tables) against the model through cfg(nomt_verif) hooks.",
        "technique": "Lean 4 theorem (specified proof verifies and is truthful, for all sets and keys) + exact proof-object differential",
    },
    "C09": {
        "text": "T9.1-T9.3 over the commit/rollback protocol model: in every reachable state (invariant: the log is a chain of actual commits ending in the current values) rollback n restores exactly the values before the last n commits, keeps the older log, and a request that cannot be served fails without changing anything; undo of any chain restores its start. The real store runs histories with log limits 1,2,3,5, rollbacks of 0..len+1, reopen and stale commits in between; every result, root, value and later rollback is compared with the Lean api model and a stack-of-maps oracle.",
        "design_ref": "§4 C09/C12",
        "note": "Trusted: Lean kernel; theorems are on the list-of-records abstraction (no segments); seglog segment roll-over not yet reachable in quick runs (needs hook H2).",
        "technique": "Lean 4 theorem (invariant + induction over the delta chain) + API-history differential with tiny rollback-log limits",
    },
    "C11": {
        "text": "Overlay-chain semantics of the API model (youngest change wins, fall-through to the committed state, acceptance rule of LiveOverlay::new) as kernel-checked lemmas T11.1-T11.2; overlay trees on the real store (chains, forks, dropped/committed ancestors, wrong ancestor lists, in/out-of-order commits) compared step by step with the Lean api model and with per-overlay expected views.",
        "design_ref": "§4 C11",
        "note": "Trusted: Lean kernel; T11.3 (chain commit = direct commit, refinement) is being added; Index/prune_below not mirrored (spec-level chain lookup + differential).",
        "technique": "Lean 4 lemmas on the overlay-chain model + overlay-tree history differential",
    },
    "C12": {
        "text": "T12.1/T12.2: a stale blocking commit and a non-blocking commit that is deferred or stale leave the whole abstract state (values, root, rollback log, seqn) unchanged — proved for the repaired order of effects; F1 witness theorem shows the unrepaired order is not a no-op. The real store is driven through competing changesets in every order/flavour with rollbacks in between.",
        "design_ref": "§4 C09/C12",
        "note": "Trusted: Lean kernel; protocol model hand-written, tied by the differential (results, root, seqn, values, later rollbacks).",
        "technique": "Lean 4 theorem (rejected/deferred commit = identity on the state) + competing-changeset history differential",
    },
    "C03": {
        "text": "T3.1 (kernel-checked): in the abstract disk model every process-crash image of every prefix of a sync trace satisfying the order/placement clauses recovers to exactly the old or exactly the new abstract state, and to the new one once the trace is complete (corollary of C04's theorem); T3.1b the same jointly for values, merkle pages AND the rollback log's live records; T3.2 / T3.2b recovery (WAL redo with table fsync, WAL truncation, log trimming) is idempotent under crashes at every prefix and any nesting depth; T3.2c/d the order the code had before repair F17 (no table fsync) is crash-idempotent but kernel-checked NOT power-loss-idempotent. On the real code every operation chosen from generated histories is crashed (process exit) at EVERY I/O event index, including nested crashes at every event of recovery; the reopened directory must show exactly the pre- or post-state (values, root, seqn, proofs from the same side; post once the call returned) and accept a follow-up commit with the reference root.",
        "design_ref": "§4 C03/C04/C17",
        "note": "Trusted: Lean kernel; disk semantics of the model; the trace predicate is not yet evaluated on real traces by the Lean driver (the real code is crashed instead); the rollback log is one atomic record list in the model (segments, torn appends and roll-over are covered by the enumeration only).",
        "technique": "Lean 4 theorem (phase invariants over every trace prefix) + exhaustive crash-point enumeration of the real code in child processes",
    },
    "C04": {
        "text": "T4.1 (kernel-checked): for every accepted sync trace, every prefix and EVERY sub-list of the not-yet-fsynced effects kept, recovery yields the old or the new state; the new state after the full trace. T4.2: the same with the rollback log as a third component (appends beyond the live range and pruning outside it are invisible; the old / new disjunction is joint), T4.2c also from a start state with an un-fsynced WAL truncation pending. On the real code a journal of before-images of un-fsynced effects (kept by the harness side of the I/O hook) lets a child revert all / random / each single un-synced effect at every event index before dying; the reopened store must be exactly pre or post; nested-power: after a process crash at every event, a power loss at every event of the recovery. Found and repaired F17 (recovery dropped the WAL without fsyncing the re-applied table pages).",
        "design_ref": "§4 C03/C04/C17",
        "note": "Trusted: Lean kernel; page atomicity; fsync makes exactly the file's completed prior effects durable (hook journal rule); tmpfs instead of a block device.",
        "technique": "Lean 4 theorem (all loss subsets x all prefixes) + power-loss image enumeration on the real code via the I/O hook journal",
    },
    "C14": {
        "text": "T14.1-T14.3 on the poison layer of the API model (a faulted commit returns err and poisons; a poisoned handle refuses everything unchanged; transparent without fault) and T14.4 / T14.4b (disk model: a sync cut short by a failure leaves pre or post, jointly with the rollback log). On the real code every I/O event of chosen operations is made to fail (EIO once / persistently): the call must report the error, the handle must be poisoned, reopening must show pre or post. Re-found and repaired F2 (write_ht swallowed write errors) and F8 (rollback-log append failure left an unpoisoned handle with an advanced root).",
        "design_ref": "§4 C14",
        "note": "Trusted: Lean kernel; fault model = EIO at the hooked operation (a failing write is not performed; a failing fsync is performed but reported failed).",
        "technique": "Lean 4 theorems (poison protocol + atomicity of a cut-short sync) + fault injection at every I/O event of the real code",
    },
    "C10": {
        "text": "T10.1-T10.4 over the API model: reopen forgets only in-memory handles; values, root, rollback log, seqn, reads, the verdict and effect of every later rollback and the root of every later session are unchanged. Real histories drop and reopen the handle at random positions with independently drawn configurations; root, seqn, values, proofs, occupancy and all later commits/rollbacks are compared with a model that ignores close/open. Found and repaired F4/F4b (reopen resurrected pruned rollback deltas).",
        "design_ref": "§4 C10",
        "note": "Trusted: Lean kernel; that the directory holds the committed state is C03/C04 + the differential; T10.1 full refinement through the disk model is a stretch item.",
        "technique": "Lean 4 theorems on the reopen transition of the API model + reopen-at-random-position history differential",
    },
    "C13": {
        "text": "The specification model has no configuration parameter (roots, values, proofs, verdicts are functions of the history alone); T13.1 proves by kernel evaluation of the full table that for every shard/worker count 1..64 shard_regions partitions the 64 root children and shard_index_for names the owning region; NUM_CHILDREN = 2^DEPTH = 64 = MAX_COMMIT_CONCURRENCY with the values extracted from the source. Real histories are executed under a matrix of configurations and every observable must be identical and equal to the model.",
        "design_ref": "§4 C13",
        "note": "Trusted: Lean kernel (decide +kernel on a finite table); schedules of the real worker threads are sampled, not quantified; sha2 not exercised.",
        "technique": "Lean 4 theorem (finite table, decide +kernel) + configuration-matrix differential of identical histories",
    },
    "C06": {
        "text": "witnessSpec (Lean) is the specified witness; T6.1/T6.2: every path it contains verifies against the base root and attests exactly the session's view for its key (all sets, all keys); T6.3: replaying witnessed writes through verify_update over any checked set of verified paths yields the root of the updated set (from the fully proved T8.3); T6.5/T6.5b: for every key length the witness paths are strictly ascending, each group's keys are in scope of one verified path that confirms every attested read, and reads / writes are partitioned exactly; T6.6 the witness passes verify_update's checks; T6.7 its replay IS the root of the updated set (no hypothesis left on the witness). The real witness of generated sessions (1..64 workers, overlays, mixed batches) must equal witnessSpec in canonical form and is verified / replayed with the real verifier. Re-found and repaired F3 (operations attached to the wrong paths with more than one worker).",
        "design_ref": "§4 C06",
        "note": "Trusted: Lean kernel; Hasher.Sound; worker/page_walker sibling patching is not modelled (tied by witness equality).",
        "technique": "Lean 4 theorems (specified proofs verify/attest; update replay = new root) + canonical witness equality differential + real-verifier replay oracle",
    },
    "C19": {
        "text": "Ownership monitor defined in Lean (wfDetail / claim): every page of ln and bbn below the allocation frontier is claimed for exactly one role (leaf, branch, overflow page, free-list page, free page); T19 theorems: a successful claim is the first claim of an in-range page, a claimed page can never be claimed again (so an accepted image has no page both free and in use or used twice). Free-list / allocator model (mirror of pop, discard, preallocate, push_and_encode, commit, allocate, finish): T19.1 allocate hands out only pages free at the start of the sync or beyond the frontier; T19.2 tracked and live pages partition [1,bump) before and after every sync (iterable); T19.3 the frontier moves only when the old list was exhausted; UNCONDITIONALLY for every capacity >= 2 on well-shaped lists: T19.5 finish never reaches a panic site and yields a well-shaped list, T19.2u / T19.3u conservation and frontier laws, T19.6 every state reachable from the empty store by any sequence of syncs is well-shaped, partitioned and can sync again, T19.7 the mirrored get_nth_pop index arithmetic (fragmented and plain) equals the pop sequence. Bitbox table model: occupancy counter = number of stored pages (T19_occupied_is_stored_pages); meta-byte constants extracted from the source are pairwise distinct. The monitor runs on real directories after every commit / rollback / reopen of generated histories and counts unclaimed (leaked) pages, which must be 0; the API's reported occupancy must equal the full buckets found by the decoder and the pages the specification requires; identical fill/empty cycles must not move the frontier after cycle 4. Re-found and repaired F10 (overflow pages leaked by LeafUpdater::keep_up_to).",
        "design_ref": "§4 C19",
        "note": "Trusted: Lean kernel; decoders hand-written from the layouts (tied by the image run on real directories); u32 / usize overflow, file growth (max_bump / grow) and FreeList::read's trust in the shape of what it reads are not modelled; the free-list model is tied to the real FreeList by the alloc-freelist differential (every sync one protocol line).",
        "technique": "Lean 4 theorems on the page-ownership monitor + the monitor evaluated by the Lean driver on real directory images + frontier cycles",
    },
    "C07": {
        "text": "Lean mirrors of MultiProof::from_path_proofs, verify_multi_proof (verify_range incl. the std branch-free binary search), find_index_for / confirm_*, verify_multi_proof_update (CommonSiblings, hash_and_compact_terminal) with every panic site explicit. Kernel-checked: T7.1 every accepted path was hashed along the first depth bits of its own terminal; T7.2a-c find_index_for returns the unique covering path and confirm_* are its terminal tests; T7.3 binary search = partition point; T8.2 full multi-proof soundness under Hasher.Sound; T7.4 / T7.4a / T7.4b the multi-proof update on an accepted object never panics, equals the path-proof update on the reconstructed path proofs, any ok verdict IS the root of the updated set, and sorted in-scope write sets are never rejected; T7.5 from_path_proofs is complete on honest ascending proofs (the bundle verifies, terminals and depths preserved, every proved key in scope; no hash assumption); T7.6 prove -> bundle -> verify -> update end to end. The real functions run on honest sets and ~30 kinds of mutated objects; verdicts, inner structure, confirmations and update roots must equal the mirror line by line, the truth set, the single-path verifier and the reference root of the updated set.",
        "design_ref": "§4 C07",
        "note": "Trusted: Lean kernel; Hasher.Sound; completeness of find_index_for is not a theorem (held by the differential and its oracles).",
        "technique": "Lean 4 theorems on the multi-proof mirror (alignment, unique covering path, soundness) + line-by-line differential with three independent oracles",
    },
    "C20": {
        "text": "Lock protocol model (open = atomic flock then files; drop = drain I/O then unlock; kill): T20.1 at most one non-idle process in every reachable state of every interleaving, T20.2 a refused open returns the directory unchanged, T20.3 no write takes effect without the lock and the directory can be opened again after endDrop / kill. Real runs: creation races, refused opens from the same process / racing threads / another process with directory fingerprints, strace of a refused open, reopen right after drop, after a poisoned handle and after kill -9.",
        "design_ref": "§4 C20",
        "note": "Trusted: Lean kernel; OS flock semantics; schedules sampled. Observation (not a violation of the stated property): the documented TOCTOU in Store::open lets a creation race end with no winner and a directory that holds only .lock.",
        "technique": "Lean 4 theorems (invariant over all interleavings of the lock protocol) + thread/process races, directory fingerprints and strace on the real code",
    },
    "C17": {
        "text": "checkPlacement (Lean) decides, from the independently decoded pre-image and the ordered I/O events of an operation, that nothing the previous state references is overwritten, truncated or unlinked before the meta page is written. T17.1/T17.1b: an accepted ln / bbn page write targets a page beyond the old frontier or one the old state does not use as node / overflow / free-list page; T17.2 any hash-table write before the switch-over is rejected; T17.3 any unlink is rejected; T17.4 every event the monitor accepts abstracts to an effect satisfying EvPre / AllowedPre of the abstract disk model; T17.5 (allocator clause) every free-list page a sync writes goes to a page that was FREE in the previous state or lies beyond its frontier - never a page holding the previous free list, a live page, or a page handed to the tree in the same sync (false of the code before repair F18; the real FreeList is run against this model and a placement oracle on every run). This is the page-write clause of the hypothesis of the crash theorem (C04 EvPre) decided on real traces. The monitor runs on the pre-image + trace of every operation of generated histories.",
        "design_ref": "§4 C03/C04/C17",
        "note": "Trusted: Lean kernel; decoders hand-written (validated by C16's run); the hook's completeness (every mutating call site instrumented); T17.4 links monitor acceptance to the page-write clause EvPre of the crash theorem; the WAL-seqn, log-append and flush clauses need contents / completion order the trace does not carry and are covered by the crash enumeration.",
        "technique": "Lean 4 theorems (soundness of the placement monitor) + the monitor evaluated by the Lean driver on real pre-images and real I/O traces",
    },
    "C15": {
        "text": "LTS of the reader/writer protocol (sessions read-lock, commits write-lock or try_write, base compared and root published under the write guard). For every interleaving of any number of threads: T15.1 a held write guard excludes all sessions; T15.2 every live session's starting version is still the committed version; T15.3 successful commits form a chain, each based on the state the previous winner left; T15.3b accepted iff base is current; T15.4a/b a non-blocking commit never waits and a blocking one can proceed once sessions end. The real locks are exercised by threaded stress runs with version stamps, winner-chain reconstruction and a watchdog.",
        "design_ref": "§4 C15",
        "note": "Partial by nature: the theorems are about the protocol model; conformance of the real locks under the real scheduler is sampled. Deadlock freedom is proved only in the one-lock abstraction (T15.4), not over the full lock order of the store.",
        "technique": "Lean 4 theorems (invariant over all interleavings of the lock-protocol LTS) + threaded stress with stamp / winner-chain oracles under a watchdog",
    },
    "C16": {
        "text": "Byte-level decoders of every on-disk format written in Lean from the layouts, independent of nomt's read path (meta, leaf, branch with prefix compression, overflow cells/pages, free lists, hash-table meta bytes and buckets with seeded XXH3-64 probe positions, merkle pages and labels, WAL, rollback segments), plus wfImage / wfTable / checkMerkle. Kernel-checked: decoder/encoder round trips (meta, overflow cell, free-list page, record header); T16.1 an accepted image's abstraction has strictly increasing keys, no key twice, every key in exactly one leaf; T16.const: the layout constants the decoders use ARE the ones extracted from the Rust sources on every run (tools/gen_constants.py -> Generated/Constants.lean), the manifest fields tile [0,64) at the offsets encode_to writes, an overflow cell fits a leaf, the last page level is always elided; T16.rt: leaf node, branch node (with prefix compression) and page id encoders written from the builders round-trip through the decoders under explicit decidable guards (leafOK, branchOK; page ids to depth 41 resp. 42 without overflow); T16.lookup routing by separators + leaf search = lookup in the abstraction (T1.6). The Lean driver decodes the REAL directory after every commit / rollback / reopen of generated histories and requires: well-formed, abstraction = committed map (value length + Blake3 of every value), every reachable node of every stored merkle page = nodeAt, elision rule, table well-formed. Found F13/F14 (branch separators corrupted by mis-sized bitwise_memcpy sources: committed keys read back absent / commit panic), both repaired.",
        "design_ref": "§4 C16",
        "note": "Trusted: Lean kernel; decoders are hand-written (tied by decoding real directories); push_chunk of the node builders is not mirrored; the ownership walk as a whole is not a theorem; recovered crash images ARE decoded (the crash enumeration hands every recovered directory to the monitor).",
        "technique": "Lean 4 theorems on the image decoder (sortedness, single-leaf, lookup = abstraction, codec round trips) + the decoder/monitor evaluated by the Lean driver on real directories",
    },
}
