fn tri(n: u64) -> u64 {
    let mut acc: u64 = 0;
    for i in 0u64..n {
        if i == 1000 {
            break;
        }
        acc += i;
    }
    acc
}

fn low_bit(w: u64) -> u32 {
    let mut k: u32 = 0;
    for i in (0..64).rev() {
        if (w >> i) & 1 == 1 {
            k = i as u32;
        }
    }
    k
}

fn count_down(mut n: u64) -> u64 {
    let mut steps: u64 = 0;
    while n > 0 {
        n = n / 2;
        steps += 1;
    }
    steps
}
