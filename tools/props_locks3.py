# Q45 — `begin_session`: the access read guard is taken BEFORE the beatree read transaction of the rollback delta builder
# (Lean: Api/Locks3*.lean, Props/C15_Locks3.lean; harness/src/rtlock.rs)
_RUN = {"cmd": "rtlock-scenarios", "cases": {"quick": 1, "thorough": 1}, "corpus": True}
_RULE = (" `rtlock-scenarios` (corpus, one directed multi-threaded schedule on the real `Nomt`, rollback enabled, child process under a 10 s watchdog): "
         "state A is committed (two keys); a session W writes K = v2 and is finished (the FinishedSession holds no guard); the main thread takes a "
         "session S1 (read guard + read transaction of its delta builder); a writer thread calls the blocking `commit` of W's changeset and parks in "
         "`access_lock.write()`; 200 ms later a reader thread calls `begin_session` with default parameters (rollback delta recorded) and queues "
         "behind the parked writer (parking_lot `read()` does not pass a waiting writer); 200 ms later the main thread drops S1 and joins both. "
         "No owner of a live session performs a blocking acquisition (the F19 pattern is not involved). Oracles: the run terminates (a child that is "
         "still running after 10 s is killed and reported as `C15 rtlock: watchdog` with the last stage reached: with the read transaction opened "
         "before the guard the sync inside the commit waits for the queued reader's transaction while the reader waits for the writer's lock); while "
         "S1 lives it reads the value of state A and `Nomt::root()` is A's root; the writer's commit returns Ok; the queued session reads v2 for K, "
         "its prev_root = `Nomt::root()` = the root of the committed changeset (which differs from A's root); the handle is not poisoned. "
         "distinct & non-trivial = the completed run.")
EXTRA = {
    "C15": {"runs": [_RUN], "rule": _RULE,
            "trusted_base": ["rtlock (harness/src/rtlock.rs, ~200 lines): the order of the three threads is enforced by sleeps of 200 ms (writer parked before the reader "
                             "calls begin_session, reader queued before S1 is dropped); a scheduler delay longer than that can only make the schedule miss the window "
                             "(the run then passes without having exercised the queue), never fail a correct implementation"],
            "assumptions": ["parking_lot's RwLock is writer-preferring (a `read()` issued while a writer waits queues behind it): this is what puts the reader's "
                            "begin_session between the writer's `write()` request and its acquisition"]},
}
