"""Per-property configuration of tools/check.py: which harness runs feed which driver mode."""

HASH_TB = ["Hasher.Sound (collision freedom + MSB domain separation) for Blake3 — hypothesis of the theorems",
           "hand-written Lean mirrors of core/src/proof/*.rs and core/src/update.rs, tied by the differential run",
           "harness-side reference trie / truth oracle (harness/src/util.rs), itself cross-checked against the Lean nodeAt"]

PROPS = {
    "C08": {
        "runs": [
            {"cmd": "core-pp", "mode": "core", "cases": {"quick": 1200, "thorough": 40000}, "shards": {"quick": 8, "thorough": 16}},
        ],
        "rule": "cases = random key sets (0..60 keys, clustered prefixes at page/byte boundaries and depth 246..255) x 4 query keys x (honest proof + 3 mutants: sibling flip/drop/add/swap/zero/truncate, terminal key/value/kind, wrong root, other key, short key slice, >256 siblings) with confirm_value/confirm_nonexistence queries against the truth set, plus 3 verify_update cases per set (honest and 7 malformed shapes). non-trivial & distinct = distinct mutated-proof or update lines (hash of the protocol line).",
        "trusted_base": HASH_TB,
        "assumptions": ["multi-proof soundness (T8.2) is covered by the C07/C18 multi-proof differential until its theorem lands"],
    },
    "C18": {
        "runs": [
            {"cmd": "core-pp", "mode": "core", "cases": {"quick": 1200, "thorough": 40000}, "shards": {"quick": 8, "thorough": 16}},
        ],
        "rule": "same adversarial stream as C08, every call under catch_unwind; the model must predict ok / which error / panic for every line. non-trivial = mutated or malformed object.",
        "trusted_base": HASH_TB,
        "assumptions": [],
    },
}
