"""Per-property configuration of tools/check.py: which harness runs feed which driver mode."""

HASH_TB = ["Hasher.Sound (collision freedom + MSB domain separation) for Blake3 — hypothesis of the theorems",
           "hand-written Lean mirrors of core/src/proof/*.rs and core/src/update.rs, tied by the differential run",
           "harness-side reference trie / truth oracle (harness/src/util.rs), itself cross-checked against the Lean nodeAt"]


API_TB = ["Lean model of the public API (lean/NomtModel/Api/Exec.lean) is hand-written; tied to nomt/src/lib.rs by the history correspondence run",
          "Blake3 (single chunk) implemented in Lean for the driver, validated by every root comparison",
          "harness oracle: BTreeMap per committed state / overlay, reference trie, real proof verifier",
          "value hashing (ValueHasher) treated as an external injective function"]
API_ASSUME = ["single-threaded histories (schedules are C13/C15)", "tmpfs directory under /dev/shm"]
DB_RULE = ("cases = generated histories over {session commit (blocking / non-blocking), overlay create / commit / drop, wrong ancestor chains, stale pairs, "
           "deferred non-blocking commit, rollback(n), reopen with another configuration, read-all}; random configuration per history (workers 1..64, cache sizes 1..256 MiB, "
           "buckets, warm-up, prepopulation, upper levels); every step emits a protocol line for the Lean api model. distinct & non-trivial = distinct histories "
           "(hash of all protocol lines) with >= 2 successful commits and >= 1 special event (overlay, rejected / deferred commit, rollback, reopen, overflow value).")


def DB(focus, q, t, nops=14, big=False, scale=1, shards_q=8):
    args = ["--focus", focus, "--nops", str(nops)] + (["--big"] if big else []) + (["--scale", str(scale)] if scale > 1 else [])
    return {"cmd": "db", "mode": "api", "args": args, "cases": {"quick": q, "thorough": t}, "shards": {"quick": min(shards_q, q), "thorough": 16}}


def DB_SCN(names):
    return [{"cmd": "db-scenario", "mode": "api", "args": ["--name", n], "cases": {"quick": 1, "thorough": 1}, "corpus": True} for n in names]

IMG_RUN = {"cmd": "image", "mode": "image", "cases": {"quick": 24, "thorough": 400}, "shards": {"quick": 8, "thorough": 16}}
# directed replay (corpus): history 18 of image seed 1000 — 1616 fat-valued keys, half of them under a 200-bit common prefix;
# the commit that splits the branch node writes a separator whose last bit is lost (see KNOWN finding candidate F13 in the report)
IMG_CORPUS = [{"cmd": "image", "mode": "image", "args": ["--only", "18"], "fixed_seed": 1000, "cases": {"quick": 19, "thorough": 19},
               "shards": {"quick": 1, "thorough": 1}, "corpus": True}]
IMG_TB = ["Lean decoders of the on-disk formats (lean/NomtModel/Store/Img*.lean) are hand-written from the layout comments of the Rust sources; they are tied to the real files by the image run (every snapshot of a real directory must decode to the oracle's committed map)",
          "BLAKE3 (arbitrary length) and XXH3-64 (32-byte input, seeded) implemented in Lean, validated by the same run (value hashes, merkle nodes, meta-byte tags and probe positions of real directories)",
          "harness oracle: BTreeMap of the committed state kept by the history engine (harness/src/db.rs), written to expected.txt",
          "snapshots are file copies taken at quiescent points (after commit / rollback / reopen returned)"]
IMG_ASSUME = ["single-threaded histories; snapshots only at quiescent points (crash images are C10/C17)", "tmpfs directory under /dev/shm", "4096-bucket hash tables; page ids of depth <= 40 (the add-then-shift label of PageId::encode overflows 256 bits beyond)"]
IMG_RULE = ("cases = generated histories of the history engine (session / overlay commits, rollback(n), reopen with another configuration) on a 4096-bucket table, "
            "batch scale 1..30 (up to several hundred keys), value lengths straddling 1332 / 4092 / 15*4092 bytes (overflow chains), deletions; one protocol line "
            "`check <snapshot-dir> <expected-file>` per quiescent point: the Lean driver reads meta, ln, bbn, ht, wal and rollback.* itself, decodes them, runs wfImage "
            "(page ownership, key order, separator ranges, overflow chains, free lists), wfTable (meta bytes, labels, xxh3 tag and probe position), checkMerkle "
            "(every reachable node of every stored page = nodeAt, elision rule) and compares absImage with the committed map (length + Blake3 of every value). "
            "Any `bad …` answer is an oracle failure. distinct & non-trivial = snapshots with a non-empty committed state, identified by (cause, expected-state file).")

PROPS = {
    "C16": {
        "runs": IMG_CORPUS + [dict(IMG_RUN)],
        "rule": IMG_RULE,
        "trusted_base": IMG_TB, "assumptions": IMG_ASSUME,
    },
    "C19": {
        "runs": [{"cmd": "image-leak", "mode": "image", "cases": {"quick": 1, "thorough": 1}, "corpus": True, "leaks_fail": True},
                 dict(IMG_RUN, leaks_fail=True)],
        "rule": IMG_RULE + " C19 (accounting): for ln and bbn every page number in [1, bump) must be in use by the decoded state (leaf / overflow / branch) or tracked by the "
                "free list (free-list page or listed free page), and no page may be both; the driver prints ln_leaked / bbn_leaked per snapshot and any non-zero value is reported as "
                "`C19 leaked pages: …`; hash-table occupancy = number of full meta bytes (ht_full) is cross-checked against the stored page set.",
        "trusted_base": IMG_TB, "assumptions": IMG_ASSUME,
    },
    "C08": {
        "runs": [
            {"cmd": "core-pp", "mode": "core", "cases": {"quick": 1200, "thorough": 40000}, "shards": {"quick": 8, "thorough": 16}},
        ],
        "rule": "cases = random key sets (0..60 keys, clustered prefixes at page/byte boundaries and depth 246..255) x 4 query keys x (honest proof + 3 mutants: sibling flip/drop/add/swap/zero/truncate, terminal key/value/kind, wrong root, other key, short key slice, >256 siblings) with confirm_value/confirm_nonexistence queries against the truth set, plus 3 verify_update cases per set (honest and 7 malformed shapes). non-trivial & distinct = distinct mutated-proof or update lines (hash of the protocol line).",
        "trusted_base": HASH_TB,
        "assumptions": ["multi-proof soundness (T8.2) is covered by the C07/C18 multi-proof differential until its theorem lands"],
    },
    "C18": {
        "runs": [
            {"cmd": "core-pp", "mode": "core", "cases": {"quick": 1200, "thorough": 40000}, "shards": {"quick": 8, "thorough": 16}},
        ],
        "rule": "same adversarial stream as C08, every call under catch_unwind; the model must predict ok / which error / panic for every line. non-trivial = mutated or malformed object.",
        "trusted_base": HASH_TB,
        "assumptions": [],
    },
    # ---------------- API-level properties: history engine (harness/src/db.rs) vs Lean `api` model ----------------
    "C01": {
        "runs": DB_SCN(["empty-store-delete-only", "overwrite-huge-value-with-rollback"]) + [
            DB("kv", 160, 1600, nops=16, big=True),
            DB("kv", 6, 60, nops=20, big=True, scale=100, shards_q=6),
            DB("general", 80, 800, nops=14),
        ],
        "rule": DB_RULE + " C01 focus: commits dominate; value lengths straddle 1332 (in-leaf limit), 4092 (one overflow page), 15*4092 and 16*4092 (in-cell pointer limit) and 64 KiB+; scale=100 histories hold thousands of keys so leaves and branches split and merge.",
        "trusted_base": API_TB, "assumptions": API_ASSUME,
    },
    "C02": {
        "runs": [DB("kv", 120, 1200, nops=14), DB("kv", 6, 60, nops=16, scale=100, shards_q=6), DB("overlay", 60, 600, nops=14),
                 {"cmd": "core-pp", "mode": "core", "cases": {"quick": 300, "thorough": 6000}, "shards": {"quick": 4, "thorough": 16}}],
        "rule": DB_RULE + " C02: every root reported by the real code (session base, finished session, overlay, Nomt::root, after reopen/rollback) is compared with the Lean specification function nodeAt executed on the model's key-value list (Blake3 implemented in Lean) and with the harness reference trie.",
        "trusted_base": API_TB, "assumptions": API_ASSUME,
    },
    "C05": {
        "runs": [DB("kv", 120, 1200, nops=14), DB("overlay", 80, 800, nops=14), DB("reopen", 60, 600, nops=14), DB("kv", 4, 40, nops=14, scale=100, shards_q=4)],
        "rule": DB_RULE + " C05: Session::prove for present keys, absent keys diverging from a present key at interesting depths (page boundaries 6k-1..6k+1, just below the terminal, 246..255) and random keys, on plain / overlay sessions, cold caches after reopen; the proof object must equal the Lean proveSpec (terminal + every sibling) and verify + confirm the session's view with the real verifier.",
        "trusted_base": API_TB, "assumptions": API_ASSUME,
    },
    "C09": {
        "runs": DB_SCN(["stale-nonblocking-then-rollback", "reopen-resurrects-pruned-delta", "rollback-all-then-reopen", "overwrite-huge-value-with-rollback"]) + [
            DB("rollback", 200, 2000, nops=18), DB("general", 80, 800, nops=16, big=True)],
        "rule": DB_RULE + " C09 focus: max_rollback_log_len in {1,2,3,5}; rollback(n) with n in {0,1,2,len,len+1}; rollbacks after reopen, after stale commits, over overlay commits and large values; the oracle keeps the previous committed maps.",
        "trusted_base": API_TB, "assumptions": API_ASSUME + ["segment roll-over of the rollback log needs the segment-size hook (not yet installed): covered only through the 64 MiB default, i.e. not reached by quick runs"],
    },
    "C11": {
        "runs": DB_SCN(["rejected-overlay-marks-committed"]) + [DB("overlay", 200, 2000, nops=18), DB("general", 60, 600, nops=16)],
        "rule": DB_RULE + " C11 focus: overlay trees (chains, sibling forks, dropped and committed ancestors), sessions on every live fork, wrong / incomplete / reordered ancestor lists, in-order and out-of-order overlay commits.",
        "trusted_base": API_TB, "assumptions": API_ASSUME,
    },
    "C12": {
        "runs": DB_SCN(["stale-nonblocking-then-rollback", "rejected-overlay-marks-committed"]) + [DB("reject", 200, 2000, nops=16), DB("general", 60, 600, nops=16)],
        "rule": DB_RULE + " C12 focus: pairs of changesets on one base committed in both orders and flavours (blocking / non-blocking, session / overlay), rollback in between, non-blocking commits while a session is alive; after every rejected or deferred attempt root, seqn, values and the result of later rollbacks are compared.",
        "trusted_base": API_TB, "assumptions": API_ASSUME,
    },
}
