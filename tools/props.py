"""Per-property configuration of tools/check.py: which harness runs feed which driver mode."""

HASH_TB = ["Hasher.Sound (collision freedom + MSB domain separation) for Blake3 — hypothesis of the theorems",
           "hand-written Lean mirrors of core/src/proof/*.rs and core/src/update.rs, tied by the differential run",
           "harness-side reference trie / truth oracle (harness/src/util.rs), itself cross-checked against the Lean nodeAt"]


API_TB = ["Lean model of the public API (lean/NomtModel/Api/Exec.lean) is hand-written; tied to nomt/src/lib.rs by the history correspondence run",
          "Blake3 (single chunk) implemented in Lean for the driver, validated by every root comparison",
          "harness oracle: BTreeMap per committed state / overlay, reference trie, real proof verifier",
          "value hashing (ValueHasher) treated as an external injective function"]
API_ASSUME = ["single-threaded histories (schedules are C13/C15)", "tmpfs directory under /dev/shm"]
DB_RULE = ("cases = generated histories over {session commit (blocking / non-blocking), overlay create / commit / drop, wrong ancestor chains, stale pairs, "
           "deferred non-blocking commit, rollback(n), reopen with another configuration, read-all}; random configuration per history (workers 1..64, cache sizes 1..256 MiB, "
           "buckets, warm-up, prepopulation, upper levels); every step emits a protocol line for the Lean api model. distinct & non-trivial = distinct histories "
           "(hash of all protocol lines) with >= 2 successful commits and >= 1 special event (overlay, rejected / deferred commit, rollback, reopen, overflow value).")


def DB(focus, q, t, nops=14, big=False, scale=1, shards_q=8, segsize=0):
    args = ["--focus", focus, "--nops", str(nops)] + (["--big"] if big else []) + (["--scale", str(scale)] if scale > 1 else []) + (["--segsize", str(segsize)] if segsize else [])
    return {"cmd": "db", "mode": "api", "args": args, "cases": {"quick": q, "thorough": t}, "shards": {"quick": min(shards_q, q), "thorough": 16}}


def DB_SCRIPT(names):
    """directed histories of the history engine (`--focus script-…`), one fixed-seed case each (corpus)"""
    return [{"cmd": "db", "mode": "api", "args": ["--focus", n], "cases": {"quick": 1, "thorough": 1}, "shards": {"quick": 1, "thorough": 1}, "fixed_seed": 1, "corpus": True} for n in names]


def DB_SCN(names):
    return [{"cmd": "db-scenario", "mode": "api", "args": ["--name", n], "cases": {"quick": 1, "thorough": 1}, "corpus": True} for n in names]


DISK_TB = ["abstract disk model Store/Disk.lean (durable + un-synced effect list; images = durable + any sub-list) and recovery abstraction with the frame property",
           "the I/O hook in /repo (cfg nomt_verif, add-only) reports every mutating file operation; its harness-side journal simulates loss of un-synced effects",
           "harness oracle: BTreeMap of the state before / after the operation, reference trie for roots, real verifier for proofs after recovery"]
DISK_ASSUME = ["the order/placement hypotheses of the theorem (EvPre / PostOK) are not yet evaluated on the real trace by the Lean driver; the real code is instead crashed / power-failed at every event and reopened",
               "io_uring writes are observed at submission and completion; a crash waits for submitted writes to complete (their loss is covered by the power-loss variants)"]
CRASH_RULE = ("cases = generated API histories (as for C01..C12); the parent runs the history once with the I/O hook observing (events per operation, oracle state before/after), "
              "then for chosen operations re-executes the same history in a child process that dies / fails at event k of that operation, for every k; the directory is reopened by another child "
              "which reports root, sync_seqn, every value, proof validity and performs a follow-up commit; the report must equal the state before or after the operation (all observables from the same side, "
              "the new state once the call had returned) and the follow-up commit must yield the reference root.")


import os as _os0
NOMT_MODEL = _os0.path.join(_os0.path.dirname(_os0.path.dirname(_os0.path.abspath(__file__))), "lean", ".lake", "build", "bin", "nomt_model")  # the driver of THIS tree (worktrees have their own)


def CRASH(mode, focus, q, t, steps=2, shards_q=4, big=False, nops=8, segsize=0, wal=False):
    # wal=True: every crashed directory that holds a redo log is also recovered on a copy by the real bitbox `DB::open` and the result
    # compared with the Lean WAL reader + redo (`walredo`, Store/Wal*.lean) applied to the crashed hash table
    args = ["--mode", mode, "--focus", focus, "--nops", str(nops), "--steps", str(steps)] + (["--big"] if big else []) + (["--segsize", str(segsize)] if segsize else []) + (["--wal-driver", NOMT_MODEL] if wal else [])
    return {"cmd": "crash", "mode": "image", "args": args, "cases": {"quick": max(1, q // shards_q), "thorough": max(1, t // 16)}, "shards": {"quick": shards_q, "thorough": 16}, "per_shard_cases": True}

# directed histories (corpus, fixed seed): 8 KiB rollback segments, six fat commits (one segment each), then rollback(5) / prune + rollback-all,
# every event of every operation; "nested" additionally crashes at every event of every recovery, each probe on a fresh copy of the crashed image (found F16)
def SCRIPTED(mode):
    foci = ["script-rollback-multi-segment"] if mode == "nested" else ["script-rollback-multi-segment", "script-prune-then-rollback-all", "script-elision-threshold", "script-clear-then-change"]
    return [dict(CRASH(mode, f, 1, 1, steps=12, shards_q=1, segsize=8192, wal=(f in ("script-elision-threshold", "script-clear-then-change"))), fixed_seed=1, corpus=True, shards={"quick": 1, "thorough": 1}, cases={"quick": 1, "thorough": 1}) for f in foci]

# the real FreeList (allocate per index + finish) and the real ProbeSequence / allocate_bucket, driven through nomt::verif_api,
# against the Lean free-list / probing models (driver mode `alloc`) and harness-side oracles (conservation, placement, encoding)
ALLOC_FL = {"cmd": "alloc-freelist", "mode": "alloc", "cases": {"quick": 120, "thorough": 3000}, "shards": {"quick": 6, "thorough": 16}}
ALLOC_PROBE = {"cmd": "alloc-probe", "mode": "alloc", "cases": {"quick": 600, "thorough": 16000}, "shards": {"quick": 4, "thorough": 16}}
ALLOC_LOOKUP = {"cmd": "alloc-lookup", "mode": "alloc", "cases": {"quick": 40, "thorough": 1200}, "shards": {"quick": 4, "thorough": 16}}
ALLOC_LOOKUP_RULE = (" alloc-lookup: real stores with 64..300 buckets are filled to 35..65 % by commits of clustered keys (every cluster stores 2..3 merkle pages) and churned (tombstones); "
                     "after every commit the ht file is read back and for the label of EVERY full bucket the real Store::load_page (the lookup Nomt::open uses for the root page: probe + try_complete + retry) "
                     "must return exactly that bucket and its bytes, absent page ids must not be found, no label may occur twice; every lookup is a `pslookup` line for the Lean probing model "
                     "(lookupLoop); the evidence counts the lookups whose first possible hit was another page with the same 7-bit tag (lookup_retry_needed).")
ALLOC_RULE = (" Allocator runs: alloc-freelist builds well-shaped free lists with the real page capacity 1022 (0..3 full pages, head of 0 / 1 / 2 / 1021 / 1022 / random items, "
              "fragmented shapes, 0..2500 live pages) and drives 6 consecutive syncs each through the REAL FreeList (allocate(i) for every allocation index, then finish(freed)) with allocation / "
              "freed counts aimed at the page boundaries; every sync is one protocol line and must equal the Lean model (handed-out pages, new frontier, pages written in order, new portions) and "
              "pass the harness oracles: tracked + live pages partition [1,bump) before and after, allocate hands out only free-or-beyond-frontier pages, no free-list page is written over a page the "
              "previous state uses (found F18), written pages decode to the new portions. alloc-probe: tables of 1..5000 buckets in 8 fill styles (all empty / tombstones / full with the "
              "page's own tag / no empty bucket / dense / sparse): hash_raw_page_id, 2n+6 results of ProbeSequence::next and allocate_bucket must equal the Lean probing model and the meta bytes.")

# C16 on crash images: every recovered directory of the crash / power-loss enumeration (after recovery and one follow-up commit) is handed to the
# Lean image monitor by the harness itself (`--image-driver`), with the state the API reported as the expected map
def _with_driver(run):
    r = dict(run)
    r["args"] = list(run["args"]) + ["--image-driver", NOMT_MODEL]
    return r
CRASH_IMAGES = [_with_driver(dict(CRASH("crash", "script-elision-threshold", 1, 1, steps=12, shards_q=1), fixed_seed=1, corpus=True, shards={"quick": 1, "thorough": 1}, cases={"quick": 1, "thorough": 1})),
                # F20: one commit empties a first-layer slot of a stored page and fills its sibling (the emptied slot must be in the WAL diff)
                _with_driver(dict(CRASH("crash", "script-clear-then-change", 1, 1, steps=12, shards_q=1), fixed_seed=1, corpus=True, shards={"quick": 1, "thorough": 1}, cases={"quick": 1, "thorough": 1})),
                _with_driver(CRASH("crash", "general", 2, 20, steps=1, shards_q=2)), _with_driver(CRASH("power", "kv", 2, 20, steps=1, shards_q=2))]
CRASH_IMAGES_RULE = (" Crash images: the crash / power-loss enumeration of C03 / C04 (every I/O event index of chosen operations, incl. a directed history that moves a sub-trie across the "
                     "page-elision threshold) hands every directory that recovered to a state the API reports consistently to the same monitor (`check <dir> <expected>`), so that the image after WAL "
                     "replay / rollback-log trimming + one more commit is decoded too (counters recovered_images_checked / _ok in the evidence).")

# the real WalBlobBuilder / WalBlobReader / PageDiff / bitbox recovery (hook H5) against the Lean WAL model (driver mode `wal`)
WAL_RUN = {"cmd": "wal", "mode": "wal", "cases": {"quick": 600, "thorough": 16000}, "shards": {"quick": 4, "thorough": 16}}
WAL_RULE = (" WAL runs: generated entry sequences (0..many entries, clears and updates mixed, diffs with 0 / 1 / 126 changed slots and bits at the word boundary 63 / 64, bucket indices and "
            "sequence numbers at the u64 / u32 limits, the END tag aimed at page boundaries, builder reuse, small mappings that must grow) through the REAL WalBlobBuilder — bytes compared byte for "
            "byte with the Lean encoder — and the REAL WalBlobReader — entries / error verdict compared with the Lean reader — plus 12 malformed kinds (truncated, bad tag, padding bits set, empty, "
            "garbage after END); PageDiff operations (set / join / pack / unpack / from_bytes); `recover`: the real bitbox DB::open on generated hash-table files and WALs (incl. partial write-outs, stale "
            "and corrupt logs) vs the Lean redo. Oracles: decode(encode x) = x on the real code, blob length a page multiple, redo reproduces the intended page, redo twice = once.")
# the real bitbox DB::prepare_sync (hook `verif_api::bitbox_sync::PrepareSim`: bucket allocation, meta-map updates, the WAL blob, the page list
# handed to write_ht) against the Lean mirror `PrepSync.prepareSync` (driver mode `prepsync`) — the content side of the crash argument for the hash table
PREPSYNC_RUN = {"cmd": "prepsync", "mode": "prepsync", "cases": {"quick": 600, "thorough": 16000}, "shards": {"quick": 4, "thorough": 16}}
PREPSYNC_RULE = (" prepare_sync runs: per case a hash table of 1..8193 buckets (tiny / small / medium / exactly one meta page / two or three meta pages) filled through the REAL prepare_sync "
                 "(empty / sparse / half / dense / tombstone-heavy — optionally without a single empty bucket left — / full), stale leftovers in free buckets, then 1..3 syncs whose changeset mixes "
                 "fresh pages (FreshWithNoDependents / FreshOrDependent with an empty cell), updates in place (Known / filled cell), clears, a page cleared and ANOTHER page taking the freed bucket in the same sync, "
                 "the same page id cleared and re-created, empty changesets, pages probing from bucket 4095 / 4096, diffs with 0 / 1 / 126 slots and at the word boundary 63 / 64, fresh pages built in an un-zeroed pool page, "
                 "diffs that omit a changed slot (F20 / the seeded `C03-wal-diff-drops-reconstruction`), and changesets outside the contract (cleared page without bucket, bucket out of range, two pages one bucket, reserved diff bit, "
                 "a known bucket of another page, label != page id, the same page twice, a stored page announced fresh, full tables -> BucketExhaustion). One protocol line per sync: outcome, occupied_buckets, full_count, "
                 "length + FNV-1a-64 of the WAL blob, of the new meta map and of every page of the write list with its page number (HashSet order canonicalised), the bucket of every page, the cache updates — real vs Lean mirror. "
                 "Oracles independent of the model: the REAL recover (DB::open) on (old table file + blob) = old table + write list applied, byte for byte when every diff covers the differences, and in general equal on meta bytes / label / "
                 "elided field / named slots with the OLD byte elsewhere (C04/C03); the write list holds only buckets of updated pages and meta pages of changed buckets, overwrites no other stored page, recovery touches no foreign bucket (C17); "
                 "occupied_buckets = full_count = pages of a BTreeMap oracle (C19); every stored page is found by the real ProbeSequence + label check in its bucket, cleared / absent pages are not (C05); the blob read back by the real "
                 "WalBlobReader = one entry per page with its bucket (C03); the shared cell of a FreshOrDependent page holds its bucket afterwards. distinct & non-trivial = distinct protocol lines.")
# overlay index / value / value_iter on chains built from explicit change maps, the real BeatreeIterator on hand-built leaves and the
# overlay / disk merges of seek through real sessions (hook H6) against the Lean mirrors (driver mode `ovl`)
OVL_RUN = {"cmd": "overlay-index", "mode": "ovl", "cases": {"quick": 400, "thorough": 4000}, "shards": {"quick": 4, "thorough": 16}}
OVL_RULE = (" overlay-index: 5/8 overlay-chain cases (chains of 0..8 overlays over a dense key universe built from explicit change maps with the REAL Overlay / LiveOverlay: ancestor lists exact / short / long / "
            "wrong / reordered, commits and drops of ancestors, lookups of every key and value_iter over ranges whose bounds are on, just below and just above keys), 2/8 BeatreeIterator cases (staging maps merged "
            "with hand-built leaves), 1/8 real-store seek cases (overlay insertions / deletions merged with on-disk leaves, read off real path proofs); every answer vs the Lean mirror and vs BTreeMap folds.")
# the real bit operations of the B-tree (bit_ops.rs) and the real BranchNodeBuilder / get_key on caller-supplied pages (hook H7) against
# the Lean mirrors (driver mode `bitops`)
BITOPS_RUNS = [{"cmd": "bitops", "mode": "bitops", "cases": {"quick": 40000, "thorough": 1000000}, "shards": {"quick": 4, "thorough": 16}},
               {"cmd": "bitops-node", "mode": "bitops", "cases": {"quick": 1200, "thorough": 30000}, "shards": {"quick": 4, "thorough": 16}}]
BITOPS_RULE = (" bitops: per case 16 lines through the REAL bit_ops.rs (first / last chunk masks, prefix_len, separator_len, separate, reconstruct_key, bitwise_memcpy) on inputs aimed at the 64-bit chunk "
               "boundaries (bit offsets 0..8, lengths 0 / 1 / 63 / 64 / 65 / ..., keys sharing 0..255 bits, separators with many trailing zero bytes) and outside the documented contract (panic / silent garbage "
               "must be predicted by the mirror); bitops-node: the REAL BranchNodeBuilder (new / push / push_chunk with every prefix relation) and get_key on caller-supplied pages, page bytes compared with the "
               "Lean builder mirror byte for byte; oracle: naive bit-by-bit implementations in the harness.")
# the real SegmentedLog on a scratch directory, the delta codec and Rollback::read (hook H8) against the Lean model of the seglog as a
# directory of segment files (driver mode `seglog`)
SEGLOG_RUN = {"cmd": "seglog", "mode": "seglog", "cases": {"quick": 150, "thorough": 1500}, "shards": {"quick": 4, "thorough": 16}, "per_shard_cases": False}
SEGLOG_RULE = (" seglog: random operation sequences on the REAL SegmentedLog in a scratch directory (append with payload sizes around the segment size: roll-overs, multi-segment prunes, single-record segments; "
               "prune_oldest / prune_recent; close and reopen with chosen live ranges): after EVERY operation the directory listing (file names, sizes, FNV-1a of the bytes) and the records returned by reopening with the "
               "current live range must equal the Lean model; crash images built through the I/O hook (the k-th effect of an operation and every later one fail; torn appends; lost unlinks) must be opened by the real "
               "code as the model predicts; Delta::encode / decode and Rollback::read (`rbread`) on generated and malformed inputs.")
# trie positions / page ids / page regions / page layout (hook H9), worker split and witness assembly recorded from real updates (hook H10),
# the rollback delta builder and Rollback bookkeeping (hook H11), overflow values (hook H12) against their Lean mirrors
TRIEPOS_RUN = {"cmd": "triepos", "mode": "triepos", "cases": {"quick": 1500, "thorough": 20000}, "shards": {"quick": 4, "thorough": 16}}
SHARDS_RUN = {"cmd": "shards", "mode": "shards", "cases": {"quick": 60, "thorough": 3600}, "shards": {"quick": 4, "thorough": 16}}
# the commit / rollback pipelines of lib.rs + store/mod.rs + store/sync.rs: the real calls with every I/O event failing (hook H1) against the
# Lean step-sequence mirror (Api/Pipeline.lean, driver mode `pipeline`)
PIPE_RUN = {"cmd": "pipeline", "mode": "pipeline", "cases": {"quick": 20, "thorough": 480}, "shards": {"quick": 4, "thorough": 16}}
# the lock / micro-step recorder (hook H19): real multi-threaded schedules of the real store, recorded marker by marker, replayed in the two-lock LTS
# (Api/Locks2*.lean, Api/Locks2Replay.lean; driver mode `locks`): every recorded micro-step is the thread's next one and ENABLED in the model, every result is the model's
LOCKREC_RUN = {"cmd": "lockrec", "mode": "locks", "cases": {"quick": 320, "thorough": 9600}, "shards": {"quick": 4, "thorough": 16}}
LOCKREC_RULE = (" lockrec: per case ONE recorded schedule — a fresh store, 2…6 threads running 2…4 generated tasks each (session + blocking / non-blocking commit with retries, session + reads + drop, "
                "chains of 1…3 overlays (each further member prepared by a session on the chain so far — also when a competing commit has superseded the chain's base in the meantime: since the repair of F23 `Session::finish` must refuse exactly those, which the harness knows by asking `Nomt::root` under the session's own read guard) committed oldest first or child first, non-blocking commit while the thread's own session is alive, rollback 0…3, Nomt::root, Nomt::read; four task mixes), random yields / 20…270 µs sleeps at the "
                "marker sites (three intensities), never a blocking acquisition by a session owner (the F19 pattern stays in `locks-scenarios`), under a 20 s watchdog. The global marker log (real-time order) is rendered as `call` / `at` / `atv` / `spur` lines: "
                "acquisitions at their `got` marker, releases of the access lock lazily inside `pre … post`, failed `try_write`s at the first moment of `pre … busy` at which the model's lock is held (else the late `got` of the real holder is placed before it, "
                "else — nobody can hold it — the parking_lot PARKED_BIT event `spur`). K = the model answers every line like the real code: `ok ran` (the step is the thread's next micro-step and enabled), the value an observation step sees "
                "(session base root, Nomt::root, the stamp read through a session mapped to its root), `ok finished <result>` with the REAL result (ok / busy / err-stale / err-parent / err-not-enough / err-superseded for a refused `finish`), and the `final` line (root, content, rollback-log length, "
                "poison flag, verdicts in write-guard order). Oracles independent of the model: a session reads the stamp of the state its base root names; the write sections in write-guard order, replayed by a 20-line sequential interpreter in the harness, give every "
                "real result, the final root and the log length; final state not torn; not poisoned; no panic; terminates. distinct & non-trivial = distinct rendered schedules with at least 2 calls started while another thread was inside a call.")
# corpus: the history in which `rollback(1)` on a poisoned handle panicked in a merkle worker (finding F21, repaired by f36444c: must pass)
PIPE_CORPUS = [{"cmd": "pipeline", "mode": "pipeline", "args": ["--only-case", "5"], "cases": {"quick": 6, "thorough": 6}, "shards": {"quick": 1, "thorough": 1}, "seed": 23, "corpus": True}]
PIPE_RULE = (" pipeline: per case a generated history (session commits, an overlay commit, a rollback; 8 KiB rollback segments in a third of the cases, fat values in a third, the very first commit of a fresh "
             "store in a fifth), one refusal scenario (stale base through each of the four commit entry points, child overlay before its parent, try_write with a session alive, the rollback log's lock held, "
             "rollback beyond the log) followed by rollback(1), then a fault sweep over one call kind (commit / try_commit / Overlay::commit / Overlay::try_commit / rollback): the call runs once fault-free with "
             "the hook observing — its ordered event labels <file>:<Kind>:<site> go to the model (`pwork`: must be an order the pipeline can issue; the model takes its I/O work from them) — then for the first "
             "occurrence of every label and random other events k the directory is restored to the snapshot before the call, the handles are rebuilt and the call repeated with event k failing once / event k and "
             "all later ones failing (EIO); compared line by line with the model: result, reason (poisoned / stale / marker / busy / lock / i-o), is_poisoned, in-memory root, sync_seqn, length of the in-memory "
             "rollback log, values served, verdict of the next commit and of rollback(1) on the poisoned handle, and after drop + reopen root, seqn, log length, every value, a follow-up commit and rollback. "
             "Oracles (BTreeMap stack, reference trie): an injected failure is reported and poisons, Ok only without injection, reopen shows exactly pre or post, a refused call changes nothing. "
             "distinct & non-trivial = distinct (call kind, failing label, once / persistent, overlay-with-parent) tuples with an injected failure.")
DELTA_RUNS = [{"cmd": "delta", "mode": "delta", "cases": {"quick": 120, "thorough": 3000}, "shards": {"quick": 4, "thorough": 16}},
              {"cmd": "delta-log", "mode": "delta", "cases": {"quick": 1000, "thorough": 20000}, "shards": {"quick": 4, "thorough": 16}}]
LEAFUPD_RUN = {"cmd": "leafupd", "mode": "leafupd", "cases": {"quick": 400, "thorough": 12000}, "shards": {"quick": 3, "thorough": 16}}
# the real PageWalker over an in-memory page set (hook H14) against the Lean mirror Store/Walker*.lean (driver mode `walker`)
WALKER_RUN = {"cmd": "walker", "mode": "walker", "cases": {"quick": 240, "thorough": 8000}, "shards": {"quick": 4, "thorough": 16}}
WALKER_SPLIT_RUN = {"cmd": "walker", "mode": "walker", "args": ["--focus", "split"], "cases": {"quick": 120, "thorough": 4000}, "shards": {"quick": 4, "thorough": 16}}
WALKER_RULE = (" walker (hook H14): the REAL PageWalker<Blake3Hasher> over an in-memory implementation of its PageSet trait, one protocol line per call (new / advance / advance_and_replace / advance_and_place_node / conclude / "
               "reconstruct_pages), the answer carrying the walker's private state after the call (position, every stack entry with diff words, leaf counters and bitfield, sibling stack, a digest of the top page) and at conclude the root / "
               "child-page roots and every updated page with all its slots, diff words, bitfield and bucket. 4/5 of the cases are multi-pass histories on one page store (2..6 commits; key universes of clusters under page boundaries 6k-1/6k/6k+1, "
               "16..26-key clusters crossing the elision threshold in both directions, deep forks whose deletion collapses chains of pages, nested clusters; batches: bulk load, few changes, delete-most, contiguous runs, mixed with reads and absent "
               "keys; fresh pool pages zero or garbage; elision inhibited in 1/5), elided pages on the way to a terminal rebuilt by the real reconstruct_pages as seek does, 1/3 of the passes in the split flow of merkle::worker (sub-walkers with "
               "parent page ROOT deliver child-page roots which a root-page walker places); 1/5 are free-form scripts (backwards / same / into the parent page / below the previous terminal / missing pages / internal start nodes / unsorted and duplicate "
               "ops / deeper parent pages) where the model must predict ok / panic and the state. Oracles independent of the model: reference-trie root; every slot of every STORED page whose parent position is internal = reference node (whole store "
               "after every pass: unreported pages unchanged and still right); elision rule (required pages stored, stored pages exist below stored parents, elided bit = not stored for existing children); child-page roots = reference nodes; "
               "PageDiff: a page staying in its bucket names every slot whose content differs from the stored content, a page going to a fresh bucket names every meaningful slot, a cleared page was stored and is not required.")
BRANCHUPD_FIRSTLEAF = {"cmd": "branchupd-firstleaf", "mode": "branchupd", "cases": {"quick": 1, "thorough": 1}, "corpus": True}
BRANCHUPD_RUN = {"cmd": "branchupd", "mode": "branchupd", "cases": {"quick": 360, "thorough": 9000}, "shards": {"quick": 4, "thorough": 16}}
SEEK_RUN = {"cmd": "seek", "mode": "seek", "cases": {"quick": 360, "thorough": 9000}, "shards": {"quick": 6, "thorough": 16}}
OVERFLOW_RUN = {"cmd": "overflow", "mode": "overflow", "cases": {"quick": 160, "thorough": 3000}, "shards": {"quick": 4, "thorough": 16}}
UNIT_RULE = (" Unit-level differentials through nomt::verif_api: triepos (every function of trie_pos.rs / page_id.rs / page_region.rs and the page node layout on positions of every depth 1..256, moves, page ids of depth 0..42, "
             "malformed inputs where the Rust asserts); shards (worker ranges, batch ownership, witnessed_start, child-page roots, pending list and the witness exactly as join assembles it, recorded from REAL updates with worker counts "
             "{1,2,3,5,6,7,12,33,64} and root-page terminals straddling region boundaries); delta / delta-log (the priors the real delta builder computes on overlay chains that delete / insert / overwrite the same keys, small and overflow "
             "values, blind writes and read-then-writes; the real Rollback alone: commit, commit_nonblocking busy, truncate, sync, reopen); overflow (chunk / read / AsyncReader / delete / cell codec on a scratch file at every length boundary: "
             "1333, k*4092 +- 1, the 15 -> 16 pointer spill, up to 4.2 MB). leafupd (the REAL LeafUpdater on caller-supplied base leaves: ingest / digest / merges across following leaves / bulk splits, cells around the size thresholds, overflow cells; produced leaves, separators, cutoffs, the overflow-callback log and the private state after every call). branchupd (hook H14: the REAL BranchUpdater / BranchOpsTracker / BranchGauge / build_branch on base nodes built with the real BranchNodeBuilder, step by step, and the WHOLE real branch stage — run_worker, NodesTracker, index update — on the same level: shared prefixes of 8..31 bytes followed by outsiders, prefix compression stopped inside a node, nodes at BRANCH_NODE_BODY_SIZE and at the merge threshold, bulk splits, KeepChunk splitting, deletes that empty nodes, merges cascading over several nodes, Update of existing separators, 1..3 rounds on the levels the real code produced; produced nodes with every stored separator length, cutoffs, DigestResults, the private ops / gauge after every call, the resulting level and the freed page numbers). Every line vs the Lean mirror and vs independent harness oracles.")
SEEK_RULE = (" seek (hook H18): the REAL SeekRequest state machine (new / next_query / continue_seek / continue_leaf_fetch / continue_leaves_fetch with the real reconstruct_pages / range_bounds) over a real PageSet, PageCache and LiveOverlay "
             "and hand-built b-tree leaves, branch nodes and staging maps, driven step by step: the harness answers every page and leaf request itself, in any order, for 1..7 interleaved keys sharing one page set (cold / partly warm / warm cache, "
             "pages carried by overlays, stale page images at elided page ids in overlays and in the cache, a new or frozen page set between seekers). Key sets: clusters of 2..41 keys under 12..120-bit prefixes (18/19/20/21/22 around the elision "
             "threshold, elided pages below elided pages, stored pages the rule would elide), deep forks, tiny sets, terminals at 6k-1/6k/6k+1; overlay chains of 0..3 overlays with inserts, overwrites, deletions, NAKED deletions, insert-then-delete "
             "across overlays, staging inserts / deletions, inline and overflow values. Every intermediate request state (position, node index, page id, sibling count and last sibling, fetch state, awaited query, ios) and every result vs the Lean mirror; "
             "oracles: reference-trie proof, the real verifier on the resulting PathProof, requested pages on the key's path / leaves inside the key range, every page the seek put into the page set slot by slot vs the reference trie, "
             "the chain's value_iter vs the BTreeMap fold; a malformed stream (answers nobody asked for, wrong leaves, a tree whose first separator is not the zero key) where panics are answers.")
IMG_RUN = {"cmd": "image", "mode": "image", "cases": {"quick": 24, "thorough": 400}, "shards": {"quick": 8, "thorough": 16}}
# directed replay (corpus): history 18 of image seed 1000 — 1616 fat-valued keys, half of them under a 200-bit common prefix;
# the commit that splits the branch node writes a separator whose last bit is lost (see KNOWN finding candidate F13 in the report)
IMG_CORPUS = [{"cmd": "image", "mode": "image", "args": ["--only", "18"], "fixed_seed": 1000, "cases": {"quick": 19, "thorough": 19},
               "shards": {"quick": 1, "thorough": 1}, "corpus": True}]
IMG_TB = ["Lean decoders of the on-disk formats (lean/NomtModel/Store/Img*.lean) are hand-written from the layout comments of the Rust sources; they are tied to the real files by the image run (every snapshot of a real directory must decode to the oracle's committed map)",
          "BLAKE3 (arbitrary length) and XXH3-64 (32-byte input, seeded) implemented in Lean, validated by the same run (value hashes, merkle nodes, meta-byte tags and probe positions of real directories)",
          "harness oracle: BTreeMap of the committed state kept by the history engine (harness/src/db.rs), written to expected.txt",
          "snapshots are file copies taken at quiescent points (after commit / rollback / reopen returned)"]
IMG_ASSUME = ["single-threaded histories; snapshots only at quiescent points (crash images are C10/C17)", "tmpfs directory under /dev/shm", "4096-bucket hash tables; page ids of depth <= 40 (the add-then-shift label of PageId::encode overflows 256 bits beyond)"]
IMG_RULE = ("cases = generated histories of the history engine (session / overlay commits, rollback(n), reopen with another configuration) on a 4096-bucket table, "
            "batch scale 1..30 (up to several hundred keys), value lengths straddling 1332 / 4092 / 15*4092 bytes (overflow chains), deletions; one protocol line "
            "`check <snapshot-dir> <expected-file>` per quiescent point: the Lean driver reads meta, ln, bbn, ht, wal and rollback.* itself, decodes them, runs wfImage "
            "(page ownership, key order, separator ranges, overflow chains, free lists), wfTable (meta bytes, labels, xxh3 tag and probe position), checkMerkle "
            "(every reachable node of every stored page = nodeAt, elision rule) and compares absImage with the committed map (length + Blake3 of every value). "
            "Any `bad …` answer is an oracle failure. distinct & non-trivial = snapshots with a non-empty committed state, identified by (cause, expected-state file).")

# tombstone churn on tiny hash tables under a watchdog (found F9: Nomt::open spinning forever)
CHURN = {"cmd": "churn", "args": ["--cycles", "150"], "cases": {"quick": 4, "thorough": 4}, "seed": 1, "corpus": True}

# C04 order monitor (Store/TraceOrder.lean) on the Begin / End trace of every state-changing operation of generated histories
ORDER_RUNS = [{"cmd": "placement", "mode": "image", "args": ["--focus", "general", "--nops", "14"], "cases": {"quick": 24, "thorough": 320}, "shards": {"quick": 6, "thorough": 16}},
              {"cmd": "placement", "mode": "image", "args": ["--focus", "rollback", "--nops", "14", "--segsize", "8192"], "cases": {"quick": 16, "thorough": 200}, "shards": {"quick": 4, "thorough": 16}},
              {"cmd": "placement", "mode": "image", "args": ["--focus", "overlay", "--nops", "14"], "cases": {"quick": 8, "thorough": 100}, "shards": {"quick": 2, "thorough": 16}}]
ORDER_RULE = (" Order monitor: the Lean driver evaluates `checkOrder` (Store/TraceOrder.lean) on the ordered Begin / End events of EVERY state-changing operation of generated histories "
              "(placement runs) and `checkRecoveryOrder` on the events of EVERY recovery the crash enumeration performs (`recovery <trace>` lines): an effect counts as durable only if it completed "
              "before an fsync of its file (a directory fsync for creates / unlinks) was issued and that fsync completed; when the meta page is written nothing issued before may be volatile; nothing is "
              "issued between the meta write and the completion of its fsync; hash-table pages are written only after that and only if a redo log was written before; the redo log is truncated (by a sync "
              "or by recovery) only when every hash-table page written so far is durable; ln / bbn pages are not written after the switch-over; the operation does not return with the meta page volatile. "
              "These are the order clauses (`hflushed`, the shape of `post`) of T4.1 / T4.2 / T3.2, decided on the real concurrent trace."
              " Choreography membership (Store/SyncGen.lean, Props/C04_SyncGen.lean, Props/C03_SyncGen.lean): on the SAME `placement` / `recovery` lines the driver reads the parameters "
              "(page lists, segment names, lengths, threads) off the recorded trace (`paramsOf` / `recParamsOf`) and decides with `member` / `firstDiff` whether the trace is a run of the "
              "sync program / the trace of the recovery program instantiated with them: every line must be a step the program can take in its state, i.e. the real order respects EVERY "
              "happens-before edge of the model (and issues no action the model lacks, and every modelled action); `member=1` / `rec_member=1` in the answer, a non-member is a `bad order: choreography` "
              "(C04) / `bad member` (C03) line with the position and text of the first offending trace line. T4_sync_program_accepted / T3_recovery_program_accepted prove that EVERY run of "
              "these programs, for every parameter choice, is accepted by the monitors; the evidence counts the traces checked and which optional parts occurred (img_mem_* / img_rec_* totals).")

PROPS = {
    "C07": {
        "runs": [
            {"cmd": "core-mp", "mode": "core", "cases": {"quick": 800, "thorough": 30000}, "shards": {"quick": 8, "thorough": 16}},
            {"cmd": "core-mp-corpus", "mode": "core", "cases": {"quick": 1, "thorough": 1}, "corpus": True},
        ],
        "rule": "cases = random key sets (0..60 keys, clustered prefixes) x a random non-empty set of 1..20 query keys: honest path proofs (sorted by terminal path, identical terminals merged) -> real MultiProof::from_path_proofs -> verify_multi_proof -> find_index_for / confirm_value / confirm_nonexistence / ..._with_index on query keys, keys around every terminal and random keys -> 2 honest in-scope write sets through verify_multi_proof_update, each compared with (a) the Lean mirror line by line, (b) the key-value set, (c) the single-path verifier on the same key / write set, (d) the reference root of the updated set; then 6 mutated multi-proof objects per case (depth +-1 / 256 / 257 / 300 / 2^20 / below the bisection depth / = path length, terminator shorter or longer than its depth, dropped / added / truncated / trailing / flipped / zeroed / swapped siblings, swapped / duplicated / removed / truncated paths, prefix-related terminals replaced or inserted, neighbour sharing the whole prefix, terminal kind / key / value changes, empty proof with and without siblings, wrong root; 1 in 4 doubly mutated), each verified against the true root and, if rejected, against the root it hashes to itself (harness-side, panic-free), accepted ones followed by confirm queries and honest + malformed write sets (swapped, duplicated, random, out-of-scope-but-sorted, reversed, empty); plus malformed from_path_proofs input (duplicate, unordered pair, prefix pair). Every call under catch_unwind. non-trivial & distinct = distinct mutated-object or update lines (hash of the protocol line).",
        "trusted_base": HASH_TB + ["Debug rendering of VerifiedMultiProof is used to read its private depth / sibling-range fields"],
        "assumptions": ["unproved in Lean, held by this run only: completeness of find_index_for; the `aligned` token printed by the driver re-checks theorem T7.1 at run time on every accepted object",
                        "from_path_proofs is only fed unordered input of length 2 (longer unordered input can make the real loop spin exponentially long)"],
    },
    "C16": {
        "tags": ['C16', 'C01'],
        "runs": IMG_CORPUS + [{"cmd": "image-prefix-shrink", "mode": "image", "cases": {"quick": 1, "thorough": 1}, "corpus": True},
                              {"cmd": "image-prefix-tail", "mode": "image", "cases": {"quick": 1, "thorough": 1}, "corpus": True},
                              {"cmd": "image-script", "mode": "image", "args": ["--focus", "script-freelist-reopen"], "cases": {"quick": 1, "thorough": 1}, "corpus": True},
                              {"cmd": "image-range-sweep", "mode": "image", "cases": {"quick": 1, "thorough": 4}, "shards": {"quick": 4, "thorough": 16}, "per_shard_cases": True},
                              {"cmd": "image-branch-merge-sweep", "mode": "image", "cases": {"quick": 1, "thorough": 4}, "shards": {"quick": 4, "thorough": 16}, "per_shard_cases": True},
                              {"cmd": "image-branch-ops", "mode": "image", "cases": {"quick": 8, "thorough": 160}, "shards": {"quick": 8, "thorough": 16}}, dict(IMG_RUN), dict(WAL_RUN), dict(TRIEPOS_RUN), dict(OVERFLOW_RUN), dict(LEAFUPD_RUN), dict(WALKER_RUN), dict(BRANCHUPD_RUN)] + BITOPS_RUNS + CRASH_IMAGES,
        "rule": IMG_RULE + CRASH_IMAGES_RULE + WAL_RULE + BITOPS_RULE + UNIT_RULE + WALKER_RULE,
        "trusted_base": IMG_TB, "assumptions": IMG_ASSUME,
    },
    "C19": {
        "tags": ['C19'],
        "runs": [{"cmd": "image-leak", "mode": "image", "cases": {"quick": 1, "thorough": 1}, "corpus": True, "leaks_fail": True},
                 {"cmd": "image-cycles", "mode": "image", "args": ["--cycles", "10", "--keys", "300"], "cases": {"quick": 1, "thorough": 1}, "corpus": True, "leaks_fail": True},
                 {"cmd": "image-cycles", "mode": "image", "args": ["--cycles", "8", "--keys", "2500"], "cases": {"quick": 0, "thorough": 1}, "corpus": True, "leaks_fail": True, "thorough_only": True},
                 {"cmd": "image-script", "mode": "image", "args": ["--focus", "script-freelist-reopen"], "cases": {"quick": 1, "thorough": 1}, "corpus": True, "leaks_fail": True},
                 dict(IMG_RUN, leaks_fail=True), dict(ALLOC_FL), dict(ALLOC_PROBE), dict(PREPSYNC_RUN), dict(OVERFLOW_RUN), dict(LEAFUPD_RUN), dict(BRANCHUPD_RUN)] + CRASH_IMAGES[:3],
        "rule": IMG_RULE + ALLOC_RULE + PREPSYNC_RULE + CRASH_IMAGES_RULE + " After a crash: the occupancy reported by the HANDLE THAT RECOVERED the directory (after its follow-up commit) is compared with the full buckets of the table it leaves (counter recovered_occupancy_compared)." + " C19 (accounting): for ln and bbn every page number in [1, bump) must be in use by the decoded state (leaf / overflow / branch) or tracked by the "
                "free list (free-list page or listed free page), and no page may be both; the driver prints ln_leaked / bbn_leaked per snapshot and any non-zero value is reported as "
                "`C19 leaked pages: …`; hash-table occupancy: the value returned by Nomt::hash_table_utilization().occupied at every snapshot must equal the number of full meta bytes the decoder finds (ht_full), which in turn must equal the number of merkle pages that must be stored (0 for the empty store); frontier: 10 (thorough: 8 x 2500 keys, several free-list pages) identical fill / refill-with-migrating-value-sizes / empty cycles, criterion fixed in advance: ln_bump and bbn_bump read from the meta page after the last cycle must not exceed those after cycle 4.",
        "trusted_base": IMG_TB, "assumptions": IMG_ASSUME,
    },
    "C08": {
        "runs": [
            {"cmd": "core-pp", "mode": "core", "cases": {"quick": 1200, "thorough": 40000}, "shards": {"quick": 8, "thorough": 16}},
            {"cmd": "core-mp", "mode": "core", "cases": {"quick": 800, "thorough": 30000}, "shards": {"quick": 8, "thorough": 16}},
        ],
        "rule": "cases = random key sets (0..60 keys, clustered prefixes at page/byte boundaries and depth 246..255) x 4 query keys x (honest proof + 3 mutants: sibling flip/drop/add/swap/zero/truncate, terminal key/value/kind, wrong root, other key, short key slice, >256 siblings) with confirm_value/confirm_nonexistence queries against the truth set, plus 3 verify_update cases per set (honest and 7 malformed shapes). non-trivial & distinct = distinct mutated-proof or update lines (hash of the protocol line).",
        "trusted_base": HASH_TB,
        "assumptions": ["multi-proof soundness is theorem Nomt.C07.T8_2_multi_proof_sound (Props/C07.lean); the multi-proof stream of C07 runs here as well"],
    },
    "C18": {
        "runs": [
            {"cmd": "core-pp", "mode": "core", "cases": {"quick": 1200, "thorough": 40000}, "shards": {"quick": 8, "thorough": 16}},
            {"cmd": "core-mp", "mode": "core", "cases": {"quick": 800, "thorough": 30000}, "shards": {"quick": 8, "thorough": 16}},
            {"cmd": "core-mp-corpus", "mode": "core", "cases": {"quick": 1, "thorough": 1}, "corpus": True},
        ],
        "rule": "same adversarial stream as C08 plus the malformed multi-proof stream of C07 and the corpus of the six former verify_range panic inputs (harness/corpus/core-mp-verify-panics.txt, expected verdicts InvalidDepth / TooFewSiblings / PathPrefixOfAnother), every call under catch_unwind; the model must predict ok / which error / panic for every line; any panic of the real verifier is an oracle failure `C18 PANIC in ...`. non-trivial = mutated or malformed object.",
        "trusted_base": HASH_TB,
        "assumptions": ["verify_multi_proof_update: only the sites listed in T18_5_partial are proved unreachable; the CommonSiblings asserts / unwrap are held by the core-mp differential (no panic observed, model agreement on every line)"],
    },
    # ---------------- API-level properties: history engine (harness/src/db.rs) vs Lean `api` model ----------------
    "C01": {
        "lines": ['read', 'dread', 'commit', 'trycommit', 'ocommit', 'otrycommit', 'seqn', 'init', 'begin', 'sdrop', 'fdrop', 'odrop'],
        "tags": ['C01'],
        "runs": DB_SCN(["empty-store-delete-only", "overwrite-huge-value-with-rollback"]) + IMG_CORPUS + [
            {"cmd": "image-prefix-shrink", "mode": "image", "cases": {"quick": 1, "thorough": 1}, "corpus": True},
            {"cmd": "image-prefix-tail", "mode": "image", "cases": {"quick": 1, "thorough": 1}, "corpus": True},
            {"cmd": "image-branch-ops", "cases": {"quick": 48, "thorough": 800}, "shards": {"quick": 8, "thorough": 16}},
            # range-delete sweep: a fresh bulk-loaded store per length, one commit deleting a run of L keys inside one branch node (4 shards = 4 quarters of the sweep)
            {"cmd": "image-range-sweep", "cases": {"quick": 1, "thorough": 4}, "shards": {"quick": 4, "thorough": 16}, "per_shard_cases": True},
            {"cmd": "image-branch-merge-sweep", "cases": {"quick": 1, "thorough": 4}, "shards": {"quick": 4, "thorough": 16}, "per_shard_cases": True},
            dict(OVERFLOW_RUN), dict(LEAFUPD_RUN), dict(BRANCHUPD_RUN), dict(BRANCHUPD_FIRSTLEAF),
            DB("kv", 160, 1600, nops=16, big=True),
            DB("kv", 6, 60, nops=20, big=True, scale=100, shards_q=6),
            DB("general", 80, 800, nops=14),
        ],
        "rule": DB_RULE + " C01 focus: commits dominate; value lengths straddle 1332 (in-leaf limit), 4092 (one overflow page), 15*4092 and 16*4092 (in-cell pointer limit) and 64 KiB+; scale=100 histories hold thousands of keys so leaves and branches split and merge.",
        "trusted_base": API_TB, "assumptions": API_ASSUME,
    },
    "C02": {
        "lines": ['root', 'finish', 'overlay', 'reopen', 'rootof', 'buildtrie', 'setkv'],
        "tags": ['C02'],
        "runs": DB_SCRIPT(["script-elision-threshold"]) + [DB("kv", 120, 1200, nops=14), DB("kv", 6, 60, nops=16, scale=100, shards_q=6), DB("overlay", 60, 600, nops=14),
                 {"cmd": "core-pp", "mode": "core", "cases": {"quick": 300, "thorough": 6000}, "shards": {"quick": 4, "thorough": 16}}, dict(TRIEPOS_RUN), dict(SHARDS_RUN), dict(WALKER_RUN)],
        "rule": DB_RULE + UNIT_RULE + WALKER_RULE + " C02: every root reported by the real code (session base, finished session, overlay, Nomt::root, after reopen/rollback) is compared with the Lean specification function nodeAt executed on the model's key-value list (Blake3 implemented in Lean) and with the harness reference trie.",
        "trusted_base": API_TB, "assumptions": API_ASSUME,
    },
    "C05": {
        "lines": ['prove', 'pshash', 'psnext', 'psalloc', 'pslookup', 'iter', 'bti', 'leaffetch', 'seeknode'],
        "tags": ['C05'],
        "runs": DB_SCRIPT(["script-elision-threshold"]) + [DB("kv", 120, 1200, nops=14), DB("overlay", 80, 800, nops=14), DB("overlay", 120, 1200, nops=16, big=True), DB("reopen", 60, 600, nops=14), DB("kv", 4, 40, nops=14, scale=100, shards_q=4), dict(ALLOC_PROBE), dict(ALLOC_LOOKUP), dict(OVL_RUN), dict(TRIEPOS_RUN), dict(SEEK_RUN)],
        "rule": DB_RULE + OVL_RULE + SEEK_RULE + " C05: Session::prove for present keys, absent keys diverging from a present key at interesting depths (page boundaries 6k-1..6k+1, just below the terminal, 246..255) and random keys, on plain / overlay sessions, cold caches after reopen; the proof object must equal the Lean proveSpec (terminal + every sibling) and verify + confirm the session's view with the real verifier.",
        "trusted_base": API_TB, "assumptions": API_ASSUME,
    },
    "C09": {
        "lines": ['rollback', 'root', 'dread', 'seqn', 'reopen', 'commit', 'trycommit',
                  'append', 'close', 'crash', 'deltadec', 'deltaenc', 'new', 'open', 'probe', 'pruneold', 'prunerecent', 'rbread', 'reprobe'],
        "tags": ['C09', 'C01', 'C02'],
        "runs": DB_SCN(["stale-nonblocking-then-rollback", "reopen-resurrects-pruned-delta", "rollback-all-then-reopen", "rollback-reopen-rollback-reopen", "overwrite-huge-value-with-rollback"]) + [
            DB("rollback", 200, 2000, nops=18), DB("rollback", 120, 1200, nops=20, segsize=8192), DB("general", 80, 800, nops=16, big=True), CHURN, dict(SEGLOG_RUN)] + DELTA_RUNS,
        "rule": DB_RULE + SEGLOG_RULE + UNIT_RULE + " C09 focus: max_rollback_log_len in {1,2,3,5}; rollback(n) with n in {0,1,2,len,len+1}; rollbacks after reopen, after stale commits, over overlay commits and large values; the oracle keeps the previous committed maps.",
        "trusted_base": API_TB, "assumptions": API_ASSUME + ["segment roll-over and pruning of the rollback log are reached through the cfg(nomt_verif) segment-size override (8 KiB segments); the 64 MiB default is not reached by quick runs"],
    },
    "C11": {
        "lines": ['begin', 'read', 'prove', 'finish', 'overlay', 'ocommit', 'otrycommit', 'root', 'odrop', 'sdrop', 'dread',
                  'live', 'val', 'page', 'commit', 'drop', 'dropl', 'pstatus', 'reset', 'seeknode', 'iter'],
        "tags": ['C11', 'C01', 'C02', 'C05'],
        "runs": DB_SCN(["rejected-overlay-marks-committed"]) + [DB("overlay", 200, 2000, nops=18), DB("general", 60, 600, nops=16), dict(OVL_RUN), dict(DELTA_RUNS[0]), dict(SEEK_RUN),
                 # F23 (repaired a527db9): a session on a SUPERSEDED overlay chain must be refused at finish; plus plain ABA changesets (prepared on r, competing commit rolled back) which must pass
                 {"cmd": "lockrec-aba", "cases": {"quick": 300, "thorough": 300}, "shards": {"quick": 1, "thorough": 1}, "seed": 1, "corpus": True}],
        "rule": DB_RULE + OVL_RULE + SEEK_RULE + " C11 focus: overlay trees (chains, sibling forks, dropped and committed ancestors), sessions on every live fork, wrong / incomplete / reordered ancestor lists, in-order and out-of-order overlay commits.",
        "trusted_base": API_TB, "assumptions": API_ASSUME,
    },
    "C12": {
        "lines": ['commit', 'trycommit', 'ocommit', 'otrycommit', 'root', 'seqn', 'rollback', 'dread'],
        "tags": ['C12', 'C09', 'C01', 'C02'],
        "runs": DB_SCN(["stale-nonblocking-then-rollback", "rejected-overlay-marks-committed"]) + [DB("reject", 200, 2000, nops=16), DB("general", 60, 600, nops=16)] + DELTA_RUNS + [dict(PIPE_RUN),
                 # plain ABA: changesets prepared on r, a competing commit committed and rolled back, then accepted — must leave the root of the content (the F23 cases of the same run are tagged C11)
                 {"cmd": "lockrec-aba", "cases": {"quick": 300, "thorough": 300}, "shards": {"quick": 1, "thorough": 1}, "seed": 1, "corpus": True}],
        "rule": DB_RULE + PIPE_RULE + " C12 focus: pairs of changesets on one base committed in both orders and flavours (blocking / non-blocking, session / overlay), rollback in between, non-blocking commits while a session is alive; after every rejected or deferred attempt root, seqn, values and the result of later rollbacks are compared.",
        "trusted_base": API_TB, "assumptions": API_ASSUME,
    },
    # ---------------- crash / power-loss / fault enumeration (harness/src/crash.rs + cfg(nomt_verif) I/O hook) ----------------
    "C03": {
        "exclude_tags": ["C04", "C17"],
        "runs": [dict(WAL_RUN), dict(PREPSYNC_RUN), dict(SEGLOG_RUN), CRASH("crash", "general", 6, 60, steps=2, shards_q=6, wal=True), CRASH("crash", "rollback", 3, 30, steps=2, shards_q=3), CRASH("crash", "rollback", 3, 30, steps=2, shards_q=3, nops=12, segsize=8192),
                 CRASH("nested", "general", 2, 20, steps=1, shards_q=2), CRASH("crash", "kv", 2, 20, steps=1, shards_q=2, big=True)] + SCRIPTED("nested") + SCRIPTED("crash"),
        "rule": CRASH_RULE + WAL_RULE + PREPSYNC_RULE + SEGLOG_RULE + " C03: process crash (every issued effect stays) at EVERY event index of the chosen operations (session commits, overlay commits, rollbacks), plus nested crashes at every event of the recovery itself (each probe on a fresh copy of the crashed directory), and two directed multi-segment rollback histories with 8 KiB rollback segments. distinct & non-trivial = distinct (operation, event index strictly inside the operation, variant) triples.",
        "trusted_base": DISK_TB, "assumptions": DISK_ASSUME,
    },
    "C04": {
        "runs": [CRASH("power", "general", 4, 40, steps=2, shards_q=4, wal=True), CRASH("power", "rollback", 2, 20, steps=2, shards_q=2), CRASH("power", "rollback", 4, 40, steps=3, shards_q=4, nops=12, segsize=8192), CRASH("power", "kv", 2, 20, steps=1, shards_q=2, big=True),
                 CRASH("nested-power", "general", 4, 40, steps=1, shards_q=4), CRASH("nested-power", "rollback", 2, 20, steps=1, shards_q=2, nops=12, segsize=8192)] + SCRIPTED("power") + ORDER_RUNS + [dict(PREPSYNC_RUN)],
        "rule": CRASH_RULE + ORDER_RULE + PREPSYNC_RULE + " C04: at every event index the child reverts un-fsynced effects before dying: all of them, a seeded random half, and each single one (all single-loss subsets when <= 6 are pending, else a rotating single loss / single survivor); an effect counts as synced only if it COMPLETED before an fsync of its file was ISSUED and that fsync completed. Creates / unlinks of one directory are lost as a suffix in issue order (ordered metadata journal), data pages as arbitrary subsets. nested-power: a process crash at every event, then a power loss (all / a random half of the recovery's own un-fsynced effects) at every event of the recovery (found F17).",
        "trusted_base": DISK_TB, "assumptions": DISK_ASSUME + ["4 KiB page atomicity; tmpfs stands in for the device and the hook's journal for the page cache", "ordered metadata journal: creates / unlinks of one directory reach the disk in issue order (a suffix of the un-synced ones is lost), as on ext4 / xfs / btrfs / apfs"],
    },
    "C14": {
        "exclude_tags": ["C04", "C17"],
        "runs": [dict(CRASH("fault", "kv", 3, 3, steps=3, shards_q=1, nops=10), seed=5), dict(CRASH("fault", "general", 2, 2, steps=2, shards_q=1), seed=2),
                 CRASH("fault", "general", 6, 60, steps=2, shards_q=6), CRASH("fault", "rollback", 3, 30, steps=2, shards_q=3),
                 CRASH("fault", "kv", 4, 40, steps=3, shards_q=4, big=True, nops=10), CHURN] + PIPE_CORPUS + [dict(PIPE_RUN)],
        "rule": CRASH_RULE + PIPE_RULE + " C14: every event index of the chosen operations completes with EIO, once and persistently (writes fail at completion, fsync / resize / unlink at the call); the child reports the result of the call and is_poisoned, then the directory is reopened. Two fixed-seed corpus runs replay the histories that exposed F2 and F8.",
        "trusted_base": DISK_TB, "assumptions": DISK_ASSUME + ["bucket exhaustion is exercised by the API histories with small tables (not yet at every allocation index)"],
    },
    "C10": {
        "tags": ['C10', 'C01', 'C02', 'C05', 'C09'],
        "runs": DB_SCN(["reopen-resurrects-pruned-delta", "rollback-all-then-reopen", "rollback-reopen-rollback-reopen"]) + DB_SCRIPT(["script-freelist-reopen"]) + [DB("reopen", 200, 2000, nops=18), DB("reopen", 6, 60, nops=16, big=True, scale=50, shards_q=6), DB("rollback", 60, 600, nops=16), DB("reopen", 80, 800, nops=18, segsize=8192),
                 CRASH("crash", "reopen", 2, 20, steps=1, shards_q=2), CHURN, dict(ALLOC_LOOKUP), dict(SEGLOG_RUN), dict(ALLOC_FL)],
        "rule": DB_RULE + ALLOC_LOOKUP_RULE + " alloc-freelist (hook H14): after every sync of the real FreeList the pages written so far are put into a scratch file and read back by the REAL FreeList::read from the new head: portions (order included) and the cached length must equal those of the running handle (counters fl_read_back / fl_read_back_multi_page)." + " C10 focus: the handle is dropped and reopened (with an independently drawn runtime configuration: workers, cache sizes, io workers, warm-up, prepopulation, upper levels) at random positions, up to half of all steps; after every reopen root, sync_seqn, sampled values, hash_table_utilization().occupied (must equal the pre-close value) and all later commits / rollbacks are compared with a model that ignores close/open.",
        "trusted_base": API_TB, "assumptions": API_ASSUME + ["open retried for up to 5 s when the old handle's directory lock is still held by a background thread (that delay is C20's subject)"],
    },
    "C13": {
        "runs": [{"cmd": "db-matrix", "mode": "api", "args": ["--focus", "general", "--nops", "12", "--variants", "8"], "cases": {"quick": 40, "thorough": 400}, "shards": {"quick": 8, "thorough": 16}},
                 {"cmd": "db-matrix", "mode": "api", "args": ["--focus", "kv", "--nops", "12", "--variants", "5", "--scale", "60"], "cases": {"quick": 4, "thorough": 40}, "shards": {"quick": 4, "thorough": 16}},
                 # fat values (3 keys per leaf): hundreds of leaves, so that a 1 MiB leaf cache (256 leaves) is full and page numbers are recycled under it
                 {"cmd": "db-matrix", "mode": "api", "args": ["--focus", "kv", "--nops", "12", "--variants", "5", "--scale", "30", "--fat"], "cases": {"quick": 8, "thorough": 80}, "shards": {"quick": 4, "thorough": 16}},
                 dict(SHARDS_RUN), dict(WALKER_SPLIT_RUN)],
        "rule": UNIT_RULE.strip() + WALKER_RULE + " cases = generated histories, each executed under 5-8 configurations (commit_concurrency in {1,2,3,4,5,7,8,16,33,64}, warm_up on/off, page cache 1..256 MiB, leaf cache 1..256 MiB, io_workers 1..3, prepopulation, upper levels 0..3, hashtable_buckets in {4096,16384,64000}, different bitbox seeds; the runtime configuration also changes at every reopen); EVERY protocol line (roots, values, proofs byte-for-byte, commit / rollback verdicts, seqn) must be identical across configurations and equal to the configuration-free Lean model. distinct & non-trivial = (history, configuration) pairs beyond the first configuration that completed identically.",
        "trusted_base": API_TB, "assumptions": ["thread interleavings are whatever the runs happen to exhibit (sampled, not enumerated)", "sha2 hasher variant not exercised (engine is instantiated with Blake3)"],
    },
    "C06": {
        "lines": ['witness'],
        "tags": ['C06'],
        "runs": DB_SCN(["witness-many-workers"]) + [DB("kv", 200, 2000, nops=14), DB("overlay", 80, 800, nops=14), DB("kv", 6, 60, nops=14, scale=60, shards_q=6), DB("general", 60, 600, nops=14), dict(SHARDS_RUN)],
        "rule": DB_RULE + UNIT_RULE + " C06: half of all sessions (all in the directed scenario) run with WitnessMode::read_write(); the real witness is (i) verified path by path against the base root, every read confirmed with the real verifier and compared with the session's view, every write matched against the batch, and replayed with the real verify_update against the reported new root (oracle), and (ii) canonicalised and compared byte-for-byte with the Lean witnessSpec. Batches mix reads, writes, read-then-writes, deletes of absent keys, several keys per terminal, 1..64 workers.",
        "trusted_base": API_TB, "assumptions": API_ASSUME,
    },
    "C20": {
        "runs": [{"cmd": "flock", "cases": {"quick": 2, "thorough": 10}, "shards": {"quick": 4, "thorough": 16}, "per_shard_cases": True}],
        "rule": "cases = per case: a 6-thread creation race on an absent / empty directory (at most one winner), then with the winner's handle alive: 3 opens from the same process, a 6-thread race and an open from a second process (all must be refused) with a fingerprint (length + hash of every file) of the directory before and after, an strace of a refused open from another process (only the directory and .lock may be opened before the failing flock; no write / pwrite / ftruncate / unlink / rename / mkdir / fallocate), then drop and reopen at once (fingerprint unchanged across drop + reopen: no background writer after drop returned), a handle poisoned by an injected I/O error dropped and reopened, and a holder process killed with SIGKILL followed by a reopen. distinct & non-trivial = (seed, case) pairs of creation races and of refused-open groups.",
        "trusted_base": ["OS semantics of flock(LOCK_EX|LOCK_NB): atomic, per open file description, released at process death; O_CREAT on an existing .lock does not modify it",
                         "protocol model Api/Flock.lean is hand-written from Store::open / Flock / Drop for Shared"],
        "assumptions": ["thread and process timings are sampled, not enumerated", "a creation race with NO winner (documented TOCTOU in Store::open) is recorded, not failed: the property bounds the number of live handles from above",
                        "reopen after drop is retried for up to 3 s (the lock is released by whichever thread drops the last reference to the store); the number of retries needed is reported"],
    },
    "C17": {
        "tags": ['C17'],
        "runs": [{"cmd": "placement", "mode": "image", "args": ["--focus", "general", "--nops", "14"], "cases": {"quick": 24, "thorough": 320}, "shards": {"quick": 8, "thorough": 16}},
                 {"cmd": "placement", "mode": "image", "args": ["--focus", "kv", "--nops", "12", "--scale", "40", "--big"], "cases": {"quick": 4, "thorough": 32}, "shards": {"quick": 4, "thorough": 16}},
                 {"cmd": "placement", "mode": "image", "args": ["--focus", "rollback", "--nops", "14"], "cases": {"quick": 8, "thorough": 96}, "shards": {"quick": 4, "thorough": 16}},
                 dict(ALLOC_FL), dict(PREPSYNC_RUN), {"cmd": "placement", "mode": "image", "args": ["--focus", "script-freelist-two-pages"], "cases": {"quick": 1, "thorough": 1}, "shards": {"quick": 1, "thorough": 1}, "fixed_seed": 1, "corpus": True, "thorough_only": True}],
        "rule": ALLOC_RULE.strip() + PREPSYNC_RULE + " Placement runs: cases = generated API histories; before EVERY state-changing operation (session commit, overlay commit, rollback) the directory is copied (pre-image) and the ordered I/O events the operation issues are recorded through the cfg(nomt_verif) hook; the Lean driver decodes the pre-image with the independent decoders (ownership marks of every ln / bbn page, allocation frontiers, file sizes) and evaluates checkPlacement on the real trace: every event before the meta-page write must not overwrite a node / overflow page / free-list page of the previous state, shrink ln / bbn, write or resize the hash table, truncate or unlink a rollback segment. distinct & non-trivial = operations that issued at least one event.",
        "trusted_base": IMG_TB + ["the I/O hook reports every mutating file operation (call sites listed in DESIGN.md §5); events are observed at submission"],
        "assumptions": ["the monitor reads the pre-image through decoders that were themselves validated on every snapshot by C16's run", "worker interleavings are whatever the runs exhibit"],
    },
    "C15": {
        "runs": [{"cmd": "locks-scenarios", "cases": {"quick": 1, "thorough": 1}, "corpus": True},
                 {"cmd": "stress", "args": ["--millis", "600"], "cases": {"quick": 2, "thorough": 8}, "shards": {"quick": 4, "thorough": 16}, "per_shard_cases": True},
                 dict(LOCKREC_RUN)],
        "rule": "stress: cases = threaded runs (child process under a 30 s watchdog) with (4,3), (2,4), (6,2), (1,5) reader/writer threads for 600 ms each: writers read the current stamp in a session, write a fresh stamp to 9 stamp keys spread over several root children (plus private churn; every fifth stamp is an overflow value) and commit blocking / non-blocking (retrying while deferred) / as overlay; readers open sessions of random lifetime, read all stamp keys 1-4 times and prove a third of them. Oracles: one session never sees two stamps; every proof verifies against the session's own base root and confirms the value read; the successful commits form a chain from the final stamp back to the initial state (each winner's base stamp is the previous winner's stamp; every reported success is on the chain); the final state is not torn; no thread panics; the run terminates. distinct & non-trivial = completed runs." + LOCKREC_RULE,
        "trusted_base": ["lock protocol LTS Api/Locks2.lean: hand-written micro-step programs, tied to the source's step order by Props/C15_LockOrder (rfl against Generated/StepOrder.lean) and to real executions by the lockrec replay",
                         "the lockrec renderer (harness/src/lockrec.rs, ~250 lines): places every LTS step inside the real-time interval its markers bound; a wrong placement can only make the replay fail, except that it is trusted to respect the intervals",
                         "parking_lot's two write phases are not observable: A.write1 / A.write2 are placed together at the `got` marker",
                         "the OS scheduler (plus the pauses at marker sites) decides which interleavings are exhibited"],
        "assumptions": ["schedules are sampled, not enumerated", "no I/O failure is injected in recorded schedules (IoPlan = ok): the failing-I/O paths of the LTS are covered by the pipeline differential of C14 only sequentially",
                        "callers keep the discipline of T15.7 (F19 is the known finding for the others)"],
    },
}


# ---- plug-in units: tools/props_<unit>.py may define EXTRA = {"Cxx": {"runs": [...], "rule": "...", "trusted_base": [...], "assumptions": [...]}}
# (one file per unit, so that units developed in parallel do not edit the same lines of this file)
import glob as _glob, importlib as _importlib, os as _os, sys as _sys
_sys.path.insert(0, _os.path.dirname(_os.path.abspath(__file__)))
for _f in sorted(_glob.glob(_os.path.join(_os.path.dirname(_os.path.abspath(__file__)), "props_*.py"))):
    _m = _importlib.import_module(_os.path.basename(_f)[:-3])
    for _pid, _extra in getattr(_m, "EXTRA", {}).items():
        _p = PROPS[_pid]
        _p["runs"] = list(_p["runs"]) + list(_extra.get("runs", []))
        _p["rule"] = _p["rule"] + " " + _extra.get("rule", "")
        for _k in ("trusted_base", "assumptions"):
            _p[_k] = list(_p.get(_k, [])) + list(_extra.get(_k, []))
