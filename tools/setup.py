#!/usr/bin/env python3
"""MANIFEST.setup_cmd: build everything from files on disk, offline (harness against /repo, Lean project)."""
import os, shutil, subprocess, sys
ROOT = os.path.dirname(os.path.dirname(os.path.abspath(__file__)))
env = dict(os.environ, CARGO_NET_OFFLINE="true")
shutil.copy("/repo/Cargo.lock", os.path.join(ROOT, "harness", "Cargo.lock"))
g = os.path.join(ROOT, "tools", "gen_constants.py")
if os.path.exists(g):
    subprocess.check_call([sys.executable, g], cwd=ROOT)
for g2 in ("gen_functions.py", "gen_steps.py", "gen_layouts.py"):
    g2 = os.path.join(ROOT, "tools", g2)
    if os.path.exists(g2):
        subprocess.check_call([sys.executable, g2], cwd=ROOT)
rc1 = subprocess.call(["cargo", "build", "--offline"], cwd=os.path.join(ROOT, "harness"), env=env)
props = sorted("NomtModel.Props." + f[:-5] for f in os.listdir(os.path.join(ROOT, "lean", "NomtModel", "Props")) if f.endswith(".lean"))
rc2 = subprocess.call(["lake", "build", "NomtModel", "nomt_model"] + props, cwd=os.path.join(ROOT, "lean"), env=env)
sys.exit(1 if (rc1 or rc2) else 0)
