# Unit Q33: the old-meta monitor (content-level C17 / C04 / C03) — see notes/Q33.md, lean/NomtModel/Props/C17_Frame.lean,
# C04_Frame.lean, C03_Frame.lean, harness/src/crash.rs (fn placement, --oldmeta), lean/NomtModel/Driver/ImageMode.lean (`placement-oldmeta`).
_OLDMETA_RUNS = [
    {"cmd": "placement", "mode": "image", "args": ["--focus", "general", "--nops", "14", "--oldmeta"], "cases": {"quick": 16, "thorough": 240}, "shards": {"quick": 4, "thorough": 16}},
    {"cmd": "placement", "mode": "image", "args": ["--focus", "rollback", "--nops", "14", "--segsize", "8192", "--oldmeta"], "cases": {"quick": 8, "thorough": 120}, "shards": {"quick": 4, "thorough": 16}},
    {"cmd": "placement", "mode": "image", "args": ["--focus", "overlay", "--nops", "14", "--oldmeta"], "cases": {"quick": 4, "thorough": 80}, "shards": {"quick": 2, "thorough": 16}},
    {"cmd": "placement", "mode": "image", "args": ["--focus", "kv", "--nops", "10", "--scale", "40", "--big", "--oldmeta"], "cases": {"quick": 2, "thorough": 24}, "shards": {"quick": 2, "thorough": 12}},
    # directed: a free list of one full page + a head page with 3 entries, then ONE commit that vacates the head page inside the loop of
    # FreeList::preallocate (the shape of the seeded change C17-freelist-loop-release-flag)
    {"cmd": "placement", "mode": "image", "args": ["--focus", "script-freelist-vacate-in-loop", "--oldmeta"], "cases": {"quick": 1, "thorough": 1}, "shards": {"quick": 1, "thorough": 1}, "fixed_seed": 1, "corpus": True},
    {"cmd": "placement", "mode": "image", "args": ["--focus", "script-freelist-two-pages", "--oldmeta"], "cases": {"quick": 1, "thorough": 1}, "shards": {"quick": 1, "thorough": 1}, "fixed_seed": 1, "corpus": True, "thorough_only": True},
]
_OLDMETA_RULE = (
    " Old-meta monitor (`placement … --oldmeta`, lines `placement-oldmeta <dir>`): cases = generated API histories (general / rollback with 8 KiB segments / overlay / scaled); after EVERY "
    "state-changing operation (session commit, overlay commit, rollback) the harness builds a directory holding the `ln` and `bbn` files as they are AFTER the operation (trailing all-zero pages beyond "
    "the old frontier trimmed), the `meta` page as it was BEFORE it, and the committed map before it (key, Blake3 of the value, length); the Lean driver decodes it with the decoders the frame theorems "
    "are about: it must pass the beatree part of `wfImage` (page ownership, key order, separator ranges, overflow chains and their hashes, both free lists) under the OLD manifest and `absImage` must equal "
    "the PRE state — i.e. the whole sync (all of its page writes applied) touched no page the previous state reads: T17_6 / T17_7 / T4_10 evaluated on the real files, hash table and Merkle checks excluded "
    "(the table is rewritten in place after the switch-over). Harness oracles independent of Lean: the reserved page 0 of `ln` / `bbn` is byte-identical before and after, the files never shrink; counters: pages of the old "
    "state's range that changed (re-used free pages), pages written beyond the old frontier, switch-overs."
    " Rollback-log side of the same lines: the directory also holds the rollback segments as they were BEFORE (pre/) and as they are AFTER the operation, the POST meta page and max_rollback_log_len; "
    "every record recovery under the PREVIOUS manifest reads (live range, last max_rollback_log_len: `absRecs`, mirror of `absLog` of Store/CrashLog.lean) must still be there byte for byte, or be gone AND "
    "unread under the NEW manifest (outside its live range — rolled back / pruned —, or in a dead oldest segment while max_rollback_log_len newer live records remain: `absLog_drop_lagging`); every record that "
    "appeared has an id beyond the previous live range (appends only) — counters old_rb_kept / old_rb_pruned / old_rb_appended."
)
EXTRA = {
    "C17": {"runs": _OLDMETA_RUNS, "rule": _OLDMETA_RULE,
            "trusted_base": ["4 KiB page writes are atomic and touch only their page (Touched / writePage of Store/FrameWrite.lean is the model of pwrite)"],
            "assumptions": ["the rollback-log clause of the old-meta monitor is a monitor only (its abstract counterpart is T4.2 / T4.2a); when the segments were destroyed relative to the switch-over is decided by the order / placement monitors (no unlink / truncation before the meta write)"]},
    "C04": {"runs": _OLDMETA_RUNS[:3] + _OLDMETA_RUNS[4:5], "rule": _OLDMETA_RULE},
}
