#!/usr/bin/env python3
"""
Orchestrator of every registered check (see DESIGN.md §1.3).

  python3 tools/check.py Cxx --tier quick|thorough
  python3 tools/check.py Cxx --replay <file>

Verdict logic:  P (all Lean obligations of Props/Cxx.lean build, axiom audit clean)
                K (model output == implementation output on every protocol line; monitors accept)
                O (implementation satisfies the property oracle on every case)
  P∧K∧O → exit 0;  ¬O → VIOLATION with the failing input;  (¬P∨¬K)∧O → extended search, then
  VIOLATION … no-failing-input-found.  Failures matching an *open* entry of KNOWN_FINDINGS.json print
  KNOWN-FINDING and do not fail the run.
"""
import sys, os, json, re, subprocess, time, shutil, hashlib, argparse, tempfile, concurrent.futures

ROOT = os.path.dirname(os.path.dirname(os.path.abspath(__file__)))
sys.path.insert(0, os.path.join(ROOT, "tools"))
import props as PROPS  # noqa: E402

LEAN = os.path.join(ROOT, "lean")
HARNESS = os.path.join(ROOT, "harness")
DRIVER = os.path.join(LEAN, ".lake/build/bin/nomt_model")
VH = os.path.join(HARNESS, "target/debug/vharness")
ALLOWED_AXIOMS = {"propext", "Classical.choice", "Quot.sound"}
ENV = dict(os.environ, CARGO_NET_OFFLINE="true")


def sh(cmd, cwd=None, timeout=None, env=None):
    p = subprocess.run(cmd, cwd=cwd, shell=isinstance(cmd, str), stdout=subprocess.PIPE,
                       stderr=subprocess.STDOUT, text=True, timeout=timeout, env=env or ENV)
    return p.returncode, p.stdout


def build_harness():
    lock = os.path.join(HARNESS, "Cargo.lock")
    if not os.path.exists(lock):
        shutil.copy("/repo/Cargo.lock", lock)
    rc, out = sh(["cargo", "build", "--offline", "--quiet"], cwd=HARNESS, timeout=3000)
    if rc != 0 and "lock file" in out:
        shutil.copy("/repo/Cargo.lock", lock)
        rc, out = sh(["cargo", "build", "--offline", "--quiet"], cwd=HARNESS, timeout=3000)
    return rc == 0, out[-4000:]


def gen_constants():
    g = os.path.join(ROOT, "tools", "gen_constants.py")
    if os.path.exists(g):
        rc, out = sh([sys.executable, g], cwd=ROOT, timeout=120)
        if rc != 0:
            return False, out[-2000:]
    # function translator: pure integer functions of the Rust sources -> Generated/Functions.lean (tools/gen_functions.py)
    # step-order translator: the order of the effectful steps of commit / sync / recovery functions -> Generated/StepOrder.lean (tools/gen_steps.py)
    for g2 in ("gen_functions.py", "gen_steps.py", "gen_layouts.py"):
        g2 = os.path.join(ROOT, "tools", g2)
        if os.path.exists(g2):
            rc, out = sh([sys.executable, g2], cwd=ROOT, timeout=120)
            if rc != 0:
                return False, out[-2000:]
    return True, ""


def build_lean(modules):
    """returns (ok, log).  Builds the property modules and the driver."""
    rc, out = sh(["lake", "build"] + modules + ["nomt_model"], cwd=LEAN, timeout=3000)
    return rc == 0, out[-6000:]


def prop_files(prop):
    """Props/Cxx.lean plus the topic files Props/Cxx_<Topic>.lean (same namespace Nomt.Cxx)"""
    d = os.path.join(LEAN, "NomtModel", "Props")
    return [f"{prop}.lean"] + sorted(f for f in os.listdir(d) if f.startswith(prop + "_") and f.endswith(".lean"))


def prop_modules(prop):
    return ["NomtModel.Props." + f[:-5] for f in prop_files(prop)]


def theorem_names(prop):
    names = []
    ns = f"Nomt.{prop}"
    for fn in prop_files(prop):
        path = os.path.join(LEAN, "NomtModel", "Props", fn)
        if os.path.exists(path):
            for line in open(path):
                m = re.match(r"^theorem\s+([A-Za-z0-9_'.]+)", line)
                if m:
                    names.append(f"{ns}.{m.group(1)}")
    return names


FORBIDDEN = re.compile(r"\b(sorry|admit|native_decide|bv_decide|implemented_by|unsafe)\b|^axiom\s|maxHeartbeats 0")


def strip_comments(text):
    text = re.sub(r"/-.*?-/", "", text, flags=re.S)
    return re.sub(r"--.*", "", text)


def audit(prop, thorough=False):
    """axiom audit of every theorem of Props/Cxx.lean + source grep.  returns dict"""
    names = theorem_names(prop)
    res = {"theorems": names, "axioms": {}, "bad": [], "forbidden_tokens": []}
    for dp, _, fs in os.walk(os.path.join(LEAN, "NomtModel")):
        for f in fs:
            if f.endswith(".lean"):
                txt = strip_comments(open(os.path.join(dp, f)).read())
                for i, l in enumerate(txt.splitlines()):
                    if FORBIDDEN.search(l):
                        res["forbidden_tokens"].append(f"{os.path.relpath(os.path.join(dp, f), LEAN)}: {l.strip()[:80]}")
    if not names:
        return res
    d = os.path.join(LEAN, ".lake", "audit")
    os.makedirs(d, exist_ok=True)
    f = os.path.join(d, f"Audit{prop}.lean")
    with open(f, "w") as fh:
        for mod in prop_modules(prop):
            fh.write(f"import {mod}\n")
        for n in names:
            fh.write(f"#print axioms {n}\n")
    rc, out = sh(["lake", "env", "lean", f], cwd=LEAN, timeout=1200)
    res["audit_rc"] = rc
    for m in re.finditer(r"'(\S+?)' depends on axioms: \[([^\]]*)\]", out.replace("\n", " ")):
        axs = [a.strip() for a in m.group(2).split(",") if a.strip()]
        res["axioms"][m.group(1)] = axs
    for m in re.finditer(r"'(\S+?)' does not depend on any axioms", out):
        res["axioms"][m.group(1)] = []
    for n in names:
        if n not in res["axioms"]:
            res["bad"].append(f"{n}: not found by #print axioms")
        else:
            extra = [a for a in res["axioms"][n] if a not in ALLOWED_AXIOMS]
            if extra:
                res["bad"].append(f"{n}: inadmissible axioms {extra}")
    if thorough:
        for mod in prop_modules(prop):
            rc, out = sh(["lake", "env", "leanchecker", mod], cwd=LEAN, timeout=3000)
            res["leanchecker_rc"] = max(rc, res.get("leanchecker_rc", 0))
            if rc != 0:
                res["bad"].append("leanchecker rejected " + mod + ": " + out[-300:])
    return res


SHARD_TIMEOUT = 3000  # seconds per harness process; the quick tier lowers it (set in main)


def run_shard(spec, seed, cases, workdir, extra_args=()):
    """one harness process + one model process; returns dict"""
    os.makedirs(workdir, exist_ok=True)
    t0 = time.time()
    cmd = [VH, spec["cmd"], "--seed", str(seed), "--cases", str(cases), "--out", workdir] + list(spec.get("args", [])) + list(extra_args)
    try:
        rc, out = sh(cmd, cwd=ROOT, timeout=spec.get("timeout", SHARD_TIMEOUT))
    except subprocess.TimeoutExpired:
        # the harness did not come back: the real code spins or waits forever on this input (a hang is a failure of the
        # implementation, reported with the command that reproduces it); kill what it left behind
        subprocess.run(["pkill", "-9", "-f", workdir], stdout=subprocess.DEVNULL, stderr=subprocess.DEVNULL)
        return {"seed": seed, "harness_rc": -9, "harness_out": "TIMEOUT of harness " + " ".join(cmd), "diffs": [], "oracle": ["HARNESS TIMEOUT (hang) " + " ".join(cmd)], "lines": 0, "stats": {}, "samples": [], "cmd": cmd}
    r = {"seed": seed, "harness_rc": rc, "harness_out": out[-2000:], "diffs": [], "oracle": [], "lines": 0, "stats": {}, "samples": [], "cmd": cmd, "workdir": workdir, "mode": spec.get("mode")}
    if rc != 0:
        r["oracle"].append(f"HARNESS CRASH rc={rc}: {out[-600:]}")
        return r
    ops = os.path.join(workdir, "ops.txt")
    if spec.get("mode") and os.path.exists(ops) and open(ops).read().strip():
        with open(ops) as fin, open(os.path.join(workdir, "model.txt"), "w") as fout:
            p = subprocess.run([DRIVER] + spec["mode"].split(), stdin=fin, stdout=fout, stderr=subprocess.PIPE, text=True)
        if p.returncode != 0:
            r["diffs"].append({"line": 0, "op": "<driver>", "impl": "", "model": f"driver rc={p.returncode} {p.stderr[-300:]}"})
        a = open(os.path.join(workdir, "impl.txt")).read().splitlines()
        b = open(os.path.join(workdir, "model.txt")).read().splitlines()
        o = open(ops).read().splitlines()
        r["lines"] = len(o)
        if len(a) != len(b):
            r["diffs"].append({"line": min(len(a), len(b)), "op": "<length>", "impl": str(len(a)), "model": str(len(b))})
        for i, (x, y) in enumerate(zip(a, b)):
            if x != y and x != "skip":
                r["diffs"].append({"line": i, "op": o[i][:2000] if i < len(o) else "", "impl": x[:500], "model": y[:500]})
                if len(r["diffs"]) > 20:
                    break
    st = os.path.join(workdir, "stats.json")
    if os.path.exists(st):
        r["stats"] = json.load(open(st))
    of = os.path.join(workdir, "oracle_failures.txt")
    if os.path.exists(of):
        r["oracle"] = [l for l in open(of).read().splitlines() if l.strip()]
    # monitors that live in the model (driver mode `image`): the decoder exists only in Lean, the harness
    # answers `skip`; a model line starting with `bad ` is a failure of the implementation's image (C16),
    # a non-zero leak counter a failure of the page accounting (C19)
    if spec.get("mode") == "image" and os.path.exists(os.path.join(workdir, "model.txt")) and open(ops).read().strip():
        o = open(ops).read().splitlines() if os.path.exists(ops) else []
        leaks = []
        engine_msgs, r["oracle"] = r["oracle"], []
        for i, line in enumerate(open(os.path.join(workdir, "model.txt")).read().splitlines()):
            op = o[i] if i < len(o) else ""
            if line.startswith("bad ") and (op.startswith("placement") or op.startswith("recovery")):
                # the placement / order monitors judge the I/O trace of an operation against the pre-image: C17 (placement) and C04 (order)
                if line.startswith("bad member"):
                    # the recorded recovery trace is not the trace of the recovery choreography (Store/SyncGenRec.lean)
                    tagp = "C03 recovery choreography"
                elif line.startswith("bad order: choreography"):
                    # the recorded trace of an operation is not a run of the sync choreography (Store/SyncGen.lean)
                    tagp = "C04 sync choreography"
                else:
                    tagp = "C04 order monitor" if line.startswith("bad order") else "C17 placement monitor"
                r["oracle"].append(f"{tagp}: {line} ({op})")
            elif line.startswith("bad "):
                r["oracle"].append(f"C16 image monitor: {line} ({op})")
            elif line.startswith("ok "):
                kv = dict(x.split("=", 1) for x in line.split()[1:] if "=" in x)
                for k, v in kv.items():
                    if v.isdigit():
                        r["stats"]["img_" + k + "_total"] = r["stats"].get("img_" + k + "_total", 0) + int(v)
                if kv.get("ln_leaked", "0") != "0" or kv.get("bbn_leaked", "0") != "0":
                    leaks.append((i, op, kv))
            else:
                r["oracle"].append(f"C16 image monitor: unexpected model output {line[:200]} ({op})")
        if leaks and spec.get("leaks_fail"):
            i, op, kv = leaks[0]
            r["oracle"].append(f"C19 leaked pages: ln_leaked={kv.get('ln_leaked')} bbn_leaked={kv.get('bbn_leaked')} at snapshot line {i} ({op}); "
                               f"{len(leaks)} of {len(o)} snapshots of this shard hold pages below bump that are neither in use nor tracked by the free list")
        r["oracle"] += engine_msgs
    sp = os.path.join(workdir, "samples.txt")
    if os.path.exists(sp):
        r["samples"] = open(sp).read().splitlines()[:8]
    r["wall"] = time.time() - t0
    return r


def case_of_line(workdir, line):
    """the protocol lines of the case containing `line` (for the replay file)"""
    try:
        marks = [(int(l.split("\t")[0]), l.split("\t")[1]) for l in open(os.path.join(workdir, "cases.txt")).read().splitlines()]
        ops = open(os.path.join(workdir, "ops.txt")).read().splitlines()
        imp = open(os.path.join(workdir, "impl.txt")).read().splitlines()
        start, desc, end = 0, "", len(ops)
        for i, (m, d) in enumerate(marks):
            if m <= line:
                start, desc = m, d
                end = marks[i + 1][0] if i + 1 < len(marks) else len(ops)
        return {"case": desc, "first_line": start, "ops": ops[start:end][:400], "impl": imp[start:end][:400]}
    except Exception as e:  # noqa
        return {"case": "?", "error": str(e)}


def load_known():
    p = os.path.join(ROOT, "KNOWN_FINDINGS.json")
    if os.path.exists(p):
        return json.load(open(p)).get("findings", [])
    return []


def classify(prop, messages, known):
    """split messages into (known: {finding_id: [msgs]}, unknown: [msgs])"""
    kn, unk = {}, []
    for m in messages:
        hit = None
        for f in known:
            if f.get("status") == "open" and prop in f.get("properties", [f.get("property")]) and re.search(f["signature"], m):
                hit = f
                break
        if hit:
            kn.setdefault(hit["id"], []).append(m)
        else:
            unk.append(m)
    return kn, unk


def write_replay(prop, seed, kind, payload):
    d = os.path.join(ROOT, "replays")
    os.makedirs(d, exist_ok=True)
    path = os.path.join(d, f"{prop}-{kind}-{seed}-{int(time.time())}.json")
    payload = dict(payload, property=prop, kind=kind, seed=seed)
    json.dump(payload, open(path, "w"), indent=1)
    return path


def run_all(prop, cfg, tier, seed, workroot, scale=1, seed_shift=0):
    specs = cfg["runs"]
    jobs = []
    for si, spec in enumerate(specs):
        if spec.get("thorough_only") and tier != "thorough":
            continue
        total = int(spec["cases"][tier] * scale)
        shards = spec.get("shards", {}).get(tier, 1)
        per = max(1, total // shards) if not spec.get("per_shard_cases") else max(1, int(spec["cases"][tier] * scale))
        if "seed" in spec:  # corpus run: fixed seed, replayed first and unchanged by VERIF_SEED
            if seed_shift == 0:
                jobs.append((spec, spec["seed"], int(spec["cases"][tier]), os.path.join(workroot, f"r{si}_fixed")))
            continue
        for sh_i in range(shards):
            s = spec["fixed_seed"] if "fixed_seed" in spec else (seed + seed_shift) * 1000 + si * 100 + sh_i
            jobs.append((spec, s, per, os.path.join(workroot, f"r{si}_{sh_i}_{seed_shift}")))
    results = []
    with concurrent.futures.ThreadPoolExecutor(max_workers=int(os.environ.get("VERIF_JOBS", "12"))) as ex:
        futs = [ex.submit(run_shard, *j) for j in jobs]
        for f in futs:
            results.append(f.result())
    return results


def main():
    ap = argparse.ArgumentParser()
    ap.add_argument("prop")
    ap.add_argument("--tier", default=os.environ.get("VERIF_TIER", "quick"))
    ap.add_argument("--replay")
    ap.add_argument("--no-build", action="store_true")
    a = ap.parse_args()
    prop, tier = a.prop, a.tier
    if tier not in ("quick", "thorough"):
        tier = "quick"
    seed = int(os.environ.get("VERIF_SEED", "1"))
    cfg = PROPS.PROPS[prop]
    global SHARD_TIMEOUT
    # a quick shard takes seconds to two minutes; one that is still running after 15 minutes hangs (reported as such)
    SHARD_TIMEOUT = int(os.environ.get("VERIF_SHARD_TIMEOUT", "900" if tier == "quick" else "6000"))
    t0 = time.time()
    workroot = f"/dev/shm/nomt-verif-{os.getpid()}"
    os.makedirs(workroot, exist_ok=True)
    known = load_known()
    violations = []   # (kind, message, replay payload)
    notes = []
    try:
        # ---------------- build ----------------
        ok_h, log_h = build_harness()
        ok_c, log_c = gen_constants()
        mods = prop_modules(prop) + cfg.get("extra_modules", [])
        ok_l, log_l = build_lean(mods)
        P_fail = []
        if not ok_c:
            P_fail.append("constants / function translator failed: " + log_c[-500:])
        if not ok_l:
            # which module? try building only the driver to see whether the correspondence can still run
            ok_d, _ = build_lean([])
            P_fail.append("lake build of " + " ".join(mods) + " failed:\n" + log_l[-1500:])
            if not ok_d:
                notes.append("driver does not build either")
        aud = audit(prop, thorough=(tier == "thorough")) if ok_l else {"theorems": theorem_names(prop), "axioms": {}, "bad": ["Props module does not build"], "forbidden_tokens": []}
        if ok_l:
            for b in aud["bad"]:
                P_fail.append("axiom audit: " + b)
            for b in aud["forbidden_tokens"]:
                P_fail.append("forbidden token: " + b)
        if not ok_h:
            print(f"harness does not build against /repo:\n{log_h}")
            P_fail.append("harness build failed (the correspondence cannot run): " + log_h[-800:])

        if a.replay:
            rp = json.load(open(a.replay))
            print(json.dumps({k: rp[k] for k in rp if k not in ("ops", "impl")}, indent=1)[:3000])
            if "harness_cmd" in rp and ok_h:
                wd = os.path.join(workroot, "replay")
                cmd = rp["harness_cmd"]
                cmd[cmd.index("--out") + 1] = wd
                rc, out = sh(cmd, cwd=ROOT, timeout=3000)
                print(out[-2000:])
                of = os.path.join(wd, "oracle_failures.txt")
                if os.path.exists(of):
                    print(open(of).read()[:4000])
            return 0

        # ---------------- correspondence + oracle ----------------
        results = []
        if ok_h and os.path.exists(DRIVER):
            corpus = cfg.get("corpus_runs", [])
            results = run_all(prop, cfg, tier, seed, workroot)
        K_fail, O_fail, other_prop = [], [], []
        allowed = set(cfg.get("tags", [])) | {prop}
        klines = cfg.get("lines")
        other_k = 0
        for r in results:
            for d in r["diffs"]:
                # a disagreement on a protocol line kind that another property is about (e.g. a `prove` line
                # in C01's run) is that property's business
                # (the filter is about the API-history protocol; the unit-level differentials of a property are its own throughout)
                if klines and r.get("mode") == "api" and d["op"] and d["op"].split(" ")[0] not in klines and not d["op"].startswith("<"):
                    other_k += 1
                elif d["impl"].startswith("panic") and not d["model"].startswith("panic"):
                    # the real code panics on an input for which the specification has an answer: that input is a
                    # concrete failure of the implementation (replayable), not merely a model disagreement
                    O_fail.append((r, f"{prop} the implementation PANICS on protocol line {d['line']} `{d['op'][:160]}` where the specification answers `{d['model'][:80]}`"))
                else:
                    K_fail.append((r, d))
            for m in r["oracle"]:
                # oracle messages are tagged with the property whose statement they contradict; a message
                # tagged for a property outside this check's family is recorded but is not THIS property's violation
                tag = re.match(r"^(?:\([^)]*\) )?(?:C16 history engine[^:]*: )?(C\d\d)\b", m)
                if tag and (("tags" in cfg and tag.group(1) not in allowed) or tag.group(1) in cfg.get("exclude_tags", [])):
                    other_prop.append(m)
                else:
                    O_fail.append((r, m))
        if other_prop:
            print(f"note: {len(other_prop)} oracle message(s) concern other properties (their own checks report them), e.g.: {other_prop[0][:200]}")
        # known findings
        kn, unk = classify(prop, [m for _, m in O_fail], known)
        kn2, unk_k = classify(prop, [f"MODEL-DIFF op={d['op']} impl={d['impl']} model={d['model']}" for _, d in K_fail], known)
        for k, v in kn2.items():
            kn.setdefault(k, []).extend(v)
        for fid, msgs in kn.items():
            f = [x for x in known if x["id"] == fid][0]
            print(f"KNOWN-FINDING: property={prop} {fid}: {f['what_fails']} ({len(msgs)} occurrence(s) this run)")
        O_unknown = [(r, m) for r, m in O_fail if m in unk]
        K_unknown = [(r, d) for r, d in K_fail if f"MODEL-DIFF op={d['op']} impl={d['impl']} model={d['model']}" in unk_k]

        rc = 0
        if O_unknown:
            r, m = O_unknown[0]
            path = write_replay(prop, r["seed"], "oracle", {"message": m, "all_messages": [x for _, x in O_unknown][:20], "harness_cmd": r["cmd"]})
            print(f"implementation fails the property oracle: {m[:600]}")
            print(f"VIOLATION property={prop} replay={path}")
            rc = 1
        elif K_unknown or P_fail:
            # extended search for a concrete failing input on the implementation
            found = None
            if ok_h and os.path.exists(DRIVER):
                for shift in range(1, 4):
                    ext = run_all(prop, cfg, tier, seed, workroot, scale=2, seed_shift=shift)
                    for r in ext:
                        rel = []
                        for m in r["oracle"]:
                            tag = re.match(r"^(?:\([^)]*\) )?(?:C16 history engine[^:]*: )?(C\d\d)\b", m)
                            if not (tag and (("tags" in cfg and tag.group(1) not in allowed) or tag.group(1) in cfg.get("exclude_tags", []))):
                                rel.append(m)
                        _, u = classify(prop, rel, known)
                        if u:
                            found = (r, u[0])
                            break
                    if found:
                        break
            if found:
                r, m = found
                path = write_replay(prop, r["seed"], "oracle", {"message": m, "harness_cmd": r["cmd"], "after": "extended search triggered by " + ("proof failure" if P_fail else "model disagreement")})
                print(f"implementation fails the property oracle: {m[:600]}")
                print(f"VIOLATION property={prop} replay={path}")
            else:
                payload = {"proof_failures": P_fail[:10]}
                if K_unknown:
                    r, d = K_unknown[0]
                    payload.update({"correspondence": cfg["runs"][0]["cmd"], "first_disagreement": d, "harness_cmd": r["cmd"],
                                    "case": case_of_line(r.get("workdir", ""), d["line"])})
                    print(f"model and implementation disagree: op={d['op'][:300]} impl={d['impl'][:200]} model={d['model'][:200]}")
                for p in P_fail[:5]:
                    print("proof obligation no longer checks: " + p[:800])
                path = write_replay(prop, seed, "unproved", payload)
                print(f"VIOLATION property={prop} replay={path} no-failing-input-found")
            rc = 1

        # ---------------- evidence ----------------
        stats = {}
        for r in results:
            for k, v in r.get("stats", {}).items():
                stats[k] = stats.get(k, 0) + v
        samples = []
        for r in results:
            samples.extend(r.get("samples", [])[:3])
        n_thm = len(aud["theorems"])
        discharged = sum(1 for n in aud["theorems"] if n in aud["axioms"] and all(x in ALLOWED_AXIOMS for x in aud["axioms"][n])) if ok_l else 0
        ev = {
            "property_id": prop, "tier": tier, "seed": seed, "level": "proof",
            "coverage": {
                "obligations": max(n_thm, 1), "discharged": discharged if n_thm else 0,
                "checker_cmd": f"cd /verif/lean && lake build NomtModel.Props.{prop} && lake env lean .lake/audit/Audit{prop}.lean  (#print axioms of every theorem)" + ("; lake env leanchecker NomtModel.Props." + prop if tier == "thorough" else ""),
                "trusted_base": cfg.get("trusted_base", []) + ["Lean 4.33.0 kernel", "axioms: " + ", ".join(sorted({x for v in aud["axioms"].values() for x in v}) or ["none"])],
                "theorems": [{"name": n, "axioms": aud["axioms"].get(n)} for n in aud["theorems"]],
                "evaluations": sum(r.get("lines", 0) for r in results) + stats.get("children", 0) + stats.get("nested_children", 0) + stats.get("evaluations", 0),
                "distinct_nontrivial": stats.get("distinct_nontrivial", 0),
                "rule": cfg.get("rule", ""),
                "samples": samples[:10] or ["(no correspondence samples)"],
                "input_distribution": stats,
                "model_disagreements": len(K_fail), "oracle_failures": len(O_fail),
                "known_findings_hit": {k: len(v) for k, v in kn.items()},
                "failures_tagged_for_other_properties": len(other_prop),
                "model_disagreements_on_other_properties_lines": other_k,
                "shards": len(results),
                "notes": notes,
            },
            "assumptions": cfg.get("assumptions", []),
            "wall_s": round(time.time() - t0, 2),
            "violations": 1 if rc else 0,
        }
        os.makedirs(os.path.join(ROOT, "evidence"), exist_ok=True)
        json.dump(ev, open(os.path.join(ROOT, "evidence", f"{prop}.json"), "w"), indent=1)
        if rc == 0:
            print(f"OK {prop} tier={tier} seed={seed} theorems={discharged}/{n_thm} protocol_lines={ev['coverage']['evaluations']} distinct_nontrivial={ev['coverage']['distinct_nontrivial']} wall={ev['wall_s']}s")
        return rc
    finally:
        shutil.rmtree(workroot, ignore_errors=True)


if __name__ == "__main__":
    sys.exit(main())
