# plug-in unit (proof agent Q38): the glue of the beatree update around the per-node updaters (`ops::update`, `leaf_stage::run`
# outside `LeafUpdater`, `enforce_first_leaf_separator`, `filter_*_changeset`, `apply_*_changes`, `apply_changes_to_index`,
# `PostIoWork::run`).  Lean: Store/StageGlue*.lean, Props/C01_StageGlue, C16_StageGlue, C19_StageGlue, C10_StageGlue; driver
# mode `stageglue`; harness `vharness stageglue` (hook H25 `verif_api::stage_glue`).  Notes: notes/Q38.md
STAGEGLUE_RUN = {"cmd": "stageglue", "mode": "stageglue", "cases": {"quick": 60, "thorough": 2000}, "shards": {"quick": 4, "thorough": 16}}
STAGEGLUE_RULE = (
    " stageglue runs: (1) `enf` lines = the REAL enforce_first_leaf_separator on a caller-supplied leaf level (through a two-level index of real branch nodes) and a changeset "
    "(the first leaf deleted, a run of deleted leaves behind it — also with an untouched leaf inside the run —, then nothing / the candidate rewritten / a new leaf in front of or behind the candidate / "
    "a later leaf deleted or rewritten; malformed changesets) vs the mirror `enforceFirst`; (2) `fl` / `fb` lines = the REAL filter_leaves_changeset / filter_branch_changeset on shuffled lists with 1..3 equal keys in every "
    "Some/None pattern (both `assert!`s and the `len() - 1` of the branch twin are `panic` on both sides) vs `filterCs`; (3) `update` lines = the REAL ops::update (one worker) end to end on a caller-supplied tree "
    "(1..8 leaves built with the real LeafBuilder, a random half of them in the leaf cache and the others only in the store file, indexed by real branch nodes, 2..4 leaves per node), 2..4 rounds per case, "
    "round k+1 on the tree the real code produced in round k and on the STORES it left (both stores reopened with the real Store::open from the SyncData of round k: allocation frontier + free-list head, "
    "FreeList::read from the file — pages released in round k are handed out again in round k+1; the mirror carries Store/FreeListModel.lean's state across rounds and predicts every page number): the leaf changeset handed to the branch stage, the pages either stage releases in order, the submitted I/Os, the new index node by node "
    "(page number, prefix_len, prefix_compressed, every separator with its page number and stored length), every leaf the new index points to (page number, every entry with its cell length, overflow flag and the pages "
    "`overflow::delete` frees for it), the leaves PostIoWork put into the leaf cache and SyncData (ln_bump, ln free-list head, bbn_bump, bbn free-list head), vs the mirror `update` + `FreeList.finish`. Batches: per-leaf shapes (untouched, emptied, head / tail deleted, one update, bulk insert -> split, "
    "overflow inserts incl. > 15 pages, an inline value turning into an overflow value in a leaf that splits, overflow values deleted / overwritten, deletes of absent keys) and 7 directed families per shard "
    "(first leaf emptied; leaf 0 emptied + leaf 1 untouched + leaf 2 emptied; the first k leaves emptied; the whole tree emptied, refilled, emptied; batches changing no leaf, also on the empty tree; the empty batch; "
    "first leaf emptied + the candidate rewritten / under-full). Oracles independent of the model: content = BTreeMap fold, every key read back through the real lookup path incl. overflow::read_blocking (C01); "
    "first separator = zero key, index keys = first separators of the branch nodes, separators ascending, every key inside its leaf's range, no empty leaf / node (C16); every old page (leaf, overflow, branch node) "
    "not referenced by the new tree released exactly once, no referenced page released, nothing twice, every new page allocated at the frontier or taken from the pages released in EARLIER rounds — never one released in the same round —, every allocated page referenced / released / a free-list page (C19); every new leaf in the leaf cache after "
    "PostIoWork and equal to the page on disk (C10); the same batch with 2 and 3 workers gives the same content and passes the same oracles (C13); enforce_first_leaf_separator keeps the sequence of leaves and the order "
    "of the changeset; filter_*_changeset = the specification under the producer invariant; no panic."
)
_TB = ["the node updaters (`digest` / `ingest`) are the existing mirrors of Q12 / the leaf-updater unit; `indexed_leaf` is mirrored on the flattened leaf level (the two-level lookup is Q32's unit; the `enf` lines go through a real two-level index)",
       "page numbers of new pages: `FreeList.allocate` / `finish` of Store/FreeListModel.lean (the free-list unit's mirror, T19.1-T19.4) predict them from round to round; the theorems of this unit take the allocator as a parameter (`lnFresh`, `bbnFresh`)"]
EXTRA = {
    "C01": {"runs": [STAGEGLUE_RUN], "rule": STAGEGLUE_RULE, "trusted_base": _TB},
    "C19": {"runs": [STAGEGLUE_RUN], "rule": STAGEGLUE_RULE, "trusted_base": _TB},
    "C16": {"runs": [STAGEGLUE_RUN], "rule": STAGEGLUE_RULE},
    "C10": {"runs": [STAGEGLUE_RUN], "rule": STAGEGLUE_RULE},
}
