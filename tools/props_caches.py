# Unit Q31 — the caches are transparent (PageCache / LeafCache / PageSet; hook H21).  Loaded by props.py.
CACHES_RUN = {"cmd": "caches", "mode": "caches", "cases": {"quick": 2000, "thorough": 60000}, "shards": {"quick": 4, "thorough": 16}}
CACHES_DB_RUN = {"cmd": "caches-db", "mode": "caches", "cases": {"quick": 24, "thorough": 480}, "shards": {"quick": 4, "thorough": 16}}
# corpus run = the replay of finding F25 (Nomt::open with page_cache_size(0) panicked in make_shards before repair 6886fe6)
CACHES_OPEN0 = {"cmd": "caches-open0", "mode": "caches", "cases": {"quick": 1, "thorough": 1}, "shards": {"quick": 1, "thorough": 1}, "seed": 1, "corpus": True}
CACHES_RULE = (
    " caches run (hook H21): a case = ONE real cache instance — PageCache (1..64 shards, also 0 / 65 / 100; 0 (one page per shard, the repair of F25) / 1 / 2 / 16 / 2^44 MiB; 0..3 pinned levels; per-root-child limit 1..3 pages "
    "set through the hook; root page present or not), LeafCache (1..64 shards, also 0; 0 / 1 / 2 MiB; max_items 0..3 per shard) or PageSet (working map + warmed-up map) — driven through 20..60 "
    "generated calls over a small universe of page ids around the pinned depth / of RECYCLED page numbers: cached reads (get, on a miss load + insert), commits (batch_update with changed and removed "
    "pages), evict, prepopulation, syncs (leaf writes at fresh or recycled page numbers, PostIoWork insertions, evict); after EVERY call the whole contents (pinned map, LRU order most recent first, "
    "limits, root slot) are compared line by line with the Lean mirror Store/CacheModel.lean (the definitions of T13_page_cache_transparent / T13_leaf_cache_transparent / T2_pinned_never_evicted); "
    "predicted panics of PageCache::new / LeafCache::new (0 or > 64 shards, size >= 2^44 MiB; size 0 must NOT panic) must agree; ~1/6 of the cases leave the callers' protocol on purpose (comparison only). "
    "Oracles independent of Lean: cached read == reference map (page cache and leaf cache); every cached entry == reference map (coherence, on the dump); after evict no LRU above its limit, limits "
    "add up to <= the budget; entries never change shard; C02: a page of depth 1..levels inserted / committed and not removed since is in the pinned map with the stored value after every later call. "
    "distinct & non-trivial = distinct (configuration, hit / miss / commit / evict pattern) signatures."
)
CACHES_DB_RULE = (
    " caches-db run: a case = a real store (leaf cache 0 / 1 MiB = 0 / 8 leaves per shard, 1..4 commit workers, page cache 0 / 1 / 4 MiB, 0..3 pinned levels, prepopulation on / off, warm-up) with 3..6 "
    "commits of fat values (3 per leaf; hundreds of leaves; page numbers recycled from the second commit on) interleaved with direct and session reads.  Every LeafCache::get (observed under the shard "
    "lock), insert (observed at its three call sites; report and insertion under one order lock with every observed get / evict) and per-shard evict of the REAL code is (a) checked against the ln FILE — a hit must return, an insertion must pass, byte for byte the page stored "
    "at that page number at that moment: the callers' protocol LProto of the transparency theorem — and (b) replayed by the Lean mirror, which must predict every hit and miss; read values are compared "
    "with a BTreeMap (tag C01)."
)
CACHES_OPEN0_RULE = (
    " caches-open0 corpus run (replay of F25): PageCache::new with page_cache_size 0 for every shard count 1..64 (dump compared with the mirror: one page per shard), then three real stores "
    "(leaf_cache_size(0); page_cache_size(0); both) each opened, committed to three times and read back; any panic or wrong value fails."
)
EXTRA = {
    "C13": {"runs": [dict(CACHES_OPEN0), dict(CACHES_RUN), dict(CACHES_DB_RUN)], "rule": CACHES_RULE + CACHES_DB_RULE + CACHES_OPEN0_RULE,
            "trusted_base": ["the lru crate's internal agreement between its hash map and its linked list (the mirror keeps one list)"],
            "assumptions": ["page-cache commits are atomic w.r.t. reads (sessions hold the read side of the access lock, commits the write side — C15)",
                            "leaf cache: no lookup of a page number between its write and its insertion (LProto; checked on the real callers by the caches-db run and by reading the three call sites)"]},
    "C02": {"runs": [dict(CACHES_RUN)], "rule": CACHES_RULE},
    "C01": {"runs": [dict(CACHES_DB_RUN)], "rule": CACHES_DB_RULE},
    "C10": {"runs": [dict(CACHES_DB_RUN)], "rule": CACHES_DB_RULE},
}
