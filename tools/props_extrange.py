# plug-in unit (proof agent Q30): the multi-worker split of the beatree update and its extend-range protocol
# (`extend_range_protocol.rs`, `prepare_workers` / `run_worker` of `leaf_stage.rs` and `branch_stage.rs`).
# Lean: Store/ExtRange*.lean, Props/C01_ExtRange, C13_ExtRange, C16_ExtRange, C19_ExtRange; driver mode `extrange`;
# harness `vharness extrange` (hooks H17 + H21).  Notes: notes/Q30.md
EXTRANGE_RUN = {"cmd": "extrange", "mode": "extrange", "cases": {"quick": 64, "thorough": 2400}, "shards": {"quick": 4, "thorough": 16}}
EXTRANGE_RULE = (
    " extrange runs: per case a branch level and a leaf level of 3..12 hand-built nodes (sizes around the merge threshold / the capacity, capacity measured on a probe node) "
    "and a change list composed of per-node shapes that force range extensions (tail deleted -> under-full, node emptied, node reduced to 1..4 items, head / middle deleted, bulk insert -> split, "
    "single update, untouched); 8 directed families (under-full last node + emptied first node of the right worker + unchanged range; chains of under-full nodes over all workers; everything "
    "right of the first node emptied; a middle worker whose whole range is consumed; splits right of an under-full node) and a 16-step sweep of `rest(node 0) + node 2` across the capacity "
    "(second merge inside a granted unchanged range; the same behind a relink chain) and the family `tail merges` (the last worker's first node emptied, an untouched tail behind it, k = 1..4 successive merges of the left worker's under-full rest into that tail: leaf stage with the value sizes 900/1100/1300/700 that overflow a page and leave an under-full rest each time, branch stage with tiny tail nodes and with one overflowing merge — the geometry of the seeded `C13-extend-range-high-max`). For the worker counts 1, 2, 3 and two of 4..8: `bprep` / `lprep` = the WorkerParams of the REAL prepare_workers line by line; `bmulti` / `lmulti` = the REAL "
    "branch_stage::run / leaf_stage::run on the thread pool vs the Lean LTS of the protocol instantiated with the one-worker mirrors of BranchUpdater / LeafUpdater: every ExtendRangeResponse each "
    "worker received (entries, new_high_range, new_right_neighbor) in order, every worker's NodesTracker when it returned, the resulting level node by node, the freed old pages, the number of freed fresh "
    "pages; the mirror runs two opposite schedules and reports whether they agree (`sched=same`). Oracles independent of the model: content of the new level = BTreeMap fold of the changes (C01) = content of "
    "the real 1-worker run for every worker count (C13); prepare_workers: 1..count workers, op ranges non-empty / adjacent / covering, every op inside its worker's separator range (C13); separators ascending, every "
    "node's keys inside [separator, next separator), produced nodes non-empty and not over-full (C16); the page of every vanished old node freed exactly once, no surviving page freed, freed fresh pages "
    "pairwise distinct and not part of the new level (C19); no panic."
)
_TB = ["the node updaters are a parameter of the protocol theorems (Upd); the content theorem for several workers is kernel-checked on toy instances only — for the real updaters it is decided by the extrange differential and its BTreeMap oracle",
       "the real threads run under whatever schedules the machine produces; schedule independence of the result is proved for the protocol layer (invariant, no protocol panic, no deadlock) and checked, not proved, for the produced nodes"]
EXTRA = {
    "C01": {"runs": [EXTRANGE_RUN], "rule": EXTRANGE_RULE, "trusted_base": _TB},
    "C13": {"runs": [EXTRANGE_RUN], "rule": EXTRANGE_RULE, "trusted_base": _TB},
    "C16": {"runs": [EXTRANGE_RUN], "rule": EXTRANGE_RULE},
    "C19": {"runs": [EXTRANGE_RUN], "rule": EXTRANGE_RULE},
}
