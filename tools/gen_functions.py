#!/usr/bin/env python3
"""Function translator: pure integer functions and methods of the Rust sources  ->  lean/NomtModel/Generated/Functions.lean

A (small) Rust-subset -> Lean translator.  It reads the CURRENT working tree of the Rust project
(default /repo, override env NOMT_REPO or argv[1]), finds every function listed in TARGETS, parses its
body with a recursive-descent parser for the subset below and emits one Lean definition per function
into namespace `Nomt.GenFn`.  `lean/NomtModel/Store/GenFnCheck*.lean` then prove, for ALL arguments in
the function's domain, that the generated definition equals the hand-written mirror the property theorems
are about — so a change of the Rust function that alters its meaning breaks a kernel-checked obligation
on the next run, and a harmless rewrite (reordered arithmetic, a renamed local) re-proves by `omega`.

TARGETS: (lean name, rust fn name, file[, options]).  Options: `impl` (the method `fn name(&self …)` of `impl X` / `impl Trait for X`),
  `types_from` (further files whose struct / enum definitions may be read), `const_from` (further files for constants),
  `hints` ({local: type} for a `let` whose type Rust infers from a LATER use; a wrong hint is a type error of the translation),
  `calls` ({"alias::f": lean name} for a call through a module alias) with `uses` (regexes the file's imports must still match),
  `opaque` (type aliases carried around but never computed with, a `Nat`), `aliases` ({alias: type text}),
  `extern` ({canonical text of a macro call in expression position: (parameter, type)} — the value enters as a parameter),
  `opaque_lets` ({x: text}: `let x = text;` is skipped, `x` is unusable elsewhere), `extern_lets` ({x: (text, parameter, type)}: `let x = text;`
  binds the parameter).  The texts are compared with the source on every run; a difference is an ERROR.

Subset and the SEMANTICS each construct is given:
  values      every integer is a `Nat` below 2^width of its Rust type (usize = u64); `bool` is `Bool`; `Option<T>` is `Option`; tuples are
              products; `Vec<T>` / `&[T]` are `List`; a single-field tuple struct over an integer (`PageNumber(u32)`, `Self(x)`) is that
              integer; an enum with integer payloads becomes a generated `inductive` with the same variant names.
              `isize` / `i64` / `i32` are `Int` (only literals, negated literals, casts of constants and comparisons).  A struct VALUE
              (`Self { … }`, `Name { … }`) is the tuple of the struct's fields in declaration order (arrays flattened; all fields required).
              A `self` that is an enum with non-integer payloads enters as its variant TAG (generated `inductive <Enum>_kind`); `match self`
              with `Enum::Variant(_, …)` patterns and guards becomes a chain of tests of the tag.
  result      `Option R`: `none` = the Rust function PANICS (debug build: overflow of + - *, division / remainder by zero, shift by >= width,
              failed `assert!` / `assert_eq!` / `assert_ne!`, `panic!` / `unreachable!`, index out of bounds, `unwrap` of `None`).
              A function with a `loop` / `while` takes `fuel` first and returns `Option (Option R)`: outer `none` = the fuel ran out,
              `some none` = panic (the check file proves equality with the mirror for EVERY fuel, and that enough fuel is never used up).
  self        the leaf fields of `self` (and of struct-typed parameters) the body touches — directly or through a translated method it
              calls — are parameters, in struct declaration order, before the explicit parameters (`self.depth` -> `depth`,
              `meta_map.bitvec` -> `meta_map_bitvec`, a tuple struct's `self.0` -> `self0`, a `[u64; 2]` field -> `f0 f1`); field types are
              read from the struct definitions.  A `&mut self` method returns (value, new values of the fields it assigns…).
  statements  `let [mut] x [: T] = e;`  `let Some(x) = e else { diverges };`  `x = e;`  `x op= e;`  `self.f = e;`  `self.f op= e;`
              `self.arr[i] op= e` (bounds-checked, every element rebound by `if i = k`), `self.vec[i] = e` (`List.set`, bounds-checked),
              `if` / `else if` / `else`, `match` on integers (literals, `_`, binding, `if` guards: an if-chain over the bound scrutinee) and on
              `Option` (`None` / `Some(pattern)`, tuple patterns), `return [e];`, the assert / panic macros, calls of unit methods,
              `loop { }` / `while c { }` (auxiliary definition, recursion on explicit fuel, all variables in scope are its parameters,
              `continue` = recursive call, `break` = the statements after the loop), `for i in a..b` / `(a..b).rev()` (auxiliary definition,
              structural recursion on the number of remaining iterations — no fuel), trailing expression.  A loop INSIDE a loop is translated
              only if it is a `for` over a literal range of at most 64 iterations: it is UNROLLED (it may leave through a labelled `break` /
              `continue` of the enclosing loop or a `return`, not through its own).  Parameters the body never mentions are dropped.
  expressions integer literals (dec / hex / bin / octal, `_`, type suffix), `true` / `false`, locals, parameters,
              UPPER_CASE constants (resolved by tools/gen_constants.py's evaluator from their `const` items),
              `u64::MAX`-style constants, + - * / % << >> & | ^ ! (bitwise / logical), comparisons, && || (short-circuit),
              `e as T` (widening: unchanged; narrowing: `% 2^width`; bool: 0 / 1), parentheses, `&` / `*` (the value itself), `if` and
              `match` expressions, field access, tuple `.0`, indexing, `Some(e)` / `None`, tuples, `Enum::Variant(e)`,
              calls of other TARGET functions / associated functions / methods of objects, `core::cmp::min/max`,
              methods saturating_sub, saturating_add, wrapping_add/sub/mul (`% 2^width`), checked_add/sub/mul (an `Option`), abs_diff,
              min, max, div_ceil, next_multiple_of, pow, count_ones (`popcount`), trailing_zeros (`ctz`), leading_zeros (`clz`),
              is_power_of_two, `unwrap` / `expect` (`None` = panic), `unwrap_or`, `is_none` / `is_some`, `len` / `is_empty` of a slice,
              `clone` / `copied`, and the idiom `E.checked_shl(S).map(|m| BODY).unwrap_or(D)`.
Unsupported syntax is an ERROR naming the function and the token (exit code 1): a function that leaves the subset must be noticed,
never silently skipped or guessed (struct literals, closures, iterators, `?`, range indexing, nested loops, untyped shifts, strings …).
The output is deterministic; the file is only rewritten when its content changes.
"""
import os
import re
import sys

ROOT = os.path.dirname(os.path.dirname(os.path.abspath(__file__)))
sys.path.insert(0, os.path.join(ROOT, "tools"))
import gen_constants as GC  # noqa: E402

_args = [a for a in sys.argv[1:] if not a.startswith("-")]
REPO = _args[0] if _args else os.environ.get("NOMT_REPO", "/repo")
GC.REPO = REPO
OUT = os.path.join(ROOT, "lean", "NomtModel", "Generated", "Functions.lean")

# (lean name, rust fn name, file, enclosing `impl`/`mod` hint or None)
TARGETS = [
    ("needed_pages", "needed_pages", "nomt/src/beatree/ops/overflow.rs"),
    ("total_needed_pages", "total_needed_pages", "nomt/src/beatree/ops/overflow.rs"),
    ("leaf_body_size", "body_size", "nomt/src/beatree/leaf/node.rs"),
    ("branch_body_size", "body_size", "nomt/src/beatree/branch/node.rs"),
    ("shard_index_for", "shard_index_for", "nomt/src/page_cache.rs"),
    ("full_entry", "full_entry", "nomt/src/bitbox/meta_map.rs"),
    ("num_meta_byte_pages", "num_meta_byte_pages", "nomt/src/bitbox/ht_file.rs"),
    ("expected_file_len", "expected_file_len", "nomt/src/bitbox/ht_file.rs"),
    ("bottom_node_index", "bottom_node_index", "core/src/trie_pos.rs"),
    ("sibling_index", "sibling_index", "core/src/trie_pos.rs"),
    ("parent_node_index", "parent_node_index", "core/src/trie_pos.rs"),
    ("first_chunk_mask", "first_chunk_mask", "nomt/src/beatree/ops/bit_ops.rs"),
    ("last_chunk_mask", "last_chunk_mask", "nomt/src/beatree/ops/bit_ops.rs"),
    # ---- methods: the fields of `self` they touch are parameters (struct declaration order), then the explicit parameters
    ("tp_is_root", "is_root", "core/src/trie_pos.rs", {"impl": "TriePosition"}),
    ("tp_depth_in_page", "depth_in_page", "core/src/trie_pos.rs", {"impl": "TriePosition"}),
    ("tp_is_first_layer_in_page", "is_first_layer_in_page", "core/src/trie_pos.rs", {"impl": "TriePosition"}),
    ("tp_child_node_indices", "child_node_indices", "core/src/trie_pos.rs", {"impl": "TriePosition"}),
    ("tp_sibling_index", "sibling_index", "core/src/trie_pos.rs", {"impl": "TriePosition"}),
    ("cni_in_next_page", "in_next_page", "core/src/trie_pos.rs", {"impl": "ChildNodeIndices"}),
    ("cni_left", "left", "core/src/trie_pos.rs", {"impl": "ChildNodeIndices"}),
    ("cni_right", "right", "core/src/trie_pos.rs", {"impl": "ChildNodeIndices"}),
    ("child_page_index_new", "new", "core/src/page_id.rs", {"impl": "ChildPageIndex"}),
    ("tp_child_page_index", "child_page_index", "core/src/trie_pos.rs", {"impl": "TriePosition", "types_from": ["core/src/page_id.rs"]}),
    ("tp_sibling_child_page_index", "sibling_child_page_index", "core/src/trie_pos.rs", {"impl": "TriePosition", "types_from": ["core/src/page_id.rs"]}),
    ("ht_data_page_index", "data_page_index", "nomt/src/bitbox/ht_file.rs", {"impl": "HTOffsets"}),
    ("ht_meta_bytes_index", "meta_bytes_index", "nomt/src/bitbox/ht_file.rs", {"impl": "HTOffsets"}),
    ("meta_len", "len", "nomt/src/bitbox/meta_map.rs", {"impl": "MetaMap"}),
    ("meta_page_index", "page_index", "nomt/src/bitbox/meta_map.rs", {"impl": "MetaMap"}),
    ("meta_hint_empty", "hint_empty", "nomt/src/bitbox/meta_map.rs", {"impl": "MetaMap"}),
    ("meta_hint_tombstone", "hint_tombstone", "nomt/src/bitbox/meta_map.rs", {"impl": "MetaMap"}),
    ("meta_hint_not_match", "hint_not_match", "nomt/src/bitbox/meta_map.rs", {"impl": "MetaMap"}),
    ("meta_set_full", "set_full", "nomt/src/bitbox/meta_map.rs", {"impl": "MetaMap"}),
    ("meta_set_tombstone", "set_tombstone", "nomt/src/bitbox/meta_map.rs", {"impl": "MetaMap"}),
    ("pd_set_changed", "set_changed", "nomt/src/page_diff.rs", {"impl": "PageDiff", "hints": {"mask": "u64"}, "const_from": ["nomt/src/page_cache.rs"]}),
    ("pd_changed", "changed", "nomt/src/page_diff.rs", {"impl": "PageDiff", "hints": {"mask": "u64"}}),
    ("pd_set_cleared", "set_cleared", "nomt/src/page_diff.rs", {"impl": "PageDiff"}),
    ("pd_cleared", "cleared", "nomt/src/page_diff.rs", {"impl": "PageDiff"}),
    ("pd_count", "count", "nomt/src/page_diff.rs", {"impl": "PageDiff"}),
    ("pd_assert_not_cleared", "assert_not_cleared", "nomt/src/page_diff.rs", {"impl": "PageDiff"}),
    ("fast_iter_ones_next", "next", "nomt/src/page_diff.rs", {"impl": "FastIterOnes"}),
    ("leaf_gauge_ingest", "ingest", "nomt/src/beatree/ops/update/leaf_updater.rs", {"impl": "LeafGauge"}),
    ("leaf_gauge_body_size_after", "body_size_after", "nomt/src/beatree/ops/update/leaf_updater.rs",
     {"impl": "LeafGauge", "calls": {"leaf_node::body_size": "leaf_body_size"}, "uses": [r"leaf::node::\{self as leaf_node\b"]}),
    ("leaf_gauge_body_size", "body_size", "nomt/src/beatree/ops/update/leaf_updater.rs",
     {"impl": "LeafGauge", "calls": {"leaf_node::body_size": "leaf_body_size"}, "uses": [r"leaf::node::\{self as leaf_node\b"]}),
    ("uncompressed_separator_range_size", "uncompressed_separator_range_size", "nomt/src/beatree/branch/node.rs"),
    ("compressed_separator_range_size", "compressed_separator_range_size", "nomt/src/beatree/branch/node.rs"),
    ("branch_gauge_stop_prefix_compression", "stop_prefix_compression", "nomt/src/beatree/ops/update/branch_updater.rs", {"impl": "BranchGauge", "opaque": ["Key"]}),
    ("branch_gauge_prefix_compressed_items", "prefix_compressed_items", "nomt/src/beatree/ops/update/branch_updater.rs", {"impl": "BranchGauge", "opaque": ["Key"]}),
    ("branch_gauge_total_separator_lengths", "total_separator_lengths", "nomt/src/beatree/ops/update/branch_updater.rs",
     {"impl": "BranchGauge", "opaque": ["Key"], "calls": {"node::compressed_separator_range_size": "compressed_separator_range_size"},
      "uses": [r"branch::\{self as branch_node, node\b"]}),
    ("branch_gauge_body_size", "body_size", "nomt/src/beatree/ops/update/branch_updater.rs",
     {"impl": "BranchGauge", "opaque": ["Key"], "calls": {"branch_node::body_size": "branch_body_size"},
      "uses": [r"branch::\{self as branch_node, node\b"]}),
    ("record_id_next", "next", "nomt/src/seglog/mod.rs", {"impl": "RecordId"}),
    ("record_id_prev", "prev", "nomt/src/seglog/mod.rs", {"impl": "RecordId"}),
    ("record_id_is_nil", "is_nil", "nomt/src/seglog/mod.rs", {"impl": "RecordId"}),
    ("page_number_is_nil", "is_nil", "nomt/src/beatree/allocator/mod.rs", {"impl": "PageNumber"}),
    ("get_nth_pop", "get_nth_pop", "nomt/src/beatree/allocator/free_list.rs", {"impl": "CleanFreeList", "types_from": ["nomt/src/beatree/allocator/mod.rs"]}),
    ("probe_next", "next", "nomt/src/bitbox/mod.rs", {"impl": "ProbeSequence", "types_from": ["nomt/src/bitbox/meta_map.rs"]}),
    # `errno` enters as a Bool (`extern`): is the last OS error `Interrupted`?  the command's kind as its variant tag
    ("io_get_result", "get_result", "nomt/src/io/mod.rs",
     {"impl": "IoKind", "opaque_lets": {"os_err": "std::io::Error::last_os_error()"},
      "extern": {"matches!(os_err.kind(),std::io::ErrorKind::Interrupted)": ("interrupted", "bool")}}),
    # struct results: the tuple of the fields in declaration order; the page-id hash enters as a parameter (`extern_lets`)
    ("probe_new", "new", "nomt/src/bitbox/mod.rs",
     {"impl": "ProbeSequence", "types_from": ["nomt/src/bitbox/meta_map.rs"], "extern_lets": {"hash": ("hash_page_id(page_id,seed)", "hash", "u64")}}),
    ("pd_join", "join", "nomt/src/page_diff.rs", {"impl": "PageDiff"}),
    # a nested loop: the outer `for byte in 0..32` is an auxiliary recursion, the inner `for bit in 0..8` (literal range) is unrolled
    ("prefix_len", "prefix_len", "nomt/src/beatree/ops/bit_ops.rs", {"aliases": {"Key": "Vec<u8>"}, "hints": {"mask": "u8"}}),
]

WIDTH = {"usize": 64, "u64": 64, "u32": 32, "u16": 16, "u8": 8, "bool": 0}
SIGNED = {"isize": 64, "i64": 64, "i32": 32}      # signed integers are `Int`; only literals, negated literals, casts of constants and comparisons
LEAN_KEYWORDS = {"at", "from", "end", "meta", "open", "prefix", "infix", "fun", "let", "in", "do", "then", "else", "if", "match", "with",
                 "where", "have", "show", "by", "local", "private", "section", "namespace", "export", "import", "def", "theorem", "example",
                 "instance", "structure", "class", "inductive", "variable", "universe", "mutual", "partial", "unsafe", "macro", "syntax",
                 "notation", "deriving", "extends", "for", "unless", "return", "try", "catch", "finally", "mut", "break", "continue", "Type", "Prop", "Sort", "n"}


class TrError(Exception):
    pass


# ------------------------------------------------------------------ lexer

TOKEN_RE = re.compile(r"""
    (?P<ws>\s+|//[^\n]*|/\*.*?\*/)
  | (?P<int>0x[0-9a-fA-F_]+|0b[01_]+|0o[0-7_]+|[0-9][0-9_]*)(?P<suf>usize|u8|u16|u32|u64)?
  | (?P<id>[A-Za-z_][A-Za-z0-9_]*)
  | (?P<label>'[a-z_][a-z0-9_]*(?!'))
  | (?P<str>"(?:[^"\\]|\\.)*")
  | (?P<op><<=|>>=|\.\.=|\+=|-=|\*=|/=|%=|&=|\|=|\^=|<<|>>|<=|>=|==|!=|&&|\|\||->|=>|::|\.\.|[-+*/%&|^!<>=(){}\[\],;:.\#?])
""", re.X | re.S)


def lex(src, what):
    toks, i = [], 0
    while i < len(src):
        m = TOKEN_RE.match(src, i)
        if not m:
            raise TrError(f"{what}: cannot tokenise at `{src[i:i+30]!r}`")
        i = m.end()
        if m.group("ws"):
            continue
        if m.group("int"):
            t = m.group("int").replace("_", "")
            v = int(t, 0) if t[:2] in ("0x", "0b", "0o") else int(t)
            toks.append(("int", v, m.group("suf")))
        elif m.group("id"):
            toks.append(("id", m.group("id"), None))
        elif m.group("label"):
            toks.append(("label", m.group("label"), None))
        elif m.group("str"):
            toks.append(("str", m.group("str"), None))
        else:
            toks.append(("op", m.group("op"), None))
    toks.append(("eof", None, None))
    return toks


# ------------------------------------------------------------------ parser (AST = tuples)

def toks_text(toks):
    """canonical text of a token range (no spaces): what `extern` / `extern_lets` entries are compared with"""
    return "".join(str(v) + (s or "") if k == "int" else str(v) for k, v, s in toks)


ASSIGN_OPS = ("=", "+=", "-=", "*=", "/=", "%=", "&=", "|=", "^=", "<<=", ">>=")


class Parser:
    """types:  'usize' … 'bool' | 'unit' | ('opt', T) | ('tup', [T…]) | ('list', T) | ('arr', T, n) | ('named', Name)"""

    def __init__(self, toks, what, self_ty=None):
        self.t, self.i, self.what, self.self_ty = toks, 0, what, self_ty
        self.let_text = {}

    def peek(self, k=0):
        return self.t[min(self.i + k, len(self.t) - 1)]

    def next(self):
        tok = self.t[self.i]
        self.i += 1
        return tok

    def at(self, kind, val=None):
        k, v, _ = self.peek()
        return k == kind and (val is None or v == val)

    def expect(self, kind, val=None):
        k, v, s = self.next()
        if k != kind or (val is not None and v != val):
            raise TrError(f"{self.what}: expected `{val or kind}`, found `{v}` — outside the translated subset")
        return v

    def close_angle(self):
        k, v, s = self.peek()
        if k == "op" and v == ">>":
            self.t[self.i] = ("op", ">", None)
            return
        self.expect("op", ">")

    def ty(self):
        if self.at("op", "&"):
            self.next()
            if self.at("label"):
                self.next()
            if self.at("id", "mut"):
                self.next()
            return self.ty()
        if self.at("op", "("):
            self.next()
            ts = []
            while not self.at("op", ")"):
                ts.append(self.ty())
                if self.at("op", ","):
                    self.next()
            self.expect("op", ")")
            if not ts:
                return "unit"
            return ts[0] if len(ts) == 1 else ("tup", ts)
        if self.at("op", "["):
            self.next()
            inner = self.ty()
            if self.at("op", ";"):
                self.next()
                k, v, _ = self.next()
                if k != "int":
                    raise TrError(f"{self.what}: array length `{v}` is not a literal — outside the translated subset")
                self.expect("op", "]")
                return ("arr", inner, v)
            self.expect("op", "]")
            return ("list", inner)
        name = self.expect("id")
        while self.at("op", "::"):       # path to a type: keep the last component
            self.next()
            name = self.expect("id")
        if name in WIDTH or name in SIGNED:
            return name
        if name in ("Option", "Vec"):
            self.expect("op", "<")
            inner = self.ty()
            self.close_angle()
            return ("opt", inner) if name == "Option" else ("list", inner)
        if name == "Self":
            if self.self_ty is None:
                raise TrError(f"{self.what}: `Self` outside an impl")
            return ("named", self.self_ty)
        if self.at("op", "<"):            # lifetime / generic arguments of a named type: skipped
            depth = 0
            while True:
                k, v, _ = self.next()
                if k == "eof":
                    raise TrError(f"{self.what}: unterminated generic arguments")
                if k == "op" and v == "<":
                    depth += 1
                if k == "op" and v == ">":
                    depth -= 1
                if k == "op" and v == ">>":
                    depth -= 2
                if depth <= 0:
                    break
        if not name[0].isupper():
            raise TrError(f"{self.what}: type `{name}` is outside the translated subset")
        return ("named", name)

    # fn name ( params ) [-> ty] block
    def function(self):
        self.expect("id", "fn")
        name = self.expect("id")
        self.expect("op", "(")
        params, selfmode = [], None
        while not self.at("op", ")"):
            if self.at("op", "&"):
                self.next()
                if self.at("label"):
                    self.next()
                selfmode = "ref"
                if self.at("id", "mut"):
                    self.next()
                    selfmode = "mut"
                self.expect("id", "self")
            elif self.at("id", "self"):
                self.next()
                selfmode = "ref"
            elif self.at("id", "mut") and self.peek(1)[1] == "self":
                self.next()
                self.next()
                selfmode = "mut"
            else:
                if self.at("id", "mut"):
                    self.next()
                p = self.expect("id")
                self.expect("op", ":")
                params.append((p, self.ty()))
            if self.at("op", ","):
                self.next()
        self.expect("op", ")")
        ret = "unit"
        if self.at("op", "->"):
            self.next()
            ret = self.ty()
        body = self.block()
        return name, params, ret, body, selfmode

    def skip_macro_args(self):
        """after `name!(` and possibly some parsed arguments: skip to the matching `)`"""
        depth = 1
        while depth:
            k, v, _ = self.next()
            if k == "eof":
                raise TrError(f"{self.what}: unterminated macro call")
            if k == "op" and v in ("(", "[", "{"):
                depth += 1
            if k == "op" and v in (")", "]", "}"):
                depth -= 1
        if self.at("op", ";"):
            self.next()

    def block(self):
        """-> list of statements; a trailing expression becomes ('return', e)"""
        self.expect("op", "{")
        stmts = []
        while not self.at("op", "}"):
            label = None
            if self.at("label") and self.peek(1)[1] == ":":
                label = self.next()[1]
                self.next()
                if not (self.at("id", "loop") or self.at("id", "while") or self.at("id", "for")):
                    raise TrError(f"{self.what}: label `{label}` not on a loop")
            if self.at("id", "let"):
                self.next()
                if self.at("id", "Some") and self.peek(1)[1] == "(":
                    self.next()
                    self.next()
                    if self.at("id", "mut"):
                        self.next()
                    x = self.expect("id")
                    self.expect("op", ")")
                    self.expect("op", "=")
                    e = self.expr()
                    self.expect("id", "else")
                    els = self.block()
                    self.expect("op", ";")
                    stmts.append(("letelse", x, e, els))
                    continue
                if self.at("id", "mut"):
                    self.next()
                x = self.expect("id")
                ty = None
                if self.at("op", ":"):
                    self.next()
                    ty = self.ty()
                self.expect("op", "=")
                i0 = self.i
                e = self.expr()
                self.let_text[x] = toks_text(self.t[i0:self.i])
                self.expect("op", ";")
                stmts.append(("let", x, ty, e))
            elif self.at("id", "return"):
                self.next()
                if self.at("op", ";"):
                    self.next()
                    stmts.append(("return", None))
                    continue
                e = self.expr()
                if self.at("op", ";"):
                    self.next()
                stmts.append(("return", e))
            elif self.peek()[0] == "id" and self.peek()[1] in ("assert", "debug_assert", "assert_eq", "assert_ne", "debug_assert_eq",
                                                              "debug_assert_ne") and self.peek(1)[1] == "!":
                m = self.next()[1]
                self.expect("op", "!")
                self.expect("op", "(")
                c = self.expr()
                if m.endswith("_eq") or m.endswith("_ne"):
                    self.expect("op", ",")
                    d = self.expr()
                    c = ("bin", "==" if m.endswith("_eq") else "!=", c, d)
                self.skip_macro_args()
                stmts.append(("assert", c))
            elif self.peek()[0] == "id" and self.peek()[1] in ("panic", "unreachable") and self.peek(1)[1] == "!":
                self.next()
                self.next()
                self.expect("op", "(")
                self.skip_macro_args()
                stmts.append(("panic",))
            elif self.at("id", "if"):
                node = self.if_()
                if self.at("op", "}") and self._is_value_if(node):
                    stmts.append(("return", node))
                else:
                    stmts.append(("ifstmt", node))
            elif self.at("id", "match"):
                node = self.match_()
                if self.at("op", ";"):
                    self.next()
                stmts.append(("matchstmt", node, self.at("op", "}")))
            elif self.at("id", "loop"):
                self.next()
                stmts.append(("loop", label, self.block()))
            elif self.at("id", "while"):
                self.next()
                c = self.expr()
                body = self.block()
                stmts.append(("loop", label, [("ifstmt", ("if", ("not", c), [("break", None)], None))] + body))
            elif self.at("id", "for"):
                self.next()
                x = self.expect("id")
                self.expect("id", "in")
                rev = False
                if self.at("op", "("):
                    self.next()
                    lo = self.expr()
                    self.expect("op", "..")
                    hi = self.expr()
                    self.expect("op", ")")
                    self.expect("op", ".")
                    self.expect("id", "rev")
                    self.expect("op", "(")
                    self.expect("op", ")")
                    rev = True
                else:
                    lo = self.expr()
                    self.expect("op", "..")
                    hi = self.expr()
                stmts.append(("for", label, x, lo, hi, rev, self.block()))
            elif self.at("id", "break") or self.at("id", "continue"):
                kw = self.next()[1]
                lab = self.next()[1] if self.at("label") else None
                self.expect("op", ";")
                stmts.append((kw, lab))
            else:
                e = self.expr()
                if self.peek()[0] == "op" and self.peek()[1] in ASSIGN_OPS:
                    op = self.next()[1]
                    r = self.expr()
                    self.expect("op", ";")
                    if op != "=":
                        r = ("bin", op[:-1], e, r)
                    if e[0] == "var":
                        stmts.append(("assign", e[1], r))
                    else:
                        stmts.append(("assign_place", e, r))
                elif self.at("op", ";"):
                    self.next()
                    stmts.append(("exprstmt", e))
                else:
                    stmts.append(("return", e))
        self.expect("op", "}")
        return stmts

    @staticmethod
    def _is_value_if(node):
        _, _, a, b = node
        def val(blk):
            return bool(blk) and blk[-1][0] == "return" and blk[-1][1] is not None
        return b is not None and val(a) and val(b)

    def if_(self):
        self.expect("id", "if")
        c = self.expr(nostruct=True)
        a = self.block()
        b = None
        if self.at("id", "else"):
            self.next()
            if self.at("id", "if"):
                inner = self.if_()
                b = [("return", inner)] if self._is_value_if(inner) else [("ifstmt", inner)]
            else:
                b = self.block()
        return ("if", c, a, b)

    def pattern(self):
        """-> ('plit', v) | ('pwild',) | ('pbind', x) | ('pnone',) | ('psome', subpattern) | ('ptup', [subpatterns])"""
        k, v, s = self.next()
        if k == "int":
            return ("plit", v)
        if k == "op" and v == "(":
            ps = []
            while not self.at("op", ")"):
                ps.append(self.pattern())
                if self.at("op", ","):
                    self.next()
            self.expect("op", ")")
            return ("ptup", ps)
        if k == "id" and v == "_":
            return ("pwild",)
        if k == "id" and v == "None":
            return ("pnone",)
        if k == "id" and v == "Some":
            self.expect("op", "(")
            if self.at("id", "ref"):
                self.next()
            if self.at("id", "mut"):
                self.next()
            p = self.pattern()
            self.expect("op", ")")
            return ("psome", p)
        if k == "id" and v in ("ref", "mut"):
            return self.pattern()
        if k == "id" and v[0].islower() and not self.at("op", "::"):
            return ("pbind", v)
        if k == "id":
            path = [v]
            while self.at("op", "::"):
                self.next()
                path.append(self.expect("id"))
            subs = []
            if self.at("op", "("):
                self.next()
                while not self.at("op", ")"):
                    subs.append(self.pattern())
                    if self.at("op", ","):
                        self.next()
                self.expect("op", ")")
            if len(path) >= 2 and path[-1][0].isupper():
                return ("pvariant", path, subs)
        raise TrError(f"{self.what}: pattern `{v}` is outside the translated subset")

    def match_(self):
        self.expect("id", "match")
        scrut = self.expr()
        self.expect("op", "{")
        arms = []
        while not self.at("op", "}"):
            pat = self.pattern()
            guard = None
            if self.at("id", "if"):
                self.next()
                guard = self.expr()
            self.expect("op", "=>")
            if self.at("op", "{"):
                body = self.block()
            else:
                kw = self.peek()[1] if self.peek()[0] == "id" else None
                if kw == "return":
                    self.next()
                    body = [("return", None if self.at("op", ",") else self.expr())]
                elif kw in ("continue", "break"):
                    self.next()
                    body = [(kw, self.next()[1] if self.at("label") else None)]
                elif kw in ("panic", "unreachable") and self.peek(1)[1] == "!":
                    self.next()
                    self.next()
                    self.expect("op", "(")
                    self.skip_macro_args()
                    body = [("panic",)]
                else:
                    body = [("return", self.expr())]
            if self.at("op", ","):
                self.next()
            arms.append((pat, guard, body))
        self.expect("op", "}")
        return ("match", scrut, arms)

    PREC = [["||"], ["&&"], ["==", "!=", "<", "<=", ">", ">="], ["|"], ["^"], ["&"], ["<<", ">>"], ["+", "-"], ["*", "/", "%"]]

    def expr(self, lvl=0, nostruct=False):
        if lvl == len(self.PREC):
            return self.cast()
        e = self.expr(lvl + 1)
        while self.peek()[0] == "op" and self.peek()[1] in self.PREC[lvl]:
            op = self.next()[1]
            r = self.expr(lvl + 1)
            e = ("bin", op, e, r)
        return e

    def cast(self):
        e = self.unary()
        while self.at("id", "as"):
            self.next()
            e = ("as", e, self.ty())
        return e

    def unary(self):
        if self.at("op", "!"):
            self.next()
            return ("not", self.unary())
        if self.at("op", "-"):
            if self.peek(1)[0] == "int":
                self.next()
                return ("neg", self.next()[1])
            raise TrError(f"{self.what}: unary minus is outside the translated subset")
        if self.at("op", "&") or self.at("op", "*"):      # references and dereferences are the value itself
            self.next()
            if self.at("id", "mut"):
                self.next()
            return self.unary()
        if self.at("op", "&&"):
            self.next()
            return self.unary()
        return self.postfix()

    def postfix(self):
        e = self.atom()
        while True:
            if self.at("op", "."):
                self.next()
                k, v, _ = self.next()
                if k == "int":
                    e = ("field", e, str(v))
                    continue
                if k != "id":
                    raise TrError(f"{self.what}: unexpected `{v}` after `.`")
                if not self.at("op", "("):
                    e = ("field", e, v)
                    continue
                self.next()
                args = []
                while not self.at("op", ")"):
                    if self.at("op", "|"):          # closure |m| body
                        self.next()
                        cv = self.expect("id")
                        self.expect("op", "|")
                        args.append(("closure", cv, self.expr()))
                    else:
                        args.append(self.expr())
                    if self.at("op", ","):
                        self.next()
                self.expect("op", ")")
                e = ("method", v, e, args)
            elif self.at("op", "["):
                self.next()
                ix = self.expr()
                if self.at("op", ".."):
                    raise TrError(f"{self.what}: range indexing is outside the translated subset")
                self.expect("op", "]")
                e = ("index", e, ix)
            elif self.at("op", "?"):
                raise TrError(f"{self.what}: `?` is outside the translated subset")
            else:
                return e

    def args(self):
        self.expect("op", "(")
        out = []
        while not self.at("op", ")"):
            out.append(self.expr())
            if self.at("op", ","):
                self.next()
        self.expect("op", ")")
        return out

    def atom(self):
        k, v, s = self.next()
        if k == "int":
            return ("lit", v, s)
        if k == "op" and v == "(":
            es = []
            trailing = False
            while not self.at("op", ")"):
                es.append(self.expr())
                trailing = False
                if self.at("op", ","):
                    self.next()
                    trailing = True
            self.expect("op", ")")
            if len(es) == 1 and not trailing:
                return ("paren", es[0])
            return ("tuple", es)
        if k == "op" and v == "[":
            es = []
            while not self.at("op", "]"):
                es.append(self.expr())
                if self.at("op", ","):
                    self.next()
                elif self.at("op", ";"):
                    raise TrError(f"{self.what}: `[x; n]` is outside the translated subset")
            self.expect("op", "]")
            return ("arraylit", es)
        if k == "id" and v == "if":
            self.i -= 1
            return self.if_()
        if k == "id" and v == "match":
            self.i -= 1
            return self.match_()
        if k == "id" and v in ("true", "false"):
            return ("bool", v == "true")
        if k == "id" and v == "None":
            return ("none",)
        if k == "id" and v == "Some" and self.at("op", "("):
            a = self.args()
            if len(a) != 1:
                raise TrError(f"{self.what}: `Some` with {len(a)} arguments")
            return ("some", a[0])
        if k == "id":
            path = [v]
            while self.at("op", "::"):
                self.next()
                path.append(self.expect("id"))
            if self.at("op", "!"):
                # a macro call in expression position: kept as TEXT, translated only if the target declares it in `extern`
                start = self.i - len(path) * 2 + 1
                self.next()
                self.expect("op", "(")
                self.skip_macro_args()
                if self.t[self.i - 1] == ("op", ";", None):
                    self.i -= 1
                return ("externtext", toks_text(self.t[start:self.i]))
            if self.at("op", "("):
                return ("call", path, self.args())
            if len(path) == 2 and path[0] in WIDTH and path[1] in ("MAX", "MIN", "BITS"):
                w = WIDTH[path[0]]
                return ("lit", {"MAX": 2 ** w - 1, "MIN": 0, "BITS": w}[path[1]], path[0] if path[1] != "BITS" else "u32")
            name = path[-1]
            if name.isupper() or (name.upper() == name and "_" in name):
                return ("const", name)
            if len(path) > 1:
                if path[-1][0].isupper():
                    return ("variant", path, [])
                raise TrError(f"{self.what}: path `{'::'.join(path)}` is outside the translated subset")
            if self.at("op", "{") and name[0].isupper():
                self.next()
                fields = []
                while not self.at("op", "}"):
                    if self.at("op", ".."):
                        raise TrError(f"{self.what}: `..` in a struct literal is outside the translated subset")
                    f = self.expect("id")
                    if self.at("op", ":"):
                        self.next()
                        fields.append((f, self.expr()))
                    else:
                        fields.append((f, ("var", f)))
                    if self.at("op", ","):
                        self.next()
                self.expect("op", "}")
                return ("structlit", name, fields)
            return ("var", name)
        raise TrError(f"{self.what}: unexpected token `{v}` — outside the translated subset")


# ------------------------------------------------------------------ types of the Rust items (struct / enum definitions)

class TypeCtx:
    """struct and enum definitions of the files a target may look into (its own file first, then `types_from`)"""

    def __init__(self, rels, what, opaque=(), aliases=None):
        self.what = what
        self.opaque = tuple(opaque)
        self.aliases = dict(aliases or {})
        self.structs, self.enums = {}, {}
        for rel in rels:
            text = GC.read(rel)
            if text is None:
                raise TrError(f"{what}: file {rel} not found in {REPO}")
            text = cut_tests(text)
            for m in re.finditer(r"\bstruct\s+(\w+)\s*(?:<[^>{(;]*>)?\s*([({])", text):
                name, opener = m.group(1), m.group(2)
                body = re.sub(r"//[^\n]*", "", matching(text, m.end() - 1))
                fields = []
                for k, part in enumerate(split_top(body)):
                    part = re.sub(r"#\[[^\]]*\]|//[^\n]*", "", part).strip()
                    part = re.sub(r"^pub(\([a-z: ]+\))?\s+", "", part)
                    if not part:
                        continue
                    if opener == "{":
                        fm = re.match(r"(\w+)\s*:\s*(.+)$", part, re.S)
                        if not fm:
                            raise TrError(f"{what}: cannot read field `{part[:40]}` of struct {name} ({rel})")
                        fields.append((fm.group(1), fm.group(2)))
                    else:
                        fields.append((str(len(fields)), part))
                self.structs.setdefault(name, (rel, fields))
            for m in re.finditer(r"\benum\s+(\w+)\s*\{", text):
                name = m.group(1)
                body = re.sub(r"//[^\n]*", "", matching(text, m.end() - 1))
                variants = []
                for part in split_top(body):
                    part = re.sub(r"#\[[^\]]*\]|//[^\n]*", "", part).strip()
                    if not part:
                        continue
                    vm = re.match(r"(\w+)\s*(?:\((.*)\))?$", part, re.S)
                    if not vm:
                        variants = None       # struct-like variants: not translated (an error only if the enum is used)
                        break
                    variants.append((vm.group(1), [a.strip() for a in split_top(vm.group(2))] if vm.group(2) else []))
                self.enums.setdefault(name, (rel, variants))

    def parse_ty(self, src, self_ty=None):
        p = Parser(lex(src, self.what), self.what, self_ty)
        t = p.ty()
        if not p.at("eof"):
            raise TrError(f"{self.what}: type `{src}` is outside the translated subset")
        return t

    def fields(self, sname):
        if sname not in self.structs:
            raise TrError(f"{self.what}: no definition of struct `{sname}` in the files read (add it to `types_from`)")
        return self.structs[sname][1]

    def field_ty(self, sname, f):
        for n, src in self.fields(sname):
            if n == f:
                return self.parse_ty(src, sname)
        raise TrError(f"{self.what}: struct `{sname}` has no field `{f}`")

    def struct_leaf_tys(self, sname):
        """Lean types of the components a struct VALUE is made of: its fields in declaration order, arrays flattened"""
        out = []
        for f, src in self.fields(sname):
            t = self.value_ty(self.parse_ty(src, sname))
            if isinstance(t, tuple) and t[0] == "arr":
                out += [lean_ty(t[1])] * t[2]
            else:
                out.append(lean_ty(t))
        return out

    def is_newtype(self, sname):
        if sname not in self.structs:
            return False
        fs = self.structs[sname][1]
        if len(fs) != 1 or fs[0][0] != "0":
            return False
        t = self.parse_ty(fs[0][1], sname)
        return isinstance(t, str)

    def value_ty(self, t):
        """type of a VALUE: single-field tuple structs over a primitive are transparent, enums stay named"""
        if isinstance(t, str):
            return t
        if t[0] == "named":
            n = t[1]
            if n in self.opaque:
                return ("opaque", n)
            if n in self.aliases:
                return self.value_ty(self.parse_ty(self.aliases[n]))
            if n in self.enums:
                if self.enums[n][1] is None:
                    raise TrError(f"{self.what}: enum `{n}` has struct-like variants — outside the translated subset")
                return ("enum", n)
            if self.is_newtype(n):
                return self.field_ty(n, "0")
            if n in self.structs:
                return ("struct", n)
            raise TrError(f"{self.what}: type `{n}` is not defined in the files read (add its file to `types_from`)")
        if t[0] in ("opt", "list"):
            return (t[0], self.value_ty(t[1]))
        if t[0] == "tup":
            return ("tup", [self.value_ty(x) for x in t[1]])
        if t[0] == "arr":
            return ("arr", self.value_ty(t[1]), t[2])
        return t


def cut_tests(text):
    text = re.sub(r"#\[cfg\(test\)\]\s*(?:pub\s+)?mod\s+\w+\s*\{", "\x00", text)
    cut = text.find("\x00")
    return text[:cut] if cut >= 0 else text


def matching(text, i):
    """text[i] is an opening bracket: the text strictly inside it"""
    op = text[i]
    cl = {"{": "}", "(": ")", "[": "]"}[op]
    depth, k = 0, i
    while k < len(text):
        if text[k] == op:
            depth += 1
        elif text[k] == cl:
            depth -= 1
            if depth == 0:
                return text[i + 1:k]
        k += 1
    raise TrError("unbalanced brackets")


def split_top(s):
    out, depth, cur = [], 0, []
    for c in s or "":
        if c in "([{<":
            depth += 1
        elif c in ")]}>":
            depth -= 1
        if c == "," and depth == 0:
            out.append("".join(cur))
            cur = []
        else:
            cur.append(c)
    if "".join(cur).strip():
        out.append("".join(cur))
    return out


def lean_ty(t):
    if t == "bool":
        return "Bool"
    if isinstance(t, str) and t in SIGNED:
        return "Int"
    if isinstance(t, tuple) and t[0] == "struct":
        return "(" + " × ".join(CUR_TYPES.struct_leaf_tys(t[1])) + ")"
    if t == "unit":
        return "Unit"
    if isinstance(t, str):
        return "Nat"
    if t[0] == "opt":
        return f"(Option {lean_ty(t[1])})"
    if t[0] == "list":
        return f"(List {lean_ty(t[1])})"
    if t[0] == "tup":
        return "(" + " × ".join(lean_ty(x) for x in t[1]) + ")"
    if t[0] == "enum":
        return t[1]
    if t[0] == "opaque":
        return "Nat"
    raise TrError(f"type {t} has no Lean counterpart in the translated subset")


CUR_TYPES = None


def is_int(t):
    return isinstance(t, str) and t in WIDTH and t != "bool"


# ------------------------------------------------------------------ translation

def lname(x):
    return x + "_" if x in LEAN_KEYWORDS else x


def walk(node, f):
    """pre-order traversal of an AST made of tuples / lists"""
    if isinstance(node, tuple):
        if f(node) is False:
            return
        for c in node:
            walk(c, f)
    elif isinstance(node, list):
        for c in node:
            walk(c, f)


class Tr:
    """expression translation returns (lean term, type, prelude) where prelude is a list of
    ('guard', cond) / ('bind', var, optionTerm) that must be established, in order, before the term is meaningful."""

    def __init__(self, what, fns, consts_of, types=None, spec=None):
        self.what, self.fns, self.consts_of = what, fns, consts_of
        self.types, self.spec = types, spec or {}
        self.tmp = 0
        self.objs = {}          # root variable -> struct name   (self and struct-typed parameters)
        self.mutleafs = []      # env keys of the leaf fields the function assigns (returned next to the value)
        self.ret = None
        self.fuel = False
        self.valblock = 0
        self.loops = []
        self.aux = []           # auxiliary (loop) definitions, emitted before the function
        self.nloops = 0
        self.lean = None
        self.enums_used = []
        self.self_enum = None   # (enum name, lean parameter) when `self` is an enum, seen through its variant tag only
        self.let_text = {}

    def fresh(self):
        self.tmp += 1
        return f"t{self.tmp}"

    def const(self, name):
        return self.consts_of(name)

    def PANIC(self):
        return "some none" if self.fuel and not self.valblock else "none"

    def OK(self, t):
        return f"some (some {atomise(t)})" if self.fuel and not self.valblock else f"some {atomise(t)}"

    def wrap(self, prelude, body):
        return wrap(prelude, body, self.PANIC())

    def unify(self, ta, tb, ea, eb):
        if ta is None and tb is None:
            return None
        if ta is None:
            return tb
        if tb is None:
            return ta
        if ta != tb:
            raise TrError(f"{self.what}: operands of different integer types ({ta} vs {tb}) — add a cast in the subset or extend the translator")
        return ta

    # ---- objects (self / struct-typed parameters): their leaf fields are parameters of the Lean definition

    def path_of(self, e):
        """['self', 'a', 'b'] for self.a.b when rooted at an object, else None"""
        comps = []
        while e[0] == "field":
            comps.append(e[2])
            e = e[1]
        if e[0] == "var" and e[1] in self.objs:
            return [e[1]] + comps[::-1]
        return None

    def obj_resolve(self, path):
        """follow a path through the struct definitions -> ('obj', struct, key) | ('leaf', key, type, rest-of-path)"""
        s = self.objs[path[0]]
        key = path[0]
        for i, c in enumerate(path[1:]):
            t = self.types.field_ty(s, c)
            key = key + "." + c
            if not isinstance(t, str) and t[0] == "named" and t[1] in self.types.structs:
                s = t[1]
                continue
            return ("leaf", key, self.types.value_ty(t), path[i + 2:])
        return ("obj", s, key)

    def used_leafs(self, body):
        """env keys of every leaf field the body touches (directly or through a translated method of the object)"""
        used = []

        def add(k):
            if k not in used:
                used.append(k)

        def visit(n):
            if n[0] in ("field", "var"):
                p = self.path_of(n)
                if p is not None:
                    r = self.obj_resolve(p)
                    if r[0] == "leaf":
                        add(r[1])
                    elif self.types.is_newtype(r[1]):
                        add(r[2] + ".0")
                    elif n[0] == "var":
                        return True
                    else:
                        raise TrError(f"{self.what}: struct value `{'.'.join(p)}` used as a whole — outside the translated subset")
                    return False
            if n[0] == "method":
                p = self.path_of(n[2])
                if p is not None:
                    r = self.obj_resolve(p)
                    if r[0] == "obj" and f"{r[1]}::{n[1]}" in self.fns:
                        for rel, _ in self.fns[f"{r[1]}::{n[1]}"]["selfleafs"]:
                            add(r[2] + "." + rel)
                        walk(n[3], visit)
                        return False
            return True
        walk(body, visit)
        # declaration order: roots in the order of `objs`, fields in the order of the struct definitions
        ordered = []

        def dfs(s, key):
            for f, src in self.types.fields(s):
                k = key + "." + f
                if k in used:
                    ordered.append(k)
                t = self.types.parse_ty(src, s)
                if not isinstance(t, str) and t[0] == "named" and t[1] in self.types.structs and any(u.startswith(k + ".") for u in used):
                    dfs(t[1], k)
        for root, s in self.objs.items():
            dfs(s, root)
        missing = [u for u in used if u not in ordered]
        if missing:
            raise TrError(f"{self.what}: cannot place the fields {missing}")
        return ordered

    def leaf_ty(self, key):
        p = key.split(".")
        r = self.obj_resolve(p)
        if r[0] != "leaf" or r[3]:
            raise TrError(f"{self.what}: `{key}` is not a leaf field")
        return r[2]

    @staticmethod
    def leaf_name(key, taken):
        comps = key.split(".")
        root, rest = comps[0], comps[1:]
        named = [c for c in rest if not c.isdigit()]
        base = "_".join(named) if named else root + "".join(rest)
        if root != "self" and named:
            base = root + "_" + base
        base = lname(base)
        if base in taken:
            raise TrError(f"parameter name `{base}` for `{key}` is taken")
        return base

    # ---- expressions

    def expr(self, e, env, want=None):
        k = e[0]
        if k == "lit":
            return (str(e[1]), e[2] or (want if is_int(want) else None), [])
        if k == "bool":
            return ("true" if e[1] else "false", "bool", [])
        if k == "paren":
            t, ty, p = self.expr(e[1], env, want)
            return (f"({t})", ty, p)
        if k == "var":
            if e[1] in env:
                return (env[e[1]][0], env[e[1]][1], [])
            if e[1] in self.objs and e[1] + ".0" in env:
                return (env[e[1] + ".0"][0], env[e[1] + ".0"][1], [])
            raise TrError(f"{self.what}: unknown variable `{e[1]}`")
        if k == "const":
            v, ty = self.const(e[1])
            return (str(v), ty, [])
        if k == "as":
            if e[2] in SIGNED:
                if e[1][0] not in ("const", "lit"):
                    raise TrError(f"{self.what}: cast of a non-constant to `{e[2]}` is outside the translated subset")
                t, ty, p = self.expr(e[1], env, None)
                if int(t) >= 2 ** (SIGNED[e[2]] - 1):
                    raise TrError(f"{self.what}: constant {t} does not fit `{e[2]}`")
                return (f"({t} : Int)", e[2], p)
            t, ty, p = self.expr(e[1], env, None)
            if not is_int(e[2]):
                raise TrError(f"{self.what}: cast to `{e[2]}` is outside the translated subset")
            w = WIDTH[e[2]]
            if ty == "bool":
                return (f"(if {t} then 1 else 0)", e[2], p)
            if ty is not None and not is_int(ty):
                raise TrError(f"{self.what}: cast of a non-integer value")
            if ty is not None and WIDTH[ty] <= w:
                return (t, e[2], p)            # widening / same width: value unchanged
            return (f"({t} % {2 ** w})", e[2], p)
        if k == "not":
            t, ty, p = self.expr(e[1], env, want)
            if ty == "bool":
                return (f"(!{t})", "bool", p)
            if ty is None:
                raise TrError(f"{self.what}: `!` on an untyped literal")
            return (f"({2 ** WIDTH[ty] - 1} - {t})", ty, p)
        if k == "bin":
            return self.binop(e, env, want)
        if k == "if":
            return self.ifexpr(e, env, want)
        if k == "match":
            t, ty = self.block_value(self.desugar_match(e, env), env, want)
            v = self.fresh()
            return (v, ty, [("bind", v, t)])
        if k == "call":
            return self.call(e, env, want)
        if k == "method":
            return self.method(e, env, want)
        if k == "field":
            return self.field(e, env, want)
        if k == "index":
            return self.index(e, env, want)
        if k == "some":
            inner = want[1] if isinstance(want, tuple) and want[0] == "opt" else None
            t, ty, p = self.expr(e[1], env, inner)
            return (f"(some {atomise(t)})", ("opt", ty or inner or "usize"), p)
        if k == "none":
            if not (isinstance(want, tuple) and want[0] == "opt"):
                raise TrError(f"{self.what}: `None` where the type is not known")
            return ("none", want, [])
        if k == "tuple":
            ts, tys, pre = [], [], []
            for i, x in enumerate(e[1]):
                w = want[1][i] if isinstance(want, tuple) and want[0] == "tup" and len(want[1]) == len(e[1]) else None
                t, ty, p = self.expr(x, env, w)
                ts.append(t)
                tys.append(ty or w or "usize")
                pre += p
            if not ts:
                return ("()", "unit", [])
            return ("(" + ", ".join(ts) + ")", ("tup", tys), pre)
        if k == "variant":
            return self.variant(e[1], [], env)
        if k == "neg":
            if want not in SIGNED:
                raise TrError(f"{self.what}: a negative literal where no signed type is expected")
            return (f"(-{e[1]})", want, [])
        if k == "externtext":
            ext = self.spec.get("extern", {})
            if e[1] not in ext:
                raise TrError(f"{self.what}: `{e[1]}` is outside the translated subset (not declared `extern` by the target)")
            return (ext[e[1]][0], ext[e[1]][1], [])
        if k == "tagtest":
            return (f"(decide ({self.self_enum[1]} = {self.self_enum[0]}_kind.{e[1]}))", "bool", [])
        if k == "structlit":
            return self.structlit(e, env)
        raise TrError(f"{self.what}: unsupported expression node {k}")

    def structlit(self, e, env):
        """a struct value = the tuple of its fields in DECLARATION order (array fields flattened)"""
        _, name, given = e
        sname = self.spec.get("impl") if name == "Self" else name
        if self.types is None or sname not in self.types.structs:
            raise TrError(f"{self.what}: struct literal of `{name}`, whose definition is not in the files read")
        decl = self.types.fields(sname)
        if sorted(f for f, _ in given) != sorted(f for f, _ in decl):
            raise TrError(f"{self.what}: struct literal of `{sname}` does not give exactly its fields")
        gv = dict(given)
        pre, comps = [], []
        for f, src in decl:
            ft = self.types.value_ty(self.types.parse_ty(src, sname))
            x = gv[f]
            if isinstance(ft, tuple) and ft[0] == "arr":
                if x[0] != "arraylit" or len(x[1]) != ft[2]:
                    raise TrError(f"{self.what}: field `{f}` of `{sname}` needs an array literal of {ft[2]} elements")
                for y in x[1]:
                    t, ty, p = self.expr(y, env, ft[1])
                    if ty is not None and ty != ft[1]:
                        raise TrError(f"{self.what}: element of `{f}` has type {ty}, expected {ft[1]}")
                    pre += p
                    comps.append(t)
            else:
                t, ty, p = self.expr(x, env, ft)
                if ty is not None and ty != ft:
                    raise TrError(f"{self.what}: field `{f}` of `{sname}` has type {ty}, expected {ft}")
                pre += p
                comps.append(t)
        return ("(" + ", ".join(comps) + ")" if len(comps) > 1 else comps[0], ("struct", sname), pre)

    def variant(self, path, args, env):
        en = path[-2]
        if en == "Self":
            en = self.spec.get("impl")
        if self.types is None or en not in self.types.enums or self.types.enums[en][1] is None:
            raise TrError(f"{self.what}: `{'::'.join(path)}` is not a variant of a translated enum")
        for vn, vts in self.types.enums[en][1]:
            if vn == path[-1]:
                if len(vts) != len(args):
                    raise TrError(f"{self.what}: variant `{vn}` with {len(args)} arguments")
                pre, ts = [], []
                for a, vt in zip(args, vts):
                    wt = self.types.value_ty(self.types.parse_ty(vt))
                    if not is_int(wt) and wt != "bool":
                        raise TrError(f"{self.what}: payload `{vt}` of `{en}::{vn}` is outside the translated subset")
                    t, ty, p = self.expr(a, env, wt)
                    if ty is not None and ty != wt:
                        raise TrError(f"{self.what}: payload of `{en}::{vn}` has type {ty}, expected {wt}")
                    pre += p
                    ts.append(atomise(t))
                if en not in self.enums_used:
                    self.enums_used.append(en)
                return (f"({en}.{vn}" + "".join(" " + t for t in ts) + ")" if ts else f"{en}.{vn}", ("enum", en), pre)
        raise TrError(f"{self.what}: enum `{en}` has no variant `{path[-1]}`")

    def field(self, e, env, want):
        p = self.path_of(e)
        if p is not None:
            r = self.obj_resolve(p)
            if r[0] == "obj":
                if self.types.is_newtype(r[1]) and r[2] + ".0" in env:
                    return (env[r[2] + ".0"][0], env[r[2] + ".0"][1], [])
                raise TrError(f"{self.what}: struct value `{'.'.join(p)}` used as a whole — outside the translated subset")
            _, key, ty, rest = r
            if key not in env:
                raise TrError(f"{self.what}: field `{key}` is not a parameter (internal)")
            t, ty = env[key]
            if isinstance(ty, tuple) and ty[0] == "arr":
                raise TrError(f"{self.what}: array `{key}` used as a whole — outside the translated subset")
            pre = []
            for c in rest:
                t, ty = self.tuple_field(t, ty, c)
            return (t, ty, pre)
        t, ty, pre = self.expr(e[1], env, None)
        t, ty = self.tuple_field(t, ty, e[2])
        return (t, ty, pre)

    def tuple_field(self, t, ty, c):
        if not (isinstance(ty, tuple) and ty[0] == "tup" and c.isdigit() and int(c) < len(ty[1])):
            raise TrError(f"{self.what}: field `.{c}` of a value of type {ty} is outside the translated subset")
        i, n = int(c), len(ty[1])
        sel = ".2" * i + (".1" if i < n - 1 else "")
        return (f"{atomise(t)}{sel}", ty[1][i])

    def arr_key(self, e):
        """env key if `e` denotes an array-typed leaf field"""
        p = self.path_of(e)
        if p is None:
            return None
        r = self.obj_resolve(p)
        if r[0] == "leaf" and not r[3] and isinstance(r[2], tuple) and r[2][0] == "arr":
            return r[1]
        return None

    def index(self, e, env, want):
        key = self.arr_key(e[1])
        if key is not None:
            names, ty = env[key]
            n = ty[2]
            if e[2][0] == "lit":
                if e[2][1] >= n:
                    raise TrError(f"{self.what}: constant index {e[2][1]} out of the bounds of `{key}`")
                return (names[e[2][1]], ty[1], [])
            ti, _, pi = self.expr(e[2], env, "usize")
            sel = names[n - 1]
            for j in range(n - 2, -1, -1):
                sel = f"(if {ti} = {j} then {names[j]} else {sel})"
            return (sel, ty[1], pi + [("guard", f"{ti} < {n}")])
        t, ty, p = self.expr(e[1], env, None)
        if not (isinstance(ty, tuple) and ty[0] == "list"):
            raise TrError(f"{self.what}: indexing a value of type {ty} is outside the translated subset")
        ti, _, pi = self.expr(e[2], env, "usize")
        v = self.fresh()
        return (v, ty[1], p + pi + [("bind", v, f"({atomise(t)}[{ti}]?)")])

    def binop(self, e, env, want):
        _, op, a, b = e
        if op in ("&&", "||"):
            ta, _, pa = self.expr(a, env, "bool")
            tb, _, pb = self.expr(b, env, "bool")
            if pb:      # short circuit with a fallible right operand: bind an Option Bool
                v = self.fresh()
                rhs = wrap(pb, f"some {tb}")
                t = f"(if {ta} then {rhs} else some false)" if op == "&&" else f"(if {ta} then some true else {rhs})"
                return (v, "bool", pa + [("bind", v, t)])
            return (f"({ta} {op} {tb})", "bool", pa)
        if op in ("==", "!=", "<", "<=", ">", ">="):
            if a[0] == "neg":               # `-1 == x`: the literal takes the type of the other side
                _, tyb0, _ = self.expr(b, env, None)
                ta, tya, pa = self.expr(a, env, tyb0)
            else:
                ta, tya, pa = self.expr(a, env, None)
            tb, tyb, pb = self.expr(b, env, tya)
            if tya is None and tyb is not None:
                ta, tya, pa = self.expr(a, env, tyb)
            lop = {"==": "==", "!=": "!=", "<": "<", "<=": "≤", ">": ">", ">=": "≥"}[op]
            if tya == "bool":
                return (f"({ta} {lop} {tb})", "bool", pa + pb)
            if tya in SIGNED or tyb in SIGNED:
                sg = tya if tya in SIGNED else tyb
                ta, tya, pa = self.expr(a, env, sg)
                tb, tyb, pb = self.expr(b, env, sg)
                if (tya is not None and tya != sg) or (tyb is not None and tyb != sg):
                    raise TrError(f"{self.what}: comparison of a signed with another integer type ({tya} vs {tyb})")
                return (f"(decide ({ta} {lop if lop not in ('==', '!=') else {'==': '=', '!=': '≠'}[lop]} {tb}))", "bool", pa + pb)
            if (tya is not None and not is_int(tya)) or (tyb is not None and not is_int(tyb)):
                raise TrError(f"{self.what}: comparison of non-integer values ({tya}) is outside the translated subset")
            if tya is not None and tyb is not None and tya != tyb:
                raise TrError(f"{self.what}: comparison of different integer types ({tya} vs {tyb})")
            return (f"(decide ({ta} {lop if lop not in ('==', '!=') else {'==': '=', '!=': '≠'}[lop]} {tb}))", "bool", pa + pb)
        if op in ("<<", ">>"):
            ta, tya, pa = self.expr(a, env, want)
            tb, tyb, pb = self.expr(b, env, None)          # the amount may have any integer type
            if tyb is None:
                tb, tyb, pb = self.expr(b, env, "u32")
            if tya is None:
                raise TrError(f"{self.what}: shift of an untyped literal")
            w = WIDTH[tya]
            g = [("guard", f"{tb} < {w}")]
            if op == "<<":
                return (f"(({ta} <<< {tb}) % {2 ** w})", tya, pa + pb + g)
            return (f"({ta} >>> {tb})", tya, pa + pb + g)
        ta, tya, pa = self.expr(a, env, want)
        tb, tyb, pb = self.expr(b, env, tya or want)
        if tya is None and tyb is not None:
            ta, tya, pa = self.expr(a, env, tyb)
        ty = self.unify(tya, tyb, a, b)
        if ty == "bool":
            if op in ("&", "|", "^"):
                bop = {"&": "&&", "|": "||", "^": "!="}[op]
                return (f"({ta} {bop} {tb})", "bool", pa + pb)
            raise TrError(f"{self.what}: arithmetic on bool")
        if ty is None:
            ty = "usize"
        if not is_int(ty):
            raise TrError(f"{self.what}: arithmetic on a value of type {ty}")
        w = WIDTH[ty]
        pre = pa + pb
        if op == "+":
            return (f"({ta} + {tb})", ty, pre + [("guard", f"{ta} + {tb} < {2 ** w}")])
        if op == "-":
            return (f"({ta} - {tb})", ty, pre + [("guard", f"{tb} ≤ {ta}")])
        if op == "*":
            return (f"({ta} * {tb})", ty, pre + [("guard", f"{ta} * {tb} < {2 ** w}")])
        if op == "/":
            return (f"({ta} / {tb})", ty, pre + [("guard", f"{tb} ≠ 0")])
        if op == "%":
            return (f"({ta} % {tb})", ty, pre + [("guard", f"{tb} ≠ 0")])
        if op in ("&", "|", "^"):
            bop = {"&": "&&&", "|": "|||", "^": "^^^"}[op]
            return (f"({ta} {bop} {tb})", ty, pre)
        raise TrError(f"{self.what}: unsupported operator `{op}`")

    def ifexpr(self, e, env, want):
        _, c, a, b = e
        if b is None:
            raise TrError(f"{self.what}: `if` expression without `else`")
        tc, _, pc = self.expr(c, env, "bool")
        ta, tya = self.block_value(a, env, want)
        tb, tyb = self.block_value(b, env, want or tya)
        v = self.fresh()
        return (v, tya or tyb, pc + [("bind", v, f"(if {tc} then {ta} else {tb})")])

    def block_value(self, stmts, env, want):
        """a block in expression position -> (Option-valued lean term, type)"""
        tys = []
        self.valblock += 1
        try:
            t = self.stmts(stmts, dict(env), want, tys)
        finally:
            self.valblock -= 1
        return t, (tys[0] if tys else want)

    def callee(self, spec, leaf_args, args, env):
        """call of a translated function: leaf fields of its object first, then the explicit arguments"""
        if len(spec["params"]) != len(args):
            raise TrError(f"{self.what}: call of `{spec['lean']}` with {len(args)} arguments")
        if spec.get("fuel"):
            raise TrError(f"{self.what}: call of `{spec['lean']}`, which contains an unbounded loop — outside the translated subset")
        if spec.get("mutleafs"):
            raise TrError(f"{self.what}: call of the mutating method `{spec['lean']}` — outside the translated subset")
        pre, ts = [], list(leaf_args)
        for (pn, pt), a in zip(spec["params"], args):
            t, ty, p = self.expr(a, env, pt)
            if ty is not None and pt is not None and ty != pt:
                raise TrError(f"{self.what}: argument `{pn}` of `{spec['lean']}` has type {ty}, expected {pt}")
            pre += p
            ts.append(t if re.fullmatch(r"[\w']+", t) else f"({t})")
        v = self.fresh()
        return (v, spec["ret"], pre + [("bind", v, f"({spec['lean']}{''.join(' ' + t for t in ts)})")])

    def call(self, e, env, want):
        _, path, args = e
        name = path[-1]
        if name in ("min", "max") and len(args) == 2 and (len(path) == 1 or path[-2] == "cmp"):
            ta, tya, pa = self.expr(args[0], env, want)
            tb, tyb, pb = self.expr(args[1], env, tya or want)
            if tya is None and tyb is not None:
                ta, tya, pa = self.expr(args[0], env, tyb)
            return (f"(Nat.{name} {ta} {tb})", tya or tyb, pa + pb)
        full = "::".join(path)
        if full in self.spec.get("calls", {}):
            return self.callee(self.fns["=" + self.spec["calls"][full]], [], args, env)
        if len(path) == 1 and name in self.fns and "selfleafs" not in self.fns[name]:
            if self.fns[name].get("ambiguous"):
                raise TrError(f"{self.what}: call of `{name}`: several translated functions have this name — name the one meant in the target's `calls`")
            return self.callee(self.fns[name], [], args, env)
        if self.types is not None:
            tname = self.spec.get("impl") if path[0] == "Self" else path[0]
            if len(path) == 1 and tname in self.types.structs and self.types.is_newtype(tname) and len(args) == 1:
                inner = self.types.field_ty(tname, "0")
                t, ty, p = self.expr(args[0], env, inner)
                if ty is not None and ty != inner:
                    raise TrError(f"{self.what}: `{tname}(…)` of a value of type {ty}, expected {inner}")
                return (t, inner, p)
            if len(path) == 2 and tname in self.types.enums:
                return self.variant([tname, path[1]], args, env)
            if len(path) == 2 and f"{tname}::{name}" in self.fns and not self.fns[f"{tname}::{name}"]["selfleafs"]:
                return self.callee(self.fns[f"{tname}::{name}"], [], args, env)
        raise TrError(f"{self.what}: call of `{full}` — not a translated function")

    def method(self, e, env, want):
        _, m, recv, args = e
        # idiom  E.checked_shl(S).map(|m| BODY).unwrap_or(D)
        if m == "unwrap_or" and recv[0] == "method" and recv[1] == "map" and recv[2][0] == "method" and recv[2][1] == "checked_shl":
            shl = recv[2]
            clos = recv[3][0]
            if clos[0] != "closure":
                raise TrError(f"{self.what}: `.map` without a closure")
            tb, tyb, pb = self.expr(shl[2], env, want)
            ts, _, ps = self.expr(shl[3][0], env, "u32")
            if tyb is None:
                raise TrError(f"{self.what}: checked_shl on an untyped literal")
            w = WIDTH[tyb]
            td, tyd, pd = self.expr(args[0], env, tyb)
            if pd:
                raise TrError(f"{self.what}: fallible default in unwrap_or")
            env2 = dict(env)
            mv = lname(clos[1])
            env2[clos[1]] = (mv, tyb)
            tbody, tybody, pbody = self.expr(clos[2], env2, tyb)
            v = self.fresh()
            inner = f"(let {mv} := ({tb} <<< {ts}) % {2 ** w}; {wrap(pbody, 'some ' + atomise(tbody))})"
            return (v, tybody or tyb, pb + ps + [("bind", v, f"(if {ts} < {w} then {inner} else some {atomise(td)})")])
        # a translated method of an object (self / a struct-typed parameter / a struct-typed field)
        p = self.path_of(recv)
        if p is not None:
            r = self.obj_resolve(p)
            if r[0] == "obj":
                fk = f"{r[1]}::{m}"
                if fk not in self.fns:
                    raise TrError(f"{self.what}: method `{r[1]}::{m}` is not a translated function")
                spec = self.fns[fk]
                leafs = []
                for rel, lt in spec["selfleafs"]:
                    names = env[r[2] + "." + rel][0]
                    leafs += names if isinstance(names, list) else [names]
                return self.callee(spec, leafs, args, env)
        if any(a[0] == "closure" for a in args):
            raise TrError(f"{self.what}: closure argument of `.{m}()` is outside the translated subset")
        tr, tyr, pr = self.expr(recv, env, want if m in ("saturating_sub", "saturating_add", "wrapping_add", "wrapping_sub", "wrapping_mul",
                                                        "min", "max", "div_ceil", "next_multiple_of", "pow") else None)
        if m in ("clone", "copied", "cloned", "as_ref") and not args:
            return (tr, tyr, pr)
        if isinstance(tyr, tuple) and tyr[0] == "opt":
            if m == "unwrap" or m == "expect":
                v = self.fresh()
                return (v, tyr[1], pr + [("bind", v, tr)])
            if m == "unwrap_or":
                td, tyd, pd = self.expr(args[0], env, tyr[1])
                return (f"(Option.getD {atomise(tr)} {atomise(td)})", tyr[1], pr + pd)   # the default is evaluated first in Rust too (eager)
            if m in ("is_none", "is_some"):
                return (f"(Option.{'isNone' if m == 'is_none' else 'isSome'} {atomise(tr)})", "bool", pr)
            raise TrError(f"{self.what}: method `.{m}()` on an Option is outside the translated subset")
        if isinstance(tyr, tuple) and tyr[0] == "list":
            if m == "len":
                return (f"(List.length {atomise(tr)})", "usize", pr)
            if m == "is_empty":
                return (f"(List.isEmpty {atomise(tr)})", "bool", pr)
            raise TrError(f"{self.what}: method `.{m}()` on a slice / Vec is outside the translated subset")
        if tyr is None:
            tyr = want if is_int(want) else "usize"
        if not is_int(tyr):
            raise TrError(f"{self.what}: method `.{m}()` on a value of type {tyr} is outside the translated subset")
        w = WIDTH[tyr]

        def arg(i, wt=None):
            return self.expr(args[i], env, wt or tyr)
        if m == "saturating_sub":
            ta, _, pa = arg(0)
            return (f"({tr} - {ta})", tyr, pr + pa)
        if m == "saturating_add":
            ta, _, pa = arg(0)
            return (f"(Nat.min ({tr} + {ta}) {2 ** w - 1})", tyr, pr + pa)
        if m in ("wrapping_add", "wrapping_mul"):
            ta, _, pa = arg(0)
            o = "+" if m == "wrapping_add" else "*"
            return (f"(({tr} {o} {ta}) % {2 ** w})", tyr, pr + pa)
        if m == "wrapping_sub":
            ta, _, pa = arg(0)
            return (f"(({tr} + {2 ** w} - {ta}) % {2 ** w})", tyr, pr + pa)
        if m in ("checked_add", "checked_mul"):
            ta, _, pa = arg(0)
            o = "+" if m == "checked_add" else "*"
            return (f"(if {tr} {o} {ta} < {2 ** w} then some ({tr} {o} {ta}) else none)", ("opt", tyr), pr + pa)
        if m == "checked_sub":
            ta, _, pa = arg(0)
            return (f"(if {ta} ≤ {tr} then some ({tr} - {ta}) else none)", ("opt", tyr), pr + pa)
        if m == "abs_diff":
            ta, _, pa = arg(0)
            return (f"(({tr} - {ta}) + ({ta} - {tr}))", tyr, pr + pa)
        if m in ("min", "max"):
            ta, _, pa = arg(0)
            return (f"(Nat.{m} {tr} {ta})", tyr, pr + pa)
        if m == "div_ceil":
            ta, _, pa = arg(0)
            return (f"(({tr} + {ta} - 1) / {ta})", tyr, pr + pa + [("guard", f"{ta} ≠ 0")])
        if m == "next_multiple_of":
            ta, _, pa = arg(0)
            return (f"((({tr} + {ta} - 1) / {ta}) * {ta})", tyr, pr + pa + [("guard", f"{ta} ≠ 0"), ("guard", f"(({tr} + {ta} - 1) / {ta}) * {ta} < {2 ** w}")])
        if m == "pow":
            ta, _, pa = arg(0, "u32")
            return (f"({tr} ^ {ta})", tyr, pr + pa + [("guard", f"{tr} ^ {ta} < {2 ** w}")])
        if m == "is_power_of_two":
            return (f"(decide ({tr} ≠ 0 ∧ {tr} &&& ({tr} - 1) = 0))", "bool", pr)
        if m == "count_ones":
            return (f"(popcount {w} {atomise(tr)})", "u32", pr)
        if m == "trailing_zeros":
            return (f"(ctz {w} {atomise(tr)})", "u32", pr)
        if m == "leading_zeros":
            return (f"(clz {w} {atomise(tr)})", "u32", pr)
        raise TrError(f"{self.what}: method `.{m}()` is outside the translated subset")

    # ---- `match`: desugared into `let` / `if` chains (integers) or a Lean `match` (Option)

    def desugar_match(self, node, env):
        _, scrut, arms = node
        if any(a[0][0] in ("pnone", "psome") for a in arms):
            none_body = some_body = some_pat = None
            for pat, guard, body in arms:
                if guard is not None:
                    raise TrError(f"{self.what}: guard on an Option pattern is outside the translated subset")
                if pat[0] == "pnone" and none_body is None:
                    none_body = body
                elif pat[0] == "psome" and some_body is None:
                    some_pat, some_body = pat[1], body
                elif pat[0] == "pwild":
                    if none_body is None:
                        none_body = body
                    if some_body is None:
                        some_pat, some_body = ("pwild",), body
                else:
                    raise TrError(f"{self.what}: this `match` on an Option is outside the translated subset")
            if none_body is None or some_body is None:
                raise TrError(f"{self.what}: `match` on an Option without both cases")
            return [("matchopt", scrut, none_body, some_pat, some_body)]
        if scrut == ("var", "self") and self.self_enum is not None:
            def chain_v(rest):
                if not rest:
                    return [("panic",)]
                (pat, guard, body), more = rest[0], rest[1:]
                if pat[0] == "pvariant":
                    en = self.spec.get("impl") if pat[1][-2] == "Self" else pat[1][-2]
                    names = [v for v, _ in self.types.enums[self.self_enum[0]][1]]
                    if en != self.self_enum[0] or pat[1][-1] not in names or any(sp[0] != "pwild" for sp in pat[2]):
                        raise TrError(f"{self.what}: pattern `{'::'.join(pat[1])}` is outside the translated subset")
                    c = ("tagtest", pat[1][-1])
                    if guard is not None:
                        c = ("bin", "&&", c, guard)
                    return [("ifstmt", ("if", c, body, chain_v(more)))]
                if pat[0] == "pwild":
                    if guard is None:
                        return list(body)
                    return [("ifstmt", ("if", guard, body, chain_v(more)))]
                raise TrError(f"{self.what}: pattern {pat[0]} in a `match self` is outside the translated subset")
            return chain_v(arms)
        tmp = "match_scrutinee"
        out = [("let", tmp, None, scrut)]

        def chain(rest):
            if not rest:
                return [("panic",)]          # Rust matches are exhaustive: not reachable
            (pat, guard, body), more = rest[0], rest[1:]
            if pat[0] == "plit":
                c = ("bin", "==", ("var", tmp), ("lit", pat[1], None))
                if guard is not None:
                    c = ("bin", "&&", c, guard)
                return [("ifstmt", ("if", c, body, chain(more)))]
            if pat[0] in ("pwild", "pbind"):
                pre = [("let", pat[1], None, ("var", tmp))] if pat[0] == "pbind" else []
                if guard is None:
                    return pre + body
                return pre + [("ifstmt", ("if", guard, body, chain(more)))]
            raise TrError(f"{self.what}: pattern {pat[0]} in an integer `match` is outside the translated subset")
        return out + chain(arms)

    # ---- statements -> Option-valued term (continuation style; `rest` is duplicated into both arms of a statement-if)

    def ret_term(self, env, t, ty):
        """the value handed back at a return point: the returned value, then the assigned leaf fields (declaration order)"""
        if self.valblock or not self.mutleafs:
            return t if t is not None else "()"
        comps = [] if t is None else [t]
        for k in self.mutleafs:
            names = env[k][0]
            comps += names if isinstance(names, list) else [names]
        return comps[0] if len(comps) == 1 else "(" + ", ".join(comps) + ")"

    def stmts(self, ss, env, ret, tys=None):
        if not ss:
            if self.valblock or self.ret != "unit":
                raise TrError(f"{self.what}: control reaches the end of a block without a value")
            if self.loops:
                return self.stmts([("continue", None)], env, ret, tys)
            return self.OK(self.ret_term(env, None, "unit"))
        s, rest = ss[0], ss[1:]
        k = s[0]
        if k == "return" and len(s) > 2 and self.valblock:
            raise TrError(f"{self.what}: `return` inside a block in expression position is outside the translated subset")
        if k == "return" and s[1] is not None and s[1][0] == "if" and s[1][3] is not None:
            # a value-`if` in tail position: both arms are tails themselves (no temporary)
            _, c, a, b = s[1]
            tc, _, pc = self.expr(c, env, "bool")
            ta = self.stmts(a, dict(env), ret, tys)
            tb = self.stmts(b, dict(env), ret, tys)
            return self.wrap(pc, f"(if {tc} then\n{ta}\nelse\n{tb})")
        if k == "return" and s[1] is not None and s[1][0] == "match":
            return self.stmts(self.desugar_match(s[1], env), env, ret, tys)
        if k == "return":
            if s[1] is None:
                if self.ret != "unit" or self.valblock:
                    raise TrError(f"{self.what}: `return;` in a function with a value")
                return self.OK(self.ret_term(env, None, "unit"))
            t, ty, p = self.expr(s[1], env, ret)
            if not self.valblock and ret is not None and ty is not None and ty != ret:
                raise TrError(f"{self.what}: returns a value of type {ty}, declared {ret}")
            if tys is not None:
                tys.append(ty)
            return self.wrap(p, self.OK(self.ret_term(env, t, ty)))
        if k == "let" or k == "assign":
            if k == "let" and (s[1] in self.spec.get("extern_lets", {}) or s[1] in self.spec.get("opaque_lets", {})):
                x = s[1]
                if x in self.spec.get("opaque_lets", {}):
                    if self.let_text.get(x) != self.spec["opaque_lets"][x]:
                        raise TrError(f"{self.what}: `let {x} = {self.let_text.get(x)}` is no longer the declared `{self.spec['opaque_lets'][x]}`")
                    return self.stmts(rest, env, ret, tys)       # never bound: any use of `x` outside a declared `extern` is an error
                text, pname, pty = self.spec["extern_lets"][x]
                if self.let_text.get(x) != text:
                    raise TrError(f"{self.what}: `let {x} = {self.let_text.get(x)}` is no longer the declared `{text}`")
                env2 = dict(env)
                env2[x] = (pname, pty)
                return self.stmts(rest, env2, ret, tys)
            if k == "let":
                _, x, ty, e = s
                if ty is None and x in self.spec.get("hints", {}):
                    ty = self.spec["hints"][x]
                if ty is not None and self.types is not None:
                    ty = self.types.value_ty(ty)
            else:
                _, x, e = s
                if x not in env:
                    raise TrError(f"{self.what}: assignment to unknown `{x}`")
                ty = env[x][1]
            t, ty2, p = self.expr(e, env, ty)
            if ty is not None and ty2 is not None and ty != ty2:
                raise TrError(f"{self.what}: `{x}` of type {ty} bound to a value of type {ty2}")
            ty = ty or ty2 or "usize"
            # fresh Lean name on re-binding so that shadowing / mutation never captures
            env2 = dict(env)
            ln = self.bind_name(x, env)
            env2[x] = (ln, ty)
            body = self.stmts(rest, env2, ret, tys)
            return self.wrap(p, f"(let {ln} := {t}\n{body})")
        if k == "assign_place":
            return self.assign_place(s, rest, env, ret, tys)
        if k == "assert":
            t, _, p = self.expr(s[1], env, "bool")
            return self.wrap(p + [("guard", f"{t} = true")], self.stmts(rest, env, ret, tys))
        if k == "panic":
            return self.PANIC()
        if k == "ifstmt":
            _, c, a, b = s[1]
            tc, _, pc = self.expr(c, env, "bool")
            # NOTE: variables assigned inside an arm are visible in `rest` only through duplication of `rest`
            ta = self.stmts_then(a, rest, env, ret, tys)
            tb = self.stmts_then(b or [], rest, env, ret, tys)
            return self.wrap(pc, f"(if {tc} then\n{ta}\nelse\n{tb})")
        if k == "matchstmt":
            d = self.desugar_match(s[1], env)
            if d[0][0] == "matchopt":
                return self.stmts(d + rest, env, ret, tys) if False else self.matchopt(d[0], rest, env, ret, tys)
            # integer match: `let scrutinee`, then an if-chain whose arms continue with `rest`
            return self.stmts(self.push_rest(d, rest), env, ret, tys)
        if k == "matchopt":
            return self.matchopt(s, rest, env, ret, tys)
        if k == "letelse":
            _, x, e, els = s
            t, ty, p = self.expr(e, env, None)
            if not (isinstance(ty, tuple) and ty[0] == "opt"):
                raise TrError(f"{self.what}: `let Some({x}) = …` on a value of type {ty}")
            tn = self.stmts(els + [("panic",)], dict(env), ret, tys)      # the else block diverges
            env2 = dict(env)
            ln = self.bind_name(x, env)
            env2[x] = (ln, ty[1])
            tsome = self.stmts(rest, env2, ret, tys)
            return self.wrap(p, f"(match {t} with\n| none =>\n{tn}\n| some {ln} =>\n{tsome})")
        if k == "exprstmt":
            e = s[1]
            if e[0] == "method":
                t, ty, p = self.expr(e, env, None)
                if ty != "unit":
                    raise TrError(f"{self.what}: the value of `.{e[1]}()` is discarded — outside the translated subset")
                return self.wrap(p, self.stmts(rest, env, ret, tys))
            raise TrError(f"{self.what}: expression statement is outside the translated subset")
        if k == "loop":
            return self.loop(s, rest, env, ret, tys)
        if k == "for":
            return self.for_(s, rest, env, ret, tys)
        if k in ("continue", "break"):
            lp = self.find_loop(s[1])
            if k == "continue":
                return lp["again"](env)
            return self.stmts(lp["rest"], env, ret, tys)
        raise TrError(f"{self.what}: unsupported statement {k}")

    def bind_name(self, x, env):
        base = lname(x)
        taken = set()
        for v in env.values():
            for nm in (v[0] if isinstance(v[0], list) else [v[0]]):
                taken.add(nm)
        ln = base
        while ln in taken:
            ln += "'"
        return ln

    def push_rest(self, ss, rest):
        """`ss ; rest` for a desugared integer match: the lets stay in front, the final if-chain takes `rest` in every arm"""
        return list(ss) + list(rest)

    def matchopt(self, s, rest, env, ret, tys):
        _, scrut, none_body, some_pat, some_body = s
        t, ty, p = self.expr(scrut, env, None)
        if not (isinstance(ty, tuple) and ty[0] == "opt"):
            raise TrError(f"{self.what}: `match` with Option patterns on a value of type {ty}")
        tn = self.stmts(list(none_body) + list(rest), dict(env), ret, tys)
        env2 = dict(env)
        v = self.bind_name("opt_payload", env)
        env2["opt_payload"] = (v, ty[1])
        pre = []

        def destructure(pat, src):
            if pat[0] == "pwild":
                return
            if pat[0] == "pbind":
                pre.append(("let", pat[1], None, src))
                return
            if pat[0] == "ptup":
                for i, sp in enumerate(pat[1]):
                    destructure(sp, ("field", src, str(i)))
                return
            raise TrError(f"{self.what}: pattern {pat[0]} inside `Some(…)` is outside the translated subset")
        destructure(some_pat, ("var", "opt_payload"))
        tsome = self.stmts(pre + list(some_body) + list(rest), env2, ret, tys)
        return self.wrap(p, f"(match {t} with\n| none =>\n{tn}\n| some {v} =>\n{tsome})")

    def assign_place(self, s, rest, env, ret, tys):
        _, place, e = s
        if place[0] == "index":
            key = self.arr_key(place[1])
            if key is not None:
                names, ty = env[key]
                n = ty[2]
                tv, tyv, pv = self.expr(e, env, ty[1])
                if tyv is not None and tyv != ty[1]:
                    raise TrError(f"{self.what}: element of `{key}` assigned a value of type {tyv}")
                env2 = dict(env)
                new = list(names)
                lets = []
                if place[2][0] == "lit":
                    j = place[2][1]
                    if j >= n:
                        raise TrError(f"{self.what}: constant index {j} out of the bounds of `{key}`")
                    pi, g = [], []
                    new[j] = self.bind_name(names[j], env)
                    lets.append((new[j], tv))
                else:
                    ti, _, pi = self.expr(place[2], env, "usize")
                    g = [("guard", f"{ti} < {n}")]
                    v = self.bind_name("assigned", env)
                    lets.append((v, tv))
                    envt = dict(env)
                    envt["\x00assigned"] = (v, ty[1])
                    for j in range(n):
                        new[j] = self.bind_name(names[j], envt)
                        lets.append((new[j], f"(if {ti} = {j} then {v} else {names[j]})"))
                env2[key] = (new, ty)
                body = self.stmts(rest, env2, ret, tys)
                for ln, val in reversed(lets):
                    body = f"(let {ln} := {val}\n{body})"
                # Rust evaluates the index and its bounds check before the compound assignment's read-modify-write
                return self.wrap(pi + g + pv, body)
            # element of a Vec / slice leaf
            p = self.path_of(place[1])
            if p is not None:
                r = self.obj_resolve(p)
                if r[0] == "leaf" and not r[3] and isinstance(r[2], tuple) and r[2][0] == "list":
                    key = r[1]
                    name, ty = env[key]
                    ti, _, pi = self.expr(place[2], env, "usize")
                    tv, tyv, pv = self.expr(e, env, ty[1])
                    if tyv is not None and tyv != ty[1]:
                        raise TrError(f"{self.what}: element of `{key}` assigned a value of type {tyv}")
                    env2 = dict(env)
                    ln = self.bind_name(name, env)
                    env2[key] = (ln, ty)
                    body = self.stmts(rest, env2, ret, tys)
                    # the value is computed first, then the bounds check of the store
                    return self.wrap(pv + pi + [("guard", f"{ti} < List.length {name}")], f"(let {ln} := List.set {name} {atomise(ti)} {atomise(tv)}\n{body})")
            raise TrError(f"{self.what}: assignment to this indexed place is outside the translated subset")
        p = self.path_of(place)
        if p is None:
            raise TrError(f"{self.what}: assignment to this place is outside the translated subset")
        r = self.obj_resolve(p)
        if r[0] == "obj" and self.types.is_newtype(r[1]):
            key, ty = r[2] + ".0", env[r[2] + ".0"][1]
        elif r[0] == "leaf" and not r[3]:
            key, ty = r[1], r[2]
        else:
            raise TrError(f"{self.what}: assignment to `{'.'.join(p)}` is outside the translated subset")
        if isinstance(ty, tuple) and ty[0] == "arr":
            raise TrError(f"{self.what}: assignment of a whole array is outside the translated subset")
        t, ty2, pr = self.expr(e, env, ty)
        if ty2 is not None and ty2 != ty:
            raise TrError(f"{self.what}: `{key}` of type {ty} assigned a value of type {ty2}")
        env2 = dict(env)
        ln = self.bind_name(env[key][0], env)
        env2[key] = (ln, ty)
        body = self.stmts(rest, env2, ret, tys)
        return self.wrap(pr, f"(let {ln} := {t}\n{body})")

    def stmts_then(self, arm, rest, env, ret, tys):
        """translate `arm ; rest` where env changes made by `arm` (assignments) flow into rest"""
        return self.stmts(list(arm) + list(rest), env, ret, tys)

    # ---- loops: auxiliary recursive definitions

    def find_loop(self, label):
        if not self.loops:
            raise TrError(f"{self.what}: `break` / `continue` outside a loop")
        if label is None:
            return self.loops[-1]
        for lp in reversed(self.loops):
            if lp["label"] == label:
                return lp
        raise TrError(f"{self.what}: unknown loop label {label}")

    def loop_formals(self, env):
        keys, formals, seen = [], [], set()
        for key, (names, ty) in env.items():
            nl = names if isinstance(names, list) else [names]
            tl = [ty[1]] * len(nl) if isinstance(names, list) else [ty]
            if any(nm in seen for nm in nl):
                continue
            keys.append(key)
            for nm, t in zip(nl, tl):
                seen.add(nm)
                formals.append((nm, lean_ty(t)))
        return keys, formals

    def actuals(self, keys, env):
        out = []
        for key in keys:
            names = env[key][0]
            out += names if isinstance(names, list) else [names]
        return out

    def ret_lean_ty(self):
        comps = [] if self.ret == "unit" else [lean_ty(self.ret)]
        for k in self.mutleafs:
            ty = self.leaf_ty(k)
            if isinstance(ty, tuple) and ty[0] == "arr":
                comps += [lean_ty(ty[1])] * ty[2]
            else:
                comps.append(lean_ty(ty))
        if not comps:
            comps = ["Unit"]
        inner = comps[0] if len(comps) == 1 else "(" + " × ".join(comps) + ")"
        return f"Option (Option {inner})" if self.fuel else f"Option {inner}"

    def loop(self, s, rest, env, ret, tys):
        _, label, body = s
        if self.valblock:
            raise TrError(f"{self.what}: loop inside a block in expression position is outside the translated subset")
        if self.loops:
            raise TrError(f"{self.what}: nested loops are outside the translated subset")
        self.nloops += 1
        aux = f"{self.lean}_loop{self.nloops}"
        keys, formals = self.loop_formals(env)
        lp = {"label": label, "rest": list(rest),
              "again": lambda env2: f"({aux} fuel{''.join(' ' + a for a in self.actuals(keys, env2))})"}
        self.loops.append(lp)
        try:
            tb = self.stmts(list(body) + [("continue", None)], dict(env), ret, tys)
        finally:
            self.loops.pop()
        sig = " ".join(f"({n} : {t})" for n, t in formals)
        self.aux.append(f"/-- the `loop` of `{self.lean}`: one unit of `fuel` per iteration; outer `none` = the fuel ran out -/\n"
                        f"def {aux} (fuel : Nat) {sig} : {self.ret_lean_ty()} :=\n  match fuel with\n  | 0 => none\n  | fuel + 1 =>\n{indent(tb)}\n")
        return f"({aux} fuel{''.join(' ' + a for a in self.actuals(keys, env))})"

    def for_(self, s, rest, env, ret, tys):
        _, label, x, lo, hi, rev, body = s
        if self.valblock:
            raise TrError(f"{self.what}: loop inside a block in expression position is outside the translated subset")
        if self.loops:
            # a loop INSIDE a loop: only `for` over a literal range of at most 64 iterations, which is UNROLLED (the index a literal in
            # each copy); it may leave through a labelled `break` / `continue` of the enclosing loop or a `return`, not through its own
            if not (lo[0] == "lit" and hi[0] == "lit" and 0 <= hi[1] - lo[1] <= 64):
                raise TrError(f"{self.what}: nested loops are outside the translated subset (only a `for` over a literal range of ≤ 64 iterations is unrolled)")
            bad = []

            def look(n):
                if n and n[0] in ("loop", "for"):
                    bad.append("a loop inside the unrolled loop")
                if n and n[0] in ("break", "continue") and (n[1] is None or n[1] == label):
                    bad.append(f"`{n[0]}` of the unrolled loop itself")
                return True
            walk(body, look)
            if bad:
                raise TrError(f"{self.what}: {bad[0]} is outside the translated subset")
            ks = list(range(lo[1], hi[1]))
            if rev:
                ks.reverse()
            unrolled = []
            for kx in ks:
                unrolled += [("let", x, None, ("lit", kx, lo[2] or hi[2] or "usize"))] + list(body)
            return self.stmts(unrolled + list(rest), env, ret, tys)
        tlo, tylo, plo = self.expr(lo, env, "usize")
        thi, tyhi, phi = self.expr(hi, env, tylo or "usize")
        ity = tylo or tyhi or "usize"
        env = dict(env)
        nlo, nhi = self.bind_name("range_start", env), None
        env["\x00range_start"] = (nlo, ity)
        nhi = self.bind_name("range_end", env)
        env["\x00range_end"] = (nhi, ity)
        self.nloops += 1
        aux = f"{self.lean}_loop{self.nloops}"
        keys, formals = self.loop_formals(env)
        lp = {"label": label, "rest": list(rest),
              "again": lambda env2: f"({aux} remaining{''.join(' ' + a for a in self.actuals(keys, env2))})"}
        envb = dict(env)
        ix = self.bind_name(x, env)
        envb[x] = (ix, ity)
        self.loops.append(lp)
        try:
            tb = self.stmts(list(body) + [("continue", None)], envb, ret, tys)
        finally:
            self.loops.pop()
        tdone = self.stmts(list(rest), dict(env), ret, tys)
        cur = f"{nlo} + remaining" if rev else f"{nhi} - (remaining + 1)"
        sig = " ".join(f"({n} : {t})" for n, t in formals)
        self.aux.append(f"/-- the `for` loop of `{self.lean}`: `remaining` iterations are left (structural recursion, no fuel) -/\n"
                        f"def {aux} (remaining : Nat) {sig} : {self.ret_lean_ty()} :=\n  match remaining with\n  | 0 =>\n{indent(tdone)}\n  | remaining + 1 =>\n"
                        f"  (let {ix} := {cur}\n{indent(tb)})\n")
        call = f"({aux} ({nhi} - {nlo}){''.join(' ' + a for a in self.actuals(keys, env))})"
        return self.wrap(plo + phi, f"(let {nlo} := {tlo}\n(let {nhi} := {thi}\n{call}))")


def atomise(t):
    return t if re.fullmatch(r"[\w'.]+|\(.*\)", t) and balanced(t) else f"({t})"


def balanced(t):
    if not t.startswith("("):
        return True
    d = 0
    for i, c in enumerate(t):
        d += c == "("
        d -= c == ")"
        if d == 0 and i < len(t) - 1:
            return False
    return True


def wrap(prelude, body, panic="none"):
    """establish the prelude (in order), then `body` (an Option-valued term)"""
    out = body
    for item in reversed(prelude):
        if item[0] == "guard":
            out = f"(if {item[1]} then\n{out}\nelse {panic})"
        else:
            out = f"(match {item[2]} with\n| none => {panic}\n| some {item[1]} =>\n{out})"
    return out


def indent(text, n=2):
    # purely cosmetic: nested lets / ifs are layout-insensitive here because every construct is parenthesis-free only at the
    # statement level; we still indent `match` arms consistently
    lines, depth, out = text.split("\n"), 0, []
    for ln in lines:
        out.append(" " * n + ln)
    return "\n".join(out)


# ------------------------------------------------------------------ source access

def body_at(text, i):
    """text[i:] starts with `fn`: the item up to the brace matching its first `{`"""
    j = text.index("{", i)
    depth, k = 0, j
    while k < len(text):
        if text[k] == "{":
            depth += 1
        elif text[k] == "}":
            depth -= 1
            if depth == 0:
                break
        k += 1
    return text[i:k + 1]


def find_fn(rel, name, impl=None):
    text = GC.read(rel)
    if text is None:
        raise TrError(f"function {name}: file {rel} not found in {REPO}")
    # drop #[cfg(test)] mod tests { … } so that test helpers of the same name are not picked up
    text = cut_tests(text)
    fn_re = r"^[ \t]*(?:pub(?:\([a-z: ]+\))?[ \t]+)?fn[ \t]+" + re.escape(name) + r"[ \t]*(?:<[^>]*>)?[ \t]*\("
    if impl is None:
        ms = list(re.finditer(fn_re, text, re.M))
        ms = [m for m in ms if not re.match(r"\s*(?:&\s*(?:mut\s+)?)?self\b", text[m.end():])]   # methods of the same name are other functions
        if not ms:
            raise TrError(f"function {name}: no free `fn {name}(` in {rel} (renamed or removed?)")
        if len(ms) > 1:
            raise TrError(f"function {name}: defined {len(ms)} times in {rel}")
        i = text.index("fn", ms[0].start())
        return body_at(text, i), text.count("\n", 0, i) + 1
    hits = []
    for im in re.finditer(r"^[ \t]*impl\b[^{;]*?\b" + re.escape(impl) + r"\b(?:<[^>{]*>)?\s*\{", text, re.M):
        if re.search(r"\bfor\s+\w+", im.group(0)) and not re.search(r"\bfor\s+" + re.escape(impl) + r"\b", im.group(0)):
            continue            # `impl Trait<X> for Other`
        start = im.end() - 1
        block = matching(text, start)
        for m in re.finditer(fn_re, block, re.M):
            # only methods at depth 1 of the impl block
            if block.count("{", 0, m.start()) != block.count("}", 0, m.start()):
                continue
            i = start + 1 + block.index("fn", m.start())
            hits.append(i)
    if not hits:
        raise TrError(f"function {impl}::{name}: no `fn {name}(` in an `impl {impl}` of {rel} (renamed or removed?)")
    if len(hits) > 1:
        raise TrError(f"function {impl}::{name}: defined {len(hits)} times in {rel}")
    return body_at(text, hits[0]), text.count("\n", 0, hits[0]) + 1


_const_cache = {}


def const_value(name, rel, extra=()):
    """value and Rust type of an UPPER_CASE constant used by a function in file `rel` (its own file first, then the target's
    `const_from` files, then a unique definition elsewhere)"""
    if (name, rel) in _const_cache:
        return _const_cache[(name, rel)]
    frel, line, ty, expr, src = GC.find_const(name, [rel] + list(extra))
    env = {}
    for dep in sorted(set(re.findall(r"\b[A-Z][A-Z0-9_]{2,}\b", expr))):
        if dep != name and dep not in ("MAX", "MIN", "BITS"):
            env[dep] = const_value(dep, frel)[0]
    v = GC.eval_int(expr, env, f"constant {name} ({frel}:{line})")
    ty = ty.strip()
    _const_cache[(name, rel)] = (v, ty if ty in WIDTH else None)
    return _const_cache[(name, rel)]


PRELUDE = '''/-- `count_ones` of a `width`-bit value: the number of one bits among the low `width` bits -/
def popcount : Nat → Nat → Nat
  | 0, _ => 0
  | width + 1, w => w % 2 + popcount width (w / 2)

def ctzGo : Nat → Nat → Nat
  | 0, _ => 0
  | fuel + 1, w => if w % 2 = 1 then 0 else 1 + ctzGo fuel (w / 2)

/-- `trailing_zeros` of a `width`-bit value (`width` for 0) -/
def ctz (width w : Nat) : Nat := if w = 0 then width else ctzGo width w

/-- `leading_zeros` of a `width`-bit value (`width` for 0) -/
def clz (width w : Nat) : Nat := if w = 0 then width else width - 1 - Nat.log2 w
'''


def translate(target, fns, emitted_enums):
    lean, rust, rel = target[:3]
    spec = dict(target[3]) if len(target) > 3 else {}
    impl = spec.get("impl")
    src, line = find_fn(rel, rust, impl)
    what = f"function {impl + '::' if impl else ''}{rust} ({rel}:{line})"
    for pat in spec.get("uses", []):
        if not re.search(pat, GC.read(rel)):
            raise TrError(f"{what}: the import `{pat}` this translation relies on is gone from {rel}")
    types = TypeCtx([rel] + spec.get("types_from", []), what, spec.get("opaque", ()), spec.get("aliases"))
    global CUR_TYPES
    CUR_TYPES = types
    parser = Parser(lex(src, what), what, impl)
    name, params, ret, body, selfmode = parser.function()
    if selfmode and not impl:
        raise TrError(f"{what}: a method needs `impl` in its target")
    tr = Tr(what, fns, lambda c, rel=rel: const_value(c, rel, spec.get("const_from", ())), types, spec)
    tr.lean = lean
    if "hints" in spec:
        spec["hints"] = {k: v for k, v in spec["hints"].items()}
    tr.let_text = parser.let_text
    enum_sig = []
    if selfmode and impl in types.enums:
        tr.self_enum = (impl, "self_kind")
        enum_sig = [f"(self_kind : {impl}_kind)"]
    elif selfmode:
        tr.objs["self"] = impl
    # variables the body mentions (outside the declared extern / opaque lets): a parameter that is never mentioned is dropped
    mentioned = set()
    skip = set(spec.get("extern_lets", {})) | set(spec.get("opaque_lets", {}))

    def look0(n):
        if n and n[0] == "let" and n[1] in skip:
            return False
        if n and n[0] == "var":
            mentioned.add(n[1])
        return True
    walk(body, look0)
    prim_params = []
    for p, t in params:
        if p not in mentioned:
            continue
        if not isinstance(t, str) and t[0] == "named" and t[1] in types.structs:
            tr.objs[p] = t[1]
        else:
            prim_params.append((p, types.value_ty(t)))
    tr.ret = types.value_ty(ret)
    # which loops does the body have? (`loop` / `while` need fuel)
    has = {"loop": False}

    def look(n):
        if n and n[0] == "loop":
            has["loop"] = True
        return True
    walk(body, look)
    tr.fuel = has["loop"]
    leafs = tr.used_leafs(body) if tr.objs else []
    env, sig, taken = {}, [], set()
    for key in leafs:
        ty = tr.leaf_ty(key)
        base = Tr.leaf_name(key, taken)
        if isinstance(ty, tuple) and ty[0] == "arr":
            if not is_int(ty[1]):
                raise TrError(f"{what}: array `{key}` of {ty[1]} is outside the translated subset")
            names = [f"{base}{j}" for j in range(ty[2])]
            for nm in names:
                taken.add(nm)
                sig.append(f"({nm} : Nat)")
            env[key] = (names, ty)
        else:
            taken.add(base)
            sig.append(f"({base} : {lean_ty(ty)})")
            env[key] = (base, ty)
    for p, t in prim_params:
        nm = lname(p)
        if nm in taken:          # an explicit parameter named like a field of `self`
            nm = p + "_arg"
        if nm in taken:
            raise TrError(f"{what}: parameter `{p}` collides with a field name")
        taken.add(nm)
        sig.append(f"({nm} : {lean_ty(t)})")
        env[p] = (nm, t)
    for text, (pname, pty) in sorted(spec.get("extern", {}).items()):
        sig.append(f"({pname} : {lean_ty(pty)})")
    for x, (text, pname, pty) in sorted(spec.get("extern_lets", {}).items()):
        sig.append(f"({pname} : {lean_ty(pty)})")
    sig = enum_sig + sig
    # leaf fields the body assigns
    assigned = []

    def look2(n):
        if n and n[0] == "assign_place":
            place = n[1][1] if n[1][0] == "index" else n[1]
            p = tr.path_of(place)
            if p is None:
                raise TrError(f"{what}: assignment to a place that is not a field of an object")
            r = tr.obj_resolve(p)
            key = r[1] if r[0] == "leaf" else r[2] + ".0"
            if key not in assigned:
                assigned.append(key)
        return True
    walk(body, look2)
    for k in assigned:
        if selfmode != "mut" or not k.startswith("self."):
            raise TrError(f"{what}: assignment to `{k}` without `&mut self`")
    tr.mutleafs = [k for k in leafs if k in assigned]
    term = tr.stmts(body, env, tr.ret)
    flat = " ".join(src.split())
    rty = tr.ret_lean_ty()
    out = ""
    if tr.self_enum and impl + "_kind" not in emitted_enums:
        emitted_enums.append(impl + "_kind")
        out += (f"/-- which variant of `enum {impl}` (`{types.enums[impl][0]}`) a value is: the payloads are not translated -/\ninductive {impl}_kind where\n"
                + "".join(f"  | {vn}\n" for vn, _ in types.enums[impl][1]) + "deriving DecidableEq, Repr\n\n")
    for en in tr.enums_used:
        if en not in emitted_enums:
            emitted_enums.append(en)
            erel, variants = types.enums[en]
            out += f"/-- `enum {en}` of `{erel}` (same variant names, integer payloads) -/\ninductive {en} where\n"
            for vn, vts in variants:
                out += f"  | {vn}" + "".join(f" (a{i} : Nat)" for i in range(len(vts))) + "\n"
            out += "deriving DecidableEq, Repr\n\n"
    out += "\n".join(tr.aux) + ("\n" if tr.aux else "")
    fuelp = "(fuel : Nat) " if tr.fuel else ""
    extra = ""
    if tr.mutleafs:
        extra = "  Result: " + ("the returned value, then " if tr.ret != "unit" else "") + "the new values of " + ", ".join(f"`{k}`" for k in tr.mutleafs) + "."
    if tr.fuel:
        extra += "  Outer `none` = the fuel ran out, `some none` = panic."
    out += (f"/-- `{rel}:{line}`  `{flat[:160]}{'…' if len(flat) > 160 else ''}`{extra} -/\n"
            f"def {lean} {fuelp}{' '.join(sig)} : {rty} :=\n{indent(term)}\n")
    entry = {"lean": lean, "params": prim_params, "ret": tr.ret, "fuel": tr.fuel, "mutleafs": tr.mutleafs,
             "objparams": [p for p in tr.objs if p != "self"]}
    if selfmode or impl:
        entry["selfleafs"] = [(k[len("self."):], env[k][1]) for k in leafs if k.startswith("self.")]
        if entry["objparams"]:
            entry["fuel"] = entry["fuel"]       # callable only if it has no other object parameter (checked at the call)
        fns[f"{impl}::{rust}"] = entry
    else:
        # NOTE: callers resolve free functions by RUST name inside the same run; a second function of the same name (leaf / branch
        # `body_size`) is reachable only through an explicit `calls` entry of the caller
        if rust not in fns:
            fns[rust] = entry
        else:
            fns[rust] = dict(entry, ambiguous=True)
    fns["=" + lean] = entry
    return out, f"{lean} <- {rel}:{line}"


def generate():
    fns, out, report, enums = {}, [], [], []
    for target in TARGETS:
        text, rep = translate(target, fns, enums)
        out.append(text)
        report.append(rep)
    header = ("/-!\nGENERATED by tools/gen_functions.py from the Rust sources — do not edit.\n"
              "One definition per translated function; `none` = the Rust function panics (checked arithmetic, division by zero,\n"
              "over-long shift, failed assert, index out of bounds, `unwrap` of `None`).  Fields of `self` are parameters; a `&mut self`\n"
              "method returns the new values of the fields it assigns.  `Store/GenFnCheck*.lean` proves each equal to the hand-written mirror.\n-/\n"
              "namespace Nomt.GenFn\n\n" + PRELUDE + "\n")
    return header + "\n".join(out) + "\nend Nomt.GenFn\n", report


def main():
    try:
        text, report = generate()
    except (TrError, GC.GenError) as ex:
        print(f"gen_functions: ERROR: {ex}")
        return 1
    os.makedirs(os.path.dirname(OUT), exist_ok=True)
    old = open(OUT).read() if os.path.exists(OUT) else None
    if old != text:
        with open(OUT, "w") as fh:
            fh.write(text)
    if "-v" in sys.argv:
        print("\n".join(report))
    print(f"gen_functions: {len(report)} functions translated from {REPO} -> {os.path.relpath(OUT, ROOT)}" + ("" if old == text else " (rewritten)"))
    return 0


if __name__ == "__main__":
    sys.exit(main())
