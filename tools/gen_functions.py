#!/usr/bin/env python3
"""Function translator: pure integer functions of the Rust sources  ->  lean/NomtModel/Generated/Functions.lean

A (small) Rust-subset -> Lean translator.  It reads the CURRENT working tree of the Rust project
(default /repo, override env NOMT_REPO or argv[1]), finds every function listed in TARGETS, parses its
body with a recursive-descent parser for the subset below and emits one Lean definition per function
into namespace `Nomt.GenFn`.  `lean/NomtModel/Store/GenFnCheck.lean` then proves, for ALL arguments in
the function's domain, that the generated definition equals the hand-written mirror the property theorems
are about — so a change of the Rust function that alters its meaning breaks a kernel-checked obligation
on the next run, and a harmless rewrite (reordered arithmetic, a renamed local) re-proves by `omega`.

Subset: `fn name(a: T, …) -> T { … }` over usize / u8 / u16 / u32 / u64 / bool;
  statements  `let [mut] x [: T] = e;`  `x = e;`  `x op= e;`  `if c { … } [else if …] [else { … }]`
              `return e;`  `assert!(c …);` `debug_assert!(c …);`  trailing expression
  expressions integer literals (dec / hex / bin / octal, `_`, type suffix), `true` / `false`, locals, parameters,
              UPPER_CASE constants (resolved by tools/gen_constants.py's evaluator from their `const` items),
              `u64::MAX`-style constants, + - * / % << >> & | ^ ! (bitwise / logical), comparisons, && ||,
              `e as T`, parentheses, `if` expressions, calls of other TARGET functions, `core::cmp::min/max`,
              methods saturating_sub, saturating_add, wrapping_add/sub/mul, min, max, div_ceil, next_multiple_of, pow,
              count_ones, is_power_of_two, and the idiom `E.checked_shl(S).map(|m| BODY).unwrap_or(D)`.
Semantics: every value is a `Nat` below 2^width of its Rust type; a definition returns `Option`, `none` = the
  Rust function panics (overflow of + - * in a checked build, division by zero, over-long shift, failed assert).
  Unsupported syntax is an ERROR naming the function and the token (exit code 1): a function that leaves the
  subset must be noticed, never silently skipped.
The output is deterministic; the file is only rewritten when its content changes.
"""
import os
import re
import sys

ROOT = os.path.dirname(os.path.dirname(os.path.abspath(__file__)))
sys.path.insert(0, os.path.join(ROOT, "tools"))
import gen_constants as GC  # noqa: E402

_args = [a for a in sys.argv[1:] if not a.startswith("-")]
REPO = _args[0] if _args else os.environ.get("NOMT_REPO", "/repo")
GC.REPO = REPO
OUT = os.path.join(ROOT, "lean", "NomtModel", "Generated", "Functions.lean")

# (lean name, rust fn name, file, enclosing `impl`/`mod` hint or None)
TARGETS = [
    ("needed_pages", "needed_pages", "nomt/src/beatree/ops/overflow.rs"),
    ("total_needed_pages", "total_needed_pages", "nomt/src/beatree/ops/overflow.rs"),
    ("leaf_body_size", "body_size", "nomt/src/beatree/leaf/node.rs"),
    ("branch_body_size", "body_size", "nomt/src/beatree/branch/node.rs"),
    ("shard_index_for", "shard_index_for", "nomt/src/page_cache.rs"),
    ("full_entry", "full_entry", "nomt/src/bitbox/meta_map.rs"),
    ("num_meta_byte_pages", "num_meta_byte_pages", "nomt/src/bitbox/ht_file.rs"),
    ("expected_file_len", "expected_file_len", "nomt/src/bitbox/ht_file.rs"),
    ("bottom_node_index", "bottom_node_index", "core/src/trie_pos.rs"),
    ("sibling_index", "sibling_index", "core/src/trie_pos.rs"),
    ("parent_node_index", "parent_node_index", "core/src/trie_pos.rs"),
    ("first_chunk_mask", "first_chunk_mask", "nomt/src/beatree/ops/bit_ops.rs"),
    ("last_chunk_mask", "last_chunk_mask", "nomt/src/beatree/ops/bit_ops.rs"),
]

WIDTH = {"usize": 64, "u64": 64, "u32": 32, "u16": 16, "u8": 8, "bool": 0}
LEAN_KEYWORDS = {"at", "from", "end", "meta", "open", "prefix", "infix", "fun", "let", "in", "do", "then", "else", "if", "match", "with",
                 "where", "have", "show", "by", "local", "private", "section", "namespace", "export", "import", "def", "theorem", "example",
                 "instance", "structure", "class", "inductive", "variable", "universe", "mutual", "partial", "unsafe", "macro", "syntax",
                 "notation", "deriving", "extends", "for", "unless", "return", "try", "catch", "finally", "mut", "break", "continue", "Type", "Prop", "Sort", "n"}


class TrError(Exception):
    pass


# ------------------------------------------------------------------ lexer

TOKEN_RE = re.compile(r"""
    (?P<ws>\s+|//[^\n]*|/\*.*?\*/)
  | (?P<int>0x[0-9a-fA-F_]+|0b[01_]+|0o[0-7_]+|[0-9][0-9_]*)(?P<suf>usize|u8|u16|u32|u64)?
  | (?P<id>[A-Za-z_][A-Za-z0-9_]*)
  | (?P<op><<=|>>=|\+=|-=|\*=|/=|%=|&=|\|=|\^=|<<|>>|<=|>=|==|!=|&&|\|\||->|::|[-+*/%&|^!<>=(){}\[\],;:.])
""", re.X | re.S)


def lex(src, what):
    toks, i = [], 0
    while i < len(src):
        m = TOKEN_RE.match(src, i)
        if not m:
            raise TrError(f"{what}: cannot tokenise at `{src[i:i+30]!r}`")
        i = m.end()
        if m.group("ws"):
            continue
        if m.group("int"):
            t = m.group("int").replace("_", "")
            v = int(t, 0) if t[:2] in ("0x", "0b", "0o") else int(t)
            toks.append(("int", v, m.group("suf")))
        elif m.group("id"):
            toks.append(("id", m.group("id"), None))
        else:
            toks.append(("op", m.group("op"), None))
    toks.append(("eof", None, None))
    return toks


# ------------------------------------------------------------------ parser (AST = tuples)

class Parser:
    def __init__(self, toks, what):
        self.t, self.i, self.what = toks, 0, what

    def peek(self, k=0):
        return self.t[self.i + k]

    def next(self):
        tok = self.t[self.i]
        self.i += 1
        return tok

    def at(self, kind, val=None):
        k, v, _ = self.peek()
        return k == kind and (val is None or v == val)

    def expect(self, kind, val=None):
        k, v, s = self.next()
        if k != kind or (val is not None and v != val):
            raise TrError(f"{self.what}: expected `{val or kind}`, found `{v}` — outside the translated subset")
        return v

    def ty(self):
        name = self.expect("id")
        if name not in WIDTH:
            raise TrError(f"{self.what}: type `{name}` is outside the translated subset")
        return name

    # fn name ( params ) -> ty block
    def function(self):
        self.expect("id", "fn")
        name = self.expect("id")
        self.expect("op", "(")
        params = []
        while not self.at("op", ")"):
            p = self.expect("id")
            self.expect("op", ":")
            params.append((p, self.ty()))
            if self.at("op", ","):
                self.next()
        self.expect("op", ")")
        self.expect("op", "->")
        ret = self.ty()
        body = self.block()
        return name, params, ret, body

    def block(self):
        """-> list of statements; a trailing expression becomes ('return', e)"""
        self.expect("op", "{")
        stmts = []
        while not self.at("op", "}"):
            if self.at("id", "let"):
                self.next()
                if self.at("id", "mut"):
                    self.next()
                x = self.expect("id")
                ty = None
                if self.at("op", ":"):
                    self.next()
                    ty = self.ty()
                self.expect("op", "=")
                e = self.expr()
                self.expect("op", ";")
                stmts.append(("let", x, ty, e))
            elif self.at("id", "return"):
                self.next()
                e = self.expr()
                if self.at("op", ";"):
                    self.next()
                stmts.append(("return", e))
            elif self.at("id", "assert") or self.at("id", "debug_assert"):
                self.next()
                self.expect("op", "!")
                self.expect("op", "(")
                c = self.expr()
                depth = 1
                while depth:  # skip a message
                    k, v, _ = self.next()
                    if k == "eof":
                        raise TrError(f"{self.what}: unterminated assert!")
                    if k == "op" and v == "(":
                        depth += 1
                    if k == "op" and v == ")":
                        depth -= 1
                if self.at("op", ";"):
                    self.next()
                stmts.append(("assert", c))
            elif self.at("id", "if"):
                node = self.if_()
                if self.at("op", "}") and self._is_value_if(node):
                    stmts.append(("return", node))
                else:
                    stmts.append(("ifstmt", node))
            elif self.peek()[0] == "id" and self.peek(1)[0] == "op" and self.peek(1)[1] in ("=", "+=", "-=", "*=", "/=", "%=", "&=", "|=", "^=", "<<=", ">>="):
                x = self.expect("id")
                op = self.next()[1]
                e = self.expr()
                self.expect("op", ";")
                if op != "=":
                    e = ("bin", op[:-1], ("var", x), e)
                stmts.append(("assign", x, e))
            else:
                e = self.expr()
                if self.at("op", ";"):
                    raise TrError(f"{self.what}: expression statement is outside the translated subset")
                stmts.append(("return", e))
        self.expect("op", "}")
        return stmts

    @staticmethod
    def _is_value_if(node):
        _, _, a, b = node
        def val(blk):
            return bool(blk) and blk[-1][0] == "return"
        return b is not None and val(a) and val(b)

    def if_(self):
        self.expect("id", "if")
        c = self.expr(nostruct=True)
        a = self.block()
        b = None
        if self.at("id", "else"):
            self.next()
            if self.at("id", "if"):
                inner = self.if_()
                b = [("return", inner)] if self._is_value_if(inner) else [("ifstmt", inner)]
            else:
                b = self.block()
        return ("if", c, a, b)

    PREC = [["||"], ["&&"], ["==", "!=", "<", "<=", ">", ">="], ["|"], ["^"], ["&"], ["<<", ">>"], ["+", "-"], ["*", "/", "%"]]

    def expr(self, lvl=0, nostruct=False):
        if lvl == len(self.PREC):
            return self.cast()
        e = self.expr(lvl + 1)
        while self.peek()[0] == "op" and self.peek()[1] in self.PREC[lvl]:
            op = self.next()[1]
            r = self.expr(lvl + 1)
            e = ("bin", op, e, r)
        return e

    def cast(self):
        e = self.unary()
        while self.at("id", "as"):
            self.next()
            e = ("as", e, self.ty())
        return e

    def unary(self):
        if self.at("op", "!"):
            self.next()
            return ("not", self.unary())
        if self.at("op", "-"):
            raise TrError(f"{self.what}: unary minus is outside the translated subset")
        return self.postfix()

    def postfix(self):
        e = self.atom()
        while self.at("op", "."):
            self.next()
            m = self.expect("id")
            self.expect("op", "(")
            args = []
            while not self.at("op", ")"):
                if self.at("op", "|"):          # closure |m| body
                    self.next()
                    v = self.expect("id")
                    self.expect("op", "|")
                    args.append(("closure", v, self.expr()))
                else:
                    args.append(self.expr())
                if self.at("op", ","):
                    self.next()
            self.expect("op", ")")
            e = ("method", m, e, args)
        return e

    def atom(self):
        k, v, s = self.next()
        if k == "int":
            return ("lit", v, s)
        if k == "op" and v == "(":
            e = self.expr()
            self.expect("op", ")")
            return ("paren", e)
        if k == "id" and v == "if":
            self.i -= 1
            return self.if_()
        if k == "id" and v in ("true", "false"):
            return ("bool", v == "true")
        if k == "id":
            path = [v]
            while self.at("op", "::"):
                self.next()
                path.append(self.expect("id"))
            if self.at("op", "("):
                self.next()
                args = []
                while not self.at("op", ")"):
                    args.append(self.expr())
                    if self.at("op", ","):
                        self.next()
                self.expect("op", ")")
                return ("call", path, args)
            if len(path) == 2 and path[0] in WIDTH and path[1] in ("MAX", "MIN", "BITS"):
                w = WIDTH[path[0]]
                return ("lit", {"MAX": 2 ** w - 1, "MIN": 0, "BITS": w}[path[1]], path[0] if path[1] != "BITS" else "u32")
            name = path[-1]
            if name.isupper() or (name.upper() == name and "_" in name):
                return ("const", name)
            if len(path) > 1:
                raise TrError(f"{self.what}: path `{'::'.join(path)}` is outside the translated subset")
            return ("var", name)
        raise TrError(f"{self.what}: unexpected token `{v}` — outside the translated subset")


# ------------------------------------------------------------------ translation

def lname(x):
    return x + "_" if x in LEAN_KEYWORDS else x


class Tr:
    """expression translation returns (lean term, type, prelude) where prelude is a list of
    ('guard', cond) / ('bind', var, optionTerm) that must be established, in order, before the term is meaningful."""

    def __init__(self, what, fns, consts_of):
        self.what, self.fns, self.consts_of = what, fns, consts_of
        self.tmp = 0

    def fresh(self):
        self.tmp += 1
        return f"t{self.tmp}"

    def const(self, name):
        return self.consts_of(name)

    def unify(self, ta, tb, ea, eb):
        if ta is None and tb is None:
            return None
        if ta is None:
            return tb
        if tb is None:
            return ta
        if ta != tb:
            raise TrError(f"{self.what}: operands of different integer types ({ta} vs {tb}) — add a cast in the subset or extend the translator")
        return ta

    def expr(self, e, env, want=None):
        k = e[0]
        if k == "lit":
            return (str(e[1]), e[2] or want, [])
        if k == "bool":
            return ("true" if e[1] else "false", "bool", [])
        if k == "paren":
            t, ty, p = self.expr(e[1], env, want)
            return (f"({t})", ty, p)
        if k == "var":
            if e[1] not in env:
                raise TrError(f"{self.what}: unknown variable `{e[1]}`")
            return (env[e[1]][0], env[e[1]][1], [])
        if k == "const":
            v, ty = self.const(e[1])
            return (str(v), ty, [])
        if k == "as":
            t, ty, p = self.expr(e[1], env, None)
            w = WIDTH[e[2]]
            if ty == "bool":
                return (f"(if {t} then 1 else 0)", e[2], p)
            if ty is not None and WIDTH[ty] <= w:
                return (t, e[2], p)            # widening / same width: value unchanged
            return (f"({t} % {2 ** w})", e[2], p)
        if k == "not":
            t, ty, p = self.expr(e[1], env, want)
            if ty == "bool":
                return (f"(!{t})", "bool", p)
            if ty is None:
                raise TrError(f"{self.what}: `!` on an untyped literal")
            return (f"({2 ** WIDTH[ty] - 1} - {t})", ty, p)
        if k == "bin":
            return self.binop(e, env, want)
        if k == "if":
            return self.ifexpr(e, env, want)
        if k == "call":
            return self.call(e, env, want)
        if k == "method":
            return self.method(e, env, want)
        raise TrError(f"{self.what}: unsupported expression node {k}")

    def binop(self, e, env, want):
        _, op, a, b = e
        if op in ("&&", "||"):
            ta, _, pa = self.expr(a, env, "bool")
            tb, _, pb = self.expr(b, env, "bool")
            if pb:      # short circuit with a fallible right operand: bind an Option Bool
                v = self.fresh()
                rhs = wrap(pb, f"some {tb}")
                t = f"(if {ta} then {rhs} else some false)" if op == "&&" else f"(if {ta} then some true else {rhs})"
                return (v, "bool", pa + [("bind", v, t)])
            return (f"({ta} {op} {tb})", "bool", pa)
        if op in ("==", "!=", "<", "<=", ">", ">="):
            ta, tya, pa = self.expr(a, env, None)
            tb, tyb, pb = self.expr(b, env, tya)
            if tya is None and tyb is not None:
                ta, tya, pa = self.expr(a, env, tyb)
            lop = {"==": "==", "!=": "!=", "<": "<", "<=": "≤", ">": ">", ">=": "≥"}[op]
            if tya == "bool":
                return (f"({ta} {lop} {tb})", "bool", pa + pb)
            return (f"(decide ({ta} {lop if lop not in ('==', '!=') else {'==': '=', '!=': '≠'}[lop]} {tb}))", "bool", pa + pb)
        if op in ("<<", ">>"):
            ta, tya, pa = self.expr(a, env, want)
            tb, tyb, pb = self.expr(b, env, "u32")
            if tya is None:
                raise TrError(f"{self.what}: shift of an untyped literal")
            w = WIDTH[tya]
            g = [("guard", f"{tb} < {w}")]
            if op == "<<":
                return (f"(({ta} <<< {tb}) % {2 ** w})", tya, pa + pb + g)
            return (f"({ta} >>> {tb})", tya, pa + pb + g)
        ta, tya, pa = self.expr(a, env, want)
        tb, tyb, pb = self.expr(b, env, tya or want)
        if tya is None and tyb is not None:
            ta, tya, pa = self.expr(a, env, tyb)
        ty = self.unify(tya, tyb, a, b)
        if ty == "bool":
            if op in ("&", "|", "^"):
                bop = {"&": "&&", "|": "||", "^": "!="}[op]
                return (f"({ta} {bop} {tb})", "bool", pa + pb)
            raise TrError(f"{self.what}: arithmetic on bool")
        if ty is None:
            ty = "usize"
        w = WIDTH[ty]
        pre = pa + pb
        if op == "+":
            return (f"({ta} + {tb})", ty, pre + [("guard", f"{ta} + {tb} < {2 ** w}")])
        if op == "-":
            return (f"({ta} - {tb})", ty, pre + [("guard", f"{tb} ≤ {ta}")])
        if op == "*":
            return (f"({ta} * {tb})", ty, pre + [("guard", f"{ta} * {tb} < {2 ** w}")])
        if op == "/":
            return (f"({ta} / {tb})", ty, pre + [("guard", f"{tb} ≠ 0")])
        if op == "%":
            return (f"({ta} % {tb})", ty, pre + [("guard", f"{tb} ≠ 0")])
        if op in ("&", "|", "^"):
            bop = {"&": "&&&", "|": "|||", "^": "^^^"}[op]
            return (f"({ta} {bop} {tb})", ty, pre)
        raise TrError(f"{self.what}: unsupported operator `{op}`")

    def ifexpr(self, e, env, want):
        _, c, a, b = e
        if b is None:
            raise TrError(f"{self.what}: `if` expression without `else`")
        tc, _, pc = self.expr(c, env, "bool")
        ta, tya = self.block_value(a, env, want)
        tb, tyb = self.block_value(b, env, want or tya)
        v = self.fresh()
        return (v, tya or tyb, pc + [("bind", v, f"(if {tc} then {ta} else {tb})")])

    def block_value(self, stmts, env, want):
        """a block in expression position -> (Option-valued lean term, type)"""
        tys = []
        t = self.stmts(stmts, dict(env), want, tys)
        return t, (tys[0] if tys else want)

    def call(self, e, env, want):
        _, path, args = e
        name = path[-1]
        if name in ("min", "max") and len(args) == 2 and (len(path) == 1 or path[-2] == "cmp"):
            ta, tya, pa = self.expr(args[0], env, want)
            tb, tyb, pb = self.expr(args[1], env, tya or want)
            if tya is None and tyb is not None:
                ta, tya, pa = self.expr(args[0], env, tyb)
            return (f"(Nat.{name} {ta} {tb})", tya or tyb, pa + pb)
        if len(path) == 1 and name in self.fns:
            lean, params, ret = self.fns[name]
            if len(params) != len(args):
                raise TrError(f"{self.what}: call of `{name}` with {len(args)} arguments")
            pre, ts = [], []
            for (pn, pt), a in zip(params, args):
                t, ty, p = self.expr(a, env, pt)
                pre += p
                ts.append(t if re.fullmatch(r"[\w']+", t) else f"({t})")
            v = self.fresh()
            return (v, ret, pre + [("bind", v, f"({lean} {' '.join(ts)})")])
        raise TrError(f"{self.what}: call of `{'::'.join(path)}` — not a translated function")

    def method(self, e, env, want):
        _, m, recv, args = e
        # idiom  E.checked_shl(S).map(|m| BODY).unwrap_or(D)
        if m == "unwrap_or" and recv[0] == "method" and recv[1] == "map" and recv[2][0] == "method" and recv[2][1] == "checked_shl":
            shl = recv[2]
            clos = recv[3][0]
            if clos[0] != "closure":
                raise TrError(f"{self.what}: `.map` without a closure")
            tb, tyb, pb = self.expr(shl[2], env, want)
            ts, _, ps = self.expr(shl[3][0], env, "u32")
            if tyb is None:
                raise TrError(f"{self.what}: checked_shl on an untyped literal")
            w = WIDTH[tyb]
            td, tyd, pd = self.expr(args[0], env, tyb)
            if pd:
                raise TrError(f"{self.what}: fallible default in unwrap_or")
            env2 = dict(env)
            mv = lname(clos[1])
            env2[clos[1]] = (mv, tyb)
            tbody, tybody, pbody = self.expr(clos[2], env2, tyb)
            v = self.fresh()
            inner = f"(let {mv} := ({tb} <<< {ts}) % {2 ** w}; {wrap(pbody, 'some ' + atomise(tbody))})"
            return (v, tybody or tyb, pb + ps + [("bind", v, f"(if {ts} < {w} then {inner} else some {atomise(td)})")])
        tr, tyr, pr = self.expr(recv, env, want)
        if tyr is None:
            tyr = want or "usize"
        w = WIDTH.get(tyr, 64)

        def arg(i, wt=None):
            return self.expr(args[i], env, wt or tyr)
        if m == "saturating_sub":
            ta, _, pa = arg(0)
            return (f"({tr} - {ta})", tyr, pr + pa)
        if m == "saturating_add":
            ta, _, pa = arg(0)
            return (f"(Nat.min ({tr} + {ta}) {2 ** w - 1})", tyr, pr + pa)
        if m in ("wrapping_add", "wrapping_mul"):
            ta, _, pa = arg(0)
            o = "+" if m == "wrapping_add" else "*"
            return (f"(({tr} {o} {ta}) % {2 ** w})", tyr, pr + pa)
        if m == "wrapping_sub":
            ta, _, pa = arg(0)
            return (f"(({tr} + {2 ** w} - {ta}) % {2 ** w})", tyr, pr + pa)
        if m in ("min", "max"):
            ta, _, pa = arg(0)
            return (f"(Nat.{m} {tr} {ta})", tyr, pr + pa)
        if m == "div_ceil":
            ta, _, pa = arg(0)
            return (f"(({tr} + {ta} - 1) / {ta})", tyr, pr + pa + [("guard", f"{ta} ≠ 0")])
        if m == "next_multiple_of":
            ta, _, pa = arg(0)
            return (f"((({tr} + {ta} - 1) / {ta}) * {ta})", tyr, pr + pa + [("guard", f"{ta} ≠ 0"), ("guard", f"(({tr} + {ta} - 1) / {ta}) * {ta} < {2 ** w}")])
        if m == "pow":
            ta, _, pa = arg(0, "u32")
            return (f"({tr} ^ {ta})", tyr, pr + pa + [("guard", f"{tr} ^ {ta} < {2 ** w}")])
        if m == "is_power_of_two":
            return (f"(decide ({tr} ≠ 0 ∧ {tr} &&& ({tr} - 1) = 0))", "bool", pr)
        raise TrError(f"{self.what}: method `.{m}()` is outside the translated subset")

    # statements -> Option-valued term (continuation style; `rest` is duplicated into both arms of a statement-if)
    def stmts(self, ss, env, ret, tys=None):
        if not ss:
            raise TrError(f"{self.what}: control reaches the end of a block without a value")
        s, rest = ss[0], ss[1:]
        k = s[0]
        if k == "return" and s[1][0] == "if" and s[1][3] is not None:
            # a value-`if` in tail position: both arms are tails themselves (no temporary)
            _, c, a, b = s[1]
            tc, _, pc = self.expr(c, env, "bool")
            ta = self.stmts(a, dict(env), ret, tys)
            tb = self.stmts(b, dict(env), ret, tys)
            return wrap(pc, f"(if {tc} then\n{ta}\nelse\n{tb})")
        if k == "return":
            t, ty, p = self.expr(s[1], env, ret)
            if tys is not None:
                tys.append(ty)
            return wrap(p, f"some {atomise(t)}")
        if k == "let" or k == "assign":
            if k == "let":
                _, x, ty, e = s
            else:
                _, x, e = s
                if x not in env:
                    raise TrError(f"{self.what}: assignment to unknown `{x}`")
                ty = env[x][1]
            t, ty2, p = self.expr(e, env, ty)
            ty = ty or ty2 or "usize"
            # fresh Lean name on re-binding so that shadowing / mutation never captures
            base = lname(x)
            n = sum(1 for v in env.values() if v[0] == base or v[0].startswith(base + "'"))
            ln = base + "'" * n
            env2 = dict(env)
            env2[x] = (ln, ty)
            body = self.stmts(rest, env2, ret, tys)
            return wrap(p, f"(let {ln} := {t}\n{body})")
        if k == "assert":
            t, _, p = self.expr(s[1], env, "bool")
            return wrap(p + [("guard", f"{t} = true")], self.stmts(rest, env, ret, tys))
        if k == "ifstmt":
            _, c, a, b = s[1]
            tc, _, pc = self.expr(c, env, "bool")
            # NOTE: variables assigned inside an arm are visible in `rest` only through duplication of `rest`
            ta = self.stmts_then(a, rest, env, ret, tys)
            tb = self.stmts_then(b or [], rest, env, ret, tys)
            return wrap(pc, f"(if {tc} then\n{ta}\nelse\n{tb})")
        raise TrError(f"{self.what}: unsupported statement {k}")

    def stmts_then(self, arm, rest, env, ret, tys):
        """translate `arm ; rest` where env changes made by `arm` (assignments) flow into rest"""
        return self.stmts(list(arm) + list(rest), env, ret, tys)


def atomise(t):
    return t if re.fullmatch(r"[\w']+|\(.*\)", t) and balanced(t) else f"({t})"


def balanced(t):
    if not t.startswith("("):
        return True
    d = 0
    for i, c in enumerate(t):
        d += c == "("
        d -= c == ")"
        if d == 0 and i < len(t) - 1:
            return False
    return True


def wrap(prelude, body):
    """establish the prelude (in order), then `body` (an Option-valued term)"""
    out = body
    for item in reversed(prelude):
        if item[0] == "guard":
            out = f"(if {item[1]} then\n{out}\nelse none)"
        else:
            out = f"(match {item[2]} with\n| none => none\n| some {item[1]} =>\n{out})"
    return out


def indent(text, n=2):
    # purely cosmetic: nested lets / ifs are layout-insensitive here because every construct is parenthesis-free only at the
    # statement level; we still indent `match` arms consistently
    lines, depth, out = text.split("\n"), 0, []
    for ln in lines:
        out.append(" " * n + ln)
    return "\n".join(out)


# ------------------------------------------------------------------ source access

def find_fn(rel, name):
    text = GC.read(rel)
    if text is None:
        raise TrError(f"function {name}: file {rel} not found in {REPO}")
    # drop #[cfg(test)] mod tests { … } so that test helpers of the same name are not picked up
    text = re.sub(r"#\[cfg\(test\)\]\s*mod\s+\w+\s*\{", "\x00", text)
    cut = text.find("\x00")
    if cut >= 0:
        text = text[:cut]
    ms = list(re.finditer(r"^[ \t]*(?:pub(?:\([a-z: ]+\))?[ \t]+)?fn[ \t]+" + re.escape(name) + r"[ \t]*\(", text, re.M))
    ms = [m for m in ms if not re.match(r"\s*(?:&\s*(?:mut\s+)?)?self\b", text[m.end():])]   # methods of the same name are other functions
    if not ms:
        raise TrError(f"function {name}: no free `fn {name}(` in {rel} (renamed or removed?)")
    if len(ms) > 1:
        raise TrError(f"function {name}: defined {len(ms)} times in {rel}")
    i = text.index("fn", ms[0].start())
    j = text.index("{", i)
    depth, k = 0, j
    while k < len(text):
        if text[k] == "{":
            depth += 1
        elif text[k] == "}":
            depth -= 1
            if depth == 0:
                break
        k += 1
    return text[i:k + 1], text.count("\n", 0, i) + 1


_const_cache = {}


def const_value(name, rel):
    """value and Rust type of an UPPER_CASE constant used by a function in file `rel` (its own file first, then a unique definition elsewhere)"""
    if name in _const_cache:
        return _const_cache[name]
    frel, line, ty, expr, src = GC.find_const(name, [rel])
    env = {}
    for dep in sorted(set(re.findall(r"\b[A-Z][A-Z0-9_]{2,}\b", expr))):
        if dep != name and dep not in ("MAX", "MIN", "BITS"):
            env[dep] = const_value(dep, frel)[0]
    v = GC.eval_int(expr, env, f"constant {name} ({frel}:{line})")
    ty = ty.strip()
    _const_cache[name] = (v, ty if ty in WIDTH else None)
    return _const_cache[name]


def generate():
    fns, out, report = {}, [], []
    for lean, rust, rel in TARGETS:
        src, line = find_fn(rel, rust)
        what = f"function {rust} ({rel}:{line})"
        name, params, ret, body = Parser(lex(src, what), what).function()
        tr = Tr(what, fns, lambda c, rel=rel: const_value(c, rel))
        env = {p: (lname(p), t) for p, t in params}
        term = tr.stmts(body, env, ret)
        sig = " ".join(f"({lname(p)} : {'Bool' if t == 'bool' else 'Nat'})" for p, t in params)
        rty = "Bool" if ret == "bool" else "Nat"
        flat = " ".join(src.split())
        out.append(f"/-- `{rel}:{line}`  `{flat[:160]}{'…' if len(flat) > 160 else ''}` -/\ndef {lean} {sig} : Option {rty} :=\n{indent(term)}\n")
        # NOTE: callers resolve by RUST name inside the same run; two rust functions called `body_size` are never called by a target
        fns[rust] = (lean, params, ret)
        report.append(f"{lean} <- {rel}:{line}")
    header = ("/-!\nGENERATED by tools/gen_functions.py from the Rust sources — do not edit.\n"
              "One definition per translated function; `none` = the Rust function panics (checked arithmetic, division by zero,\n"
              "over-long shift, failed assert).  `Store/GenFnCheck.lean` proves each equal to the hand-written mirror.\n-/\n"
              "namespace Nomt.GenFn\n\n")
    return header + "\n".join(out) + "\nend Nomt.GenFn\n", report


def main():
    try:
        text, report = generate()
    except (TrError, GC.GenError) as ex:
        print(f"gen_functions: ERROR: {ex}")
        return 1
    os.makedirs(os.path.dirname(OUT), exist_ok=True)
    old = open(OUT).read() if os.path.exists(OUT) else None
    if old != text:
        with open(OUT, "w") as fh:
            fh.write(text)
    if "-v" in sys.argv:
        print("\n".join(report))
    print(f"gen_functions: {len(report)} functions translated from {REPO} -> {os.path.relpath(OUT, ROOT)}" + ("" if old == text else " (rewritten)"))
    return 0


if __name__ == "__main__":
    sys.exit(main())
