#!/usr/bin/env python3
"""Regenerates MANIFEST.json from tools/props.py + tools/manifest_meta.py (kept valid at all times)."""
import json, os, sys
ROOT = os.path.dirname(os.path.dirname(os.path.abspath(__file__)))
sys.path.insert(0, os.path.join(ROOT, "tools"))
import props, manifest_meta as M
ALL = [f"C{i:02d}" for i in range(1, 21)]
checks = []
for p in ALL:
    if p in props.PROPS and p in M.CLAIMS:
        c = M.CLAIMS[p]
        checks.append({
            "property_id": p,
            "quick_cmd": f"python3 tools/check.py {p} --tier quick",
            "thorough_cmd": f"python3 tools/check.py {p} --tier thorough",
            "evidence_file": f"/verif/evidence/{p}.json",
            "replay_cmd_template": f"python3 tools/check.py {p} --replay {{path}}",
            "engine": "lean4-proof+correspondence",
            "level_claimed": {"category": "proof", "text": c["text"], "design_ref": c["design_ref"]},
            "level_note": c["note"],
            "technique": c["technique"],
        })
na = [{"property_id": p, "reason": M.NOT_YET.get(p, "check not built yet in this session; see DESIGN.md §9")} for p in ALL if not (p in props.PROPS and p in M.CLAIMS)]
man = {
    "version": 1,
    "setup_cmd": "python3 tools/setup.py",
    "hooks": {
        "guard": "nomt_verif",
        "enable": "RUSTFLAGS=\"--cfg nomt_verif --check-cfg cfg(nomt_verif)\" (set in /verif/harness/.cargo/config.toml; the harness depends on /repo/nomt and /repo/core by path)",
        "baseline_off_cmd": "cd /repo && cargo nextest run --workspace --no-fail-fast --test-threads 8 --offline || cargo test --workspace --no-fail-fast --offline",
        "source_commits": M.HOOK_COMMITS,
        "add_only": True,
    },
    "engines": [
        {"name": "lean4-proof+correspondence", "path": "/verif/lean, /verif/harness, /verif/tools/check.py",
         "serves_properties": [c["property_id"] for c in checks],
         "kind_free_text": "Lean 4 model + kernel-checked theorems (lake project NomtModel, core Lean only), compiled Lean driver nomt_model behind a line protocol, Rust harness calling the real code in-process, differential + oracle + axiom audit orchestrated by tools/check.py"}
    ],
    "checks": checks,
    "not_applicable": na,
    "notes": M.NOTES,
}
json.dump(man, open(os.path.join(ROOT, "MANIFEST.json"), "w"), indent=1)
print("MANIFEST.json:", len(checks), "claimed,", len(na), "not claimed")
