# Q32 — the beatree `Tree` object (staging maps, sync phases, read transactions, branch index, reconstruction at open)
_RUN = {"cmd": "bttree", "mode": "bttree", "cases": {"quick": 32, "thorough": 640}, "shards": {"quick": 4, "thorough": 16}}
_RULE = (" `bttree`: a case is a history on ONE real `Tree` (hook H21 `verif_api::beatree_tree`, scratch directory under /dev/shm): "
         "commits (also while a sync is in flight), 1-5 syncs driven phase by phase (`begin_sync` — blocked by live read transactions in 3 of 10, "
         "racing with main-thread lookups in 2 of 10 —, `wait_pre_meta`, observations, `post_meta`), `Tree::lookup`, read transactions with "
         "`lookup_async` / `AsyncLookup` and iterator ranges at every phase, values across the overflow boundary, close + reopen, the real "
         "`reconstruct` on the bbn file with the true and with doctored free-page sets / bumps, `search_branch` / `LeafNode::get` on the pages the "
         "syncs wrote; every line is answered by the Lean state machine `BtTree.step` (which also evaluates the contract `finishOKb` of `ops::update` "
         "and `alloc` of every written page on the real pages), the code-level read path `BtLookup` and the mirror `BtRecon.reconstruct`; oracles: a "
         "`BTreeMap` per committed state and per read transaction, page contents under live transactions, index after reopen = live index before close.")
EXTRA = {
    "C15": {"runs": [_RUN], "rule": _RULE,
            "assumptions": ["the contract of `ops::update` (`FinishOK`) and of the allocator (`alloc`) are enabling conditions of the state machine, evaluated on the real pages of every sync of the run"]},
    "C01": {"runs": [dict(_RUN, cases={"quick": 16, "thorough": 320})], "rule": _RULE},
    "C10": {"runs": [dict(_RUN, cases={"quick": 16, "thorough": 320})], "rule": _RULE},
    "C16": {"runs": [dict(_RUN, cases={"quick": 16, "thorough": 320})], "rule": _RULE},
}
