#!/bin/bash
# Q33 helper: run `placement … --oldmeta` histories and summarise the old-meta monitor's answers.
W=/dev/shm/nomt-verif-q33
mkdir -p $W
cd "$(dirname "$0")/.."
n=$1; shift
timeout 900 harness/target/debug/vharness placement --out $W/$n "$@" --oldmeta > $W/$n.log 2>&1
lean/.lake/build/bin/nomt_model image < $W/$n/ops.txt > $W/$n.model
sum() { grep -o "$1=[0-9]*" $W/$n.model | cut -d= -f2 | paste -sd+ | bc; }
echo "$n: lines=$(wc -l < $W/$n/ops.txt) ok=$(grep -c '^ok' $W/$n.model) bad=$(grep -c '^bad' $W/$n.model) rb_kept=$(sum old_rb_kept) rb_pruned=$(sum old_rb_pruned) rb_appended=$(sum old_rb_appended) oracle=$(wc -l < $W/$n/oracle_failures.txt 2>/dev/null)"
grep '^bad' $W/$n.model | cut -c1-260 | sort | uniq -c | head -5
rm -rf $W/$n
