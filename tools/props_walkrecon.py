# unit Q35 — walks that ENTER reconstructed (elided) pages: run parameters of the `walker` differential's `--focus recon`
# (harness/src/walker.rs: gen_recon_universe / run_recon_history / World::check_recon), loaded by tools/props.py
WALKRECON_RUN = {"cmd": "walker", "mode": "walker", "args": ["--focus", "recon"],
                 "cases": {"quick": 160, "thorough": 6000}, "shards": {"quick": 4, "thorough": 16}}
WALKRECON_RULE = (
    " walker --focus recon (hook H16, unit Q35): every case is a 3..7-commit history on one page store that walks INTO reconstructed pages: a bulk of 20..30 keys under 4..13 bits keeps the upper pages stored, 1..3 clusters of up to 26 "
    "candidate keys under prefixes of 12..60 bits (at / around page boundaries) whose leaves share 0..3 further sextets occupy chains of 1..4(+) pages below a stored page; per commit every cluster gets a target size drawn from: grow across "
    "PAGE_ELISION_THRESHOLD (20..25), exactly 20, 19, small again (2..19), (nearly) empty (0..1: the pages are cleared), values only, one more, a few less; the batch rewrites / reads leaves that stay and reads / deletes absent keys of the "
    "cluster so that terminals lie INSIDE the elided sub-trie; before every walk the harness plays `seek`: every elided page on the way to a terminal is rebuilt by the REAL reconstruct_pages from the leaves below it and inserted as "
    "PageOrigin::Reconstructed; 1/3 of the commits run in the split flow of merkle::worker (sub-walkers under the parent page ROOT + the root-page walker); fresh pool pages zero or garbage (1/4). One case in five of the default `walker` mix "
    "is such a history as well. Counters: walk_entered_reconstructed (commits with a terminal in a reconstructed page), terminals_in_reconstructed_pages, promoted (reconstructed page handed out = stored), demoted (stored page cleared), "
    "stored_kept_below_threshold, reconstructed_stays_elided, recon_chain_depth_1..5, recon_leaves_*. Oracles independent of the model (in addition to root / every slot of every stored page / elision rule / diff exactness of the walker run): "
    "C02 recon — the pages reconstruct_pages yields are EXACTLY the pages at / below the elided child whose prefix holds >= 2 leaves, every slot whose parent is internal = reference node, page_leaves_counter = leaves in the page, "
    "page + children counter = keys below the page, every existing child flagged elided; C16 recon diff — the reconstruction diff names EVERY meaningful slot; promoted pages are handed out without bucket, not cleared, with >= 20 leaves below "
    "and (C16 diff) a diff naming every meaningful slot; a reconstructed page that is not handed out holds < 20 leaves afterwards.")

EXTRA = {
    "C02": {"runs": [dict(WALKRECON_RUN)], "rule": WALKRECON_RULE},
    "C16": {"runs": [dict(WALKRECON_RUN)], "rule": WALKRECON_RULE},
    "C13": {"runs": [dict(WALKRECON_RUN)], "rule": WALKRECON_RULE},
}
