# Unit Q41: `Session::finish` from the caller's actuals to merkle operations, value changes, rollback delta, root and witness
# (nomt/src/lib.rs, merkle/worker.rs handle_completion, merkle/mod.rs join) — harness command `finishops`, driver mode `finishops`.
_RUN = {"cmd": "finishops", "mode": "finishops", "cases": {"quick": 2400, "thorough": 60000}, "shards": {"quick": 4, "thorough": 16}}
_RULE = (" `finishops`: a case = a real store (1..5 commit workers, rollback on/off, warm-up on/off) moved to a prior state aimed at ONE terminal "
         "(leaf or terminator; in the root page at depth 0..6 or in a child page at depth 7..60, page boundaries, first / last root child of a "
         "worker's region), optionally with part of the view in one uncommitted parent overlay (which also deletes keys below the terminal), "
         "and ONE real Session::finish whose sorted actuals put 2..6 keys below that terminal with every mix of Read / Write / ReadThenWrite "
         "(write-back of the value read, blind write-back, delete of present / absent keys, the terminal leaf's VALUE written to other keys, "
         "reads only, one real write among no-ops) plus operations elsewhere; witness mode on/off, preserve_prior_value hints (written, "
         "unwritten, duplicate keys), warm-ups; malformed stream: swapped / duplicate / reversed actuals, a superseded overlay chain, an "
         "untruthful ReadThenWrite prior.  Compared line by line with the mirror Api/Finish.lean: the compact operation list handed to "
         "update_and_prove (hook H25 Update), every worker's batches with has_writes (H10), rebuilt-vs-advanced per owned exclusive batch "
         "(H25 Advance), the value transaction (H25), the rollback delta (H11), the root, the canonical witness, `panic unsorted <i>`, "
         "`err superseded`.  Oracles: operation list = compact form key by key; has_writes = some operation of the batch is a write; rebuilt "
         "iff has_writes with exactly the written operations; batches owned exactly once with the reference trie's terminals; witness verifies, "
         "attests the view's values, covers the writes, verify_update replays it to the reported root, none when disabled; root = reference "
         "trie of the updated BTreeMap, unchanged when all writes are no-ops; value transaction = written operations in key order; "
         "Session::read before / Nomt::read after the commit = BTreeMap; delta = the view's value of exactly the written keys; rollback(1) "
         "restores values and root; a rejected / refused finish reaches no merkle worker.")
EXTRA = {
    "C06": {"runs": [_RUN], "rule": _RULE},
    "C02": {"runs": [_RUN], "rule": _RULE},
    "C01": {"runs": [_RUN], "rule": _RULE},
    "C09": {"runs": [_RUN], "rule": _RULE,
            "assumptions": ["T9_finish_delta needs the caller contract RtwTruthful (the prior of a ReadThenWrite is what the session read); the "
                            "real code keeps whatever prior the caller claims (run at the excluded point: counters malformed_untruthful_rtw_prior / "
                            "untruthful_rtw_rollback_restores_the_claim)"]},
    "C13": {"runs": [_RUN], "rule": _RULE},
}
