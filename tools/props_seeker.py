# Unit Q34: the Seeker's request multiplexing (nomt/src/merkle/seek.rs) — harness command `seeker`, driver mode `seeker`.
_RUN = {"cmd": "seeker", "mode": "seeker", "cases": {"quick": 400, "thorough": 12000}, "shards": {"quick": 4, "thorough": 16}}
_RULE = (" `seeker`: a case = a world (view, b-tree leaves, staging, overlay chain, page tree with elided pages, page cache, leaf cache), a bitbox "
         "table built with the real allocate_bucket (colliding decoys, tombstones), MAX_INFLIGHT in {1,2,3,4..8,1024}, 1..12 pushed keys (duplicates, "
         "shared pages / leaves) and a random schedule of push / submit_all / take_completion / completion of any parked read; the REAL Seeker "
         "(hook SeekerSim, scripted I/O) and the mirror Store/Seeker.lean are compared after EVERY call on the whole multiplexer state (requests, "
         "io_waiters, slab with vacant_key, idle queues, reads in flight) and on every completion; oracles: completions = pushed keys in push order, "
         "each once; each = reference trie proof + real PathProof::verify; one load per page / leaf, a page loaded once per seeker; waiter lists = "
         "loads in progress; no waiter lost; reads in flight match submitted slab entries; no panic; no stall except `!has_room` with every load idle.")
EXTRA = {
    "C05": {"runs": [_RUN], "rule": _RULE,
            "assumptions": ["the hash table holds every stored page at a bucket its probe sequence reaches (HtOK) — what bitbox's allocate / "
                            "probe units establish",
                            "T5_seeker_no_stall_partial covers the loads (a read in flight unless all MAX_INFLIGHT loads are parked at once: "
                            "T5_seeker_stall_all_loads_idle_counterexample); that a request waiting for nothing is always in idle_requests "
                            "is checked by the harness oracle, not proved"]},
    "C13": {"runs": [_RUN], "rule": _RULE},
}
