import NomtModel.Driver.CoreMode
import NomtModel.Driver.ApiMode
import NomtModel.Driver.ImageMode
import NomtModel.Driver.AllocMode
import NomtModel.Driver.LocksMode
import NomtModel.Driver.WalImage
import NomtModel.Driver.OvlMode
import NomtModel.Driver.BitOpsMode
import NomtModel.Driver.SeglogMode
import NomtModel.Driver.TriePosMode
import NomtModel.Driver.ShardsMode
import NomtModel.Driver.FinishMode
import NomtModel.Driver.DeltaMode
import NomtModel.Driver.OvfMode
import NomtModel.Driver.LeafUpdMode
import NomtModel.Driver.PipelineMode
import NomtModel.Driver.WalkerMode
import NomtModel.Driver.BranchUpdMode
import NomtModel.Driver.SeekMode
import NomtModel.Driver.SeekerMode
import NomtModel.Driver.PrepSyncMode
import NomtModel.Driver.HasherMode
import NomtModel.Driver.CachesMode
import NomtModel.Driver.ExtRangeMode
import NomtModel.Driver.OpenPathMode
import NomtModel.Driver.BtTreeMode
import NomtModel.Driver.IoPoolMode
import NomtModel.Driver.StageGlueMode
import NomtModel.Driver.PushChunkMode
/-!
`nomt_model`: the executable Lean model behind a line protocol.
First argument selects the sub-protocol; stdin → stdout, one output line per input line.
-/
open Nomt Nomt.Driver

partial def loop {σ : Type} (h : IO.FS.Stream) (out : IO.FS.Stream) (step : σ → String → σ × String) (s : σ) : IO Unit := do
  let line ← h.getLine
  if line.isEmpty then return ()
  let (s', o) := step s line
  out.putStrLn o
  loop h out step s'

def main (args : List String) : IO UInt32 := do
  let stdin ← IO.getStdin
  let stdout ← IO.getStdout
  match args with
  | ["core"] => loop stdin stdout coreStep {}; return 0
  | ["api"] => loop stdin stdout apiStep { root := zeros32 }; return 0
  | ["image"] => imageLoop stdin stdout; return 0
  | ["alloc"] => loop stdin stdout allocStep (); return 0
  | ["locks"] => loop stdin stdout locksStep locksInit; return 0
  | ["wal"] => walLoop stdin stdout; return 0
  | ["ovl"] => loop stdin stdout ovlStep {}; return 0
  | ["bitops"] => loop stdin stdout bitopsStep (); return 0
  | ["pushchunk"] => loop stdin stdout pushchunkStep (); return 0
  | ["seglog"] => loop stdin stdout SegD.seglogStep {}; return 0
  | ["triepos"] => loop stdin stdout trieposStep none; return 0
  | ["shards"] => loop stdin stdout shardsStep {}; return 0
  | ["finishops"] => loop stdin stdout finishStep {}; return 0
  | ["delta"] => loop stdin stdout deltaStep {}; return 0
  | ["overflow"] => loop stdin stdout OvfD.ovfStep {}; return 0
  | ["leafupd"] => loop stdin stdout leafupdStep none; return 0
  | ["pipeline"] => loop stdin stdout pipelineStep pdrvInit; return 0
  | ["walker"] => loop stdin stdout walkerStep {}; return 0
  | ["branchupd"] => loop stdin stdout branchupdStep {}; return 0
  | ["seek"] => loop stdin stdout seekStep {}; return 0
  | ["seeker"] => loop stdin stdout seekerStep {}; return 0
  | ["prepsync"] => loop stdin stdout prepsyncStep (); return 0
  | ["hasher"] => loop stdin stdout hasherStep {}; return 0
  | ["caches"] => loop stdin stdout cachesStep {}; return 0
  | ["extrange"] => loop stdin stdout extrangeStep {}; return 0
  | ["openpath"] => loop stdin stdout openpathStep (); return 0
  | ["bttree"] => loop stdin stdout BtD.btStep {}; return 0
  | ["iopool"] => loop stdin stdout iopoolStep {}; return 0
  | ["stageglue"] => loop stdin stdout stageglueStep {}; return 0
  | _ => IO.eprintln "usage: nomt_model <core|...>"; return 2
