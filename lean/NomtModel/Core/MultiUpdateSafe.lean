import NomtModel.Core.MultiTotal
/-!
Facts about an accepted multi-proof that make panic sites of `verify_update` (multi_proof.rs:688)
unreachable: separation of the verified terminals (no `PathPrefixOfAnother`, no `skip - (n + 1)`
underflow), the sibling ranges recorded by `verify_range` (the subtractions and the upper slice bounds of
`CommonSiblings::advance` / `extend`), `terminal_contains`.
-/
set_option linter.unusedSectionVars false
namespace Nomt
variable {Node VH : Type} [DecidableEq Node] [DecidableEq VH] (H : Hasher Node VH)

/-! ### separation of verified terminals -/

theorem take_eq_of_le_shared (a b : List Bool) (m : Nat) (h : m ≤ shared a b) : a.take m = b.take m := by
  have := congrArg (List.take m) (shared_take a b)
  simpa [List.take_take, Nat.min_eq_left h] using this

/-- two different verified paths of an accepted multi-proof separate strictly above both depths -/
theorem verifyMulti_separated (mp : MultiProof Node VH) (root : Node) (v : VerifiedMulti Node VH)
    (hv : verifyMulti H mp root = .ok v) (i j : Nat) (t nt : VPath VH)
    (hi : v.inner[i]? = some t) (hj : v.inner[j]? = some nt) (hij : i ≠ j) :
    shared t.terminal.path nt.terminal.path < t.depth ∧
    shared t.terminal.path nt.terminal.path < nt.depth := by
  obtain ⟨_, r, hr, _, _, hinner, _⟩ := verifyMulti_ok H mp root v hv
  have hal := verifyMulti_aligned H mp root v hv
  have hinc := verifyRange_routes_incomp H _ _ _ _ _ _ r hr
  rw [← hinner] at hinc
  have hrt : t.route = t.terminal.path.take t.depth := hal t (List.mem_of_getElem? hi)
  have hrn : nt.route = nt.terminal.path.take nt.depth := hal nt (List.mem_of_getElem? hj)
  obtain ⟨hil, hie⟩ := List.getElem?_eq_some_iff.1 hi
  obtain ⟨hjl, hje⟩ := List.getElem?_eq_some_iff.1 hj
  have hincomp : RouteIncomp t nt := by
    rcases Nat.lt_or_gt_of_ne hij with hlt | hgt
    · have := (List.pairwise_iff_getElem.1 hinc) i j hil hjl hlt
      rw [hie, hje] at this; exact this
    · have := (List.pairwise_iff_getElem.1 hinc) j i hjl hil hgt
      rw [hie, hje] at this; exact ⟨this.2, this.1⟩
  have key : ¬ min t.depth nt.depth ≤ shared t.terminal.path nt.terminal.path := by
    intro hle
    rcases Nat.le_total t.depth nt.depth with hd | hd
    · -- route t = take dt (path nt) is a prefix of route nt
      apply hincomp.1
      rw [hrt, hrn, take_eq_of_le_shared _ _ t.depth (by rw [Nat.min_eq_left hd] at hle; exact hle)]
      exact List.take_prefix_take_left hd
    · apply hincomp.2
      rw [hrt, hrn, ← take_eq_of_le_shared _ _ nt.depth (by rw [Nat.min_eq_right hd] at hle; exact hle)]
      exact List.take_prefix_take_left hd
  have := Nat.lt_of_not_le key
  exact ⟨Nat.lt_of_lt_of_le this (Nat.min_le_left _ _), Nat.lt_of_lt_of_le this (Nat.min_le_right _ _)⟩

/-- hence the `up_layers` computation of `hash_and_compact_terminal` neither reports
`PathPrefixOfAnother` nor underflows -/
theorem upLayers_ok (mp : MultiProof Node VH) (root : Node) (v : VerifiedMulti Node VH)
    (hv : verifyMulti H mp root = .ok v) (i j : Nat) (t nt : VPath VH)
    (hi : v.inner[i]? = some t) (hj : v.inner[j]? = some nt) (hij : i ≠ j) :
    upLayers t (some nt) = .ok (t.depth - (shared t.terminal.path nt.terminal.path + 1)) := by
  obtain ⟨h1, _⟩ := verifyMulti_separated H mp root v hv i j t nt hi hj hij
  unfold upLayers
  have hne : (shared t.terminal.path nt.terminal.path == t.depth) = false := by
    simp; omega
  simp only [hne, Bool.false_eq_true, if_false, checkedSub]
  rw [if_pos (by omega)]

/-! ### the sibling ranges recorded by `verify_range` -/

/-- range facts of one verified path (its siblings end below `bound`) -/
def VPath.rangeOK (vp : VPath VH) (bound : Nat) : Prop :=
  vp.uStart ≤ vp.uEnd ∧ vp.uEnd ≤ bound ∧ vp.uEnd - vp.uStart ≤ vp.depth

/-- range facts of one recorded bisection -/
def VBis.rangeOK (b : VBis) (bound : Nat) : Prop :=
  b.cStart < b.cEnd ∧ b.cEnd ≤ bound

theorem verifyRange_ranges :
    ∀ (fuel : Nat) (pos : List Bool) (sd : Nat) (paths : List (MultiPathProof VH)) (sibs : List Node)
      (off : Nat) (r : RangeOut Node VH),
      verifyRange H fuel pos sd paths sibs off = .ok r →
      (∀ vp ∈ r.paths, vp.rangeOK (off + r.used)) ∧ (∀ b ∈ r.bis, b.rangeOK (off + r.used)) := by
  intro fuel
  induction fuel with
  | zero => intro pos sd paths sibs off r h; simp [verifyRange] at h
  | succ fuel ih =>
    intro pos sd paths sibs off r h
    unfold verifyRange at h
    match paths, h with
    | [], h =>
      simp only at h
      injection h with h; subst h
      refine ⟨?_, by simp⟩
      intro vp hvp
      simp only [List.mem_singleton] at hvp
      subst hvp
      simp [VPath.rangeOK]
    | [tp], h =>
      simp only at h
      obtain ⟨_, hg1, h⟩ := Outcome.bind_eq_ok h
      obtain ⟨ul, h1, h⟩ := Outcome.bind_eq_ok h
      obtain ⟨_, hg2, h⟩ := Outcome.bind_eq_ok h
      obtain ⟨seg, h2, h⟩ := Outcome.bind_eq_ok h
      obtain ⟨us, h3, h⟩ := Outcome.bind_eq_ok h
      simp only [Outcome.pure_eq] at h
      injection h with h; subst h
      obtain ⟨hle, hul⟩ := checkedSub_ok h1
      refine ⟨?_, by simp⟩
      intro vp hvp
      simp only [List.mem_singleton] at hvp
      subst hvp
      simp only [VPath.rangeOK]
      omega
    | first :: p2 :: rest, h =>
      simp only at h
      obtain ⟨_, hg1, h⟩ := Outcome.bind_eq_ok h
      obtain ⟨a, h1, h⟩ := Outcome.bind_eq_ok h
      obtain ⟨b, h2, h⟩ := Outcome.bind_eq_ok h
      obtain ⟨_, hg2, h⟩ := Outcome.bind_eq_ok h
      obtain ⟨_, hg3, h⟩ := Outcome.bind_eq_ok h
      obtain ⟨sr, h3, h⟩ := Outcome.bind_eq_ok h
      obtain ⟨idx, h4, h⟩ := Outcome.bind_eq_ok h
      obtain ⟨ls, h5, h⟩ := Outcome.bind_eq_ok h
      obtain ⟨l, h6, h⟩ := Outcome.bind_eq_ok h
      obtain ⟨rs, h7, h⟩ := Outcome.bind_eq_ok h
      obtain ⟨rr, h8, h⟩ := Outcome.bind_eq_ok h
      simp only [Outcome.pure_eq] at h
      injection h with h; subst h
      obtain ⟨hlp, hlb⟩ := ih _ _ _ _ _ _ h6
      obtain ⟨hrp, hrb⟩ := ih _ _ _ _ _ _ h8
      simp only
      refine ⟨?_, ?_⟩
      · intro vp hvp
        rcases List.mem_append.1 hvp with hin | hin
        · obtain ⟨x, y, z⟩ := hlp vp hin
          exact ⟨x, by omega, z⟩
        · obtain ⟨x, y, z⟩ := hrp vp hin
          exact ⟨x, by omega, z⟩
      · intro bb hbb
        rcases List.mem_append.1 hbb with hin | hin
        · rcases List.mem_append.1 hin with hin | hin
          · split at hin
            · simp only [List.mem_singleton] at hin
              subst hin
              simp only [VBis.rangeOK]
              omega
            · simp at hin
          · obtain ⟨x, y⟩ := hlb bb hin
            exact ⟨x, by omega⟩
        · obtain ⟨x, y⟩ := hrb bb hin
          exact ⟨x, by omega⟩

/-- on an accepted multi-proof: every unique-sibling range is well-formed, ends inside `siblings` and is
no longer than the path's depth, the depth does not exceed the terminal path; every recorded bisection
is non-empty and ends inside `siblings`.  (These discharge `unique_siblings.end - start`,
`next_terminal.depth - terminal_n`, the upper bound of every `siblings[taken..end]` slice of
`CommonSiblings::extend`, and `path()[..terminal.depth]`.) -/
theorem verifyMulti_ranges (mp : MultiProof Node VH) (root : Node) (v : VerifiedMulti Node VH)
    (hv : verifyMulti H mp root = .ok v) :
    (∀ vp ∈ v.inner, vp.rangeOK v.siblings.length ∧ vp.depth ≤ vp.terminal.path.length) ∧
    (∀ b ∈ v.bisections, b.rangeOK v.siblings.length) := by
  obtain ⟨_, r, hr, _, hused, hinner, hbis, hsibs, _⟩ := verifyMulti_ok H mp root v hv
  obtain ⟨hp, hb⟩ := verifyRange_ranges H _ _ _ _ _ _ r hr
  rw [hinner, hbis, hsibs]
  simp only [Nat.zero_add, hused] at hp hb
  exact ⟨fun vp hvp => ⟨hp vp hvp, verifyRange_vdepths H _ _ _ _ _ _ r hr vp hvp⟩, hb⟩

/-! ### `terminal_contains` -/

theorem terminalContains_ok (t : VPath VH) (key : Key) (h1 : t.depth ≤ key.length)
    (h2 : t.depth ≤ t.terminal.path.length) :
    terminalContains t key = .ok (key.take t.depth == t.terminal.path.take t.depth) := by
  simp [terminalContains, sliceUpTo, h1, h2]

theorem findTerminalFrom_no_panic (key : Key) : ∀ (ts : List (VPath VH)) (i : Nat),
    (∀ t ∈ ts, t.depth ≤ key.length ∧ t.depth ≤ t.terminal.path.length) →
    (findTerminalFrom key ts i).isPanic = false
  | [], _, _ => rfl
  | t :: rest, i, h => by
    unfold findTerminalFrom
    rw [terminalContains_ok t key (h t (by simp)).1 (h t (by simp)).2]
    simp only [Outcome.ok_bind]
    split
    · rfl
    · exact findTerminalFrom_no_panic key rest (i + 1) (fun t ht => h t (List.mem_cons_of_mem _ ht))

end Nomt
