import NomtModel.Core.PageIdOrder
/-!
# Corollaries about well-formed (= reachable) positions, in the form the property theorems use
-/
namespace Nomt.TriePos

/-- observational equality of positions: everything but the irrelevant bits of `raw_path` beyond `depth` -/
def Pos.Same (p q : Pos) : Prop := p.depth = q.depth ∧ p.path = q.path ∧ p.nodeIndex = q.nodeIndex

theorem Pos.Same.rfl' (p : Pos) : p.Same p := ⟨rfl, rfl, rfl⟩

theorem wf_down (p : Pos) (b : Bool) (hw : p.WF) (hd : p.depth < 256) :
    ∃ q, p.down b = some q ∧ q.WF ∧ q.path = p.path ++ [b] ∧ q.depth = p.depth + 1 ∧
      q.nodeIndex = specIndex (p.path ++ [b]) :=
  ⟨_, down_eq p b hw hd, down_wf p b hw hd, down_path p b hw hd, rfl, rfl⟩

theorem wf_up (p : Pos) (d : Nat) (hw : p.WF) (hd : d ≤ p.depth) :
    ∃ q, p.up d = some q ∧ q.WF ∧ q.path = p.path.take (p.depth - d) ∧ q.depth = p.depth - d := by
  refine ⟨_, up_eq p d hw hd, up_wf p d hw hd, up_path p d hw hd, ?_⟩
  split
  · rename_i h; rw [h]; rfl
  · rfl

theorem wf_sibling (p : Pos) (hw : p.WF) (h1 : 1 ≤ p.depth) :
    ∃ q b, p.sibling = some q ∧ q.WF ∧ p.path = p.path.dropLast ++ [b] ∧ q.path = p.path.dropLast ++ [!b] ∧
      q.depth = p.depth ∧ q.nodeIndex = p.siblingIndex := by
  obtain ⟨b, hp, hs⟩ := sibling_eq p hw h1
  have hdl : p.path.dropLast = p.raw.take (p.depth - 1) := by rw [hp, List.dropLast_concat]
  refine ⟨_, b, hs, sibling_wf p b hw h1, ?_, ?_, rfl, ?_⟩
  · rw [hdl]; exact hp
  · rw [hdl]; exact sibling_path p b hw h1 _
  · show specIndex _ = siblingIndexOf p.nodeIndex
    rw [hw.idx, hp, siblingIndexOf_snoc]

theorem wf_same_of_path (p q : Pos) (hp : p.WF) (hq : q.WF) (h : p.path = q.path) : p.Same q := by
  refine ⟨?_, h, ?_⟩
  · rw [← p.path_length hp, ← q.path_length hq, h]
  · rw [hp.idx, hq.idx, h]

theorem wf_nodeIndex_lt (p : Pos) (hw : p.WF) (h1 : 1 ≤ p.depth) :
    p.nodeIndex < NODES_PER_PAGE ∧ p.siblingIndex < NODES_PER_PAGE := by
  have hl := p.path_length hw
  have hne : p.path ≠ [] := by intro e; rw [e] at hl; simp at hl; omega
  obtain ⟨q, b, _, hqw, _, hqp, hqd, hqi⟩ := wf_sibling p hw h1
  have hqne : q.path ≠ [] := by rw [hqp]; simp
  refine ⟨by rw [hw.idx]; exact specIndex_lt _ hne, ?_⟩
  rw [← hqi, hqw.idx]
  exact specIndex_lt _ hqne

theorem wf_peekLastBit (p : Pos) (hw : p.WF) (h1 : 1 ≤ p.depth) :
    ∃ b, p.peekLastBit = some b ∧ p.path = p.path.dropLast ++ [b] := by
  obtain ⟨b, hb, hp⟩ := path_split_last p hw h1
  refine ⟨b, ?_, ?_⟩
  · unfold Pos.peekLastBit; rw [if_neg (by omega)]; exact hb
  · have hdl : p.path.dropLast = p.raw.take (p.depth - 1) := by rw [hp, List.dropLast_concat]
    rw [hdl]; exact hp

theorem wf_childNodeIndices_inside (p : Pos) (hw : p.WF) (h1 : 1 ≤ p.depth) (h6 : p.depth % 6 ≠ 0) :
    p.childNodeIndices = some (p.nodeIndex * 2 + 2) := by
  unfold Pos.childNodeIndices
  rw [depthInPage_eq p h1]
  have hr : ¬ ((specR p.depth = 0 || specR p.depth > 5) = true) := by
    unfold specR; simp; omega
  simp only [hr, if_false]
  rfl

theorem wf_childNodeIndices_boundary (p : Pos) (h6 : p.depth % 6 = 0) : p.childNodeIndices = none := by
  unfold Pos.childNodeIndices Pos.depthInPage
  by_cases h0 : p.depth = 0
  · simp [h0]
  · rw [if_neg h0]
    have : p.depth - (p.depth - 1) / 6 * 6 = 6 := by omega
    simp [this]

/-- `is_first_layer_in_page` (`node_index & !1 == 0`) holds exactly on the first layer of a page — and at the root -/
theorem wf_isFirstLayer (p : Pos) (hw : p.WF) :
    p.isFirstLayerInPage = true ↔ p.depth = 0 ∨ p.depth % 6 = 1 := by
  have hl := p.path_length hw
  unfold Pos.isFirstLayerInPage
  rw [beq_iff_eq]
  by_cases h0 : p.depth = 0
  · have : p.path = [] := by apply List.length_eq_zero_iff.mp; rw [hl, h0]
    rw [hw.idx, this]
    simp [specIndex, h0]
  · have hne : p.path ≠ [] := by intro e; rw [e] at hl; simp at hl; omega
    have hlay := specIndex_layer p.path hne
    rw [hl] at hlay
    rw [hw.idx]
    by_cases h1 : p.depth % 6 = 1
    · have hr : specR p.depth = 1 := by unfold specR; omega
      rw [hr] at hlay
      have := hlay.2
      constructor
      · intro _; exact Or.inr h1
      · intro _; simp at this; omega
    · have hr : 2 ≤ specR p.depth := by unfold specR; omega
      have : 2 ^ 2 ≤ 2 ^ specR p.depth := Nat.pow_le_pow_right (by decide) hr
      have := hlay.1
      constructor
      · intro h; omega
      · rintro (h | h) <;> omega

theorem wf_subtrieContains (p : Pos) (key : List Bool) : p.subtrieContains key = true ↔ p.path <+: key := by
  unfold Pos.subtrieContains; exact List.isPrefixOf_iff_prefix

/-- injectivity of `(page_id, node_index)` on well-formed positions below the root -/
theorem wf_slot_injective (p q : Pos) (hp : p.WF) (hq : q.WF) (h1 : 1 ≤ p.depth) (h2 : 1 ≤ q.depth)
    (hpid : p.pageId = q.pageId) (hidx : p.nodeIndex = q.nodeIndex) : p.path = q.path := by
  have hlp := p.path_length hp
  have hlq := q.path_length hq
  have hnp : p.path ≠ [] := by intro e; rw [e] at hlp; simp at hlp; omega
  have hnq : q.path ≠ [] := by intro e; rw [e] at hlq; simp at hlq; omega
  rw [pageId_eq p hp h1, pageId_eq q hq h2] at hpid
  injection hpid with hpid
  injection hpid with hpid
  rw [hp.idx, hq.idx] at hidx
  rw [← slotPath_spec p.path hnp, ← slotPath_spec q.path hnq, hpid, hidx]

/-- the position `from_bitslice` builds from a bit string -/
theorem wf_ofBits (X : List Bool) (h : X.length ≤ 256) :
    (⟨X ++ List.replicate (256 - X.length) false, X.length, specIndex X⟩ : Pos).WF ∧
    (⟨X ++ List.replicate (256 - X.length) false, X.length, specIndex X⟩ : Pos).path = X := by
  have hp : (⟨X ++ List.replicate (256 - X.length) false, X.length, specIndex X⟩ : Pos).path = X := by
    unfold Pos.path; exact List.take_left' rfl
  refine ⟨⟨by simp only [List.length_append, List.length_replicate]; omega, h, ?_⟩, hp⟩
  rw [hp]

/-- surjectivity: every slot of every page of the page tree is the slot of a position `from_bitslice` builds -/
theorem slot_surjective (P : PageId) (i : Nat) (hP : PidValid P) (hi : i < 126)
    (hlen : 6 * P.length + layerOf i ≤ 256) :
    ∃ p, Pos.fromBitslice (slotPath P i) = some p ∧ p.WF ∧ p.pageId = some (some P) ∧ p.nodeIndex = i ∧
      p.path = slotPath P i := by
  obtain ⟨hne, hpage, hidx, hl⟩ := spec_slotPath P i hP hi
  have h1 : 1 ≤ (slotPath P i).length := List.length_pos_iff.mpr hne
  have h2 : (slotPath P i).length ≤ 256 := by rw [hl]; exact hlen
  have hw : (⟨slotPath P i ++ List.replicate (256 - (slotPath P i).length) false, (slotPath P i).length,
      specIndex (slotPath P i)⟩ : Pos).WF := by
    refine ⟨by simp; omega, h2, ?_⟩
    simp [Pos.path]
  have hpath : (⟨slotPath P i ++ List.replicate (256 - (slotPath P i).length) false, (slotPath P i).length,
      specIndex (slotPath P i)⟩ : Pos).path = slotPath P i := by simp [Pos.path]
  refine ⟨_, fromBitslice_eq _ h1 h2, hw, ?_, hidx, hpath⟩
  rw [pageId_eq _ hw h1, hpath, hpage]

/-- entering the child page below a bottom-layer position -/
theorem wf_down_page_boundary (p q : Pos) (b : Bool) (hw : p.WF) (h1 : 1 ≤ p.depth) (h6 : p.depth % 6 = 0)
    (hq : p.down b = some q) :
    ∃ P c, p.pageId = some (some P) ∧ p.childPageIndex = some c ∧ c < 64 ∧
      childPageId P c = .ok (P ++ [c]) ∧ q.pageId = some (some (P ++ [c])) ∧ parentPageId (P ++ [c]) = P ∧
      q.nodeIndex = b.toNat := by
  have hl := p.path_length hw
  have hD := hw.depthLe
  have hne : p.path ≠ [] := by intro e; rw [e] at hl; simp at hl; omega
  have hd : p.depth < 256 := by omega
  obtain ⟨q', hq', hqw, hqp, hqd, hqi⟩ := wf_down p b hw hd
  rw [hq'] at hq; injection hq with hq; subst hq
  have hlt := loadBE_lt_64 (lp p.path) (by rw [lp_length _ hne, hl]; unfold specR; omega)
  refine ⟨specPage p.path, loadBE (lp p.path), pageId_eq p hw h1, childPageIndex_eq p hw h1 h6, hlt, ?_, ?_,
    parentPageId_child _ _, ?_⟩
  · apply childPageId_ok
    rw [specPage_length, hl]; unfold MAX_PAGE_DEPTH; omega
  · rw [pageId_eq q' hqw (by omega), hqp, specPage_snoc_boundary _ _ (by rw [hl]; exact h6),
      sextetsOf_bottom _ (by rw [hl]; exact h6) hne]
  · rw [hqi, specIndex_single_page_start _ _ (by rw [hl]; exact h6)]

/-- staying inside the page -/
theorem wf_down_inside (p q : Pos) (b : Bool) (hw : p.WF) (h1 : 1 ≤ p.depth) (h6 : p.depth % 6 ≠ 0)
    (hq : p.down b = some q) :
    q.pageId = p.pageId ∧ q.nodeIndex = 2 * p.nodeIndex + 2 + b.toNat ∧ p.childPageIndex = none := by
  have hl := p.path_length hw
  have hD := hw.depthLe
  have hd : p.depth < 256 := by
    have : p.depth ≠ 256 := fun h => by rw [(down_none_iff p b hw).mpr h] at hq; cases hq
    omega
  obtain ⟨q', hq', hqw, hqp, hqd, hqi⟩ := wf_down p b hw hd
  rw [hq'] at hq; injection hq with hq; subst hq
  refine ⟨?_, ?_, childPageIndex_none_of_inside p hw h6⟩
  · rw [pageId_eq q' hqw (by omega), pageId_eq p hw h1, hqp, specPage_snoc_inside _ _ (by rw [hl]; exact h6)]
  · rw [hqi, specIndex_snoc _ _ (by rw [hl]; exact h6), hw.idx]

end Nomt.TriePos
