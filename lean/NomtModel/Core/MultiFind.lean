import NomtModel.Core.MultiUpdateSpec
/-!
Completeness of `VerifiedMultiProof::find_index_for` (multi_proof.rs:305-316).

* `binarySearchBy_sorted_found`: the mirrored branch-free `slice::binary_search_by` (rustc 1.95) on a list
  whose comparison results have the shape `Less … Less, Equal, Greater … Greater` returns `Ok(i)` with
  `i` the position of the `Equal` element.
* `pathCmp_lt_of_before` / `pathCmp_gt_of_after`: on an accepted multi-proof the comparison closure of
  `find_index_for` has exactly that shape around the (unique) verified path that covers the key — this
  uses that the verified routes are strictly ascending AND prefix-free (`PTree.vpaths_sorted`).
* `findIndexFor_complete`: hence a covered key is found; `findIndexFor_eq_ok_iff` / `…_err_iff`.
-/
set_option linter.unusedSectionVars false
namespace Nomt

/-! ### the branch-free binary search on `lt … lt, eq, gt … gt` -/
section bsearch
variable {ε α : Type}

/-- `bsLoop` keeps `base ≤ i < base + size` when everything before `i` compares `Less`/`Equal`-side
(not `Greater`) and everything after `i` compares `Greater`. -/
theorem bsLoop_sorted (f : α → Outcome ε Ordering) (l : List α) (c : α → Ordering) (i : Nat)
    (hf : ∀ x ∈ l, f x = .ok (c x))
    (hle : ∀ j x, j ≤ i → l[j]? = some x → c x ≠ .gt)
    (hgt : ∀ j x, i < j → l[j]? = some x → c x = .gt) :
    ∀ (fuel base size : Nat), base ≤ i → i < base + size → base + size ≤ l.length → size ≤ fuel →
      bsLoop f l fuel base size = .ok i := by
  intro fuel
  induction fuel with
  | zero => intro base size h1 h2 h3 h4; omega
  | succ fuel ih =>
    intro base size h1 h2 h3 h4
    unfold bsLoop
    by_cases hs : size ≤ 1
    · simp only [hs, if_true]
      have : base = i := by omega
      rw [this]
    · simp only [hs, if_false]
      have hhalf : 1 ≤ size / 2 := Nat.le_div_iff_mul_le (by decide) |>.2 (by omega)
      have hhalf2 : size / 2 + size / 2 ≤ size := by
        have := Nat.div_mul_le_self size 2
        omega
      have hmid : base + size / 2 < l.length := by omega
      have hx : l[base + size / 2]? = some l[base + size / 2] := List.getElem?_eq_getElem hmid
      rw [hx]
      simp only
      rw [hf _ (List.getElem_mem hmid)]
      simp only
      by_cases hm : base + size / 2 ≤ i
      · have hne := hle _ _ hm hx
        have : (c l[base + size / 2] == Ordering.gt) = false := by
          cases hc : c l[base + size / 2] <;> first | rfl | exact absurd hc hne
        simp only [this, Bool.false_eq_true, if_false]
        exact ih _ _ hm (by omega) (by omega) (by omega)
      · have hg := hgt _ _ (by omega) hx
        have : (c l[base + size / 2] == Ordering.gt) = true := by rw [hg]; rfl
        simp only [this, if_true]
        exact ih _ _ h1 (by omega) (by omega) (by omega)

/-- **the mirrored `binary_search_by` finds the `Equal` element of a sorted comparison**: if the element
at `i` compares `Equal`, everything before it `Less` and everything after it `Greater`, the answer is
`Ok(i)`. -/
theorem binarySearchBy_sorted_found (f : α → Outcome ε Ordering) (l : List α) (c : α → Ordering) (i : Nat)
    (xi : α) (hf : ∀ x ∈ l, f x = .ok (c x)) (hi : l[i]? = some xi) (heq : c xi = .eq)
    (hlt : ∀ j x, j < i → l[j]? = some x → c x = .lt)
    (hgt : ∀ j x, i < j → l[j]? = some x → c x = .gt) :
    binarySearchBy f l = .ok (.found i) := by
  obtain ⟨hil, hie⟩ := List.getElem?_eq_some_iff.1 hi
  have hne : l.isEmpty = false := by
    cases l with
    | nil => simp at hil
    | cons _ _ => rfl
  have hle : ∀ j x, j ≤ i → l[j]? = some x → c x ≠ .gt := by
    intro j x hj hx
    by_cases hji : j = i
    · subst hji; rw [hi] at hx; injection hx with hx; subst hx; rw [heq]; decide
    · rw [hlt j x (by omega) hx]; decide
  have hb := bsLoop_sorted f l c i hf hle hgt l.length 0 l.length (by omega) (by omega) (by omega)
    (Nat.le_refl _)
  unfold binarySearchBy
  simp only [hne, Bool.false_eq_true, if_false, hb, hi]
  rw [hf _ (List.mem_of_getElem? hi), heq]

end bsearch

variable {Node VH : Type} [DecidableEq Node] [DecidableEq VH] (H : Hasher Node VH)

/-! ### order of a route against the key's prefix -/

/-- `a < B`, `a` and `B` prefix-incomparable, `B` a prefix of the key `K`, `|a| = d ≤ |K|`:
then `a < K[..d]`. -/
theorem bitsLt_take_of_lt (a B K : List Bool) (d : Nat) (hlt : bitsLt a B = true)
    (h1 : ¬ a <+: B) (h2 : ¬ B <+: a) (hB : B <+: K) (hd : a.length = d) (hdK : d ≤ K.length) :
    bitsLt a (K.take d) = true := by
  have hBt : B = K.take B.length := ((bl_prefix_iff_take B K).1 hB).symm
  rcases Nat.le_total B.length d with hle | hle
  · -- `B` is a prefix of `K[..d]`
    have hp : B <+: K.take d := by rw [hBt]; exact List.take_prefix_take_left hle
    exact bl_extend a B a (K.take d) hlt h1 (List.prefix_refl _) hp
  · -- `K[..d]` is a prefix of `B`
    have hp : K.take d <+: B := by rw [hBt]; exact List.take_prefix_take_left hle
    rcases bl_trichotomy a (K.take d) with he | hl | hg
    · exact absurd (he ▸ hp) h1
    · exact hl
    · exfalso
      have hnp : ¬ K.take d <+: a := by
        intro hpa
        have hlen : (K.take d).length = a.length := by rw [List.length_take, hd]; omega
        have := List.IsPrefix.eq_of_length hpa hlen
        rw [this, bl_irrefl] at hg; cases hg
      have := bl_extend (K.take d) a B a hg hnp hp (List.prefix_refl _)
      rw [bl_asymm a B hlt] at this; cases this

/-- `B < a`, prefix-incomparable, `B` a prefix of `K`, `|a| = d ≤ |K|`: then `K[..d] < a`. -/
theorem bitsLt_take_of_gt (a B K : List Bool) (d : Nat) (hlt : bitsLt B a = true)
    (h1 : ¬ a <+: B) (h2 : ¬ B <+: a) (hB : B <+: K) (hd : a.length = d) (hdK : d ≤ K.length) :
    bitsLt (K.take d) a = true := by
  have hBt : B = K.take B.length := ((bl_prefix_iff_take B K).1 hB).symm
  rcases Nat.le_total B.length d with hle | hle
  · have hp : B <+: K.take d := by rw [hBt]; exact List.take_prefix_take_left hle
    exact bl_extend B a (K.take d) a hlt h2 hp (List.prefix_refl _)
  · have hp : K.take d <+: B := by rw [hBt]; exact List.take_prefix_take_left hle
    rcases bl_trichotomy (K.take d) a with he | hl | hg
    · exact absurd (he ▸ hp) h1
    · exact hl
    · exfalso
      have hnp : ¬ a <+: K.take d := by
        intro hpa
        have hlen : a.length = (K.take d).length := by rw [List.length_take, hd]; omega
        have := List.IsPrefix.eq_of_length hpa hlen
        rw [this, bl_irrefl] at hg; cases hg
      have := bl_extend a (K.take d) a B hg hnp (List.prefix_refl _) hp
      rw [bl_asymm B a hlt] at this; cases this

/-! ### the comparison closure of `find_index_for` on an accepted multi-proof -/

/-- value of the closure when no slice is out of range -/
theorem pathCmp_val (key : Key) (vp : VPath VH) (h1 : vp.depth ≤ vp.terminal.path.length)
    (h2 : vp.depth ≤ key.length) :
    pathCmp key vp = .ok (bitsCmp (vp.terminal.path.take vp.depth) (key.take vp.depth)) := by
  simp [pathCmp, sliceUpTo, h1, h2]

/-- a covering path compares `Equal` -/
theorem pathCmp_of_covers (key : Key) (vp : VPath VH) (h : vp.covers key) : pathCmp key vp = .ok .eq := by
  rw [pathCmp_val key vp h.1 h.2.1, (bitsCmp_eq_iff _ _).2 h.2.2]

/-- the facts about an accepted multi-proof used below: routes strictly ascending and prefix-free, every
route is `path()[..depth]` and has length `depth` -/
theorem verifyMulti_routes_sorted (mp : MultiProof Node VH) (root : Node) (v : VerifiedMulti Node VH)
    (hv : verifyMulti H mp root = .ok v) :
    v.inner.Pairwise RouteLt ∧
    ∀ vp ∈ v.inner, vp.route = vp.terminal.path.take vp.depth ∧ vp.route.length = vp.depth ∧
      vp.depth ≤ vp.terminal.path.length := by
  obtain ⟨T, hT, _⟩ := verifyMulti_tree H mp root v hv
  refine ⟨by rw [hT.inner]; exact PTree.vpaths_sorted T [] 0 hT.al, ?_⟩
  intro vp hvp
  rw [hT.inner] at hvp
  obtain ⟨h1, h2, _⟩ := PTree.vpaths_route T [] 0 hT.al vp hvp
  refine ⟨?_, h2, ?_⟩
  · rw [← h2]; exact ((bl_prefix_iff_take _ _).1 h1).symm
  · rw [← h2]; exact h1.length_le

/-- **completeness of `find_index_for`**: on an accepted multi-proof, a key (at least as long as every
verified depth) that is covered by the verified path at index `i` is found at index `i`. -/
theorem findIndexFor_complete (mp : MultiProof Node VH) (root : Node) (v : VerifiedMulti Node VH)
    (hv : verifyMulti H mp root = .ok v) (key : Key) (hk : ∀ vp ∈ v.inner, vp.depth ≤ key.length)
    (i : Nat) (vi : VPath VH) (hi : v.inner[i]? = some vi) (hc : vi.covers key) :
    findIndexFor v key = .ok i := by
  obtain ⟨hsorted, hroute⟩ := verifyMulti_routes_sorted H mp root v hv
  obtain ⟨hil, hie⟩ := List.getElem?_eq_some_iff.1 hi
  have hvi := hroute vi (List.mem_of_getElem? hi)
  -- the covering route is a prefix of the key
  have hB : vi.route <+: key := by
    rw [hvi.1, hc.2.2]; exact List.take_prefix _ _
  let c : VPath VH → Ordering := fun vp => bitsCmp (vp.terminal.path.take vp.depth) (key.take vp.depth)
  have hf : ∀ x ∈ v.inner, pathCmp key x = .ok (c x) := fun x hx =>
    pathCmp_val key x (hroute x hx).2.2 (hk x hx)
  have hfound : binarySearchBy (pathCmp key) v.inner = .ok (.found i) := by
    refine binarySearchBy_sorted_found (pathCmp key) v.inner c i vi hf hi
      ((bitsCmp_eq_iff _ _).2 hc.2.2) ?_ ?_
    · intro j x hj hx
      obtain ⟨hjl, hje⟩ := List.getElem?_eq_some_iff.1 hx
      have hrl := (List.pairwise_iff_getElem.1 hsorted) j i hjl hil hj
      rw [hje, hie] at hrl
      obtain ⟨hlt, hn1, hn2⟩ := hrl
      have hx' := hroute x (List.mem_of_getElem? hx)
      have := bitsLt_take_of_lt x.route vi.route key x.depth hlt hn1 hn2 hB hx'.2.1
        (hk x (List.mem_of_getElem? hx))
      simp only [c, bitsCmp, ← hx'.1, this, if_true]
    · intro j x hj hx
      obtain ⟨hjl, hje⟩ := List.getElem?_eq_some_iff.1 hx
      have hrl := (List.pairwise_iff_getElem.1 hsorted) i j hil hjl hj
      rw [hje, hie] at hrl
      obtain ⟨hlt, hn1, hn2⟩ := hrl
      have hx' := hroute x (List.mem_of_getElem? hx)
      have hgt := bitsLt_take_of_gt x.route vi.route key x.depth hlt hn2 hn1 hB hx'.2.1
        (hk x (List.mem_of_getElem? hx))
      have hnlt := bl_asymm _ _ hgt
      simp only [c, bitsCmp, ← hx'.1, hnlt, hgt, Bool.false_eq_true, if_false, if_true]
  simp only [findIndexFor, hfound]

/-- `find_index_for` answers `Ok(i)` **iff** the verified path at `i` covers the key -/
theorem findIndexFor_eq_ok_iff (mp : MultiProof Node VH) (root : Node) (v : VerifiedMulti Node VH)
    (hv : verifyMulti H mp root = .ok v) (key : Key) (hk : ∀ vp ∈ v.inner, vp.depth ≤ key.length)
    (i : Nat) : findIndexFor v key = .ok i ↔ ∃ vi, v.inner[i]? = some vi ∧ vi.covers key :=
  ⟨findIndexFor_ok v key i, fun ⟨vi, hi, hc⟩ => findIndexFor_complete H mp root v hv key hk i vi hi hc⟩

/-- `find_index_for` answers `KeyOutOfScope` **iff** no verified path covers the key -/
theorem findIndexFor_err_iff (mp : MultiProof Node VH) (root : Node) (v : VerifiedMulti Node VH)
    (hv : verifyMulti H mp root = .ok v) (key : Key) (hk : ∀ vp ∈ v.inner, vp.depth ≤ key.length) :
    findIndexFor v key = .err .keyOutOfScope ↔ ∀ vp ∈ v.inner, ¬ vp.covers key := by
  constructor
  · intro h vp hvp hc
    obtain ⟨i, hi⟩ := List.getElem?_of_mem hvp
    rw [findIndexFor_complete H mp root v hv key hk i vp hi hc] at h
    cases h
  · intro h
    have hnp := findIndexFor_no_panic H mp root v hv key hk
    cases hres : findIndexFor v key with
    | ok i =>
      obtain ⟨vp, hi, hc⟩ := findIndexFor_ok v key i hres
      exact absurd hc (h vp (List.mem_of_getElem? hi))
    | err e => cases e; rfl
    | panic s => rw [hres] at hnp; simp [Outcome.isPanic] at hnp

end Nomt
