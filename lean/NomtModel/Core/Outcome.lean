/-! `Outcome`: results of mirrored Rust functions where every panic site is a value. -/
namespace Nomt

inductive Outcome (ε α : Type) where
  | ok (a : α)
  | err (e : ε)
  | panic (site : String)
deriving Repr, DecidableEq

namespace Outcome
def isPanic {ε α} : Outcome ε α → Bool | .panic _ => true | _ => false
def bind {ε α β} (x : Outcome ε α) (f : α → Outcome ε β) : Outcome ε β :=
  match x with | .ok a => f a | .err e => .err e | .panic s => .panic s
instance {ε} : Monad (Outcome ε) where
  pure := .ok
  bind := bind
end Outcome

end Nomt
