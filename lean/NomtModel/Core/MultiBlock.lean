import NomtModel.Core.MultiRun
import NomtModel.Core.UpdateNoPanic
/-!
`verify_update` (multi_proof.rs) ingests the verified terminals left to right, each by
`common_siblings.advance(); hash_and_compact_terminal(..)`.  `ingest_block`: on the recursion tree of an
accepted proof this never reaches a panic site (provided `build_trie` does not slice out of range) and
leaves on the pending stack exactly what the single-path algorithm (`runV`, `Core/VUpdate.lean`) leaves
when it is run on the individual path proofs reconstructed from the multi-proof (`PTree.upds`).
-/
set_option linter.unusedSectionVars false
namespace Nomt
variable {Node VH : Type} [DecidableEq Node] [DecidableEq VH] (H : Hasher Node VH)

theorem Outcome.bind_assoc {ε α β γ : Type} (x : Outcome ε α) (f : α → Outcome ε β) (g : β → Outcome ε γ) :
    (x >>= f >>= g) = (x >>= fun a => f a >>= g) := by
  cases x <;> rfl

/-! ### the ingestion machine -/

/-- loop state: pending left siblings, `CommonSiblings` -/
abbrev MSt (Node : Type) := Stack Node × CommonSiblings Node

/-- `hash_and_compact_terminal` for terminal `ti` -/
def hctOne (L : Nat) (v : VerifiedMulti Node VH) (ti : Nat) (ops : List (Key × Option VH)) (st : MSt Node) :
    Outcome MultiVUErr (MSt Node) :=
  getIdx "proof.inner[terminal_index]" v.inner ti >>= fun t =>
    hashAndCompactTerminal H L st.1 t v.inner[ti + 1]? st.2 ops

/-- `common_siblings.advance(&proof); hash_and_compact_terminal(..)` for terminal `ti` -/
def ingestOne (L : Nat) (v : VerifiedMulti Node VH) (ti : Nat) (ops : List (Key × Option VH)) (st : MSt Node) :
    Outcome MultiVUErr (MSt Node) :=
  st.2.advance v >>= fun cs => hctOne H L v ti ops (st.1, cs)

/-- ingest `n` terminals starting at `ti`; terminal `i` with the ops `A i` -/
def ingestN (L : Nat) (v : VerifiedMulti Node VH) (A : Nat → List (Key × Option VH)) :
    Nat → Nat → MSt Node → Outcome MultiVUErr (MSt Node)
  | 0, _, st => .ok st
  | n+1, ti, st => ingestOne H L v ti (A ti) st >>= ingestN L v A n (ti + 1)

theorem ingestN_add (L : Nat) (v : VerifiedMulti Node VH) (A : Nat → List (Key × Option VH)) :
    ∀ (m n ti : Nat) (st : MSt Node),
      ingestN H L v A (m + n) ti st = (ingestN H L v A m ti st >>= ingestN H L v A n (ti + m)) := by
  intro m
  induction m with
  | zero => intro n ti st; simp [ingestN]
  | succ m ih =>
    intro n ti st
    have e : m + 1 + n = (m + n) + 1 := by omega
    rw [e]
    simp only [ingestN, Outcome.bind_assoc]
    congr 1
    funext st'
    rw [ih]
    have : ti + 1 + m = ti + (m + 1) := by omega
    rw [this]

theorem ingestN_congr (L : Nat) (v : VerifiedMulti Node VH) (A A' : Nat → List (Key × Option VH)) :
    ∀ (n ti : Nat) (st : MSt Node), (∀ i, ti ≤ i → i < ti + n → A i = A' i) →
      ingestN H L v A n ti st = ingestN H L v A' n ti st := by
  intro n
  induction n with
  | zero => intro ti st _; rfl
  | succ n ih =>
    intro ti st h
    simp only [ingestN]
    rw [h ti (Nat.le_refl _) (by omega)]
    congr 1
    funext st'
    exact ih (ti + 1) st' (fun i h1 h2 => h i (by omega) (by omega))

/-! ### the reconstructed path proofs -/

namespace PTree

/-- the inputs of the single-path `verify_update` for the terminals of a range: position, the full
sibling list (`ctx` above the range, then common / other-side / unique siblings) and the replacement
sub-trie root for the ops `A i` of terminal `i` -/
def upds (A : Nat → List (Key × Option VH)) : List Bool → Ctx Node → Nat → PTree Node VH → List (PathUpd Node)
  | pos, ctx, i0, tip t seg us =>
    [{ path := pos ++ seg, siblings := ctx.map (·.2) ++ us,
       subRoot := buildTrie H (pos.length + seg.length) (leafOpsSpliced t.asLeaf (A i0)) }]
  | pos, ctx, i0, fork seg cs l r =>
    l.upds A (pos ++ seg ++ [false]) (ctx ++ cs.map (fun s => (true, s)) ++ [(false, r.hash H)]) i0 ++
      r.upds A (pos ++ seg ++ [true]) (ctx ++ cs.map (fun s => (true, s)) ++ [(false, l.hash H)]) (i0 + l.size)

theorem upds_head (A : Nat → List (Key × Option VH)) : ∀ (T : PTree Node VH) (pos : List Bool) (ctx : Ctx Node)
    (i0 off : Nat), ∃ p tl, T.upds H A pos ctx i0 = p :: tl ∧ p.path = (T.first pos off).route
  | tip _ _ _, _, _, _, _ => ⟨_, [], rfl, rfl⟩
  | fork seg cs l r, pos, ctx, i0, off => by
    obtain ⟨p, tl, h, hp⟩ := upds_head A l (pos ++ seg ++ [false])
      (ctx ++ cs.map (fun s => (true, s)) ++ [(false, r.hash H)]) i0 (off + cs.length)
    exact ⟨p, tl ++ r.upds H A (pos ++ seg ++ [true]) (ctx ++ cs.map (fun s => (true, s)) ++ [(false, l.hash H)])
      (i0 + l.size), by simp only [upds]; rw [h]; rfl, by simp only [first]; exact hp⟩

theorem upds_length (A : Nat → List (Key × Option VH)) : ∀ (T : PTree Node VH) (pos : List Bool) (ctx : Ctx Node)
    (i0 : Nat), (T.upds H A pos ctx i0).length = T.size
  | tip _ _ _, _, _, _ => rfl
  | fork _ _ l r, _, _, _ => by simp [upds, size, upds_length A l, upds_length A r]

theorem first_route_prefix : ∀ (T : PTree Node VH) (pos : List Bool) (off : Nat), pos <+: (T.first pos off).route
  | tip _ _ _, _, _ => List.prefix_append _ _
  | fork seg cs l _, pos, off => by
    have := first_route_prefix l (pos ++ seg ++ [false]) (off + cs.length)
    simp only [first]
    exact (by simp [List.append_assoc] : pos <+: pos ++ seg ++ [false]).trans this

/-- in an aligned tree every verified path's route is a prefix of its terminal's path and has length
`depth` -/
theorem vpaths_route : ∀ (T : PTree Node VH) (pos : List Bool) (off : Nat), T.Aligned pos →
    ∀ vp ∈ T.vpaths pos off, vp.route <+: vp.terminal.path ∧ vp.route.length = vp.depth ∧ pos <+: vp.route
  | tip _ _ _, pos, off, hal, vp, hvp => by
    simp only [vpaths, List.mem_singleton] at hvp
    subst hvp
    exact ⟨hal, by simp, List.prefix_append _ _⟩
  | fork seg cs l r, pos, off, hal, vp, hvp => by
    simp only [vpaths, List.mem_append] at hvp
    rcases hvp with h | h
    · obtain ⟨a, b, c⟩ := vpaths_route l _ _ hal.1 vp h
      exact ⟨a, b, (by simp [List.append_assoc] : pos <+: pos ++ seg ++ [false]).trans c⟩
    · obtain ⟨a, b, c⟩ := vpaths_route r _ _ hal.2 vp h
      exact ⟨a, b, (by simp [List.append_assoc] : pos <+: pos ++ seg ++ [true]).trans c⟩

theorem first_mem (T : PTree Node VH) (pos : List Bool) (off : Nat) : T.first pos off ∈ T.vpaths pos off := by
  obtain ⟨tl, h⟩ := vpaths_eq_first T pos off
  rw [h]; simp

end PTree

theorem runV_append' : ∀ (A B : List (PathUpd Node)) (b : PathUpd Node) (B' : List (PathUpd Node))
    (next : Option (List Bool)) (st : Stack Node), A ≠ [] → B = b :: B' →
    runV H (A ++ B) next st = runV H B next (runV H A (some b.path) st) := by
  intro A
  induction A with
  | nil => intro B b B' next st h; exact absurd rfl h
  | cons a A ih =>
    intro B b B' next st _ hB
    subst hB
    cases A with
    | nil => simp [runV]
    | cons a' A' =>
      have := ih (b :: B') b B' next (stepPath H a (some a'.path) st) (by simp) rfl
      simp only [List.cons_append, runV] at this ⊢
      exact this

/-! ### hypotheses of the block lemma -/

/-- the terminal after the range (index `j`) and the layer `tgt` at which the range's last terminal stops:
none and `0`, or a terminal that branches off to the `1`-side at bit `tgt - 1` of the range's position -/
def NextOK (v : VerifiedMulti Node VH) (pos : List Bool) (tgt j : Nat) : Prop :=
  tgt ≤ pos.length ∧
  match v.inner[j]? with
  | none => tgt = 0
  | some nt => 0 < tgt ∧ pos.getD (tgt - 1) false = false ∧ (pos.take (tgt - 1) ++ [true]) <+: nt.route ∧
      nt.route <+: nt.terminal.path

/-- the pending stack: strictly descending layers, none below the range's position, and above `tgt`
exactly at the bisection layers of the position -/
def PendOK (P : Stack Node) (ctx : Ctx Node) (tgt : Nat) : Prop :=
  P.Pairwise (fun a b => b.2 < a.2) ∧ (∀ e ∈ P, e.2 ≤ ctx.length) ∧
  ∀ d, tgt < d → d ≤ ctx.length → ((∃ x, (x, d) ∈ P) ↔ ∃ s, ctx[d - 1]? = some (false, s))

theorem prefix_take_eq {α : Type} (p a : List α) (h : p <+: a) (k : Nat) (hk : k ≤ p.length) : a.take k = p.take k := by
  obtain ⟨t, rfl⟩ := h
  rw [List.take_append_of_le_length hk]

/-- two bit strings that leave a common position `q` (with `q[n] = 0`) to different sides at bit `n` -/
theorem shared_of_branch (q a b : List Bool) (n : Nat) (hn : n < q.length) (hq : q.getD n false = false)
    (ha : q <+: a) (hb : (q.take n ++ [true]) <+: b) : shared a b = n := by
  have hbl : (q.take n ++ [true]).length = n + 1 := by simp; omega
  apply shared_eq_of_take
  · rw [prefix_take_eq q a ha n (by omega), prefix_take_eq _ b hb n (by omega)]
    rw [List.take_append_of_le_length (by simp; omega), List.take_take]; simp
  · have := ha.length_le; omega
  · have := hb.length_le; omega
  · rw [bl_getD_of_prefix q a ha n hn, bl_getD_of_prefix _ b hb n (by omega), hq]
    have : (q.take n ++ [true]).getD n false = true := by
      have hl : (q.take n).length = n := by simp; omega
      simp [List.getD, List.getElem?_append_right, hl]
    rw [this]; simp

/-! ### one terminal -/

/-- `hash_and_compact_terminal` on a tip, from the state after its `advance` -/
theorem hct_tip (L : Nat) (v : VerifiedMulti Node VH) (A : Nat → List (Key × Option VH))
    (hsafe : ∀ i t, v.inner[i]? = some t →
      buildTrieSlicePanics L t.depth (leafOpsSpliced t.terminal.asLeaf (A i)) = false)
    (t : Terminal VH) (seg : List Bool) (us : List Node)
    (pos : List Bool) (ctx : Ctx Node) (off i0 tgt : Nat) (P : Stack Node) (cs : CommonSiblings Node)
    (hwf : seg.length = us.length) (hal : (pos ++ seg) <+: t.path) (hctx : ctx.length = pos.length)
    (hin : v.inner[i0]? = some { terminal := t, depth := pos.length + seg.length, uStart := off,
                                 uEnd := off + us.length, route := pos ++ seg })
    (hst : cs.stack = stackOf (ctx ++ us.map (fun s => (true, s))))
    (hnext : NextOK v pos tgt (i0 + 1)) (hpend : PendOK P ctx tgt) :
    ∃ cs', hctOne H L v i0 (A i0) (P, cs) =
        .ok (stepPath H { path := pos ++ seg, siblings := ctx.map (·.2) ++ us,
                          subRoot := buildTrie H (pos.length + seg.length) (leafOpsSpliced t.asLeaf (A i0)) }
              ((v.inner[i0 + 1]?).map (·.route)) P, cs') ∧
      cs'.stack = stackOf (ctx.take tgt) ∧ cs'.taken = cs.taken ∧ cs'.bisIdx = cs.bisIdx ∧
      cs'.termIdx = cs.termIdx ∧
      ∃ x, stepPath H { path := pos ++ seg, siblings := ctx.map (·.2) ++ us,
                        subRoot := buildTrie H (pos.length + seg.length) (leafOpsSpliced t.asLeaf (A i0)) }
              ((v.inner[i0 + 1]?).map (·.route)) P = (x, tgt) :: P.dropWhile (fun e => decide (e.2 > tgt)) := by
  obtain ⟨htgt, hnx⟩ := hnext
  obtain ⟨hsorted, hPle, hiff⟩ := hpend
  have hsafe0 := hsafe i0 _ hin
  simp only at hsafe0
  generalize hfull : ctx ++ us.map (fun s => (true, s)) = full at *
  have hfl : full.length = pos.length + seg.length := by rw [← hfull]; simp [hctx, hwf]
  have hfmap : full.map (·.2) = ctx.map (·.2) ++ us := by
    rw [← hfull]; simp [List.map_append, Function.comp_def]
  have hdl : pos.length + seg.length ≤ t.path.length := by
    have := hal.length_le; simpa using this
  have hpth : t.path.take (pos.length + seg.length) = pos ++ seg := by
    have := (bl_prefix_iff_take _ _).1 hal
    simpa using this
  -- the number of layers to go up, and the target of the single-path step
  have hup : upLayers { terminal := t, depth := pos.length + seg.length, uStart := off,
                        uEnd := off + us.length, route := pos ++ seg } v.inner[i0 + 1]?
      = .ok (pos.length + seg.length - tgt) ∧
      tgtV ((v.inner[i0 + 1]?).map (·.route)) (pos ++ seg) = tgt := by
    cases hn : v.inner[i0 + 1]? with
    | none =>
      rw [hn] at hnx
      simp only at hnx
      subst hnx
      exact ⟨rfl, rfl⟩
    | some nt =>
      rw [hn] at hnx
      obtain ⟨h0, hbit, hpre, hroute⟩ := hnx
      have hposl : pos <+: pos ++ seg := List.prefix_append _ _
      have hs1 : shared t.path nt.terminal.path = tgt - 1 :=
        shared_of_branch pos _ _ (tgt - 1) (by omega) hbit (hposl.trans hal) (hpre.trans hroute)
      have hs2 : shared nt.route (pos ++ seg) = tgt - 1 := by
        rw [shared_comm]
        exact shared_of_branch pos _ _ (tgt - 1) (by omega) hbit hposl hpre
      constructor
      · simp only [upLayers, hs1]
        have hne : (tgt - 1 == pos.length + seg.length) = false := beq_false_of_ne (by omega)
        simp only [hne, Bool.false_eq_true, if_false, checkedSub]
        rw [if_pos (by omega)]
        congr 1; omega
      · simp only [Option.map, tgtV, hs2]; omega
  obtain ⟨hup1, hup2⟩ := hup
  -- the loop
  obtain ⟨cs', hloop, hs', ht', hb', hti', hdrop⟩ := hctLoop_sim H (pos ++ seg) full
    (pos.length + seg.length - tgt) (pos.length + seg.length)
    (buildTrie H (pos.length + seg.length) (leafOpsSpliced t.asLeaf (A i0))) P cs
    (by omega) (by omega)
    (by rw [hst, ← hfl, List.take_length])
    hsorted (by intro e he; have := hPle e he; omega)
    (by
      intro d hd1 hd2
      by_cases hdc : d ≤ ctx.length
      · rw [hiff d (by omega) hdc, ← hfull, List.getElem?_append_left (by omega)]
      · constructor
        · rintro ⟨x, hx⟩
          have := hPle _ hx
          simp only at this; omega
        · rintro ⟨s, hs⟩
          rw [← hfull, List.getElem?_append_right (by omega)] at hs
          simp only [List.getElem?_map] at hs
          cases hu : us[d - 1 - ctx.length]? with
          | none => rw [hu] at hs; cases hs
          | some y => rw [hu] at hs; simp at hs)
  have hsubt : pos.length + seg.length - (pos.length + seg.length - tgt) = tgt := by omega
  rw [hsubt] at hs' hdrop
  have hstep : stepPath H { path := pos ++ seg, siblings := ctx.map (·.2) ++ us,
                            subRoot := buildTrie H (pos.length + seg.length) (leafOpsSpliced t.asLeaf (A i0)) }
                ((v.inner[i0 + 1]?).map (·.route)) P =
      ((hashUpV H (pos ++ seg) (full.map (·.2)) (pos.length + seg.length - tgt) (pos.length + seg.length)
          (buildTrie H (pos.length + seg.length) (leafOpsSpliced t.asLeaf (A i0))) P).1, tgt) ::
        (hashUpV H (pos ++ seg) (full.map (·.2)) (pos.length + seg.length - tgt) (pos.length + seg.length)
          (buildTrie H (pos.length + seg.length) (leafOpsSpliced t.asLeaf (A i0))) P).2.2 := by
    simp only [stepPath, hup2, List.length_append, hfmap]
    rw [hashUpV_layer, hsubt]
  refine ⟨cs', ?_, ?_, ht', hb', hti', ?_⟩
  · simp only [hctOne, getIdx_some _ _ _ _ hin, Outcome.ok_bind, hashAndCompactTerminal, hup1, buildTrieM,
      hsafe0, Bool.false_eq_true, if_false, sliceUpTo, hdl, if_true, hpth, hloop, Outcome.pure_eq, hstep, hsubt]
  · rw [hs', ← hfull, List.take_append_of_le_length (by omega)]
  · rw [hstep, hdrop]
    exact ⟨_, rfl⟩

end Nomt
