import NomtModel.Core.MultiRun
import NomtModel.Core.UpdateNoPanic
/-!
`verify_update` (multi_proof.rs) ingests the verified terminals left to right, each by
`common_siblings.advance(); hash_and_compact_terminal(..)`.  `ingest_block`: on the recursion tree of an
accepted proof this never reaches a panic site (provided `build_trie` does not slice out of range) and
leaves on the pending stack exactly what the single-path algorithm (`runV`, `Core/VUpdate.lean`) leaves
when it is run on the individual path proofs reconstructed from the multi-proof (`PTree.upds`).
-/
set_option linter.unusedSectionVars false
namespace Nomt
variable {Node VH : Type} [DecidableEq Node] [DecidableEq VH] (H : Hasher Node VH)

theorem Outcome.bind_assoc {ε α β γ : Type} (x : Outcome ε α) (f : α → Outcome ε β) (g : β → Outcome ε γ) :
    (x >>= f >>= g) = (x >>= fun a => f a >>= g) := by
  cases x <;> rfl

/-! ### the ingestion machine -/

/-- loop state: pending left siblings, `CommonSiblings` -/
abbrev MSt (Node : Type) := Stack Node × CommonSiblings Node

/-- `hash_and_compact_terminal` for terminal `ti` -/
def hctOne (L : Nat) (v : VerifiedMulti Node VH) (ti : Nat) (ops : List (Key × Option VH)) (st : MSt Node) :
    Outcome MultiVUErr (MSt Node) :=
  getIdx "proof.inner[terminal_index]" v.inner ti >>= fun t =>
    hashAndCompactTerminal H L st.1 t v.inner[ti + 1]? st.2 ops

/-- `common_siblings.advance(&proof); hash_and_compact_terminal(..)` for terminal `ti` -/
def ingestOne (L : Nat) (v : VerifiedMulti Node VH) (ti : Nat) (ops : List (Key × Option VH)) (st : MSt Node) :
    Outcome MultiVUErr (MSt Node) :=
  st.2.advance v >>= fun cs => hctOne H L v ti ops (st.1, cs)

/-- ingest `n` terminals starting at `ti`; terminal `i` with the ops `A i` -/
def ingestN (L : Nat) (v : VerifiedMulti Node VH) (A : Nat → List (Key × Option VH)) :
    Nat → Nat → MSt Node → Outcome MultiVUErr (MSt Node)
  | 0, _, st => .ok st
  | n+1, ti, st => ingestOne H L v ti (A ti) st >>= ingestN L v A n (ti + 1)

theorem ingestN_add (L : Nat) (v : VerifiedMulti Node VH) (A : Nat → List (Key × Option VH)) :
    ∀ (m n ti : Nat) (st : MSt Node),
      ingestN H L v A (m + n) ti st = (ingestN H L v A m ti st >>= ingestN H L v A n (ti + m)) := by
  intro m
  induction m with
  | zero => intro n ti st; simp [ingestN]
  | succ m ih =>
    intro n ti st
    have e : m + 1 + n = (m + n) + 1 := by omega
    rw [e]
    simp only [ingestN, Outcome.bind_assoc]
    congr 1
    funext st'
    rw [ih]
    have : ti + 1 + m = ti + (m + 1) := by omega
    rw [this]

theorem ingestN_congr (L : Nat) (v : VerifiedMulti Node VH) (A A' : Nat → List (Key × Option VH)) :
    ∀ (n ti : Nat) (st : MSt Node), (∀ i, ti ≤ i → i < ti + n → A i = A' i) →
      ingestN H L v A n ti st = ingestN H L v A' n ti st := by
  intro n
  induction n with
  | zero => intro ti st _; rfl
  | succ n ih =>
    intro ti st h
    simp only [ingestN]
    rw [h ti (Nat.le_refl _) (by omega)]
    congr 1
    funext st'
    exact ih (ti + 1) st' (fun i h1 h2 => h i (by omega) (by omega))

/-! ### the reconstructed path proofs -/

namespace PTree

/-- the inputs of the single-path `verify_update` for the terminals of a range: position, the full
sibling list (`ctx` above the range, then common / other-side / unique siblings) and the replacement
sub-trie root for the ops `A i` of terminal `i` -/
def upds (A : Nat → List (Key × Option VH)) : List Bool → Ctx Node → Nat → PTree Node VH → List (PathUpd Node)
  | pos, ctx, i0, tip t seg us =>
    [{ path := pos ++ seg, siblings := ctx.map (·.2) ++ us,
       subRoot := buildTrie H (pos.length + seg.length) (leafOpsSpliced t.asLeaf (A i0)) }]
  | pos, ctx, i0, fork seg cs l r =>
    l.upds A (pos ++ seg ++ [false]) (ctx ++ cs.map (fun s => (true, s)) ++ [(false, r.hash H)]) i0 ++
      r.upds A (pos ++ seg ++ [true]) (ctx ++ cs.map (fun s => (true, s)) ++ [(false, l.hash H)]) (i0 + l.size)

theorem upds_head (A : Nat → List (Key × Option VH)) : ∀ (T : PTree Node VH) (pos : List Bool) (ctx : Ctx Node)
    (i0 off : Nat), ∃ p tl, T.upds H A pos ctx i0 = p :: tl ∧ p.path = (T.first pos off).route
  | tip _ _ _, _, _, _, _ => ⟨_, [], rfl, rfl⟩
  | fork seg cs l r, pos, ctx, i0, off => by
    obtain ⟨p, tl, h, hp⟩ := upds_head A l (pos ++ seg ++ [false])
      (ctx ++ cs.map (fun s => (true, s)) ++ [(false, r.hash H)]) i0 (off + cs.length)
    exact ⟨p, tl ++ r.upds H A (pos ++ seg ++ [true]) (ctx ++ cs.map (fun s => (true, s)) ++ [(false, l.hash H)])
      (i0 + l.size), by simp only [upds]; rw [h]; rfl, by simp only [first]; exact hp⟩

theorem upds_length (A : Nat → List (Key × Option VH)) : ∀ (T : PTree Node VH) (pos : List Bool) (ctx : Ctx Node)
    (i0 : Nat), (T.upds H A pos ctx i0).length = T.size
  | tip _ _ _, _, _, _ => rfl
  | fork _ _ l r, _, _, _ => by simp [upds, size, upds_length A l, upds_length A r]

theorem first_route_prefix : ∀ (T : PTree Node VH) (pos : List Bool) (off : Nat), pos <+: (T.first pos off).route
  | tip _ _ _, _, _ => List.prefix_append _ _
  | fork seg cs l _, pos, off => by
    have := first_route_prefix l (pos ++ seg ++ [false]) (off + cs.length)
    simp only [first]
    exact (by simp [List.append_assoc] : pos <+: pos ++ seg ++ [false]).trans this

/-- in an aligned tree every verified path's route is a prefix of its terminal's path and has length
`depth` -/
theorem vpaths_route : ∀ (T : PTree Node VH) (pos : List Bool) (off : Nat), T.Aligned pos →
    ∀ vp ∈ T.vpaths pos off, vp.route <+: vp.terminal.path ∧ vp.route.length = vp.depth ∧ pos <+: vp.route
  | tip _ _ _, pos, off, hal, vp, hvp => by
    simp only [vpaths, List.mem_singleton] at hvp
    subst hvp
    exact ⟨hal, by simp, List.prefix_append _ _⟩
  | fork seg cs l r, pos, off, hal, vp, hvp => by
    simp only [vpaths, List.mem_append] at hvp
    rcases hvp with h | h
    · obtain ⟨a, b, c⟩ := vpaths_route l _ _ hal.1 vp h
      exact ⟨a, b, (by simp [List.append_assoc] : pos <+: pos ++ seg ++ [false]).trans c⟩
    · obtain ⟨a, b, c⟩ := vpaths_route r _ _ hal.2 vp h
      exact ⟨a, b, (by simp [List.append_assoc] : pos <+: pos ++ seg ++ [true]).trans c⟩

theorem first_mem (T : PTree Node VH) (pos : List Bool) (off : Nat) : T.first pos off ∈ T.vpaths pos off := by
  obtain ⟨tl, h⟩ := vpaths_eq_first T pos off
  rw [h]; simp

end PTree

theorem runV_append' : ∀ (A B : List (PathUpd Node)) (b : PathUpd Node) (B' : List (PathUpd Node))
    (next : Option (List Bool)) (st : Stack Node), A ≠ [] → B = b :: B' →
    runV H (A ++ B) next st = runV H B next (runV H A (some b.path) st) := by
  intro A
  induction A with
  | nil => intro B b B' next st h; exact absurd rfl h
  | cons a A ih =>
    intro B b B' next st _ hB
    subst hB
    cases A with
    | nil => simp [runV]
    | cons a' A' =>
      have := ih (b :: B') b B' next (stepPath H a (some a'.path) st) (by simp) rfl
      simp only [List.cons_append, runV] at this ⊢
      exact this

/-! ### hypotheses of the block lemma -/

/-- the terminal after the range (index `j`) and the layer `tgt` at which the range's last terminal stops:
none and `0`, or a terminal that branches off to the `1`-side at bit `tgt - 1` of the range's position -/
def NextOK (v : VerifiedMulti Node VH) (pos : List Bool) (tgt j : Nat) : Prop :=
  tgt ≤ pos.length ∧
  match v.inner[j]? with
  | none => tgt = 0
  | some nt => 0 < tgt ∧ pos.getD (tgt - 1) false = false ∧ (pos.take (tgt - 1) ++ [true]) <+: nt.route ∧
      nt.route <+: nt.terminal.path

/-- the pending stack: strictly descending layers, none below the range's position, and above `tgt`
exactly at the bisection layers of the position -/
def PendOK (P : Stack Node) (ctx : Ctx Node) (tgt : Nat) : Prop :=
  P.Pairwise (fun a b => b.2 < a.2) ∧ (∀ e ∈ P, e.2 ≤ ctx.length) ∧
  ∀ d, tgt < d → d ≤ ctx.length → ((∃ x, (x, d) ∈ P) ↔ ∃ s, ctx[d - 1]? = some (false, s))

theorem prefix_take_eq {α : Type} (p a : List α) (h : p <+: a) (k : Nat) (hk : k ≤ p.length) : a.take k = p.take k := by
  obtain ⟨t, rfl⟩ := h
  rw [List.take_append_of_le_length hk]

/-- two bit strings that leave a common position `q` (with `q[n] = 0`) to different sides at bit `n` -/
theorem shared_of_branch (q a b : List Bool) (n : Nat) (hn : n < q.length) (hq : q.getD n false = false)
    (ha : q <+: a) (hb : (q.take n ++ [true]) <+: b) : shared a b = n := by
  have hbl : (q.take n ++ [true]).length = n + 1 := by simp; omega
  apply shared_eq_of_take
  · rw [prefix_take_eq q a ha n (by omega), prefix_take_eq _ b hb n (by omega)]
    rw [List.take_append_of_le_length (by simp; omega), List.take_take]; simp
  · have := ha.length_le; omega
  · have := hb.length_le; omega
  · rw [bl_getD_of_prefix q a ha n hn, bl_getD_of_prefix _ b hb n (by omega), hq]
    have : (q.take n ++ [true]).getD n false = true := by
      have hl : (q.take n).length = n := by simp; omega
      simp [List.getD, List.getElem?_append_right, hl]
    rw [this]; simp

/-! ### one terminal -/

/-- `hash_and_compact_terminal` on a tip, from the state after its `advance` -/
theorem hct_tip (L : Nat) (v : VerifiedMulti Node VH) (A : Nat → List (Key × Option VH))
    (hsafe : ∀ i t, v.inner[i]? = some t →
      buildTrieSlicePanics L t.depth (leafOpsSpliced t.terminal.asLeaf (A i)) = false)
    (t : Terminal VH) (seg : List Bool) (us : List Node)
    (pos : List Bool) (ctx : Ctx Node) (off i0 tgt : Nat) (P : Stack Node) (cs : CommonSiblings Node)
    (hwf : seg.length = us.length) (hal : (pos ++ seg) <+: t.path) (hctx : ctx.length = pos.length)
    (hin : v.inner[i0]? = some { terminal := t, depth := pos.length + seg.length, uStart := off,
                                 uEnd := off + us.length, route := pos ++ seg })
    (hst : cs.stack = stackOf (ctx ++ us.map (fun s => (true, s))))
    (hnext : NextOK v pos tgt (i0 + 1)) (hpend : PendOK P ctx tgt) :
    ∃ cs', hctOne H L v i0 (A i0) (P, cs) =
        .ok (stepPath H { path := pos ++ seg, siblings := ctx.map (·.2) ++ us,
                          subRoot := buildTrie H (pos.length + seg.length) (leafOpsSpliced t.asLeaf (A i0)) }
              ((v.inner[i0 + 1]?).map (·.route)) P, cs') ∧
      cs'.stack = stackOf (ctx.take tgt) ∧ cs'.taken = cs.taken ∧ cs'.bisIdx = cs.bisIdx ∧
      cs'.termIdx = cs.termIdx ∧
      ∃ x, stepPath H { path := pos ++ seg, siblings := ctx.map (·.2) ++ us,
                        subRoot := buildTrie H (pos.length + seg.length) (leafOpsSpliced t.asLeaf (A i0)) }
              ((v.inner[i0 + 1]?).map (·.route)) P = (x, tgt) :: P.dropWhile (fun e => decide (e.2 > tgt)) := by
  obtain ⟨htgt, hnx⟩ := hnext
  obtain ⟨hsorted, hPle, hiff⟩ := hpend
  have hsafe0 := hsafe i0 _ hin
  simp only at hsafe0
  generalize hfull : ctx ++ us.map (fun s => (true, s)) = full at *
  have hfl : full.length = pos.length + seg.length := by rw [← hfull]; simp [hctx, hwf]
  have hfmap : full.map (·.2) = ctx.map (·.2) ++ us := by
    rw [← hfull]; simp [List.map_append, Function.comp_def]
  have hdl : pos.length + seg.length ≤ t.path.length := by
    have := hal.length_le; simpa using this
  have hpth : t.path.take (pos.length + seg.length) = pos ++ seg := by
    have := (bl_prefix_iff_take _ _).1 hal
    simpa using this
  -- the number of layers to go up, and the target of the single-path step
  have hup : upLayers { terminal := t, depth := pos.length + seg.length, uStart := off,
                        uEnd := off + us.length, route := pos ++ seg } v.inner[i0 + 1]?
      = .ok (pos.length + seg.length - tgt) ∧
      tgtV ((v.inner[i0 + 1]?).map (·.route)) (pos ++ seg) = tgt := by
    cases hn : v.inner[i0 + 1]? with
    | none =>
      rw [hn] at hnx
      simp only at hnx
      subst hnx
      exact ⟨rfl, rfl⟩
    | some nt =>
      rw [hn] at hnx
      obtain ⟨h0, hbit, hpre, hroute⟩ := hnx
      have hposl : pos <+: pos ++ seg := List.prefix_append _ _
      have hs1 : shared t.path nt.terminal.path = tgt - 1 :=
        shared_of_branch pos _ _ (tgt - 1) (by omega) hbit (hposl.trans hal) (hpre.trans hroute)
      have hs2 : shared nt.route (pos ++ seg) = tgt - 1 := by
        rw [shared_comm]
        exact shared_of_branch pos _ _ (tgt - 1) (by omega) hbit hposl hpre
      constructor
      · simp only [upLayers, hs1]
        have hne : (tgt - 1 == pos.length + seg.length) = false := beq_false_of_ne (by omega)
        simp only [hne, Bool.false_eq_true, if_false, checkedSub]
        rw [if_pos (by omega)]
        congr 1; omega
      · simp only [Option.map, tgtV, hs2]; omega
  obtain ⟨hup1, hup2⟩ := hup
  -- the loop
  obtain ⟨cs', hloop, hs', ht', hb', hti', hdrop⟩ := hctLoop_sim H (pos ++ seg) full
    (pos.length + seg.length - tgt) (pos.length + seg.length)
    (buildTrie H (pos.length + seg.length) (leafOpsSpliced t.asLeaf (A i0))) P cs
    (by omega) (by omega)
    (by rw [hst, ← hfl, List.take_length])
    hsorted (by intro e he; have := hPle e he; omega)
    (by
      intro d hd1 hd2
      by_cases hdc : d ≤ ctx.length
      · rw [hiff d (by omega) hdc, ← hfull, List.getElem?_append_left (by omega)]
      · constructor
        · rintro ⟨x, hx⟩
          have := hPle _ hx
          simp only at this; omega
        · rintro ⟨s, hs⟩
          rw [← hfull, List.getElem?_append_right (by omega)] at hs
          simp only [List.getElem?_map] at hs
          cases hu : us[d - 1 - ctx.length]? with
          | none => rw [hu] at hs; cases hs
          | some y => rw [hu] at hs; simp at hs)
  have hsubt : pos.length + seg.length - (pos.length + seg.length - tgt) = tgt := by omega
  rw [hsubt] at hs' hdrop
  have hstep : stepPath H { path := pos ++ seg, siblings := ctx.map (·.2) ++ us,
                            subRoot := buildTrie H (pos.length + seg.length) (leafOpsSpliced t.asLeaf (A i0)) }
                ((v.inner[i0 + 1]?).map (·.route)) P =
      ((hashUpV H (pos ++ seg) (full.map (·.2)) (pos.length + seg.length - tgt) (pos.length + seg.length)
          (buildTrie H (pos.length + seg.length) (leafOpsSpliced t.asLeaf (A i0))) P).1, tgt) ::
        (hashUpV H (pos ++ seg) (full.map (·.2)) (pos.length + seg.length - tgt) (pos.length + seg.length)
          (buildTrie H (pos.length + seg.length) (leafOpsSpliced t.asLeaf (A i0))) P).2.2 := by
    simp only [stepPath, hup2, List.length_append, hfmap]
    rw [hashUpV_layer, hsubt]
  refine ⟨cs', ?_, ?_, ht', hb', hti', ?_⟩
  · simp only [hctOne, getIdx_some _ _ _ _ hin, Outcome.ok_bind, hashAndCompactTerminal, hup1, buildTrieM,
      hsafe0, Bool.false_eq_true, if_false, sliceUpTo, hdl, if_true, hpth, hloop, Outcome.pure_eq, hstep, hsubt]
  · rw [hs', ← hfull, List.take_append_of_le_length (by omega)]
  · rw [hstep, hdrop]
    exact ⟨_, rfl⟩


/-! ### a whole range -/

theorem Outcome.bind_ok_right {ε α : Type} (x : Outcome ε α) : (x >>= fun a => (Outcome.ok a : Outcome ε α)) = x := by
  cases x <;> rfl

/-- **ingesting the terminals of a range.**  From the state after `advance` for the range's first
terminal: all `size` terminals are ingested without reaching a panic site, the pending stack becomes what
the single-path algorithm computes on the reconstructed path proofs, and `CommonSiblings` is left holding
the siblings above the target layer, having taken all the range's siblings and bisections. -/
theorem ingest_block (L : Nat) (v : VerifiedMulti Node VH) (A : Nat → List (Key × Option VH))
    (hsafe : ∀ i t, v.inner[i]? = some t →
      buildTrieSlicePanics L t.depth (leafOpsSpliced t.terminal.asLeaf (A i)) = false) :
    ∀ (T : PTree Node VH) (pos : List Bool) (ctx : Ctx Node) (off i0 b0 tgt : Nat) (P : Stack Node)
      (cs : CommonSiblings Node),
      T.WF → T.Aligned pos → ctx.length = pos.length →
      SegAt v.inner i0 (T.vpaths pos off) → SegAt v.bisections b0 (T.vbis pos off) → SegAt v.siblings off T.flat →
      cs.stack = stackOf (ctx ++ T.firstCtx H) → cs.taken = (T.first pos off).uEnd →
      cs.bisIdx = b0 + T.leftBisN → cs.termIdx = i0 + 1 →
      NextOK v pos tgt (i0 + T.size) → PendOK P ctx tgt →
      ∃ cs', (hctOne H L v i0 (A i0) (P, cs) >>= ingestN H L v A (T.size - 1) (i0 + 1)) =
          .ok (runV H (T.upds H A pos ctx i0) ((v.inner[i0 + T.size]?).map (·.route)) P, cs') ∧
        cs'.stack = stackOf (ctx.take tgt) ∧ cs'.taken = off + T.used ∧
        cs'.bisIdx = b0 + (T.vbis pos off).length ∧ cs'.termIdx = i0 + T.size ∧
        ∃ x, runV H (T.upds H A pos ctx i0) ((v.inner[i0 + T.size]?).map (·.route)) P
              = (x, tgt) :: P.dropWhile (fun e => decide (e.2 > tgt)) := by
  intro T
  induction T with
  | tip t seg us =>
    intro pos ctx off i0 b0 tgt P cs hwf hal hctx hin hbis hsib hst htk hbi hti hnext hpend
    have hin0 : v.inner[i0]? = some { terminal := t, depth := pos.length + seg.length, uStart := off,
                                      uEnd := off + us.length, route := pos ++ seg } := by
      have := hin.getElem? 0 (by simp [PTree.vpaths])
      simpa [PTree.vpaths] using this
    obtain ⟨cs', hr, hs', ht', hb', hti', hx⟩ := hct_tip H L v A hsafe t seg us pos ctx off i0 tgt P cs hwf hal hctx
      hin0 hst hnext hpend
    refine ⟨cs', ?_, hs', ?_, ?_, ?_, ?_⟩
    · simp only [PTree.size, Nat.sub_self, ingestN, PTree.upds, runV]
      rw [hr]; rfl
    · rw [ht', htk]; rfl
    · rw [hb', hbi]; rfl
    · rw [hti', hti]; rfl
    · simpa only [PTree.size, PTree.upds, runV] using hx
  | fork seg cs_ l r ihl ihr =>
    intro pos ctx off i0 b0 tgt P cs hwf hal hctx hin hbis hsib hst htk hbi hti hnext hpend
    obtain ⟨hsc, hwl, hwr⟩ := hwf
    obtain ⟨hall, halr⟩ := hal
    obtain ⟨htgt, hnx⟩ := hnext
    obtain ⟨hsorted, hPle, hiff⟩ := hpend
    simp only [PTree.vpaths] at hin
    simp only [PTree.vbis] at hbis
    simp only [PTree.flat] at hsib
    simp only [PTree.first] at htk
    simp only [PTree.leftBisN, ← PTree.ownBis_length pos off cs_] at hbi
    -- names
    generalize hposl : pos ++ seg ++ [false] = posl at *
    generalize hposr : pos ++ seg ++ [true] = posr at *
    generalize hctxl : ctx ++ cs_.map (fun s => (true, s)) ++ [(false, r.hash H)] = ctxl at *
    generalize hctxr : ctx ++ cs_.map (fun s => (true, s)) ++ [(false, l.hash H)] = ctxr at *
    have hposll : posl.length = pos.length + cs_.length + 1 := by
      rw [← hposl]; simp only [List.length_append, List.length_cons, List.length_nil, hsc]
    have hposrl : posr.length = pos.length + cs_.length + 1 := by
      rw [← hposr]; simp only [List.length_append, List.length_cons, List.length_nil, hsc]
    have hctxll : ctxl.length = pos.length + cs_.length + 1 := by
      rw [← hctxl]; simp only [List.length_append, List.length_map, List.length_cons, List.length_nil, hctx]
    have hctxrl : ctxr.length = pos.length + cs_.length + 1 := by
      rw [← hctxr]; simp only [List.length_append, List.length_map, List.length_cons, List.length_nil, hctx]
    have hlsize := PTree.size_pos l
    have hrsize := PTree.size_pos r
    -- the first terminal of the `1`-side
    have hinr := hin.right
    rw [PTree.vpaths_length] at hinr
    obtain ⟨tlr, hfr⟩ := PTree.vpaths_eq_first r posr (off + cs_.length + l.used)
    have hnr : v.inner[i0 + l.size]? = some (r.first posr (off + cs_.length + l.used)) := by
      have := hinr.getElem? 0 (by rw [hfr]; simp)
      rw [hfr] at this
      simpa using this
    obtain ⟨hfr1, hfr2, hfr3⟩ := PTree.vpaths_route r posr _ halr _ (PTree.first_mem r posr _)
    -- the `0`-side
    obtain ⟨csl, hrl, hsl, htl, hbl, htil, xl, hxl⟩ := ihl posl ctxl (off + cs_.length) i0
      (b0 + (PTree.ownBis pos off cs_).length) (pos.length + cs_.length + 1) P cs
      hwl hall (by rw [hctxll, hposll]) hin.left hbis.left.right hsib.left.right
      (by rw [hst, ← hctxl]; simp only [PTree.firstCtx, List.append_assoc])
      htk (by rw [hbi]; omega) hti
      (by
        refine ⟨by omega, ?_⟩
        rw [hnr]
        refine ⟨by omega, ?_, ?_, hfr1⟩
        · rw [← hposl]
          have : pos.length + cs_.length + 1 - 1 = (pos ++ seg).length := by simp [hsc]
          rw [this]; simp [List.getD]
        · have : pos.length + cs_.length + 1 - 1 = (pos ++ seg).length := by simp [hsc]
          rw [this, ← hposl, List.take_left, hposr]
          exact hfr3)
      ⟨hsorted, by intro e he; have := hPle e he; omega, by intro d h1 h2; omega⟩
    rw [hnr] at hrl hxl
    simp only [Option.map] at hrl hxl
    have hPdrop : P.dropWhile (fun e => decide (e.2 > pos.length + cs_.length + 1)) = P := by
      apply dropWhile_eq_self
      intro e he
      have := hPle e he
      simp; omega
    rw [hPdrop] at hxl
    rw [List.take_of_length_le (by omega)] at hsl
    -- `advance` for the first terminal of the `1`-side
    have hbisr := hbis.right
    rw [List.length_append] at hbisr
    have hsibr := hsib.right
    rw [List.length_append, ← PTree.used_eq_flat, ← Nat.add_assoc] at hsibr
    have hstackl : stackOf ctxl = stackOf (ctx ++ cs_.map (fun s => (true, s))) := by
      rw [← hctxl, stackOf_snoc_false]
    have hstackr : stackOf ctxr = stackOf (ctx ++ cs_.map (fun s => (true, s))) := by
      rw [← hctxr, stackOf_snoc_false]
    obtain ⟨csr, hadv, hsr, htr, hbr, htir⟩ := advanceLoop_first H v r posr (off + cs_.length + l.used) ctxr
      (b0 + ((PTree.ownBis pos off cs_).length + (l.vbis posl (off + cs_.length)).length))
      (v.bisections.length + 1) true csl hwr (by rw [hctxrl, hposrl]) hbisr hsibr
      (by rw [hbl]; omega) htl (by rw [hsl, hstackl, hstackr])
      (by
        intro _ e he
        rw [hsl, hstackl] at he
        have := (mem_stackOf _ e he).2
        simp only [List.length_append, List.length_map] at this
        omega)
      (by
        have h1 := PTree.leftBisN_le r posr (off + cs_.length + l.used)
        have h2 := hbisr.length_le
        omega)
    have hadv' : csl.advance v = .ok csr := by
      rw [advance_eq, htil, getIdx_some _ _ _ _ hnr]
      exact hadv
    -- the `1`-side
    have hsize : i0 + l.size + r.size = i0 + (l.size + r.size) := by omega
    obtain ⟨cs', hrr, hs', ht', hb', hti', xr, hxr⟩ := ihr posr ctxr (off + cs_.length + l.used) (i0 + l.size)
      (b0 + ((PTree.ownBis pos off cs_).length + (l.vbis posl (off + cs_.length)).length)) tgt
      (runV H (l.upds H A posl ctxl i0) (some (r.first posr (off + cs_.length + l.used)).route) P) csr
      hwr halr (by rw [hctxrl, hposrl]) hinr hbisr hsibr hsr htr hbr (by rw [htir, htil])
      (by
        refine ⟨by omega, ?_⟩
        rw [hsize]
        simp only [PTree.size] at hnx
        cases hn : v.inner[i0 + (l.size + r.size)]? with
        | none => rw [hn] at hnx; exact hnx
        | some nt =>
          rw [hn] at hnx
          obtain ⟨h0, hbit, hpre, hroute⟩ := hnx
          refine ⟨h0, ?_, ?_, hroute⟩
          · rw [← hposr, List.append_assoc, List.getD_eq_getElem?_getD,
              List.getElem?_append_left (by omega), ← List.getD_eq_getElem?_getD]
            exact hbit
          · rw [← hposr, List.append_assoc, List.take_append_of_le_length (by omega)]
            exact hpre)
      (by
        rw [hxl]
        refine ⟨?_, ?_, ?_⟩
        · refine List.pairwise_cons.2 ⟨?_, hsorted⟩
          intro e he
          have := hPle e he
          simp only; omega
        · intro e he
          rcases List.mem_cons.1 he with h | h
          · subst h; simp only; omega
          · have := hPle e h; omega
        · intro d hd1 hd2
          by_cases hdc : d ≤ ctx.length
          · have hne : d ≠ pos.length + cs_.length + 1 := by omega
            have hleft : (∃ x, (x, d) ∈ (xl, pos.length + cs_.length + 1) :: P) ↔ ∃ x, (x, d) ∈ P := by
              constructor
              · rintro ⟨x, hx⟩
                rcases List.mem_cons.1 hx with h | h
                · injection h with _ h; exact absurd h hne
                · exact ⟨x, h⟩
              · rintro ⟨x, hx⟩; exact ⟨x, List.mem_cons_of_mem _ hx⟩
            rw [hleft, hiff d hd1 hdc, ← hctxr, List.append_assoc, List.getElem?_append_left (by omega)]
          · by_cases hdt : d = pos.length + cs_.length + 1
            · subst hdt
              constructor
              · intro _
                refine ⟨l.hash H, ?_⟩
                rw [← hctxr, List.getElem?_append_right (by simp [hctx])]
                simp [hctx]
              · intro _; exact ⟨xl, by simp⟩
            · constructor
              · rintro ⟨x, hx⟩
                rcases List.mem_cons.1 hx with h | h
                · injection h with _ h; exact absurd h hdt
                · have := hPle _ h; simp only at this; omega
              · rintro ⟨s, hs⟩
                exfalso
                rw [← hctxr, List.getElem?_append_left (by simp [hctx]; omega),
                  List.getElem?_append_right (by omega), List.getElem?_map] at hs
                cases hu : cs_[d - 1 - ctx.length]? with
                | none => rw [hu] at hs; cases hs
                | some y => rw [hu] at hs; simp at hs)
    -- assemble
    obtain ⟨pr, tlu, hur, hurp⟩ := PTree.upds_head H A r posr ctxr (i0 + l.size) (off + cs_.length + l.used)
    obtain ⟨pl, tll, hul, _⟩ := PTree.upds_head H A l posl ctxl i0 (off + cs_.length)
    have hrun : runV H ((PTree.fork seg cs_ l r).upds H A pos ctx i0)
        ((v.inner[i0 + (PTree.fork seg cs_ l r).size]?).map (·.route)) P =
        runV H (r.upds H A posr ctxr (i0 + l.size)) ((v.inner[i0 + l.size + r.size]?).map (·.route))
          (runV H (l.upds H A posl ctxl i0) (some (r.first posr (off + cs_.length + l.used)).route) P) := by
      simp only [PTree.upds, PTree.size, hposl, hposr, hctxl, hctxr]
      rw [runV_append' H _ _ pr tlu _ _ (by rw [hul]; simp) hur, hurp, hsize]
    refine ⟨cs', ?_, ?_, ?_, ?_, ?_, ?_⟩
    · rw [hrun, ← hrr]
      have e1 : (PTree.fork seg cs_ l r).size - 1 = (l.size - 1) + ((r.size - 1) + 1) := by
        simp only [PTree.size]; omega
      have e3 : ingestN H L v A ((l.size - 1) + ((r.size - 1) + 1)) (i0 + 1) =
          fun st => ingestN H L v A (l.size - 1) (i0 + 1) st >>= ingestN H L v A ((r.size - 1) + 1) (i0 + 1 + (l.size - 1)) :=
        funext (ingestN_add H L v A _ _ _)
      rw [e1, e3, ← Outcome.bind_assoc, hrl]
      have e2 : i0 + 1 + (l.size - 1) = i0 + l.size := by omega
      rw [e2]
      simp only [Outcome.ok_bind, ingestN, ingestOne, hadv']
    · rw [hs', ← hctxr, List.append_assoc, List.take_append_of_le_length (by omega)]
    · rw [ht']; simp only [PTree.used]; omega
    · rw [hb']; simp only [PTree.vbis, List.length_append, hposl, hposr]; omega
    · rw [hti']; simp only [PTree.size]; omega
    · rw [hrun, hxr, hxl]
      refine ⟨xr, ?_⟩
      have : decide ((xl, pos.length + cs_.length + 1).2 > tgt) = true := by simp; omega
      simp [List.dropWhile, this]

end Nomt
