import NomtModel.Core.Basic
namespace Nomt
variable {Node VH : Type} (H : Hasher Node VH)

/-- number of leading equal bits (mirror of `shared_bits`) -/
def shared : List Bool → List Bool → Nat
  | a :: as, b :: bs => if a == b then shared as bs + 1 else 0
  | _, _ => 0

/-- relative shared bits after the `skip` prefix (mirror of `common_after_prefix`) -/
def sharedRel (skip : Nat) (a b : Key) : Nat := shared (a.drop skip) (b.drop skip)

abbrev Stack (Node : Type) := List (Node × Nat)

/-- mirror of the inner `for bit in … .rev().take(hash_up_layers)` loop of `build_trie` -/
def hashUp (key : Key) (skip : Nat) : (up : Nat) → (layer : Nat) → Node → Stack Node → Node × Nat × Stack Node
  | 0, layer, node, st => (node, layer, st)
  | up+1, layer, node, st =>
      let layer' := layer - 1
      let bit := key.getD (skip + layer') false
      let sibSt : Node × Stack Node :=
        match st with
        | (n, l) :: rest => if l == layer' + 1 then (n, rest) else (H.term, st)
        | [] => (H.term, [])
      let node' := if bit then H.internal sibSt.1 node else H.internal node sibSt.1
      hashUp key skip up layer' node' sibSt.2

/-- one iteration of the `while let Some(..) = b` loop -/
def stepKey (skip : Nat) (prev : Option Key) (k : Key) (v : VH) (next : Option Key) (st : Stack Node) : Stack Node :=
  let n1 := prev.map (fun p => sharedRel skip p k)
  let n2 := next.map (fun c => sharedRel skip c k)
  let du : Nat × Nat :=
    match n1, n2 with
    | none, none => (0, 0)
    | none, some n2 => (n2 + 1, 0)
    | some n1, none => (n1 + 1, n1 + 1)
    | some n1, some n2 => (max n1 n2 + 1, n1 - n2)
  let r := hashUp H k skip du.2 du.1 (H.leaf k v) st
  (r.1, r.2.1) :: r.2.2

/-- the loop over a block with an explicit window -/
def run (skip : Nat) : Option Key → List (Key × VH) → Option Key → Stack Node → Stack Node
  | _, [], _, st => st
  | prev, [(k, v)], next, st => stepKey H skip prev k v next st
  | prev, (k, v) :: (k', v') :: rest, next, st =>
      run skip (some k) ((k', v') :: rest) next (stepKey H skip prev k v (some k') st)

/-- mirror of `build_trie` -/
def buildTrie (skip : Nat) (ops : List (Key × VH)) : Node :=
  match ops with
  | [] => H.term
  | [(k, v)] => H.leaf k v
  | _ => match run H skip none ops none [] with
         | (n, _) :: _ => n
         | [] => H.term

end Nomt
