import NomtModel.Core.Sound
import NomtModel.Core.Block2
set_option linter.unusedSectionVars false
namespace Nomt
variable {Node VH : Type} [DecidableEq Node] [DecidableEq VH] (H : Hasher Node VH)

inductive Terminal (VH : Type) where
  | leaf (k : Key) (v : VH)
  | terminator (pos : List Bool)

structure PathProof (Node VH : Type) where
  terminal : Terminal VH
  siblings : List Node        -- ascending by depth, as in core/src/proof/path_proof.rs

inductive VerifyErr where | tooManySiblings | rootMismatch
deriving DecidableEq, Repr

structure Verified (Node VH : Type) where
  path : List Bool
  terminal : Option (Key × VH)
  siblings : List Node
  root : Node

def Terminal.node : Terminal VH → Node
  | .leaf k v => H.leaf k v
  | .terminator _ => H.term

/-- mirror of `PathProof::verify` (`L` = key length, 256 in the code) -/
def verify (L : Nat) (P : PathProof Node VH) (keyPath : List Bool) (root : Node) :
    Except VerifyErr (Verified Node VH) :=
  if P.siblings.length > min keyPath.length L then .error .tooManySiblings
  else
    let rel := keyPath.take P.siblings.length
    let n := hashPath H (P.terminal.node H) rel P.siblings
    if n = root then
      .ok { path := rel
            terminal := match P.terminal with | .leaf k v => some (k, v) | .terminator _ => none
            siblings := P.siblings
            root := root }
    else .error .rootMismatch

/-- mirror of `in_scope` -/
def Verified.inScope (v : Verified Node VH) (k : Key) : Bool := v.path == k.take v.path.length

/-- mirror of `confirm_value`; `none` = `KeyOutOfScope` -/
def Verified.confirmValue (v : Verified Node VH) (k : Key) (vh : VH) : Option Bool :=
  if v.inScope k then some (decide (v.terminal = some (k, vh))) else none

/-- mirror of `confirm_nonexistence` -/
def Verified.confirmNonexistence (v : Verified Node VH) (k : Key) : Option Bool :=
  if v.inScope k then
    some (match v.terminal with | none => true | some (k', _) => decide (k' ≠ k))
  else none

/-! ### membership in a restriction -/

theorem mem_restrict : ∀ (path : List Bool) (d : Nat) (s : List (Key × VH)) (kv : Key × VH),
    kv ∈ restrict d path s ↔ kv ∈ s ∧ ∀ i, i < path.length → kv.1.getD (d + i) false = path.getD i false := by
  intro path
  induction path with
  | nil => intro d s kv; simp [restrict]
  | cons b ps ih =>
    intro d s kv
    simp only [restrict, ih, mem_side]
    constructor
    · rintro ⟨⟨hs, hb⟩, hrest⟩
      refine ⟨hs, ?_⟩
      intro i hi
      cases i with
      | zero => simpa using hb
      | succ i =>
        have := hrest i (by simpa using hi)
        have e : d + (i + 1) = d + 1 + i := by omega
        rw [e]; simpa using this
    · rintro ⟨hs, hall⟩
      refine ⟨⟨hs, ?_⟩, ?_⟩
      · simpa using hall 0 (by simp)
      · intro i hi
        have := hall (i+1) (by simpa using hi)
        have e : d + (i + 1) = d + 1 + i := by omega
        rw [e] at this; simpa using this

theorem getD_take_lt (k : Key) (n i : Nat) (h : i < n) : (k.take n).getD i false = k.getD i false := by
  induction k generalizing n i with
  | nil => simp
  | cons x xs ih =>
    cases n with
    | zero => omega
    | succ n =>
      cases i with
      | zero => simp
      | succ i => simpa using ih n i (by omega)

/-! ### kinds of `nodeAt` -/

theorem Canon_side (fuel d : Nat) (B : List (Key × VH)) (b : Bool) (h : Canon (fuel+1) d B) :
    Canon fuel (d+1) (side d b B) := by
  match B, h with
  | [], _ => simp [side, Canon]
  | [kv], _ =>
    simp only [side, List.filter]
    split <;> cases fuel <;> simp [Canon]
  | a :: c :: rest, h =>
    obtain ⟨_, c0, c1⟩ := h
    cases b
    · exact c0
    · exact c1

theorem Canon_restrict : ∀ (path : List Bool) (fuel d : Nat) (B : List (Key × VH)),
    Canon (fuel + path.length) d B → Canon fuel (d + path.length) (restrict d path B) := by
  intro path
  induction path with
  | nil => intro fuel d B h; simpa [restrict] using h
  | cons b ps ih =>
    intro fuel d B h
    simp only [restrict, List.length_cons]
    have e1 : fuel + (ps.length + 1) = (fuel + ps.length) + 1 := by omega
    rw [List.length_cons, e1] at h
    have := ih fuel (d+1) (side d b B) (Canon_side (fuel + ps.length) d B b h)
    have e2 : d + (ps.length + 1) = d + 1 + ps.length := by omega
    rw [e2]; exact this

theorem nodeAt_eq_leaf (hs : H.Sound) (fuel d : Nat) (B : List (Key × VH)) (hc : Canon fuel d B)
    (k : Key) (v : VH) (h : nodeAt H fuel d B = H.leaf k v) : B = [(k, v)] := by
  match fuel, B, hc with
  | _, [], _ =>
    rw [nodeAt_nil] at h
    have := congrArg H.kind h
    simp [hs.kind_term, hs.kind_leaf] at this
  | _, [(k', v')], _ =>
    rw [nodeAt_single] at h
    have := hs.leaf_inj _ _ _ _ h
    simp only at this
    rw [this.1, this.2]
  | f+1, a :: b :: rest, _ =>
    rw [nodeAt_two] at h
    have := congrArg H.kind h
    simp [hs.kind_internal, hs.kind_leaf] at this

theorem nodeAt_eq_term (hs : H.Sound) (fuel d : Nat) (B : List (Key × VH)) (hc : Canon fuel d B)
    (h : nodeAt H fuel d B = H.term) : B = [] := by
  match fuel, B, hc with
  | _, [], _ => rfl
  | _, [(k', v')], _ =>
    rw [nodeAt_single] at h
    have := congrArg H.kind h
    simp [hs.kind_term, hs.kind_leaf] at this
  | f+1, a :: b :: rest, _ =>
    rw [nodeAt_two] at h
    have := congrArg H.kind h
    simp [hs.kind_internal, hs.kind_term] at this

end Nomt
