import NomtModel.Core.MultiDriver
/-!
`multiVerifyUpdate_spec`: on an accepted multi-proof, for ops with `L`-bit keys, `verify_update`
(multi_proof.rs:688) **never reaches a panic site**, and an `ok` verdict is the single-path
`verifyUpdate` on the path proofs reconstructed from the multi-proof, every terminal with the ops it
covers (in the caller's order, which is then strictly ascending).
-/
set_option linter.unusedSectionVars false
namespace Nomt
variable {Node VH : Type} [DecidableEq Node] [DecidableEq VH] (H : Hasher Node VH)

/-- the caller-side facts about an accepted multi-proof: it is a tree, leaf keys are `L`-bit keys and no
verified depth exceeds `L` (terminator positions are at most `L` bits long) -/
structure MCtx (L : Nat) (v : VerifiedMulti Node VH) (T : PTree Node VH) : Prop where
  tree : TreeOf H v T
  leafLen : ∀ vp ∈ v.inner, ∀ k x, vp.terminal = .leaf k x → k.length = L
  depthLe : ∀ vp ∈ v.inner, vp.depth ≤ L

variable {H} {L : Nat} {v : VerifiedMulti Node VH} {T : PTree Node VH}

theorem MCtx.depth_le_path (c : MCtx H L v T) : ∀ vp ∈ v.inner, vp.depth ≤ vp.terminal.path.length := by
  intro vp hvp
  rw [c.tree.inner] at hvp
  obtain ⟨h1, h2, _⟩ := PTree.vpaths_route T [] 0 c.tree.al vp hvp
  have := h1.length_le
  omega

/-! ### the verified routes are strictly ascending and prefix-free -/

theorem bitsLt_snoc : ∀ (q : List Bool), bitsLt (q ++ [false]) (q ++ [true]) = true
  | [] => rfl
  | x :: xs => by simp [bitsLt, bitsLt_snoc xs]

/-- order and incomparability of two routes -/
def RouteLt (a b : VPath VH) : Prop :=
  bitsLt a.route b.route = true ∧ ¬ a.route <+: b.route ∧ ¬ b.route <+: a.route

theorem PTree.vpaths_sorted : ∀ (T : PTree Node VH) (pos : List Bool) (off : Nat), T.Aligned pos →
    (T.vpaths pos off).Pairwise RouteLt
  | .tip _ _ _, _, _, _ => by simp [PTree.vpaths]
  | .fork seg cs l r, pos, off, hal => by
    simp only [PTree.vpaths]
    refine List.pairwise_append.2 ⟨PTree.vpaths_sorted l _ _ hal.1, PTree.vpaths_sorted r _ _ hal.2, ?_⟩
    intro a ha b hb
    obtain ⟨_, _, hpa⟩ := PTree.vpaths_route l _ _ hal.1 a ha
    obtain ⟨_, _, hpb⟩ := PTree.vpaths_route r _ _ hal.2 b hb
    obtain ⟨qa, hqa⟩ := hpa
    obtain ⟨qb, hqb⟩ := hpb
    have hnp : ¬ (pos ++ seg ++ [false]) <+: (pos ++ seg ++ [true]) := by simp
    refine ⟨?_, ?_, ?_⟩
    · exact bl_extend _ _ _ _ (bitsLt_snoc (pos ++ seg)) hnp ⟨qa, hqa⟩ ⟨qb, hqb⟩
    · rw [← hqa, ← hqb]; exact not_prefix_of_diverge (pos ++ seg) qa qb false
    · rw [← hqa, ← hqb]; exact not_prefix_of_diverge (pos ++ seg) qb qa true

theorem MCtx.routes_sorted (c : MCtx H L v T) : v.inner.Pairwise RouteLt := by
  rw [c.tree.inner]; exact PTree.vpaths_sorted T [] 0 c.tree.al

/-- `route = path()[..depth]` -/
theorem MCtx.route_eq (c : MCtx H L v T) : ∀ vp ∈ v.inner, vp.terminal.path.take vp.depth = vp.route := by
  intro vp hvp
  rw [c.tree.inner] at hvp
  obtain ⟨h1, h2, _⟩ := PTree.vpaths_route T [] 0 c.tree.al vp hvp
  rw [← h2]; exact (bl_prefix_iff_take _ _).1 h1

/-- a key covered by a verified terminal extends its route -/
theorem MCtx.route_prefix_of_cover (c : MCtx H L v T) (t : VPath VH) (ht : t ∈ v.inner) (k : Key)
    (h : k.take t.depth = t.terminal.path.take t.depth) : t.route <+: k := by
  rw [c.route_eq t ht] at h
  rw [← h]; exact List.take_prefix _ _

/-- keys covered by different terminals are ordered like the terminals -/
theorem MCtx.cover_order (c : MCtx H L v T) (i j : Nat) (ti tj : VPath VH) (hi : v.inner[i]? = some ti)
    (hj : v.inner[j]? = some tj) (hij : i < j) (k1 k2 : Key)
    (h1 : k1.take ti.depth = ti.terminal.path.take ti.depth)
    (h2 : k2.take tj.depth = tj.terminal.path.take tj.depth) : bitsLt k1 k2 = true := by
  obtain ⟨hil, hie⟩ := List.getElem?_eq_some_iff.1 hi
  obtain ⟨hjl, hje⟩ := List.getElem?_eq_some_iff.1 hj
  have := (List.pairwise_iff_getElem.1 c.routes_sorted) i j hil hjl hij
  rw [hie, hje] at this
  exact bl_extend _ _ _ _ this.1 this.2.1 (c.route_prefix_of_cover ti (List.mem_of_getElem? hi) k1 h1)
    (c.route_prefix_of_cover tj (List.mem_of_getElem? hj) k2 h2)

/-- invariant of the `for (i, (key, op))` loop after the ops `done` -/
structure DInv (H : Hasher Node VH) (L : Nat) (v : VerifiedMulti Node VH) (A : Nat → List (Key × Option VH))
    (done : List (Key × Option VH)) (st : UState Node VH) : Prop where
  reach : ingestN H L v A (st.nextPending.getD 0) 0 MSt.init = .ok (st.pending, st.cs)
  safe : SafeA L v A
  tail : ∀ i, st.nextPending.getD 0 ≤ i → A i = []
  sorted : done.Pairwise KeyLt
  lens : ∀ o ∈ done, o.1.length = L
  lastKey : st.lastKey = done.getLast?.map (·.1)
  flat : opsUpTo A (st.nextPending.getD 0) ++ st.working = done
  cover : ∀ i t, v.inner[i]? = some t → ∀ o ∈ A i, o.1.take t.depth = t.terminal.path.take t.depth
  last : match st.lastTi with
    | none => done = [] ∧ st.nextPending = none
    | some ui => st.nextPending.getD 0 ≤ ui ∧ ui < v.inner.length ∧ st.working ≠ [] ∧
        ∀ t, v.inner[ui]? = some t → ∀ o ∈ st.working, o.1.take t.depth = t.terminal.path.take t.depth

/-- ingesting the pending terminals up to and including the updated one -/
theorem ingest_branch (c : MCtx H L v T) (A : Nat → List (Key × Option VH)) (np ui : Nat) (s0 : MSt Node)
    (W : List (Key × Option VH))
    (hreach : ingestN H L v A np 0 MSt.init = .ok s0) (hsafe : SafeA L v A)
    (htail : ∀ i, np ≤ i → A i = []) (h1 : np ≤ ui) (h2 : ui < v.inner.length)
    (hs : W.Pairwise KeyLt) (hl : ∀ o ∈ W, o.1.length = L)
    (hc : ∀ t, v.inner[ui]? = some t → ∀ o ∈ W, o.1.take t.depth = t.terminal.path.take t.depth) :
    SafeA L v (fun i => if i = ui then W else A i) ∧
    ∃ s1 s2 t cs2, ingestN H L v (fun i => if i = ui then W else A i) (ui - np) np s0 = .ok s1 ∧
      v.inner[ui]? = some t ∧ s1.2.advance v = .ok cs2 ∧
      hashAndCompactTerminal H L s1.1 t v.inner[ui + 1]? cs2 W = .ok s2 ∧
      ingestN H L v (fun i => if i = ui then W else A i) (ui + 1) 0 MSt.init = .ok s2 := by
  have hsafe' : SafeA L v (fun i => if i = ui then W else A i) := by
    intro i t hi
    by_cases hiu : i = ui
    · subst hiu
      simp only [if_true]
      exact safe_of_covered L t W (c.leafLen t (List.mem_of_getElem? hi)) hs hl (hc t hi)
    · simp only [hiu, if_false]
      exact hsafe i t hi
  refine ⟨hsafe', ?_⟩
  have hreach' : ingestN H L v (fun i => if i = ui then W else A i) np 0 MSt.init = .ok s0 := by
    rw [ingestN_congr H L v _ A np 0 MSt.init (fun i _ hi => by
      have : i ≠ ui := by omega
      simp [this])]
    exact hreach
  obtain ⟨s2, hs2, hs2'⟩ := reach_extend H L v T c.tree _ hsafe' np (ui - np + 1) s0 hreach' (by omega)
  have e1 : np + (ui - np + 1) = ui + 1 := by omega
  rw [e1] at hs2'
  obtain ⟨s1, hs1, hone⟩ := ingestN_prefix_ok H L v _ _ _ _ _ _ hs2
  have e2 : np + (ui - np) = ui := by omega
  rw [e2] at hone
  simp only [ingestN, if_true, Outcome.bind_ok_right, ingestOne] at hone
  obtain ⟨cs2, hadv, hone⟩ := Outcome.bind_eq_ok hone
  simp only [hctOne] at hone
  obtain ⟨t, ht, hone⟩ := Outcome.bind_eq_ok hone
  have ht' : v.inner[ui]? = some t := by
    unfold getIdx at ht
    cases hh : v.inner[ui]? with
    | none => rw [hh] at ht; cases ht
    | some a => rw [hh] at ht; injection ht with ht; rw [ht]
  exact ⟨s1, s2, t, cs2, hs1, ht', hadv, hone, hs2'⟩

theorem ingestRange_as (A : Nat → List (Key × Option VH)) (np ui : Nat) (s0 : MSt Node) (W : List (Key × Option VH))
    (htail : ∀ i, np ≤ i → A i = []) (h2 : ui < v.inner.length) (h1 : np ≤ ui) :
    ingestRange H L v (ui - np) np s0 = ingestN H L v (fun i => if i = ui then W else A i) (ui - np) np s0 := by
  rw [ingestRange_eq H L v _ _ _ (by omega)]
  apply ingestN_congr
  intro i hi1 hi2
  have : i ≠ ui := by omega
  simp only [this, if_false]
  exact (htail i hi1).symm

theorem pairwise_snoc_of_last (done : List (Key × Option VH)) (x : Key × Option VH) (hs : done.Pairwise KeyLt)
    (h : ∀ lk, done.getLast?.map (·.1) = some lk → bitsLt lk x.1 = true) : (done ++ [x]).Pairwise KeyLt := by
  rw [List.pairwise_append]
  refine ⟨hs, by simp, ?_⟩
  intro a ha b hb
  simp only [List.mem_singleton] at hb
  subst hb
  have hne : done ≠ [] := by intro e; rw [e] at ha; cases ha
  have hl : done.getLast?.map (·.1) = some (done.getLast hne).1 := by
    rw [List.getLast?_eq_some_getLast hne]; rfl
  have hlt := h _ hl
  rcases pairwise_getLast done hne hs a ha with h1 | h1
  · rw [h1]; exact hlt
  · exact bl_trans _ _ _ h1 hlt

/-- `key <= last_key` -/
def ordBad (lastKey : Option Key) (key : Key) : Bool :=
  match lastKey with
  | some lk => bitsLe key lk
  | none => false

/-- `last_terminal_index.map_or(true, |x| x == next_terminal_index)` -/
def sameTi (lastTi : Option Nat) (nti : Nat) : Bool :=
  match lastTi with
  | none => true
  | some x => x == nti

/-- the body of a non-final iteration after the order check -/
def stepBody (H : Hasher Node VH) (L : Nat) (v : VerifiedMulti Node VH) (st : UState Node VH) (key : Key)
    (op : Option VH) : Outcome MultiVUErr (UState Node VH) :=
  findTerminalFrom key (v.inner.drop (st.lastTi.getD 0)) (st.lastTi.getD 0) >>= fun nti =>
    if sameTi st.lastTi nti then
      .ok { st with lastKey := some key, lastTi := some nti, working := st.working ++ [(key, op)] }
    else
      ingestRange H L v (st.lastTi.getD 0 - st.nextPending.getD 0) (st.nextPending.getD 0) (st.pending, st.cs)
        >>= fun s1 =>
      getIdx "multi_proof.rs:796 proof.inner[updated_index]" v.inner (st.lastTi.getD 0) >>= fun t =>
      s1.2.advance v >>= fun cs =>
      hashAndCompactTerminal H L s1.1 t v.inner[st.lastTi.getD 0 + 1]? cs st.working >>= fun s2 =>
      .ok { st with lastKey := some key, lastTi := some nti, working := [(key, op)], pending := s2.1,
                    cs := s2.2, nextPending := some (st.lastTi.getD 0 + 1) }

theorem updateStep_eq (st : UState Node VH) (key : Key) (op : Option VH) :
    updateStep H L v st key op =
      if ordBad st.lastKey key then .err .opsOutOfOrder else stepBody H L v st key op := by
  obtain ⟨p, cs, lk, lti, np, w⟩ := st
  cases lk <;> cases lti <;> rfl

/-- one iteration of the `for (i, (key, op))` loop -/
theorem updateStep_spec (c : MCtx H L v T) (A : Nat → List (Key × Option VH)) (done : List (Key × Option VH))
    (st : UState Node VH) (hinv : DInv H L v A done st) (key : Key) (op : Option VH) (hk : key.length = L) :
    (updateStep H L v st key op).isPanic = false ∧
    (∀ st', updateStep H L v st key op = .ok st' → ∃ A', DInv H L v A' (done ++ [(key, op)]) st') ∧
    (ordBad st.lastKey key = false → ∀ nti,
      findTerminalFrom key (v.inner.drop (st.lastTi.getD 0)) (st.lastTi.getD 0) = .ok nti →
      ∃ st', updateStep H L v st key op = .ok st') := by
  rw [updateStep_eq]
  by_cases hord : ordBad st.lastKey key = true
  · rw [if_pos hord]
    exact ⟨rfl, fun st' h => (by cases h), fun h => (by rw [h] at hord; cases hord)⟩
  · rw [if_neg hord]
    unfold stepBody
    have hsorted' : (done ++ [(key, op)]).Pairwise KeyLt := by
      apply pairwise_snoc_of_last done _ hinv.sorted
      intro lk hlk
      rw [← hinv.lastKey] at hlk
      rw [hlk] at hord
      simp only [ordBad] at hord
      exact bl_not_le.1 (by simpa using hord)
    have hlens' : ∀ o ∈ done ++ [(key, op)], o.1.length = L := by
      intro o ho
      rcases List.mem_append.1 ho with h | h
      · exact hinv.lens o h
      · simp only [List.mem_singleton] at h; subst h; exact hk
    have hlast' : some key = (done ++ [(key, op)]).getLast?.map (·.1) := by simp
    have hfnp : (findTerminalFrom key (v.inner.drop (st.lastTi.getD 0)) (st.lastTi.getD 0)).isPanic = false := by
      apply findTerminalFrom_no_panic
      intro t ht
      have htm : t ∈ v.inner := List.mem_of_mem_drop ht
      exact ⟨by rw [hk]; exact c.depthLe t htm, c.depth_le_path t htm⟩
    cases hf : findTerminalFrom key (v.inner.drop (st.lastTi.getD 0)) (st.lastTi.getD 0) with
    | panic s => rw [hf] at hfnp; cases hfnp
    | err e => exact ⟨rfl, fun st' h => (by cases h), fun _ nti h => (by cases h)⟩
    | ok nti =>
      obtain ⟨hge, tn, htn, hcont⟩ := findTerminalFrom_ok key _ _ _ hf
      rw [List.getElem?_drop] at htn
      have hntieq : st.lastTi.getD 0 + (nti - st.lastTi.getD 0) = nti := by omega
      rw [hntieq] at htn
      have hntilt : nti < v.inner.length := (List.getElem?_eq_some_iff.1 htn).1
      have hcov := terminalContains_true tn key hcont
      have hcovnew : ∀ t, v.inner[nti]? = some t → ∀ o ∈ [(key, op)], o.1.take t.depth = t.terminal.path.take t.depth := by
        intro t ht o ho
        rw [htn] at ht; injection ht with ht; subst ht
        simp only [List.mem_singleton] at ho; subst ho
        exact hcov
      simp only [Outcome.ok_bind]
      cases hlt : st.lastTi with
      | none =>
        have hl := hinv.last
        rw [hlt] at hl
        obtain ⟨hdone, hnp⟩ := hl
        have hw : st.working = [] := by
          have := hinv.flat
          rw [hdone] at this
          exact (List.append_eq_nil_iff.1 this).2
        simp only [sameTi, if_true]
        refine ⟨rfl, ?_, fun _ _ _ => ⟨_, rfl⟩⟩
        intro st' h
        injection h with h
        subst h
        refine ⟨A, ⟨hinv.reach, hinv.safe, hinv.tail, hsorted', hlens', hlast', ?_, hinv.cover, ?_⟩⟩
        · simp only [hw, hdone, hnp, Option.getD_none, opsUpTo, List.nil_append]
        · simp only
          refine ⟨by rw [hnp]; simp, hntilt, by simp, ?_⟩
          rw [hw]; exact hcovnew
      | some ui =>
        have hl := hinv.last
        rw [hlt] at hl hge hf
        simp only [Option.getD_some] at hge
        obtain ⟨hnpui, huilt, hdne, hcovw⟩ := hl
        by_cases hsame : ui = nti
        · subst hsame
          simp only [sameTi, beq_self_eq_true, if_true]
          refine ⟨rfl, ?_, fun _ _ _ => ⟨_, rfl⟩⟩
          intro st' h
          injection h with h
          subst h
          refine ⟨A, ⟨hinv.reach, hinv.safe, hinv.tail, hsorted', hlens', hlast', ?_, hinv.cover, ?_⟩⟩
          · simp only [← List.append_assoc, hinv.flat]
          · simp only
            refine ⟨hnpui, huilt, by simp, ?_⟩
            intro t ht o ho
            rcases List.mem_append.1 ho with h | h
            · exact hcovw t ht o h
            · exact hcovnew t ht o h
        · have hne : (ui == nti) = false := beq_false_of_ne hsame
          simp only [sameTi, hne, Bool.false_eq_true, if_false, Option.getD_some]
          -- the working ops are a suffix of `done`
          have hwsub : st.working.Sublist done := by
            rw [← hinv.flat]; exact List.sublist_append_right _ _
          have hws : st.working.Pairwise KeyLt := List.Pairwise.sublist hwsub hinv.sorted
          have hwl : ∀ o ∈ st.working, o.1.length = L := fun o ho => hinv.lens o (hwsub.subset ho)
          obtain ⟨hsafe', s1, s2, t, cs2, hs1, ht, hadv, hhct, hreach'⟩ :=
            ingest_branch c A (st.nextPending.getD 0) ui (st.pending, st.cs) st.working hinv.reach hinv.safe
              hinv.tail hnpui huilt hws hwl hcovw
          rw [ingestRange_as A _ ui _ st.working hinv.tail huilt hnpui, hs1]
          simp only [Outcome.ok_bind, getIdx_some _ _ _ _ ht, hadv, hhct, Outcome.pure_eq]
          refine ⟨rfl, ?_, fun _ _ _ => ⟨_, rfl⟩⟩
          intro st' h
          injection h with h
          subst h
          refine ⟨fun i => if i = ui then st.working else A i,
            ⟨by simpa using hreach', hsafe', ?_, hsorted', hlens', hlast', ?_, ?_, ?_⟩⟩
          · intro i hi
            simp only [Option.getD_some] at hi
            have : i ≠ ui := by omega
            simp only [this, if_false]
            exact hinv.tail i (by omega)
          · simp only [Option.getD_some, opsUpTo, if_true]
            rw [opsUpTo_empty _ (st.nextPending.getD 0) ui hnpui (by
                intro i h1 h2
                have : i ≠ ui := by omega
                simp only [this, if_false]
                exact hinv.tail i h1),
              opsUpTo_congr _ A _ (by
                intro i hi
                have : i ≠ ui := by omega
                simp only [this, if_false]),
              hinv.flat]
          · intro i t' hi o ho
            by_cases hiu : i = ui
            · subst hiu
              simp only [if_true] at ho
              exact hcovw t' hi o ho
            · simp only [hiu, if_false] at ho
              exact hinv.cover i t' hi o ho
          · simp only [Option.getD_some]
            exact ⟨by omega, hntilt, by simp, hcovnew⟩

theorem updateLoop_spec (c : MCtx H L v T) : ∀ (ops : List (Key × Option VH)) (A : Nat → List (Key × Option VH))
    (done : List (Key × Option VH)) (st : UState Node VH), DInv H L v A done st →
    (∀ o ∈ ops, o.1.length = L) →
    (updateLoop H L v ops st).isPanic = false ∧
    ∀ st', updateLoop H L v ops st = .ok st' → ∃ A', DInv H L v A' (done ++ ops) st' := by
  intro ops
  induction ops with
  | nil =>
    intro A done st hinv _
    refine ⟨rfl, ?_⟩
    intro st' h
    injection h with h
    subst h
    exact ⟨A, by simpa using hinv⟩
  | cons o rest ih =>
    intro A done st hinv hl
    obtain ⟨k, w⟩ := o
    obtain ⟨hnp, hok, _⟩ := updateStep_spec c A done st hinv k w (hl (k, w) (by simp))
    simp only [updateLoop]
    cases hstep : updateStep H L v st k w with
    | panic s => rw [hstep] at hnp; cases hnp
    | err e => exact ⟨rfl, fun st' h => by cases h⟩
    | ok st1 =>
      obtain ⟨A1, hinv1⟩ := hok st1 hstep
      obtain ⟨h1, h2⟩ := ih A1 (done ++ [(k, w)]) st1 hinv1 (fun o ho => hl o (List.mem_cons_of_mem _ ho))
      simp only [Outcome.ok_bind]
      refine ⟨h1, ?_⟩
      intro st' h
      obtain ⟨A', hA'⟩ := h2 st' h
      exact ⟨A', by simpa using hA'⟩

/-! ### sorted in-scope ops are not rejected -/

theorem findTerminalFrom_complete (key : Key) : ∀ (ts : List (VPath VH)) (i : Nat),
    (∀ t ∈ ts, t.depth ≤ key.length ∧ t.depth ≤ t.terminal.path.length) →
    (∃ t ∈ ts, key.take t.depth = t.terminal.path.take t.depth) →
    ∃ j, findTerminalFrom key ts i = .ok j
  | [], _, _, h => by obtain ⟨t, ht, _⟩ := h; cases ht
  | t :: rest, i, hd, h => by
    unfold findTerminalFrom
    rw [terminalContains_ok t key (hd t (by simp)).1 (hd t (by simp)).2]
    simp only [Outcome.ok_bind]
    by_cases hc : key.take t.depth = t.terminal.path.take t.depth
    · have : (key.take t.depth == t.terminal.path.take t.depth) = true := by simp [hc]
      simp only [this, if_true]
      exact ⟨i, rfl⟩
    · have : (key.take t.depth == t.terminal.path.take t.depth) = false := beq_false_of_ne hc
      simp only [this, Bool.false_eq_true, if_false]
      apply findTerminalFrom_complete key rest (i + 1) (fun t ht => hd t (List.mem_cons_of_mem _ ht))
      obtain ⟨t', ht', hc'⟩ := h
      rcases List.mem_cons.1 ht' with h1 | h1
      · subst h1; exact absurd hc' hc
      · exact ⟨t', h1, hc'⟩

/-- a key above everything seen so far and covered by some verified terminal passes the order check and
the terminal search -/
theorem step_no_err (c : MCtx H L v T) (A : Nat → List (Key × Option VH)) (done : List (Key × Option VH))
    (st : UState Node VH) (hinv : DInv H L v A done st) (key : Key) (op : Option VH) (hk : key.length = L)
    (hsorted : (done ++ [(key, op)]).Pairwise KeyLt)
    (hscope : ∃ (j : Nat) (t : VPath VH), v.inner[j]? = some t ∧ key.take t.depth = t.terminal.path.take t.depth) :
    ordBad st.lastKey key = false ∧
    ∃ nti, findTerminalFrom key (v.inner.drop (st.lastTi.getD 0)) (st.lastTi.getD 0) = .ok nti := by
  obtain ⟨_, _, hcross⟩ := List.pairwise_append.1 hsorted
  constructor
  · rw [hinv.lastKey]
    by_cases hd : done = []
    · subst hd; rfl
    · rw [List.getLast?_eq_some_getLast hd]
      have := hcross _ (List.getLast_mem hd) (key, op) (by simp)
      simp only [Option.map, ordBad, bitsLe]
      have h2 : bitsLt (done.getLast hd).1 key = true := this
      rw [h2]; rfl
  · apply findTerminalFrom_complete
    · intro t ht
      have htm : t ∈ v.inner := List.mem_of_mem_drop ht
      exact ⟨by rw [hk]; exact c.depthLe t htm, c.depth_le_path t htm⟩
    · obtain ⟨j, t, hj, hcov⟩ := hscope
      refine ⟨t, ?_, hcov⟩
      cases hlt : st.lastTi with
      | none => simp only [Option.getD_none, List.drop_zero]; exact List.mem_of_getElem? hj
      | some ui =>
        have hl := hinv.last
        rw [hlt] at hl
        obtain ⟨_, huilt, hwne, hcovw⟩ := hl
        simp only [Option.getD_some]
        obtain ⟨o, ho⟩ := List.exists_mem_of_ne_nil _ hwne
        have hod : o ∈ done := by rw [← hinv.flat]; exact List.mem_append_right _ ho
        have hlt' : bitsLt o.1 key = true := hcross o hod (key, op) (by simp)
        have hui : v.inner[ui]? = some v.inner[ui] := List.getElem?_eq_getElem huilt
        have hge : ui ≤ j := by
          rcases Nat.lt_or_ge j ui with h | h
          · have := c.cover_order j ui t _ hj hui h key o.1 hcov (hcovw _ hui o ho)
            rw [bl_asymm _ _ hlt'] at this; cases this
          · exact h
        apply List.mem_of_getElem? (i := j - ui)
        rw [List.getElem?_drop]
        have : ui + (j - ui) = j := by omega
        rw [this]; exact hj

theorem updateLoop_ok (c : MCtx H L v T) : ∀ (ops : List (Key × Option VH)) (A : Nat → List (Key × Option VH))
    (done : List (Key × Option VH)) (st : UState Node VH), DInv H L v A done st →
    (∀ o ∈ ops, o.1.length = L) →
    (∀ o ∈ ops, ∃ (j : Nat) (t : VPath VH), v.inner[j]? = some t ∧ o.1.take t.depth = t.terminal.path.take t.depth) →
    (done ++ ops).Pairwise KeyLt →
    ∃ st', updateLoop H L v ops st = .ok st' := by
  intro ops
  induction ops with
  | nil => intro A done st _ _ _ _; exact ⟨st, rfl⟩
  | cons o rest ih =>
    intro A done st hinv hl hsc hsorted
    obtain ⟨k, w⟩ := o
    have hsorted1 : (done ++ [(k, w)]).Pairwise KeyLt := by
      have : done ++ (k, w) :: rest = (done ++ [(k, w)]) ++ rest := by simp
      rw [this] at hsorted
      exact (List.pairwise_append.1 hsorted).1
    obtain ⟨hord, nti, hnti⟩ := step_no_err c A done st hinv k w (hl (k, w) (by simp)) hsorted1 (hsc (k, w) (by simp))
    obtain ⟨_, hok, hex⟩ := updateStep_spec c A done st hinv k w (hl (k, w) (by simp))
    obtain ⟨st1, hst1⟩ := hex hord nti hnti
    obtain ⟨A1, hinv1⟩ := hok st1 hst1
    obtain ⟨st', hst'⟩ := ih A1 (done ++ [(k, w)]) st1 hinv1 (fun o ho => hl o (List.mem_cons_of_mem _ ho))
      (fun o ho => hsc o (List.mem_cons_of_mem _ ho)) (by simpa using hsorted)
    exact ⟨st', by simp only [updateLoop, hst1, Outcome.ok_bind]; exact hst'⟩

/-- **`verify_update` on an accepted multi-proof**: no panic site is reachable, and an `ok` verdict on a
non-empty list of ops is the single-path `verifyUpdate` run on the reconstructed path proofs, terminal
`i` carrying the ops `A i`: the caller's ops, strictly ascending, split by covering terminal. -/
theorem multiVerifyUpdate_spec (c : MCtx H L v T) (ops : List (Key × Option VH))
    (hl : ∀ o ∈ ops, o.1.length = L) :
    (multiVerifyUpdate H L v ops).isPanic = false ∧
    (∀ r, multiVerifyUpdate H L v ops = .ok r → ops ≠ [] →
      ∃ A, SafeA L v A ∧ opsUpTo A v.inner.length = ops ∧ ops.Pairwise KeyLt ∧
        (∀ i t, v.inner[i]? = some t → ∀ o ∈ A i, o.1.take t.depth = t.terminal.path.take t.depth) ∧
        r = verifyUpdate H v.root (T.upds H A [] [] 0)) ∧
    (∀ st, updateLoop H L v ops {} = .ok st → ∃ r, multiVerifyUpdate H L v ops = .ok r) := by
  unfold multiVerifyUpdate
  by_cases hemp : ops.isEmpty = true
  · rw [if_pos hemp]
    refine ⟨rfl, ?_, fun _ _ => ⟨_, rfl⟩⟩
    intro r _ hne
    exact absurd (List.isEmpty_iff.1 hemp) hne
  · rw [if_neg hemp]
    have hinv0 : DInv H L v (fun _ => []) [] ({} : UState Node VH) :=
      ⟨rfl, fun i t _ => safe_nil L t, fun _ _ => rfl, List.Pairwise.nil, (by intro o ho; cases ho), rfl, rfl,
        (by intro i t _ o ho; cases ho), ⟨rfl, rfl⟩⟩
    obtain ⟨hnp, hok⟩ := updateLoop_spec c ops _ [] _ hinv0 hl
    cases hloop : updateLoop H L v ops {} with
    | panic s => rw [hloop] at hnp; cases hnp
    | err e => exact ⟨rfl, fun r h => (by cases h), fun st h => (by cases h)⟩
    | ok st =>
      obtain ⟨A, hinv⟩ := hok st hloop
      simp only [List.nil_append] at hinv
      simp only [Outcome.ok_bind]
      have hne : ops ≠ [] := by intro e; rw [e] at hemp; simp at hemp
      have hl' := hinv.last
      cases hlt : st.lastTi with
      | none => rw [hlt] at hl'; exact absurd hl'.1 hne
      | some ui =>
        rw [hlt] at hl'
        obtain ⟨hnpui, huilt, _, hcovw⟩ := hl'
        have hwsub : st.working.Sublist ops := by
          rw [← hinv.flat]; exact List.sublist_append_right _ _
        have hws : st.working.Pairwise KeyLt := List.Pairwise.sublist hwsub hinv.sorted
        have hwl : ∀ o ∈ st.working, o.1.length = L := fun o ho => hinv.lens o (hwsub.subset ho)
        obtain ⟨hsafe', s1, s2, t, cs2, hs1, ht, hadv, hhct, hreach'⟩ :=
          ingest_branch c A (st.nextPending.getD 0) ui (st.pending, st.cs) st.working hinv.reach hinv.safe
            hinv.tail hnpui huilt hws hwl hcovw
        -- the final ingestion
        have hreachnp : ingestN H L v (fun i => if i = ui then st.working else A i) (st.nextPending.getD 0) 0 MSt.init
            = .ok (st.pending, st.cs) := by
          rw [ingestN_congr H L v _ A _ 0 MSt.init (fun i _ hi => by
            have : i ≠ ui := by omega
            simp [this])]
          exact hinv.reach
        obtain ⟨sf, hsf, hsf'⟩ := reach_extend H L v T c.tree _ hsafe' (st.nextPending.getD 0)
          (v.inner.length - st.nextPending.getD 0) (st.pending, st.cs) hreachnp (by omega)
        have e1 : st.nextPending.getD 0 + (v.inner.length - st.nextPending.getD 0) = v.inner.length := by omega
        rw [e1] at hsf'
        obtain ⟨cs', hall⟩ := ingest_all H L v T c.tree _ hsafe'
        rw [hall] at hsf'
        injection hsf' with hsf'
        simp only [Option.getD_some]
        rw [ingestFinal_eq H L v ui st.working _ _ _ (by omega)]
        have hAeq : (fun i => if i = ui then st.working else []) = fun i => if i = ui then st.working else [] := rfl
        have hcongr : ingestN H L v (fun i => if i = ui then st.working else [])
            (v.inner.length - st.nextPending.getD 0) (st.nextPending.getD 0) (st.pending, st.cs) =
            ingestN H L v (fun i => if i = ui then st.working else A i)
            (v.inner.length - st.nextPending.getD 0) (st.nextPending.getD 0) (st.pending, st.cs) := by
          apply ingestN_congr
          intro i h1 h2
          by_cases hiu : i = ui
          · simp [hiu]
          · simp only [hiu, if_false]; exact (hinv.tail i h1).symm
        rw [hcongr, hsf]
        simp only [Outcome.ok_bind, Outcome.pure_eq]
        refine ⟨rfl, ?_, fun _ _ => ⟨_, rfl⟩⟩
        intro r h _
        injection h with h
        refine ⟨_, hsafe', ?_, hinv.sorted, ?_, ?_⟩
        · -- the ops handed out are the caller's ops
          have h1 : opsUpTo (fun i => if i = ui then st.working else A i) v.inner.length
              = opsUpTo (fun i => if i = ui then st.working else A i) (ui + 1) := by
            apply opsUpTo_empty _ (ui + 1) _ (by omega)
            intro i hi1 hi2
            have : i ≠ ui := by omega
            simp only [this, if_false]
            exact hinv.tail i (by omega)
          rw [h1]
          simp only [opsUpTo, if_true]
          rw [opsUpTo_empty _ (st.nextPending.getD 0) ui hnpui (by
              intro i h1 h2
              have : i ≠ ui := by omega
              simp only [this, if_false]
              exact hinv.tail i h1),
            opsUpTo_congr _ A _ (by
              intro i hi
              have : i ≠ ui := by omega
              simp only [this, if_false]),
            hinv.flat]
        · intro i t' hi o ho
          by_cases hiu : i = ui
          · subst hiu
            simp only [if_true] at ho
            exact hcovw t' hi o ho
          · simp only [hiu, if_false] at ho
            exact hinv.cover i t' hi o ho
        · rw [← h, ← hsf']
          rfl

end Nomt

namespace Nomt
variable {Node VH : Type} [DecidableEq Node] [DecidableEq VH] {H : Hasher Node VH}
  {L : Nat} {v : VerifiedMulti Node VH} {T : PTree Node VH}

/-- strictly ascending ops that are all in scope of the multi-proof get an `ok` verdict -/
theorem multiVerifyUpdate_ok (c : MCtx H L v T) (ops : List (Key × Option VH))
    (hl : ∀ o ∈ ops, o.1.length = L) (hsorted : ops.Pairwise KeyLt)
    (hscope : ∀ o ∈ ops, ∃ (j : Nat) (t : VPath VH), v.inner[j]? = some t ∧ o.1.take t.depth = t.terminal.path.take t.depth) :
    ∃ r, multiVerifyUpdate H L v ops = .ok r := by
  have hinv0 : DInv H L v (fun _ => []) [] ({} : UState Node VH) :=
    ⟨rfl, fun i t _ => safe_nil L t, fun _ _ => rfl, List.Pairwise.nil, (by intro o ho; cases ho), rfl, rfl,
      (by intro i t _ o ho; cases ho), ⟨rfl, rfl⟩⟩
  obtain ⟨st, hst⟩ := updateLoop_ok c ops _ [] _ hinv0 hl hscope (by simpa using hsorted)
  exact (multiVerifyUpdate_spec c ops hl).2.2 st hst

end Nomt
