import NomtModel.Core.MultiDriver
/-!
`multiVerifyUpdate_spec`: on an accepted multi-proof, for ops with `L`-bit keys, `verify_update`
(multi_proof.rs:688) **never reaches a panic site**, and an `ok` verdict is the single-path
`verifyUpdate` on the path proofs reconstructed from the multi-proof, every terminal with the ops it
covers (in the caller's order, which is then strictly ascending).
-/
set_option linter.unusedSectionVars false
namespace Nomt
variable {Node VH : Type} [DecidableEq Node] [DecidableEq VH] (H : Hasher Node VH)

/-- the caller-side facts about an accepted multi-proof: it is a tree, leaf keys are `L`-bit keys and no
verified depth exceeds `L` (terminator positions are at most `L` bits long) -/
structure MCtx (L : Nat) (v : VerifiedMulti Node VH) (T : PTree Node VH) : Prop where
  tree : TreeOf H v T
  leafLen : ∀ vp ∈ v.inner, ∀ k x, vp.terminal = .leaf k x → k.length = L
  depthLe : ∀ vp ∈ v.inner, vp.depth ≤ L

variable {H} {L : Nat} {v : VerifiedMulti Node VH} {T : PTree Node VH}

theorem MCtx.depth_le_path (c : MCtx H L v T) : ∀ vp ∈ v.inner, vp.depth ≤ vp.terminal.path.length := by
  intro vp hvp
  rw [c.tree.inner] at hvp
  obtain ⟨h1, h2, _⟩ := PTree.vpaths_route T [] 0 c.tree.al vp hvp
  have := h1.length_le
  omega

/-- invariant of the `for (i, (key, op))` loop after the ops `done` -/
structure DInv (H : Hasher Node VH) (L : Nat) (v : VerifiedMulti Node VH) (A : Nat → List (Key × Option VH))
    (done : List (Key × Option VH)) (st : UState Node VH) : Prop where
  reach : ingestN H L v A (st.nextPending.getD 0) 0 MSt.init = .ok (st.pending, st.cs)
  safe : SafeA L v A
  tail : ∀ i, st.nextPending.getD 0 ≤ i → A i = []
  sorted : done.Pairwise KeyLt
  lens : ∀ o ∈ done, o.1.length = L
  lastKey : st.lastKey = done.getLast?.map (·.1)
  flat : opsUpTo A (st.nextPending.getD 0) ++ st.working = done
  cover : ∀ i t, v.inner[i]? = some t → ∀ o ∈ A i, o.1.take t.depth = t.terminal.path.take t.depth
  last : match st.lastTi with
    | none => done = [] ∧ st.nextPending = none
    | some ui => st.nextPending.getD 0 ≤ ui ∧ ui < v.inner.length ∧ done ≠ [] ∧
        ∀ t, v.inner[ui]? = some t → ∀ o ∈ st.working, o.1.take t.depth = t.terminal.path.take t.depth

/-- ingesting the pending terminals up to and including the updated one -/
theorem ingest_branch (c : MCtx H L v T) (A : Nat → List (Key × Option VH)) (np ui : Nat) (s0 : MSt Node)
    (W : List (Key × Option VH))
    (hreach : ingestN H L v A np 0 MSt.init = .ok s0) (hsafe : SafeA L v A)
    (htail : ∀ i, np ≤ i → A i = []) (h1 : np ≤ ui) (h2 : ui < v.inner.length)
    (hs : W.Pairwise KeyLt) (hl : ∀ o ∈ W, o.1.length = L)
    (hc : ∀ t, v.inner[ui]? = some t → ∀ o ∈ W, o.1.take t.depth = t.terminal.path.take t.depth) :
    SafeA L v (fun i => if i = ui then W else A i) ∧
    ∃ s1 s2 t cs2, ingestN H L v (fun i => if i = ui then W else A i) (ui - np) np s0 = .ok s1 ∧
      v.inner[ui]? = some t ∧ s1.2.advance v = .ok cs2 ∧
      hashAndCompactTerminal H L s1.1 t v.inner[ui + 1]? cs2 W = .ok s2 ∧
      ingestN H L v (fun i => if i = ui then W else A i) (ui + 1) 0 MSt.init = .ok s2 := by
  have hsafe' : SafeA L v (fun i => if i = ui then W else A i) := by
    intro i t hi
    by_cases hiu : i = ui
    · subst hiu
      simp only [if_true]
      exact safe_of_covered L t W (c.leafLen t (List.mem_of_getElem? hi)) hs hl (hc t hi)
    · simp only [hiu, if_false]
      exact hsafe i t hi
  refine ⟨hsafe', ?_⟩
  have hreach' : ingestN H L v (fun i => if i = ui then W else A i) np 0 MSt.init = .ok s0 := by
    rw [ingestN_congr H L v _ A np 0 MSt.init (fun i _ hi => by
      have : i ≠ ui := by omega
      simp [this])]
    exact hreach
  obtain ⟨s2, hs2, hs2'⟩ := reach_extend H L v T c.tree _ hsafe' np (ui - np + 1) s0 hreach' (by omega)
  have e1 : np + (ui - np + 1) = ui + 1 := by omega
  rw [e1] at hs2'
  obtain ⟨s1, hs1, hone⟩ := ingestN_prefix_ok H L v _ _ _ _ _ _ hs2
  have e2 : np + (ui - np) = ui := by omega
  rw [e2] at hone
  simp only [ingestN, if_true, Outcome.bind_ok_right, ingestOne] at hone
  obtain ⟨cs2, hadv, hone⟩ := Outcome.bind_eq_ok hone
  simp only [hctOne] at hone
  obtain ⟨t, ht, hone⟩ := Outcome.bind_eq_ok hone
  have ht' : v.inner[ui]? = some t := by
    unfold getIdx at ht
    cases hh : v.inner[ui]? with
    | none => rw [hh] at ht; cases ht
    | some a => rw [hh] at ht; injection ht with ht; rw [ht]
  exact ⟨s1, s2, t, cs2, hs1, ht', hadv, hone, hs2'⟩

theorem ingestRange_as (A : Nat → List (Key × Option VH)) (np ui : Nat) (s0 : MSt Node) (W : List (Key × Option VH))
    (htail : ∀ i, np ≤ i → A i = []) (h2 : ui < v.inner.length) (h1 : np ≤ ui) :
    ingestRange H L v (ui - np) np s0 = ingestN H L v (fun i => if i = ui then W else A i) (ui - np) np s0 := by
  rw [ingestRange_eq H L v _ _ _ (by omega)]
  apply ingestN_congr
  intro i hi1 hi2
  have : i ≠ ui := by omega
  simp only [this, if_false]
  exact (htail i hi1).symm

theorem pairwise_snoc_of_last (done : List (Key × Option VH)) (x : Key × Option VH) (hs : done.Pairwise KeyLt)
    (h : ∀ lk, done.getLast?.map (·.1) = some lk → bitsLt lk x.1 = true) : (done ++ [x]).Pairwise KeyLt := by
  rw [List.pairwise_append]
  refine ⟨hs, by simp, ?_⟩
  intro a ha b hb
  simp only [List.mem_singleton] at hb
  subst hb
  have hne : done ≠ [] := by intro e; rw [e] at ha; cases ha
  have hl : done.getLast?.map (·.1) = some (done.getLast hne).1 := by
    rw [List.getLast?_eq_getLast hne]; rfl
  have hlt := h _ hl
  rcases pairwise_getLast done hne hs a ha with h1 | h1
  · rw [h1]; exact hlt
  · exact bl_trans _ _ _ h1 hlt

/-- `key <= last_key` -/
def ordBad (lastKey : Option Key) (key : Key) : Bool :=
  match lastKey with
  | some lk => bitsLe key lk
  | none => false

/-- `last_terminal_index.map_or(true, |x| x == next_terminal_index)` -/
def sameTi (lastTi : Option Nat) (nti : Nat) : Bool :=
  match lastTi with
  | none => true
  | some x => x == nti

/-- the body of a non-final iteration after the order check -/
def stepBody (H : Hasher Node VH) (L : Nat) (v : VerifiedMulti Node VH) (st : UState Node VH) (key : Key)
    (op : Option VH) : Outcome MultiVUErr (UState Node VH) :=
  findTerminalFrom key (v.inner.drop (st.lastTi.getD 0)) (st.lastTi.getD 0) >>= fun nti =>
    if sameTi st.lastTi nti then
      .ok { st with lastKey := some key, lastTi := some nti, working := st.working ++ [(key, op)] }
    else
      ingestRange H L v (st.lastTi.getD 0 - st.nextPending.getD 0) (st.nextPending.getD 0) (st.pending, st.cs)
        >>= fun s1 =>
      getIdx "multi_proof.rs:796 proof.inner[updated_index]" v.inner (st.lastTi.getD 0) >>= fun t =>
      s1.2.advance v >>= fun cs =>
      hashAndCompactTerminal H L s1.1 t v.inner[st.lastTi.getD 0 + 1]? cs st.working >>= fun s2 =>
      .ok { st with lastKey := some key, lastTi := some nti, working := [(key, op)], pending := s2.1,
                    cs := s2.2, nextPending := some (st.lastTi.getD 0 + 1) }

theorem updateStep_eq (st : UState Node VH) (key : Key) (op : Option VH) :
    updateStep H L v st key op =
      if ordBad st.lastKey key then .err .opsOutOfOrder else stepBody H L v st key op := by
  obtain ⟨p, cs, lk, lti, np, w⟩ := st
  cases lk <;> cases lti <;> rfl

/-- one iteration of the `for (i, (key, op))` loop -/
theorem updateStep_spec (c : MCtx H L v T) (A : Nat → List (Key × Option VH)) (done : List (Key × Option VH))
    (st : UState Node VH) (hinv : DInv H L v A done st) (key : Key) (op : Option VH) (hk : key.length = L) :
    (updateStep H L v st key op).isPanic = false ∧
    ∀ st', updateStep H L v st key op = .ok st' → ∃ A', DInv H L v A' (done ++ [(key, op)]) st' := by
  rw [updateStep_eq]
  by_cases hord : ordBad st.lastKey key = true
  · rw [if_pos hord]
    exact ⟨rfl, fun st' h => by cases h⟩
  · rw [if_neg hord]
    unfold stepBody
    have hsorted' : (done ++ [(key, op)]).Pairwise KeyLt := by
      apply pairwise_snoc_of_last done _ hinv.sorted
      intro lk hlk
      rw [← hinv.lastKey] at hlk
      rw [hlk] at hord
      simp only [ordBad] at hord
      exact bl_not_le.1 (by simpa using hord)
    have hlens' : ∀ o ∈ done ++ [(key, op)], o.1.length = L := by
      intro o ho
      rcases List.mem_append.1 ho with h | h
      · exact hinv.lens o h
      · simp only [List.mem_singleton] at h; subst h; exact hk
    have hlast' : some key = (done ++ [(key, op)]).getLast?.map (·.1) := by simp
    have hfnp : (findTerminalFrom key (v.inner.drop (st.lastTi.getD 0)) (st.lastTi.getD 0)).isPanic = false := by
      apply findTerminalFrom_no_panic
      intro t ht
      have htm : t ∈ v.inner := List.mem_of_mem_drop ht
      exact ⟨by rw [hk]; exact c.depthLe t htm, c.depth_le_path t htm⟩
    cases hf : findTerminalFrom key (v.inner.drop (st.lastTi.getD 0)) (st.lastTi.getD 0) with
    | panic s => rw [hf] at hfnp; cases hfnp
    | err e => exact ⟨rfl, fun st' h => by cases h⟩
    | ok nti =>
      obtain ⟨hge, tn, htn, hcont⟩ := findTerminalFrom_ok key _ _ _ hf
      rw [List.getElem?_drop] at htn
      have hntieq : st.lastTi.getD 0 + (nti - st.lastTi.getD 0) = nti := by omega
      rw [hntieq] at htn
      have hntilt : nti < v.inner.length := (List.getElem?_eq_some_iff.1 htn).1
      have hcov := terminalContains_true tn key hcont
      have hcovnew : ∀ t, v.inner[nti]? = some t → ∀ o ∈ [(key, op)], o.1.take t.depth = t.terminal.path.take t.depth := by
        intro t ht o ho
        rw [htn] at ht; injection ht with ht; subst ht
        simp only [List.mem_singleton] at ho; subst ho
        exact hcov
      simp only [Outcome.ok_bind]
      cases hlt : st.lastTi with
      | none =>
        have hl := hinv.last
        rw [hlt] at hl
        obtain ⟨hdone, hnp⟩ := hl
        have hw : st.working = [] := by
          have := hinv.flat
          rw [hdone] at this
          exact (List.append_eq_nil_iff.1 this).2
        simp only [sameTi, if_true]
        refine ⟨rfl, ?_⟩
        intro st' h
        injection h with h
        subst h
        refine ⟨A, ⟨hinv.reach, hinv.safe, hinv.tail, hsorted', hlens', hlast', ?_, hinv.cover, ?_⟩⟩
        · simp only [hw, hdone, hnp, Option.getD_none, opsUpTo, List.nil_append]
        · simp only
          refine ⟨by rw [hnp]; simp, hntilt, by simp, ?_⟩
          rw [hw]; exact hcovnew
      | some ui =>
        have hl := hinv.last
        rw [hlt] at hl hge hf
        simp only [Option.getD_some] at hge
        obtain ⟨hnpui, huilt, hdne, hcovw⟩ := hl
        by_cases hsame : ui = nti
        · subst hsame
          simp only [sameTi, beq_self_eq_true, if_true]
          refine ⟨rfl, ?_⟩
          intro st' h
          injection h with h
          subst h
          refine ⟨A, ⟨hinv.reach, hinv.safe, hinv.tail, hsorted', hlens', hlast', ?_, hinv.cover, ?_⟩⟩
          · simp only [← List.append_assoc, hinv.flat]
          · simp only
            refine ⟨hnpui, huilt, by simp, ?_⟩
            intro t ht o ho
            rcases List.mem_append.1 ho with h | h
            · exact hcovw t ht o h
            · exact hcovnew t ht o h
        · have hne : (ui == nti) = false := beq_false_of_ne hsame
          simp only [sameTi, hne, Bool.false_eq_true, if_false, Option.getD_some]
          -- the working ops are a suffix of `done`
          have hwsub : st.working.Sublist done := by
            rw [← hinv.flat]; exact List.sublist_append_right _ _
          have hws : st.working.Pairwise KeyLt := List.Pairwise.sublist hwsub hinv.sorted
          have hwl : ∀ o ∈ st.working, o.1.length = L := fun o ho => hinv.lens o (hwsub.subset ho)
          obtain ⟨hsafe', s1, s2, t, cs2, hs1, ht, hadv, hhct, hreach'⟩ :=
            ingest_branch c A (st.nextPending.getD 0) ui (st.pending, st.cs) st.working hinv.reach hinv.safe
              hinv.tail hnpui huilt hws hwl hcovw
          rw [ingestRange_as A _ ui _ st.working hinv.tail huilt hnpui, hs1]
          simp only [Outcome.ok_bind, getIdx_some _ _ _ _ ht, hadv, hhct, Outcome.pure_eq]
          refine ⟨rfl, ?_⟩
          intro st' h
          injection h with h
          subst h
          refine ⟨fun i => if i = ui then st.working else A i,
            ⟨by simpa using hreach', hsafe', ?_, hsorted', hlens', hlast', ?_, ?_, ?_⟩⟩
          · intro i hi
            simp only [Option.getD_some] at hi
            have : i ≠ ui := by omega
            simp only [this, if_false]
            exact hinv.tail i (by omega)
          · simp only [Option.getD_some, opsUpTo, if_true]
            rw [opsUpTo_empty _ (st.nextPending.getD 0) ui hnpui (by
                intro i h1 h2
                have : i ≠ ui := by omega
                simp only [this, if_false]
                exact hinv.tail i h1),
              opsUpTo_congr _ A _ (by
                intro i hi
                have : i ≠ ui := by omega
                simp only [this, if_false]),
              hinv.flat]
          · intro i t' hi o ho
            by_cases hiu : i = ui
            · subst hiu
              simp only [if_true] at ho
              exact hcovw t' hi o ho
            · simp only [hiu, if_false] at ho
              exact hinv.cover i t' hi o ho
          · simp only [Option.getD_some]
            exact ⟨by omega, hntilt, by simp, hcovnew⟩

theorem updateLoop_spec (c : MCtx H L v T) : ∀ (ops : List (Key × Option VH)) (A : Nat → List (Key × Option VH))
    (done : List (Key × Option VH)) (st : UState Node VH), DInv H L v A done st →
    (∀ o ∈ ops, o.1.length = L) →
    (updateLoop H L v ops st).isPanic = false ∧
    ∀ st', updateLoop H L v ops st = .ok st' → ∃ A', DInv H L v A' (done ++ ops) st' := by
  intro ops
  induction ops with
  | nil =>
    intro A done st hinv _
    refine ⟨rfl, ?_⟩
    intro st' h
    injection h with h
    subst h
    exact ⟨A, by simpa using hinv⟩
  | cons o rest ih =>
    intro A done st hinv hl
    obtain ⟨k, w⟩ := o
    obtain ⟨hnp, hok⟩ := updateStep_spec c A done st hinv k w (hl (k, w) (by simp))
    simp only [updateLoop]
    cases hstep : updateStep H L v st k w with
    | panic s => rw [hstep] at hnp; cases hnp
    | err e => exact ⟨rfl, fun st' h => by cases h⟩
    | ok st1 =>
      obtain ⟨A1, hinv1⟩ := hok st1 hstep
      obtain ⟨h1, h2⟩ := ih A1 (done ++ [(k, w)]) st1 hinv1 (fun o ho => hl o (List.mem_cons_of_mem _ ho))
      simp only [Outcome.ok_bind]
      refine ⟨h1, ?_⟩
      intro st' h
      obtain ⟨A', hA'⟩ := h2 st' h
      exact ⟨A', by simpa using hA'⟩

/-- **`verify_update` on an accepted multi-proof**: no panic site is reachable, and an `ok` verdict on a
non-empty list of ops is the single-path `verifyUpdate` run on the reconstructed path proofs, terminal
`i` carrying the ops `A i`: the caller's ops, strictly ascending, split by covering terminal. -/
theorem multiVerifyUpdate_spec (c : MCtx H L v T) (ops : List (Key × Option VH))
    (hl : ∀ o ∈ ops, o.1.length = L) :
    (multiVerifyUpdate H L v ops).isPanic = false ∧
    ∀ r, multiVerifyUpdate H L v ops = .ok r → ops ≠ [] →
      ∃ A, SafeA L v A ∧ opsUpTo A v.inner.length = ops ∧ ops.Pairwise KeyLt ∧
        (∀ i t, v.inner[i]? = some t → ∀ o ∈ A i, o.1.take t.depth = t.terminal.path.take t.depth) ∧
        r = verifyUpdate H v.root (T.upds H A [] [] 0) := by
  unfold multiVerifyUpdate
  by_cases hemp : ops.isEmpty = true
  · rw [if_pos hemp]
    refine ⟨rfl, ?_⟩
    intro r _ hne
    exact absurd (List.isEmpty_iff.1 hemp) hne
  · rw [if_neg hemp]
    have hinv0 : DInv H L v (fun _ => []) [] ({} : UState Node VH) :=
      ⟨rfl, fun i t _ => safe_nil L t, fun _ _ => rfl, List.Pairwise.nil, (by intro o ho; cases ho), rfl, rfl,
        (by intro i t _ o ho; cases ho), ⟨rfl, rfl⟩⟩
    obtain ⟨hnp, hok⟩ := updateLoop_spec c ops _ [] _ hinv0 hl
    cases hloop : updateLoop H L v ops {} with
    | panic s => rw [hloop] at hnp; cases hnp
    | err e => exact ⟨rfl, fun r h => by cases h⟩
    | ok st =>
      obtain ⟨A, hinv⟩ := hok st hloop
      simp only [List.nil_append] at hinv
      simp only [Outcome.ok_bind]
      have hne : ops ≠ [] := by intro e; rw [e] at hemp; simp at hemp
      have hl' := hinv.last
      cases hlt : st.lastTi with
      | none => rw [hlt] at hl'; exact absurd hl'.1 hne
      | some ui =>
        rw [hlt] at hl'
        obtain ⟨hnpui, huilt, _, hcovw⟩ := hl'
        have hwsub : st.working.Sublist ops := by
          rw [← hinv.flat]; exact List.sublist_append_right _ _
        have hws : st.working.Pairwise KeyLt := List.Pairwise.sublist hwsub hinv.sorted
        have hwl : ∀ o ∈ st.working, o.1.length = L := fun o ho => hinv.lens o (hwsub.subset ho)
        obtain ⟨hsafe', s1, s2, t, cs2, hs1, ht, hadv, hhct, hreach'⟩ :=
          ingest_branch c A (st.nextPending.getD 0) ui (st.pending, st.cs) st.working hinv.reach hinv.safe
            hinv.tail hnpui huilt hws hwl hcovw
        -- the final ingestion
        have hreachnp : ingestN H L v (fun i => if i = ui then st.working else A i) (st.nextPending.getD 0) 0 MSt.init
            = .ok (st.pending, st.cs) := by
          rw [ingestN_congr H L v _ A _ 0 MSt.init (fun i _ hi => by
            have : i ≠ ui := by omega
            simp [this])]
          exact hinv.reach
        obtain ⟨sf, hsf, hsf'⟩ := reach_extend H L v T c.tree _ hsafe' (st.nextPending.getD 0)
          (v.inner.length - st.nextPending.getD 0) (st.pending, st.cs) hreachnp (by omega)
        have e1 : st.nextPending.getD 0 + (v.inner.length - st.nextPending.getD 0) = v.inner.length := by omega
        rw [e1] at hsf'
        obtain ⟨cs', hall⟩ := ingest_all H L v T c.tree _ hsafe'
        rw [hall] at hsf'
        injection hsf' with hsf'
        simp only [Option.getD_some]
        rw [ingestFinal_eq H L v ui st.working _ _ _ (by omega)]
        have hAeq : (fun i => if i = ui then st.working else []) = fun i => if i = ui then st.working else [] := rfl
        have hcongr : ingestN H L v (fun i => if i = ui then st.working else [])
            (v.inner.length - st.nextPending.getD 0) (st.nextPending.getD 0) (st.pending, st.cs) =
            ingestN H L v (fun i => if i = ui then st.working else A i)
            (v.inner.length - st.nextPending.getD 0) (st.nextPending.getD 0) (st.pending, st.cs) := by
          apply ingestN_congr
          intro i h1 h2
          by_cases hiu : i = ui
          · simp [hiu]
          · simp only [hiu, if_false]; exact (hinv.tail i h1).symm
        rw [hcongr, hsf]
        simp only [Outcome.ok_bind, Outcome.pure_eq]
        refine ⟨rfl, ?_⟩
        intro r h _
        injection h with h
        refine ⟨_, hsafe', ?_, hinv.sorted, ?_, ?_⟩
        · -- the ops handed out are the caller's ops
          have h1 : opsUpTo (fun i => if i = ui then st.working else A i) v.inner.length
              = opsUpTo (fun i => if i = ui then st.working else A i) (ui + 1) := by
            apply opsUpTo_empty _ (ui + 1) _ (by omega)
            intro i hi1 hi2
            have : i ≠ ui := by omega
            simp only [this, if_false]
            exact hinv.tail i (by omega)
          rw [h1]
          simp only [opsUpTo, if_true]
          rw [opsUpTo_empty _ (st.nextPending.getD 0) ui hnpui (by
              intro i h1 h2
              have : i ≠ ui := by omega
              simp only [this, if_false]
              exact hinv.tail i h1),
            opsUpTo_congr _ A _ (by
              intro i hi
              have : i ≠ ui := by omega
              simp only [this, if_false]),
            hinv.flat]
        · intro i t' hi o ho
          by_cases hiu : i = ui
          · subst hiu
            simp only [if_true] at ho
            exact hcovw t' hi o ho
          · simp only [hiu, if_false] at ho
            exact hinv.cover i t' hi o ho
        · rw [← h, ← hsf']
          rfl

end Nomt
