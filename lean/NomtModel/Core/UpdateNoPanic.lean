import NomtModel.Core.PathUpdateExec
import NomtModel.Core.PathSound
import NomtModel.Core.BitsLemmas
/-!
C18 / T18.2: the two panic sites of `verify_update` (`skip - (n + 1)` underflow and the out-of-range
slice in `build_trie`) are unreachable when every path was verified against the root of one canonical
set and the argument checks passed.
-/
set_option linter.unusedSectionVars false
namespace Nomt
variable {Node VH : Type} [DecidableEq Node] [DecidableEq VH] (H : Hasher Node VH)

/-! ### what `verify` returns, at the level of hashes -/

/-- the node a verified terminal stands for -/
def termNode : Option (Key × VH) → Node
  | some (k, v) => H.leaf k v
  | none => H.term

theorem verify_ok_hash (L : Nat) (P : PathProof Node VH) (kp : List Bool) (root : Node)
    (v : Verified Node VH) (hv : verify H L P kp root = .ok v) :
    v.siblings.length = v.path.length ∧ v.path.length ≤ L ∧ v.root = root ∧
    hashPath H (termNode H v.terminal) v.path v.siblings = root := by
  unfold verify at hv
  split at hv
  · cases hv
  · rename_i hg
    simp only at hv
    split at hv
    · rename_i hroot
      injection hv with hv
      subst hv
      have hlen : (kp.take P.siblings.length).length = P.siblings.length := by simp; omega
      refine ⟨hlen.symm, by rw [hlen]; omega, rfl, ?_⟩
      simp only
      rw [← hroot]
      cases P.terminal <;> rfl
    · cases hv

/-! ### decomposition of a hash chain -/

theorem hashPath_append (n : Node) : ∀ (a b : List Bool) (sa sb : List Node), sa.length = a.length →
    hashPath H n (a ++ b) (sa ++ sb) = hashPath H (hashPath H n b sb) a sa := by
  intro a
  induction a with
  | nil =>
    intro b sa sb hl
    cases sa with
    | nil => cases b <;> simp [hashPath]
    | cons _ _ => simp at hl
  | cons x xs ih =>
    intro b sa sb hl
    cases sa with
    | nil => simp at hl
    | cons s ss =>
      simp only [List.length_cons, Nat.add_right_cancel_iff] at hl
      simp only [List.cons_append, hashPath, ih b ss sb hl]

theorem hashPath_cons_kind (hs : H.Sound) (n : Node) (b : Bool) (ps : List Bool) (s : Node) (ss : List Node) :
    H.kind (hashPath H n (b :: ps) (s :: ss)) = .internal := by
  simp only [hashPath]
  split <;> exact hs.kind_internal _ _

theorem termNode_kind (hs : H.Sound) (t : Option (Key × VH)) : H.kind (termNode H t) ≠ .internal := by
  match t with
  | some (k, v) => simp [termNode, hs.kind_leaf]
  | none => simp [termNode, hs.kind_term]

/-- two hash chains ending in terminals and reaching the same specified root: if the position of one is a
prefix of the position of the other they are the same position (the longer chain has an internal node
where the shorter one has a leaf or terminator). -/
theorem hashPath_prefix_eq (hs : H.Sound) (L : Nat) (S : List (Key × VH))
    (t1 t2 : Option (Key × VH)) (p1 p2 : List Bool) (s1 s2 : List Node)
    (hl1 : s1.length = p1.length) (hl2 : s2.length = p2.length)
    (h1 : hashPath H (termNode H t1) p1 s1 = nodeAt H L 0 S)
    (h2 : hashPath H (termNode H t2) p2 s2 = nodeAt H L 0 S)
    (hpre : p1 <+: p2) : p1 = p2 := by
  obtain ⟨t, rfl⟩ := hpre
  cases t with
  | nil => simp
  | cons x xs =>
    exfalso
    have e2 : s2 = s2.take p1.length ++ s2.drop p1.length := (List.take_append_drop _ _).symm
    have hlt : (s2.take p1.length).length = p1.length := by
      simp only [List.length_take, List.length_append, List.length_cons] at hl2 ⊢; omega
    have hld : (s2.drop p1.length).length = xs.length + 1 := by
      simp only [List.length_drop, List.length_append, List.length_cons] at hl2 ⊢; omega
    rw [e2, hashPath_append H _ p1 (x :: xs) _ _ hlt] at h2
    have a1 := (hashPath_sound H hs _ p1 s1 L 0 S hl1 h1).2
    have a2 := (hashPath_sound H hs _ p1 _ L 0 S hlt h2).2
    rw [a1] at a2
    cases hd : s2.drop p1.length with
    | nil => rw [hd] at hld; simp at hld
    | cons y ys =>
      rw [hd] at a2
      have := congrArg H.kind a2
      rw [hashPath_cons_kind H hs] at this
      exact termNode_kind H hs t1 this

/-- `Verified` objects produced by `verify` against the root of `S` -/
def VerifiedFor (L : Nat) (S : List (Key × VH)) (v : Verified Node VH) : Prop :=
  ∃ P kp, verify H L P kp (nodeAt H L 0 S) = .ok v

theorem VerifiedFor.prefix_eq (hs : H.Sound) (L : Nat) (S : List (Key × VH)) (v w : Verified Node VH)
    (hv : VerifiedFor H L S v) (hw : VerifiedFor H L S w) (hpre : v.path <+: w.path) : v.path = w.path := by
  obtain ⟨P, kp, hv⟩ := hv
  obtain ⟨Q, kq, hw⟩ := hw
  obtain ⟨l1, _, _, h1⟩ := verify_ok_hash H L P kp _ v hv
  obtain ⟨l2, _, _, h2⟩ := verify_ok_hash H L Q kq _ w hw
  exact hashPath_prefix_eq H hs L S _ _ _ _ _ _ l1 l2 h1 h2 hpre

/-- the terminal leaf of a verified path lies under the path and has full length -/
theorem VerifiedFor.leaf_spec (hs : H.Sound) (L : Nat) (S : List (Key × VH)) (hc : Canon L 0 S)
    (hlen : ∀ kv ∈ S, kv.1.length = L) (v : Verified Node VH) (hv : VerifiedFor H L S v) :
    v.path.length ≤ L ∧
    ((∃ k0 v0, v.terminal = some (k0, v0) ∧ restrict 0 v.path S = [(k0, v0)] ∧ k0.length = L ∧ v.path <+: k0) ∨
     (v.terminal = none ∧ restrict 0 v.path S = [])) := by
  obtain ⟨P, kp, hv⟩ := hv
  obtain ⟨hle, hmem, hterm⟩ := verify_ok_spec H hs L S hc P kp v hv
  refine ⟨hle, ?_⟩
  rcases hterm with ⟨k0, v0, ht, hr⟩ | h
  · left
    have hm : (k0, v0) ∈ restrict 0 v.path S := by rw [hr]; simp
    obtain ⟨hS, hbits⟩ := (hmem _).mp hm
    have hk0 : k0.length = L := hlen _ hS
    exact ⟨k0, v0, ht, hr, hk0, bl_prefix_of_getD _ _ (by omega) hbits⟩
  · right; exact h

/-! ### the argument checks, as facts -/

abbrev KeyLt {α : Type} (a b : Key × α) : Prop := bitsLt a.1 b.1 = true

theorem checkOps_none (path : List Bool) : ∀ (ops : List (Key × Option VH)) (prev : Option Key),
    checkOps path prev ops = none →
    (∀ o ∈ ops, path <+: o.1) ∧ ops.Pairwise KeyLt ∧ (∀ p, prev = some p → ∀ o ∈ ops, bitsLt p o.1 = true) := by
  intro ops
  induction ops with
  | nil => intro prev _; simp
  | cons o rest ih =>
    intro prev h
    obtain ⟨k, w⟩ := o
    have hsplit : (∀ p, prev = some p → bitsLt p k = true) ∧
        (if (!startsWith k path) = true then some VUErr.opOutOfScope else checkOps path (some k) rest) = none := by
      cases prev with
      | none =>
        refine ⟨(by intro p hp; cases hp), ?_⟩
        simpa only [checkOps, Bool.false_eq_true, if_false] using h
      | some p =>
        simp only [checkOps] at h
        by_cases hb : bitsLe k p = true
        · rw [if_pos hb] at h; cases h
        · rw [if_neg hb] at h
          refine ⟨?_, h⟩
          intro p' hp'; cases hp'; simpa [bitsLe] using hb
    obtain ⟨hord, h⟩ := hsplit
    by_cases hsw : (!startsWith k path) = true
    · rw [if_pos hsw] at h; cases h
    · rw [if_neg hsw] at h
      obtain ⟨ihs, ihp, ihprev⟩ := ih (some k) h
      have hk : path <+: k := by
        rw [bl_prefix_iff_take]
        simpa [startsWith] using hsw
      refine ⟨?_, ?_, ?_⟩
      · intro o ho
        rcases List.mem_cons.mp ho with rfl | ho
        · exact hk
        · exact ihs o ho
      · rw [List.pairwise_cons]
        exact ⟨fun o ho => ihprev k rfl o ho, ihp⟩
      · intro p hp o ho
        have hpk : bitsLt p k = true := hord p hp
        rcases List.mem_cons.mp ho with rfl | ho
        · exact hpk
        · exact bl_trans _ _ _ hpk (ihprev k rfl o ho)

theorem checkPaths_none (root : Node) : ∀ (paths : List (PathUpdateIn Node VH)) (prev : Option (List Bool)),
    checkPaths root prev paths = none →
    (∀ p ∈ paths, p.inner.root = root ∧ p.ops ≠ [] ∧ checkOps p.inner.path none p.ops = none) ∧
    paths.Pairwise (fun a b => bitsLt a.inner.path b.inner.path = true) ∧
    (∀ q, prev = some q → ∀ p ∈ paths, bitsLt q p.inner.path = true) := by
  intro paths
  induction paths with
  | nil => intro prev _; simp
  | cons p rest ih =>
    intro prev h
    simp only [checkPaths] at h
    by_cases hroot : p.inner.root ≠ root
    · rw [if_pos hroot] at h; cases h
    · rw [if_neg hroot] at h
      have hsplit : (∀ q, prev = some q → bitsLt q p.inner.path = true) ∧
          ¬ p.ops.isEmpty = true ∧ checkOps p.inner.path none p.ops = none ∧
          checkPaths root (some p.inner.path) rest = none := by
        cases prev with
        | none =>
          refine ⟨(by intro p hp; cases hp), ?_⟩
          simp only [Bool.false_eq_true, if_false] at h
          by_cases hemp : p.ops.isEmpty = true
          · rw [if_pos hemp] at h; cases h
          · rw [if_neg hemp] at h
            cases hops : checkOps p.inner.path none p.ops with
            | some e => rw [hops] at h; cases h
            | none => rw [hops] at h; exact ⟨hemp, rfl, h⟩
        | some q =>
          simp only at h
          by_cases hb : bitsLe p.inner.path q = true
          · rw [if_pos hb] at h; cases h
          · rw [if_neg hb] at h
            refine ⟨(by intro p' hp'; cases hp'; simpa [bitsLe] using hb), ?_⟩
            by_cases hemp : p.ops.isEmpty = true
            · rw [if_pos hemp] at h; cases h
            · rw [if_neg hemp] at h
              cases hops : checkOps p.inner.path none p.ops with
              | some e => rw [hops] at h; cases h
              | none => rw [hops] at h; exact ⟨hemp, rfl, h⟩
      obtain ⟨hord, hemp, hops, h⟩ := hsplit
      obtain ⟨ih1, ih2, ih3⟩ := ih (some p.inner.path) h
      refine ⟨?_, ?_, ?_⟩
      · intro x hx
        rcases List.mem_cons.mp hx with rfl | hx
        · refine ⟨by simpa using hroot, ?_, hops⟩
          intro e; rw [e] at hemp; simp at hemp
        · exact ih1 x hx
      · rw [List.pairwise_cons]
        exact ⟨fun x hx => ih3 _ rfl x hx, ih2⟩
      · intro q hq x hx
        have hqp : bitsLt q p.inner.path = true := hord q hq
        rcases List.mem_cons.mp hx with rfl | hx
        · exact hqp
        · exact bl_trans _ _ _ hqp (ih3 _ rfl x hx)

/-! ### `leaf_ops_spliced` keeps the ops strictly ascending -/

theorem mem_spliceAux (lk : Key) (lv : VH) : ∀ (ops : List (Key × Option VH)), ops.Pairwise KeyLt →
    ∀ x, x ∈ spliceAux lk lv ops ↔ (x ∈ ops ∨ (x = (lk, some lv) ∧ ∀ o ∈ ops, o.1 ≠ lk)) := by
  intro ops
  induction ops with
  | nil => intro _ x; simp [spliceAux]
  | cons o rest ih =>
    intro hp x
    obtain ⟨k, w⟩ := o
    rw [List.pairwise_cons] at hp
    obtain ⟨hk, hrest⟩ := hp
    simp only [spliceAux]
    by_cases h1 : k = lk
    · subst h1
      simp
    · have h1' : (k == lk) = false := by simpa using h1
      simp only [h1', Bool.false_eq_true, if_false]
      by_cases h2 : bitsLt lk k = true
      · simp only [h2, if_true]
        have : ∀ o ∈ (k, w) :: rest, o.1 ≠ lk := by
          intro o ho
          rcases List.mem_cons.mp ho with rfl | ho
          · exact h1
          · exact (bl_ne (bl_trans _ _ _ h2 (hk o ho))).symm
        constructor
        · intro hx
          rcases List.mem_cons.mp hx with rfl | hx
          · exact Or.inr ⟨rfl, this⟩
          · exact Or.inl hx
        · rintro (hx | ⟨rfl, _⟩)
          · exact List.mem_cons_of_mem _ hx
          · simp
      · simp only [h2, Bool.false_eq_true, if_false, List.mem_cons, ih hrest x]
        constructor
        · rintro (rfl | hx | ⟨rfl, hne⟩)
          · exact Or.inl (Or.inl rfl)
          · exact Or.inl (Or.inr hx)
          · refine Or.inr ⟨rfl, ?_⟩
            intro o ho
            rcases ho with rfl | ho
            · exact h1
            · exact hne o ho
        · rintro ((rfl | hx) | ⟨rfl, hne⟩)
          · exact Or.inl rfl
          · exact Or.inr (Or.inl hx)
          · exact Or.inr (Or.inr ⟨rfl, fun o ho => hne o (Or.inr ho)⟩)

theorem spliceAux_sorted (lk : Key) (lv : VH) : ∀ (ops : List (Key × Option VH)), ops.Pairwise KeyLt →
    (spliceAux lk lv ops).Pairwise KeyLt := by
  intro ops
  induction ops with
  | nil => intro _; simp [spliceAux]
  | cons o rest ih =>
    intro hp
    obtain ⟨k, w⟩ := o
    have hp' := hp
    rw [List.pairwise_cons] at hp'
    obtain ⟨hk, hrest⟩ := hp'
    simp only [spliceAux]
    by_cases h1 : k = lk
    · simp [h1] at hp ⊢; exact hp
    · have h1' : (k == lk) = false := by simpa using h1
      simp only [h1', Bool.false_eq_true, if_false]
      by_cases h2 : bitsLt lk k = true
      · simp only [h2, if_true]
        rw [List.pairwise_cons]
        refine ⟨?_, hp⟩
        intro o ho
        rcases List.mem_cons.mp ho with rfl | ho
        · exact h2
        · exact bl_trans _ _ _ h2 (hk o ho)
      · simp only [h2, Bool.false_eq_true, if_false]
        rw [List.pairwise_cons]
        refine ⟨?_, ih hrest⟩
        intro o ho
        rcases (mem_spliceAux lk lv rest hrest o).mp ho with ho | ⟨rfl, _⟩
        · exact hk o ho
        · exact bl_total _ _ (by simpa using h2) (fun e => h1 e.symm)

/-- the `(k, o) ↦ o.map (k, ·)` of `leaf_ops_spliced` -/
def keepSome (x : Key × Option VH) : Option (Key × VH) := x.2.map (fun v => (x.1, v))

theorem leafOpsSpliced_eq (leaf : Option (Key × VH)) (ops : List (Key × Option VH)) :
    leafOpsSpliced leaf ops =
      (match leaf with | some (lk, lv) => spliceAux lk lv ops | none => ops).filterMap keepSome := rfl

theorem keepSome_eq_some (x : Key × Option VH) (y : Key × VH) :
    keepSome x = some y ↔ x = (y.1, some y.2) := by
  obtain ⟨k, o⟩ := x
  obtain ⟨k', v⟩ := y
  cases o <;> simp [keepSome]

theorem filterMap_keepSome_sorted (l : List (Key × Option VH)) (h : l.Pairwise KeyLt) :
    (l.filterMap keepSome).Pairwise KeyLt := by
  apply List.Pairwise.filterMap keepSome _ h
  intro a a' haa b hb b' hb'
  rw [keepSome_eq_some] at hb hb'
  subst hb hb'
  exact haa

theorem mem_filterMap_keepSome (l : List (Key × Option VH)) (y : Key × VH) :
    y ∈ l.filterMap keepSome ↔ (y.1, some y.2) ∈ l := by
  simp only [List.mem_filterMap, keepSome_eq_some]
  constructor
  · rintro ⟨x, hx, rfl⟩; exact hx
  · intro h; exact ⟨_, h, rfl⟩

theorem leafOpsSpliced_sorted (leaf : Option (Key × VH)) (ops : List (Key × Option VH))
    (h : ops.Pairwise KeyLt) : (leafOpsSpliced leaf ops).Pairwise KeyLt := by
  rw [leafOpsSpliced_eq]
  apply filterMap_keepSome_sorted
  match leaf with
  | some (lk, lv) => exact spliceAux_sorted lk lv ops h
  | none => exact h

/-- membership in `leaf_ops_spliced` for ascending ops -/
theorem mem_leafOpsSpliced (leaf : Option (Key × VH)) (ops : List (Key × Option VH))
    (h : ops.Pairwise KeyLt) (y : Key × VH) :
    y ∈ leafOpsSpliced leaf ops ↔
      ((y.1, some y.2) ∈ ops ∨ (leaf = some y ∧ ∀ o ∈ ops, o.1 ≠ y.1)) := by
  rw [leafOpsSpliced_eq, mem_filterMap_keepSome]
  match leaf with
  | some (lk, lv) =>
    simp only [mem_spliceAux lk lv ops h]
    obtain ⟨k, v⟩ := y
    constructor
    · rintro (h | ⟨he, hne⟩)
      · exact Or.inl h
      · simp only [Prod.mk.injEq, Option.some.injEq] at he
        obtain ⟨rfl, rfl⟩ := he
        exact Or.inr ⟨rfl, hne⟩
    · rintro (h | ⟨he, hne⟩)
      · exact Or.inl h
      · simp only [Option.some.injEq, Prod.mk.injEq] at he
        obtain ⟨rfl, rfl⟩ := he
        exact Or.inr ⟨rfl, hne⟩
  | none => simp

/-! ### panic site (b): the slice in `build_trie` -/

theorem buildTrieSlicePanics_false (L skip : Nat) (path : List Bool) : ∀ (ops : List (Key × VH)),
    ops.Pairwise KeyLt → (∀ o ∈ ops, o.1.length = L) → (∀ o ∈ ops, o.1.take skip = path) →
    buildTrieSlicePanics L skip ops = false := by
  intro ops
  induction ops with
  | nil => intro _ _ _; rfl
  | cons a rest ih =>
    intro hp hl ht
    cases rest with
    | nil => obtain ⟨k, v⟩ := a; rfl
    | cons b rest =>
      obtain ⟨k, v⟩ := a
      obtain ⟨k', v'⟩ := b
      rw [List.pairwise_cons] at hp
      have hkk : bitsLt k k' = true := hp.1 (k', v') (by simp)
      have h1 := bl_sharedRel_lt skip k k'
        (by rw [hl (k, v) (by simp), hl (k', v') (by simp)]) (bl_ne hkk)
        (by rw [ht (k, v) (by simp), ht (k', v') (by simp)])
      have hkl : k.length = L := hl (k, v) (by simp)
      have ih' := ih hp.2 (fun o ho => hl o (List.mem_cons_of_mem _ ho))
        (fun o ho => ht o (List.mem_cons_of_mem _ ho))
      simp only [buildTrieSlicePanics, ih', Bool.or_false, decide_eq_false_iff_not]
      omega

/-- the spliced ops of a checked path under a verified terminal: ascending, full-length, under the path -/
theorem spliced_props (hs : H.Sound) (L : Nat) (S : List (Key × VH)) (hc : Canon L 0 S)
    (hlen : ∀ kv ∈ S, kv.1.length = L) (p : PathUpdateIn Node VH) (hv : VerifiedFor H L S p.inner)
    (hops : checkOps p.inner.path none p.ops = none) (hol : ∀ o ∈ p.ops, o.1.length = L) :
    (leafOpsSpliced p.inner.terminal p.ops).Pairwise KeyLt ∧
    (∀ o ∈ leafOpsSpliced p.inner.terminal p.ops, o.1.length = L) ∧
    (∀ o ∈ leafOpsSpliced p.inner.terminal p.ops, p.inner.path <+: o.1) := by
  obtain ⟨hpre, hsorted, _⟩ := checkOps_none p.inner.path p.ops none hops
  obtain ⟨_, hleaf⟩ := VerifiedFor.leaf_spec H hs L S hc hlen p.inner hv
  refine ⟨leafOpsSpliced_sorted _ _ hsorted, ?_, ?_⟩
  · intro o ho
    rcases (mem_leafOpsSpliced _ _ hsorted o).mp ho with ho | ⟨he, _⟩
    · exact hol _ ho
    · rcases hleaf with ⟨k0, v0, ht, _, hk0, _⟩ | ⟨ht, _⟩
      · rw [ht] at he; cases he; exact hk0
      · rw [ht] at he; cases he
  · intro o ho
    rcases (mem_leafOpsSpliced _ _ hsorted o).mp ho with ho | ⟨he, _⟩
    · exact hpre _ ho
    · rcases hleaf with ⟨k0, v0, ht, _, _, hk0⟩ | ⟨ht, _⟩
      · rw [ht] at he; cases he; exact hk0
      · rw [ht] at he; cases he

/-! ### `prepPaths` -/

/-- the prepared form of one input path -/
def toUpd (p : PathUpdateIn Node VH) : PathUpd Node :=
  { path := p.inner.path, siblings := p.inner.siblings,
    subRoot := buildTrie H p.inner.path.length (leafOpsSpliced p.inner.terminal p.ops) }

theorem prepPaths_ok (L : Nat) : ∀ (paths : List (PathUpdateIn Node VH)),
    paths.Pairwise (fun a b => ¬ a.inner.path <+: b.inner.path) →
    (∀ p ∈ paths, buildTrieSlicePanics L p.inner.path.length (leafOpsSpliced p.inner.terminal p.ops) = false) →
    prepPaths H L paths = .ok (paths.map (toUpd H)) := by
  intro paths
  induction paths with
  | nil => intro _ _; rfl
  | cons p rest ih =>
    intro hp hb
    rw [List.pairwise_cons] at hp
    have ih' := ih hp.2 (fun x hx => hb x (List.mem_cons_of_mem _ hx))
    cases rest with
    | nil =>
      simp only [prepPaths, Bool.false_eq_true, if_false, buildTrieO, hb p (by simp), List.map_cons,
        List.map_nil, toUpd]
    | cons q rest' =>
      have hnp := hp.1 q (by simp)
      have h1 := bl_shared_le_left p.inner.path q.inner.path
      have h2 : shared p.inner.path q.inner.path ≠ p.inner.path.length :=
        fun e => hnp ((bl_shared_eq_length _ _).mp e)
      rw [shared_comm] at h1 h2
      have hunder : decide (shared q.inner.path p.inner.path + 1 > p.inner.path.length) = false := by
        simp only [decide_eq_false_iff_not]; omega
      rw [prepPaths]
      simp only [hunder, Bool.false_eq_true, if_false, buildTrieO, hb p (by simp), ih',
        List.map_cons, toUpd]

/-! ### T18.2 -/

/-- under the verifier's trust assumption, once the argument checks pass the preparation succeeds -/
theorem prepPaths_of_checks (hs : H.Sound) (L : Nat) (S : List (Key × VH)) (hc : Canon L 0 S)
    (hlen : ∀ kv ∈ S, kv.1.length = L) (paths : List (PathUpdateIn Node VH))
    (hv : ∀ p ∈ paths, VerifiedFor H L S p.inner)
    (hol : ∀ p ∈ paths, ∀ o ∈ p.ops, o.1.length = L)
    (hchk : checkPaths (nodeAt H L 0 S) none paths = none) :
    prepPaths H L paths = .ok (paths.map (toUpd H)) := by
  obtain ⟨hper, hsorted, _⟩ := checkPaths_none _ paths none hchk
  apply prepPaths_ok
  · apply List.Pairwise.imp_of_mem _ hsorted
    intro a b ha hb hab hpre
    exact bl_ne hab (VerifiedFor.prefix_eq H hs L S _ _ (hv a ha) (hv b hb) hpre)
  · intro p hp
    obtain ⟨h1, h2, h3⟩ := spliced_props H hs L S hc hlen p (hv p hp) (hper p hp).2.2 (hol p hp)
    apply buildTrieSlicePanics_false L _ p.inner.path _ h1 h2
    intro o ho
    exact (bl_prefix_iff_take _ _).mp (h3 o ho)

theorem pathVerifyUpdate_of_checks (hs : H.Sound) (L : Nat) (S : List (Key × VH)) (hc : Canon L 0 S)
    (hlen : ∀ kv ∈ S, kv.1.length = L) (paths : List (PathUpdateIn Node VH)) (hne : paths ≠ [])
    (hv : ∀ p ∈ paths, VerifiedFor H L S p.inner)
    (hol : ∀ p ∈ paths, ∀ o ∈ p.ops, o.1.length = L)
    (hchk : checkPaths (nodeAt H L 0 S) none paths = none) :
    pathVerifyUpdate H L (nodeAt H L 0 S) paths
      = .ok (verifyUpdate H (nodeAt H L 0 S) (paths.map (toUpd H))) := by
  have hemp : paths.isEmpty = false := by cases paths <;> simp_all
  simp only [pathVerifyUpdate, hemp, Bool.false_eq_true, if_false, hchk,
    prepPaths_of_checks H hs L S hc hlen paths hv hol hchk]

/-- **T18.2**: `verify_update` never panics on paths verified against a trusted root -/
theorem pathVerifyUpdate_no_panic (hs : H.Sound) (L : Nat) (S : List (Key × VH)) (hc : Canon L 0 S)
    (hlen : ∀ kv ∈ S, kv.1.length = L) (paths : List (PathUpdateIn Node VH))
    (hv : ∀ p ∈ paths, VerifiedFor H L S p.inner)
    (hol : ∀ p ∈ paths, ∀ o ∈ p.ops, o.1.length = L) :
    (pathVerifyUpdate H L (nodeAt H L 0 S) paths).isPanic = false := by
  by_cases hne : paths = []
  · subst hne; rfl
  · cases hchk : checkPaths (nodeAt H L 0 S) none paths with
    | some e =>
      have hemp : paths.isEmpty = false := by cases paths <;> simp_all
      simp [pathVerifyUpdate, hemp, hchk, Outcome.isPanic]
    | none =>
      rw [pathVerifyUpdate_of_checks H hs L S hc hlen paths hne hv hol hchk]; rfl

end Nomt
