import NomtModel.Core.Block
namespace Nomt
variable {Node VH : Type} (H : Hasher Node VH)

theorem getD_eq_of_take : ∀ (n i : Nat) (k k' : Key), k.take n = k'.take n → i < n →
    k.getD i false = k'.getD i false := by
  intro n
  induction n with
  | zero => intro i k k' _ hi; omega
  | succ n ih =>
    intro i k k' h hi
    match k, k' with
    | [], [] => rfl
    | [], y :: ys => simp at h
    | x :: xs, [] => simp at h
    | x :: xs, y :: ys =>
      simp only [List.take_succ_cons, List.cons.injEq] at h
      cases i with
      | zero => simp [List.getD, h.1]
      | succ i => simpa [List.getD] using ih i xs ys h.2 (by omega)

theorem drop_take_eq : ∀ (skip e : Nat) (k k' : Key), k.take (skip + e) = k'.take (skip + e) →
    (k.drop skip).take e = (k'.drop skip).take e := by
  intro skip
  induction skip with
  | zero => intro e k k' h; simpa using h
  | succ s ih =>
    intro e k k' h
    match k, k' with
    | [], [] => rfl
    | [], y :: ys => simp [Nat.succ_add] at h
    | x :: xs, [] => simp [Nat.succ_add] at h
    | x :: xs, y :: ys =>
      have : s + 1 + e = (s + e) + 1 := by omega
      rw [this] at h
      simp only [List.take_succ_cons, List.cons.injEq] at h
      simpa using ih e xs ys h.2

theorem getD_drop : ∀ (skip i : Nat) (k : Key), (k.drop skip).getD i false = k.getD (skip + i) false := by
  intro skip
  induction skip with
  | zero => intro i k; simp
  | succ s ih =>
    intro i k
    match k with
    | [] => simp
    | x :: xs =>
      have : s + 1 + i = (s + i) + 1 := by omega
      simp only [List.drop_succ_cons, this, List.getD_cons_succ]
      exact ih i xs

/-- two keys with a common `(skip+e)`-bit prefix that differ at bit `skip+e` share exactly `e` bits after `skip` -/
theorem sharedRel_split (skip e : Nat) (k0 k1 : Key)
    (hp : k0.take (skip + e) = k1.take (skip + e))
    (h0 : skip + e < k0.length) (h1 : skip + e < k1.length)
    (hb : k0.getD (skip + e) false ≠ k1.getD (skip + e) false) :
    sharedRel skip k0 k1 = e := by
  unfold sharedRel
  apply shared_eq_of_take
  · exact drop_take_eq skip e k0 k1 hp
  · simp; omega
  · simp; omega
  · simpa [getD_drop] using hb

/-- a neighbour sharing fewer than `e` bits shares the same number with every key of the block -/
theorem sharedRel_block (skip e : Nat) (c k k' : Key)
    (hp : k.take (skip + e) = k'.take (skip + e)) (h : sharedRel skip c k < e) :
    sharedRel skip c k' = sharedRel skip c k := by
  unfold sharedRel at *
  exact shared_congr e _ _ _ h (drop_take_eq skip e k k' hp)

theorem nodeAt_two (fuel d : Nat) (a b : Key × VH) (rest : List (Key × VH)) :
    nodeAt H (fuel+1) d (a :: b :: rest) =
      H.internal (nodeAt H fuel (d+1) (side d false (a :: b :: rest)))
                 (nodeAt H fuel (d+1) (side d true (a :: b :: rest))) := by
  simp [nodeAt]

theorem nodeAt_single (fuel d : Nat) (kv : Key × VH) : nodeAt H fuel d [kv] = H.leaf kv.1 kv.2 := by
  cases fuel <;> simp [nodeAt]

theorem nodeAt_nil (fuel d : Nat) : nodeAt H fuel d ([] : List (Key × VH)) = H.term := by
  cases fuel <;> simp [nodeAt]

end Nomt
