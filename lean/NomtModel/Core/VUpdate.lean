import NomtModel.Core.Compact
set_option linter.unusedSectionVars false
namespace Nomt
variable {Node VH : Type} [DecidableEq Node] [DecidableEq VH] (H : Hasher Node VH)

/-- one verified path with the sub-trie root that replaces its terminal
    (`build_trie(skip, leaf_ops_spliced(leaf, ops))` in the code) -/
structure PathUpd (Node : Type) where
  path : List Bool
  siblings : List Node          -- ascending by depth
  subRoot : Node

/-- mirror of the inner loop of `verify_update` (path_proof.rs): hash the current node upwards,
taking the pending left sibling if it sits at the current layer and the proof's sibling otherwise,
with the compaction table -/
def hashUpV (path : List Bool) (sibs : List Node) :
    (up : Nat) → (layer : Nat) → Node → Stack Node → Node × Nat × Stack Node
  | 0, layer, node, st => (node, layer, st)
  | up+1, layer, node, st =>
      let bit := path.getD (layer - 1) false
      let sibSt : Node × Stack Node :=
        match st with
        | (n, l) :: rest => if l == layer then (n, rest) else (sibs.getD (layer - 1) H.term, st)
        | [] => (sibs.getD (layer - 1) H.term, [])
      hashUpV path sibs up (layer - 1) (compactStep H bit node sibSt.1) sibSt.2

def tgtV (next : Option (List Bool)) (path : List Bool) : Nat :=
  match next with
  | none => 0
  | some c => shared c path + 1

/-- one iteration of `for (i, path) in paths.iter().enumerate()` -/
def stepPath (p : PathUpd Node) (next : Option (List Bool)) (st : Stack Node) : Stack Node :=
  let skip := p.path.length
  let r := hashUpV H p.path p.siblings (skip - tgtV next p.path) skip p.subRoot st
  (r.1, r.2.1) :: r.2.2

def runV : List (PathUpd Node) → Option (List Bool) → Stack Node → Stack Node
  | [], _, st => st
  | [p], next, st => stepPath H p next st
  | p :: p' :: rest, next, st => runV (p' :: rest) next (stepPath H p (some p'.path) st)

/-- mirror of `verify_update` after its precondition checks -/
def verifyUpdate (prevRoot : Node) (paths : List (PathUpd Node)) : Node :=
  match runV H paths none [] with
  | (n, _) :: _ => n
  | [] => prevRoot

theorem runV_append : ∀ (Q0 : List (PathUpd Node)) (a b : PathUpd Node) (Q1 : List (PathUpd Node))
    (next : Option (List Bool)) (st : Stack Node),
    runV H (Q0 ++ a :: (b :: Q1)) next st = runV H (b :: Q1) next (runV H (Q0 ++ [a]) (some b.path) st) := by
  intro Q0
  induction Q0 with
  | nil => intro a b Q1 next st; simp [runV]
  | cons x xs ih =>
    intro a b Q1 next st
    cases xs with
    | nil => simp [runV]
    | cons y ys =>
      have := ih a b Q1 next (stepPath H x (some y.path) st)
      simp only [List.cons_append, runV] at this ⊢
      exact this

theorem hashUpV_peel_proof (path : List Bool) (sibs : List Node) (up e : Nat) (N : Node) (σ : Stack Node)
    (hσ : ∀ x ∈ σ, x.2 ≤ e) :
    hashUpV H path sibs (up+1) (e+1) N σ =
      hashUpV H path sibs up e (compactStep H (path.getD e false) N (sibs.getD e H.term)) σ := by
  simp only [hashUpV, Nat.add_sub_cancel]
  cases σ with
  | nil => rfl
  | cons x xs =>
    obtain ⟨n, l⟩ := x
    have : l ≤ e := hσ (n, l) (by simp)
    have hne : (l == e + 1) = false := by simp; omega
    simp [hne]

theorem hashUpV_peel_pop (path : List Bool) (sibs : List Node) (up e : Nat) (N N0 : Node) (σ : Stack Node) :
    hashUpV H path sibs (up+1) (e+1) N ((N0, e+1) :: σ) =
      hashUpV H path sibs up e (compactStep H (path.getD e false) N N0) σ := by
  simp [hashUpV]

/-- restriction along an extended position -/
theorem restrict_append : ∀ (q : List Bool) (d : Nat) (b : Bool) (S : List (Key × VH)),
    restrict d (q ++ [b]) S = side (d + q.length) b (restrict d q S) := by
  intro q
  induction q with
  | nil => intro d b S; simp [restrict]
  | cons x xs ih =>
    intro d b S
    simp only [List.cons_append, restrict, List.length_cons]
    rw [ih (d+1) b (side d x S)]
    have : d + 1 + xs.length = d + (xs.length + 1) := by omega
    rw [this]

end Nomt
