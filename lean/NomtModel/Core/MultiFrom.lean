import NomtModel.Core.MultiComplete
/-!
`MultiProof::from_path_proofs` (the iterative bisection with an explicit stack) on well-shaped input:
`Shape pos items T` says that the path proofs of a range — seen from bit `|pos|`: terminal and remaining
siblings — are arranged like the recursion tree `T` (a single proof, or common bits with common siblings
followed by a `0`-side and a `1`-side).  Then the loop emits exactly the pre-order layout of `T`
(`fromLoop_shape`, `fromPathProofs_shape`).
-/
set_option linter.unusedSectionVars false
namespace Nomt
variable {Node VH : Type} [DecidableEq Node] [DecidableEq VH] (H : Hasher Node VH)

/-! ### the bisection search on a split list -/

theorem binarySearchBy_split {ε α : Type} (f : α → Outcome ε Ordering) (A B : List α)
    (hA : ∀ x ∈ A, f x = .ok .lt) (hB : ∀ x ∈ B, f x = .ok .gt) :
    binarySearchBy f (A ++ B) = .ok (.notFound A.length) := by
  let g : α → Bool := fun x => match f x with | .ok .gt => true | _ => false
  have hgA : ∀ x ∈ A, g x = false := by intro x hx; simp only [g, hA x hx]
  have hgB : ∀ x ∈ B, g x = true := by intro x hx; simp only [g, hB x hx]
  have hf : ∀ x ∈ A ++ B, f x = .ok (if !g x then .lt else .gt) := by
    intro x hx
    rcases List.mem_append.1 hx with h | h
    · rw [hgA x h, hA x h]; rfl
    · rw [hgB x h, hB x h]; rfl
  have hlo' : ∀ (j : Nat) (x : α), j < A.length → (A ++ B)[j]? = some x → g x = false := by
    intro j x hj hx
    rw [List.getElem?_append_left hj] at hx
    exact hgA x (List.mem_of_getElem? hx)
  have hhi' : ∀ (j : Nat) (x : α), A.length ≤ j → (A ++ B)[j]? = some x → g x = true := by
    intro j x hj hx
    rw [List.getElem?_append_right hj] at hx
    exact hgB x (List.mem_of_getElem? hx)
  have hmono : ∀ (i j : Nat) (x y : α), i < j → (A ++ B)[i]? = some x → (A ++ B)[j]? = some y →
      g x = true → g y = true := by
    intro i j x y hij hx hy hgx
    rcases Nat.lt_or_ge j A.length with h | h
    · have := hlo' i x (by omega) hx
      rw [hgx] at this; cases this
    · exact hhi' j y h hy
  obtain ⟨idx, hbs, hidxle, hlo, hhi⟩ := binarySearchBy_partition f (A ++ B) g hf hmono
  have hidx : idx = A.length := by
    rw [List.length_append] at hidxle
    rcases Nat.lt_trichotomy idx A.length with h | h | h
    · exfalso
      have hlt : idx < (A ++ B).length := by rw [List.length_append]; omega
      have hx := List.getElem?_eq_getElem hlt
      have h1 := hlo' idx _ h hx
      have h2 := hhi idx _ (Nat.le_refl _) hx
      rw [h1] at h2; cases h2
    · exact h
    · exfalso
      have hlt : A.length < (A ++ B).length := by rw [List.length_append]; omega
      have hx := List.getElem?_eq_getElem hlt
      have h1 := hhi' A.length _ (Nat.le_refl _) hx
      have h2 := hlo A.length _ h hx
      rw [h1] at h2; cases h2
  rw [hbs, hidx]

/-! ### shapes -/

/-- a path proof seen from some bit on: its terminal and the siblings from that bit on -/
abbrev Item (Node VH : Type) := Terminal VH × List Node

/-- the path proofs `lo .. lo + n` seen from bit `d` -/
def relItems (pps : List (PathProof Node VH)) (lo n d : Nat) : List (Item Node VH) :=
  ((pps.drop lo).take n).map (fun pp => (pp.terminal, pp.siblings.drop d))

/-- the path proofs of a range are arranged like the recursion tree -/
inductive Shape : List Bool → List (Item Node VH) → PTree Node VH → Prop
  | tip (pos seg : List Bool) (t : Terminal VH) (sibs : List Node) :
      (pos ++ seg) <+: t.path → seg.length = sibs.length → Shape pos [(t, sibs)] (.tip t seg sibs)
  | fork (pos seg : List Bool) (cs : List Node) (L R : List (Item Node VH)) (Tl Tr : PTree Node VH) :
      L ≠ [] → R ≠ [] → seg.length = cs.length →
      (∀ it ∈ L ++ R, (pos ++ seg) <+: it.1.path) →
      (∀ it, (L ++ R).head? = some it → cs <+: it.2) →
      (∀ it ∈ L, it.1.path[pos.length + seg.length]? = some false) →
      (∀ it ∈ R, it.1.path[pos.length + seg.length]? = some true) →
      Shape (pos ++ seg ++ [false]) (L.map (fun it => (it.1, it.2.drop (cs.length + 1)))) Tl →
      Shape (pos ++ seg ++ [true]) (R.map (fun it => (it.1, it.2.drop (cs.length + 1)))) Tr →
      Shape pos (L ++ R) (.fork seg cs Tl Tr)

/-- loop iterations `from_path_proofs` spends on a range -/
def PTree.iters : PTree Node VH → Nat
  | .tip _ _ _ => 1
  | .fork _ cs l r => cs.length + 1 + l.iters + r.iters

theorem Shape.wf {pos : List Bool} {items : List (Item Node VH)} {T : PTree Node VH} (h : Shape pos items T) :
    T.WF := by
  induction h with
  | tip pos seg t sibs h1 h2 => exact h2
  | fork pos seg cs L R Tl Tr _ _ h3 _ _ _ _ _ _ ihl ihr => exact ⟨h3, ihl, ihr⟩

theorem Shape.aligned {pos : List Bool} {items : List (Item Node VH)} {T : PTree Node VH} (h : Shape pos items T) :
    T.Aligned pos := by
  induction h with
  | tip pos seg t sibs h1 h2 => exact h1
  | fork pos seg cs L R Tl Tr _ _ h3 _ _ _ _ _ _ ihl ihr => exact ⟨ihl, ihr⟩

theorem Shape.items_ne_nil {pos : List Bool} {items : List (Item Node VH)} {T : PTree Node VH}
    (h : Shape pos items T) : items ≠ [] := by
  induction h with
  | tip pos seg t sibs h1 h2 => simp
  | fork pos seg cs L R Tl Tr hL _ _ _ _ _ _ _ _ _ _ =>
    intro h; exact hL (List.append_eq_nil_iff.1 h).1

theorem Shape.terminals {pos : List Bool} {items : List (Item Node VH)} {T : PTree Node VH} (h : Shape pos items T) :
    (T.mpaths pos).map (·.terminal) = items.map (·.1) := by
  induction h with
  | tip pos seg t sibs h1 h2 => rfl
  | fork pos seg cs L R Tl Tr _ _ h3 _ _ _ _ _ _ ihl ihr =>
    simp only [PTree.mpaths, List.map_append, ihl, ihr, List.map_map]
    rfl

/-! ### one iteration of the loop -/

/-- what the loop does when a range is finished -/
def fromCont (pps : List (PathProof Node VH)) (f : Nat) :
    List PRange → List (MultiPathProof VH) → List Node → Outcome Unit (MultiProof Node VH)
  | [], p, s => .ok { paths := p, siblings := s }
  | nx :: st, p, s => fromLoop pps f nx [] st p s

theorem fromLoop_single (pps : List (PathProof Node VH)) (f lo d : Nat) (pp : PathProof Node VH)
    (stack : List PRange) (paths : List (MultiPathProof VH)) (sibs : List Node) (h : pps[lo]? = some pp) :
    fromLoop pps (f + 1) { pbi := d, lower := lo, upper := lo + 1 } [] stack paths sibs =
      fromCont pps f stack (paths ++ [{ terminal := pp.terminal, depth := d + (pp.siblings.drop d).length }])
        (sibs ++ pp.siblings.drop d) := by
  unfold fromLoop
  simp only [Nat.add_eq_zero_iff, Nat.succ_ne_zero, and_false, if_false, Nat.add_sub_cancel, if_true, h,
    List.isEmpty_nil, Bool.not_true, Bool.false_eq_true]
  cases stack <;> rfl

theorem fromLoop_common (pps : List (PathProof Node VH)) (f lo hi d : Nat) (plo pup : PathProof Node VH)
    (b : Bool) (s : Node) (common : List Node)
    (stack : List PRange) (paths : List (MultiPathProof VH)) (sibs : List Node) (h2 : lo + 2 ≤ hi)
    (hlo : pps[lo]? = some plo) (hup : pps[hi - 1]? = some pup)
    (hbl : plo.terminal.path[d]? = some b) (hbu : pup.terminal.path[d]? = some b)
    (hs : plo.siblings[d]? = some s) :
    fromLoop pps (f + 1) { pbi := d, lower := lo, upper := hi } common stack paths sibs =
      fromLoop pps f { pbi := d + 1, lower := lo, upper := hi } (common ++ [s]) stack paths sibs := by
  rw [fromLoop]
  have h0 : ¬ hi = 0 := by omega
  have h1 : ¬ lo = hi - 1 := by omega
  simp only [h0, if_false, h1, hlo, hup, hbl, hbu, bne_self_eq_false, Bool.false_eq_true, hs]

theorem fromLoop_bisect (pps : List (PathProof Node VH)) (f lo hi d : Nat) (plo pup : PathProof Node VH)
    (A B : List (PathProof Node VH)) (common : List Node)
    (stack : List PRange) (paths : List (MultiPathProof VH)) (sibs : List Node) (h2 : lo + 2 ≤ hi)
    (hhi : hi ≤ pps.length)
    (hlo : pps[lo]? = some plo) (hup : pps[hi - 1]? = some pup)
    (hbl : plo.terminal.path[d]? = some false) (hbu : pup.terminal.path[d]? = some true)
    (hsl : (pps.drop lo).take (hi - lo) = A ++ B)
    (hA : ∀ pp ∈ A, pp.terminal.path[d]? = some false) (hB : ∀ pp ∈ B, pp.terminal.path[d]? = some true) :
    fromLoop pps (f + 1) { pbi := d, lower := lo, upper := hi } common stack paths sibs =
      fromLoop pps f { pbi := d + 1, lower := lo, upper := lo + A.length } []
        ({ pbi := d + 1, lower := lo + A.length, upper := hi } :: stack) paths (sibs ++ common) := by
  rw [fromLoop]
  have h0 : ¬ hi = 0 := by omega
  have h1 : ¬ lo = hi - 1 := by omega
  have hne : (false != true) = true := rfl
  have hslice : (sliceFromTo "multi_proof.rs:134 path_proofs[lower..upper]" pps lo hi : Outcome Unit _) = .ok (A ++ B) := by
    simp only [sliceFromTo, hsl]
    rw [if_pos ⟨by omega, hhi⟩]
  simp only [h0, if_false, h1, hlo, hup, hbl, hbu, hne, if_true, hslice]
  rw [binarySearchBy_split _ A B (by intro x hx; simp only [hA x hx]; rfl) (by intro x hx; simp only [hB x hx]; rfl)]

/-! ### `relItems` -/

theorem relItems_get (pps : List (PathProof Node VH)) (lo n d : Nat) (items : List (Item Node VH))
    (h : relItems pps lo n d = items) (j : Nat) (hj : j < items.length) :
    ∃ pp, pps[lo + j]? = some pp ∧ items[j]? = some (pp.terminal, pp.siblings.drop d) := by
  subst h
  simp only [relItems, List.length_map, List.length_take, List.length_drop] at hj
  have hjn : j < n := by omega
  have hjl : lo + j < pps.length := by omega
  refine ⟨pps[lo + j], List.getElem?_eq_getElem hjl, ?_⟩
  simp only [relItems, List.getElem?_map, List.getElem?_take_of_lt hjn, List.getElem?_drop,
    List.getElem?_eq_getElem hjl, Option.map]

theorem relItems_split (pps : List (PathProof Node VH)) (lo a b d : Nat) :
    relItems pps lo (a + b) d = relItems pps lo a d ++ relItems pps (lo + a) b d := by
  simp only [relItems, List.take_add, List.map_append, List.drop_drop]

theorem relItems_drop (pps : List (PathProof Node VH)) (lo n d k : Nat) :
    relItems pps lo n (d + k) = (relItems pps lo n d).map (fun it => (it.1, it.2.drop k)) := by
  simp only [relItems, List.map_map]
  apply List.map_congr_left
  intro pp _
  simp [List.drop_drop]

theorem relItems_bound (pps : List (PathProof Node VH)) (lo d : Nat) (items : List (Item Node VH))
    (h : relItems pps lo items.length d = items) (hne : items ≠ []) : lo + items.length ≤ pps.length := by
  have := congrArg List.length h
  simp only [relItems, List.length_map, List.length_take, List.length_drop] at this
  have : 0 < items.length := List.length_pos_iff.2 hne
  omega

theorem relItems_append (pps : List (PathProof Node VH)) (lo d : Nat) (L R : List (Item Node VH))
    (h : relItems pps lo (L ++ R).length d = L ++ R) (hR : R ≠ []) :
    relItems pps lo L.length d = L ∧ relItems pps (lo + L.length) R.length d = R := by
  have hb := relItems_bound pps lo d (L ++ R) h (by simp [hR])
  rw [List.length_append] at h hb
  rw [relItems_split] at h
  have hl : (relItems pps lo L.length d).length = L.length := by
    simp only [relItems, List.length_map, List.length_take, List.length_drop]; omega
  exact List.append_inj h hl

/-! ### the loop on a shaped range -/

/-- scanning the common bits of a bisection -/
theorem fromLoop_scan (pps : List (PathProof Node VH)) (lo hi d : Nat) (plo pup : PathProof Node VH)
    (seg : List Bool) (cs : List Node) (stack : List PRange) (paths : List (MultiPathProof VH)) (sibs : List Node)
    (h2 : lo + 2 ≤ hi) (hlo : pps[lo]? = some plo) (hup : pps[hi - 1]? = some pup) (hsc : seg.length = cs.length)
    (hbl : ∀ j, j < seg.length → plo.terminal.path[d + j]? = seg[j]?)
    (hbu : ∀ j, j < seg.length → pup.terminal.path[d + j]? = seg[j]?)
    (hs : ∀ j, j < cs.length → plo.siblings[d + j]? = cs[j]?) :
    ∀ (k j m : Nat), j + k = cs.length →
      fromLoop pps (k + m) { pbi := d + j, lower := lo, upper := hi } (cs.take j) stack paths sibs =
        fromLoop pps m { pbi := d + cs.length, lower := lo, upper := hi } cs stack paths sibs := by
  intro k
  induction k with
  | zero =>
    intro j m hj
    have : j = cs.length := by omega
    subst this
    rw [List.take_length, Nat.zero_add]
  | succ k ih =>
    intro j m hj
    have hjlt : j < cs.length := by omega
    have hseg : seg[j]? = some seg[j] := List.getElem?_eq_getElem (by omega)
    have hcs : cs[j]? = some cs[j] := List.getElem?_eq_getElem hjlt
    have e : k + 1 + m = (k + m) + 1 := by omega
    rw [e, fromLoop_common pps (k + m) lo hi (d + j) plo pup seg[j] cs[j] _ stack paths sibs h2 hlo hup
      (by rw [hbl j (by omega), hseg]) (by rw [hbu j (by omega), hseg]) (by rw [hs j hjlt, hcs]),
      ← take_succ_getElem? cs j _ hcs, Nat.add_assoc]
    exact ih (j + 1) m (by omega)

theorem prefix_getElem? {α : Type} (p l : List α) (h : p <+: l) (j : Nat) (hj : j < p.length) : l[j]? = p[j]? := by
  obtain ⟨t, rfl⟩ := h
  rw [List.getElem?_append_left hj]

/-- **`from_path_proofs` on a shaped range** emits the pre-order layout of the range's tree and goes on
with the stack -/
theorem fromLoop_shape (pps : List (PathProof Node VH)) {pos : List Bool} {items : List (Item Node VH)}
    {T : PTree Node VH} (hsh : Shape pos items T) :
    ∀ (lo hi d f : Nat) (stack : List PRange) (paths : List (MultiPathProof VH)) (sibs : List Node),
      hi = lo + items.length → d = pos.length → relItems pps lo items.length d = items →
      fromLoop pps (T.iters + f) { pbi := d, lower := lo, upper := hi } [] stack paths sibs =
        fromCont pps f stack (paths ++ T.mpaths pos) (sibs ++ T.flat) := by
  induction hsh with
  | tip pos seg t sibs0 hpre hlen =>
    intro lo hi d f stack paths sibs hhi hd hitems
    obtain ⟨pp, hpp, hit⟩ := relItems_get pps lo _ d _ hitems 0 (by simp)
    simp only [List.getElem?_cons_zero, Option.some.injEq, Prod.mk.injEq] at hit
    obtain ⟨ht, hs⟩ := hit
    simp only [List.length_singleton] at hhi
    subst hhi
    have e : (PTree.tip t seg sibs0).iters + f = f + 1 := by simp only [PTree.iters]; omega
    rw [e, fromLoop_single pps f lo d pp stack paths sibs (by simpa using hpp)]
    simp only [PTree.mpaths, PTree.flat]
    rw [← hs, ← ht, hd, hlen]
  | fork pos seg cs L R Tl Tr hLne hRne hsc hpre hcs hbl hbr _ _ ihl ihr =>
    intro lo hi d f stack paths sibs hhi hd hitems
    obtain ⟨hL, hR⟩ := relItems_append pps lo d L R hitems hRne
    have hbound := relItems_bound pps lo d (L ++ R) hitems (by simp [hRne])
    have hLpos : 0 < L.length := List.length_pos_iff.2 hLne
    have hRpos : 0 < R.length := List.length_pos_iff.2 hRne
    rw [List.length_append] at hhi hbound
    -- the first and the last path proof of the range
    obtain ⟨plo, hplo, hit0⟩ := relItems_get pps lo _ d _ hitems 0 (by simp; omega)
    obtain ⟨pup, hpup, hit1⟩ := relItems_get pps lo _ d _ hitems (L.length + R.length - 1) (by simp; omega)
    have hplo' : pps[lo]? = some plo := by simpa using hplo
    have hpup' : pps[hi - 1]? = some pup := by
      have : hi - 1 = lo + (L.length + R.length - 1) := by omega
      rw [this]; exact hpup
    have hm0 : (plo.terminal, plo.siblings.drop d) ∈ L := by
      rw [List.getElem?_append_left hLpos] at hit0
      exact List.mem_of_getElem? hit0
    have hm1 : (pup.terminal, pup.siblings.drop d) ∈ R := by
      rw [List.getElem?_append_right (by omega)] at hit1
      exact List.mem_of_getElem? hit1
    have hpre0 := hpre _ (List.mem_append_left _ hm0)
    have hpre1 := hpre _ (List.mem_append_right _ hm1)
    simp only at hpre0 hpre1
    have hcs0 : cs <+: plo.siblings.drop d := by
      apply hcs (plo.terminal, plo.siblings.drop d)
      rw [List.head?_eq_getElem?]; exact hit0
    -- scan the common bits
    have hscan := fromLoop_scan pps lo hi d plo pup seg cs stack paths sibs (by omega) hplo' hpup' hsc
      (by
        intro j hj
        rw [prefix_getElem? _ _ hpre0 (d + j) (by simp; omega), hd, List.getElem?_append_right (by omega)]
        simp)
      (by
        intro j hj
        rw [prefix_getElem? _ _ hpre1 (d + j) (by simp; omega), hd, List.getElem?_append_right (by omega)]
        simp)
      (by
        intro j hj
        rw [← prefix_getElem? _ _ hcs0 j hj, List.getElem?_drop])
      cs.length 0 (1 + (Tl.iters + (Tr.iters + f))) (by omega)
    have e : (PTree.fork seg cs Tl Tr).iters + f = cs.length + (1 + (Tl.iters + (Tr.iters + f))) := by
      simp only [PTree.iters]; omega
    rw [e]
    simp only [Nat.add_zero, List.take_zero] at hscan
    rw [hscan]
    -- bisect
    have hA : ∀ pp ∈ (pps.drop lo).take L.length, pp.terminal.path[d + cs.length]? = some false := by
      intro pp hp
      have : (pp.terminal, pp.siblings.drop d) ∈ L := by
        rw [← hL]; exact List.mem_map_of_mem (f := fun pp => (pp.terminal, pp.siblings.drop d)) hp
      have := hbl _ this
      rw [hd, ← hsc]; exact this
    have hB : ∀ pp ∈ (pps.drop (lo + L.length)).take R.length, pp.terminal.path[d + cs.length]? = some true := by
      intro pp hp
      have : (pp.terminal, pp.siblings.drop d) ∈ R := by
        rw [← hR]; exact List.mem_map_of_mem (f := fun pp => (pp.terminal, pp.siblings.drop d)) hp
      have := hbr _ this
      rw [hd, ← hsc]; exact this
    have e2 : 1 + (Tl.iters + (Tr.iters + f)) = (Tl.iters + (Tr.iters + f)) + 1 := by omega
    rw [e2, fromLoop_bisect pps _ lo hi (d + cs.length) plo pup _ _ cs stack paths sibs (by omega) (by omega)
      hplo' hpup'
      (by have := hbl _ hm0; rw [hd, ← hsc]; exact this)
      (by have := hbr _ hm1; rw [hd, ← hsc]; exact this)
      (by
        have : hi - lo = L.length + R.length := by omega
        rw [this, List.take_add, List.drop_drop])
      hA hB]
    have hlenA : ((pps.drop lo).take L.length).length = L.length := by
      simp only [List.length_take, List.length_drop]; omega
    rw [hlenA]
    -- the `0`-side, then the `1`-side
    have hposl : d + cs.length + 1 = (pos ++ seg ++ [false]).length := by simp [hd, hsc]; omega
    have hposr : d + cs.length + 1 = (pos ++ seg ++ [true]).length := by simp [hd, hsc]; omega
    rw [ihl lo (lo + L.length) (d + cs.length + 1) (Tr.iters + f) _ paths (sibs ++ cs) (by simp) hposl
      (by rw [List.length_map, Nat.add_assoc, relItems_drop, hL])]
    rw [fromCont]
    rw [ihr (lo + L.length) hi (d + cs.length + 1) f stack _ _ (by simp; omega) hposr
      (by rw [List.length_map, Nat.add_assoc, relItems_drop, hR])]
    simp only [PTree.mpaths, PTree.flat, List.append_assoc]

/-! ### the fuel of `fromLoop` suffices -/

theorem pow_bound : ∀ (c n : Nat), c ≤ n → c + 2 ^ (n - c) ≤ 2 ^ n
  | 0, n, _ => by simp
  | c+1, n, h => by
    have ih := pow_bound c n (by omega)
    have e : n - c = (n - (c + 1)) + 1 := by omega
    rw [e, Nat.pow_succ] at ih
    have : 1 ≤ 2 ^ (n - (c + 1)) := Nat.one_le_two_pow
    omega

theorem PTree.iters_bound (M : Nat) : ∀ (T : PTree Node VH) (pos : List Bool), T.WF → T.Aligned pos →
    (∀ p ∈ T.mpaths pos, p.terminal.path.length ≤ M) → T.iters + 1 ≤ 2 ^ (M + 1 - pos.length)
  | .tip t seg us, pos, _, hal, hM => by
    have h0 := hM { terminal := t, depth := pos.length + seg.length } (by simp [PTree.mpaths])
    have h1 := hal.length_le
    simp only [List.length_append] at h1
    simp only at h0
    have : 1 < 2 ^ (M + 1 - pos.length) := Nat.one_lt_two_pow (by omega)
    simp only [PTree.iters]; omega
  | .fork seg cs l r, pos, hwf, hal, hM => by
    obtain ⟨hsc, hwl, hwr⟩ := hwf
    have hl := PTree.iters_bound M l (pos ++ seg ++ [false]) hwl hal.1
      (fun p hp => hM p (by simp only [PTree.mpaths]; exact List.mem_append_left _ hp))
    have hr := PTree.iters_bound M r (pos ++ seg ++ [true]) hwr hal.2
      (fun p hp => hM p (by simp only [PTree.mpaths]; exact List.mem_append_right _ hp))
    simp only [List.length_append, List.length_singleton, hsc] at hl hr
    -- the children's positions are inside the paths
    have hdeep : pos.length + cs.length + 1 ≤ M := by
      obtain ⟨p, hp⟩ := List.exists_mem_of_ne_nil _ (PTree.mpaths_ne_nil l (pos ++ seg ++ [false]))
      have h1 := (PTree.mpaths_prefix l _ hal.1 p hp).length_le
      have h2 := hM p (by simp only [PTree.mpaths]; exact List.mem_append_left _ hp)
      simp only [List.length_append, List.length_singleton, hsc] at h1
      omega
    have hb := pow_bound cs.length (M + 1 - pos.length) (by omega)
    have e1 : M + 1 - (pos.length + cs.length + 1) = M + 1 - pos.length - cs.length - 1 := by omega
    have e2 : M + 1 - pos.length - cs.length = (M + 1 - pos.length - cs.length - 1) + 1 := by omega
    rw [e1] at hl hr
    rw [e2, Nat.pow_succ] at hb
    simp only [PTree.iters]
    omega

theorem le_maxPathLenPP : ∀ (pps : List (PathProof Node VH)) (p : PathProof Node VH), p ∈ pps →
    p.terminal.path.length ≤ maxPathLenPP pps
  | [], _, h => by simp at h
  | q :: qs, p, h => by
    simp only [maxPathLenPP]
    rcases List.mem_cons.1 h with h | h
    · subst h; exact Nat.le_max_left _ _
    · exact Nat.le_trans (le_maxPathLenPP qs p h) (Nat.le_max_right _ _)

/-- **`from_path_proofs` on well-shaped input** returns the pre-order layout of the tree -/
theorem fromPathProofs_shape (pps : List (PathProof Node VH)) (T : PTree Node VH)
    (hsh : Shape [] (pps.map (fun pp => (pp.terminal, pp.siblings))) T) :
    fromPathProofs pps = .ok { paths := T.mpaths [], siblings := T.flat } := by
  have hne : pps ≠ [] := by
    intro h
    have := hsh.items_ne_nil
    rw [h] at this
    exact this rfl
  have hemp : pps.isEmpty = false := by cases pps <;> simp_all
  have hM : ∀ p ∈ T.mpaths [], p.terminal.path.length ≤ maxPathLenPP pps := by
    intro p hp
    have h1 : p.terminal ∈ (T.mpaths []).map (·.terminal) := List.mem_map_of_mem hp
    rw [hsh.terminals, List.map_map] at h1
    obtain ⟨pp, hpp, he⟩ := List.mem_map.1 h1
    simp only [Function.comp] at he
    rw [← he]; exact le_maxPathLenPP pps pp hpp
  have hb := PTree.iters_bound (maxPathLenPP pps) T [] hsh.wf hsh.aligned hM
  simp only [List.length_nil, Nat.sub_zero] at hb
  have hfuel : fromFuel pps = T.iters + (fromFuel pps - T.iters) := by
    have : 2 ^ (maxPathLenPP pps + 1) ≤ 2 ^ (maxPathLenPP pps + 2) := Nat.pow_le_pow_right (by omega) (by omega)
    simp only [fromFuel]; omega
  simp only [fromPathProofs, hemp, Bool.false_eq_true, if_false]
  rw [hfuel, fromLoop_shape pps hsh 0 pps.length 0 _ [] [] [] (by simp) rfl
    (by simp [relItems])]
  simp [fromCont]

end Nomt
