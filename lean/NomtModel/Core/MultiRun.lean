import NomtModel.Core.MultiTree
/-!
The stack machine of `verify_update` (multi_proof.rs:688) — `CommonSiblings::{advance, extend, pop_to,
pop_if_at_depth}` and `hash_and_compact_terminal` — run over the recursion tree of an accepted proof.

* `advanceLoop_first`: `advance` for the first terminal of a range pushes exactly the common siblings
  of the bisections on the leftmost chain and the terminal's unique siblings (no index, assert or slice
  fails);
* `hctLoop_sim`: the upward loop of `hash_and_compact_terminal` finds, at every layer, either the pending
  left sibling or the proof sibling on the `CommonSiblings` stack (`pop_if_at_depth(..).unwrap()` is
  safe) and computes what the single-path loop `hashUpV` computes on the path's reconstructed sibling list;
* `ingest_block`: ingesting all terminals of a range = `runV` of the single-path algorithm on the
  reconstructed path proofs (`PTree.upds`).
-/
set_option linter.unusedSectionVars false
namespace Nomt
variable {Node VH : Type} [DecidableEq Node] [DecidableEq VH] (H : Hasher Node VH)

/-! ### list segments -/
section seg
variable {α : Type}

/-- `s` occurs in `l` at index `i` -/
def SegAt (l : List α) (i : Nat) (s : List α) : Prop := i ≤ l.length ∧ s <+: l.drop i

theorem SegAt.length_le {l : List α} {i : Nat} {s : List α} (h : SegAt l i s) : i + s.length ≤ l.length := by
  have := h.2.length_le
  rw [List.length_drop] at this
  have := h.1
  omega

theorem SegAt.left {l : List α} {i : Nat} {a b : List α} (h : SegAt l i (a ++ b)) : SegAt l i a :=
  ⟨h.1, (List.prefix_append a b).trans h.2⟩

theorem SegAt.right {l : List α} {i : Nat} {a b : List α} (h : SegAt l i (a ++ b)) :
    SegAt l (i + a.length) b := by
  have hl := h.length_le
  rw [List.length_append] at hl
  refine ⟨by omega, ?_⟩
  obtain ⟨t, ht⟩ := h.2
  refine ⟨t, ?_⟩
  rw [← List.drop_drop, ← ht, List.append_assoc, List.drop_left]

theorem SegAt.getElem? {l : List α} {i : Nat} {s : List α} (h : SegAt l i s) (k : Nat) (hk : k < s.length) :
    l[i + k]? = s[k]? := by
  obtain ⟨t, ht⟩ := h.2
  have : (l.drop i)[k]? = s[k]? := by
    rw [← ht, List.getElem?_append_left hk]
  rw [← this, List.getElem?_drop]

theorem SegAt.slice {l : List α} {i : Nat} {s : List α} (h : SegAt l i s) :
    (l.drop i).take s.length = s := by
  obtain ⟨t, ht⟩ := h.2
  rw [← ht, List.take_left]

theorem SegAt.of_eq (l : List α) : SegAt l 0 l := ⟨Nat.zero_le _, by simp⟩

end seg

/-! ### the expected content of the `CommonSiblings` stack -/

/-- the siblings along a position, top-down: `(true, s)` = a sibling the proof supplies (common or
unique), `(false, s)` = the other side of a bisection (`s` = its node in the old trie; the update
computes it afresh) -/
abbrev Ctx (Node : Type) := List (Bool × Node)

/-- push the proof-supplied siblings of `c`, the first one at depth `d` -/
def pushC (st : List (Nat × Node)) (d : Nat) : Ctx Node → List (Nat × Node)
  | [] => st
  | (true, s) :: r => pushC ((d, s) :: st) (d + 1) r
  | (false, _) :: r => pushC st (d + 1) r

/-- the `CommonSiblings` stack holding the proof-supplied siblings of `c` (top = deepest) -/
def stackOf (c : Ctx Node) : List (Nat × Node) := pushC [] 1 c

theorem pushC_append : ∀ (a b : Ctx Node) (st : List (Nat × Node)) (d : Nat),
    pushC st d (a ++ b) = pushC (pushC st d a) (d + a.length) b
  | [], b, st, d => by simp [pushC]
  | (true, s) :: r, b, st, d => by
    simp only [List.cons_append, pushC, List.length_cons]
    rw [pushC_append r b]
    have : d + 1 + r.length = d + (r.length + 1) := by omega
    rw [this]
  | (false, s) :: r, b, st, d => by
    simp only [List.cons_append, pushC, List.length_cons]
    rw [pushC_append r b]
    have : d + 1 + r.length = d + (r.length + 1) := by omega
    rw [this]

theorem pushSibs_eq_pushC : ∀ (ss : List Node) (st : List (Nat × Node)) (d : Nat),
    pushSibs st d ss = pushC st d (ss.map (fun s => (true, s)))
  | [], _, _ => rfl
  | s :: ss, st, d => by simp only [pushSibs, List.map_cons, pushC]; exact pushSibs_eq_pushC ss _ _

theorem stackOf_append (a b : Ctx Node) : stackOf (a ++ b) = pushC (stackOf a) (1 + a.length) b :=
  pushC_append a b [] 1

theorem stackOf_snoc_true (a : Ctx Node) (s : Node) : stackOf (a ++ [(true, s)]) = (a.length + 1, s) :: stackOf a := by
  rw [stackOf_append]; simp [pushC, Nat.add_comm]

theorem stackOf_snoc_false (a : Ctx Node) (s : Node) : stackOf (a ++ [(false, s)]) = stackOf a := by
  rw [stackOf_append]; simp [pushC]

theorem mem_pushC : ∀ (c : Ctx Node) (st : List (Nat × Node)) (d : Nat) (e : Nat × Node),
    e ∈ pushC st d c → e ∈ st ∨ (d ≤ e.1 ∧ e.1 < d + c.length)
  | [], _, _, _, h => Or.inl h
  | (true, s) :: r, st, d, e, h => by
    simp only [pushC] at h
    rcases mem_pushC r _ _ e h with h | h
    · rcases List.mem_cons.1 h with h | h
      · subst h; right; simp
      · exact Or.inl h
    · right; simp only [List.length_cons]; omega
  | (false, s) :: r, st, d, e, h => by
    simp only [pushC] at h
    rcases mem_pushC r _ _ e h with h | h
    · exact Or.inl h
    · right; simp only [List.length_cons]; omega

theorem mem_stackOf (c : Ctx Node) (e : Nat × Node) (h : e ∈ stackOf c) : 1 ≤ e.1 ∧ e.1 ≤ c.length := by
  rcases mem_pushC c [] 1 e h with h | h
  · cases h
  · omega

/-! ### `CommonSiblings` primitives -/

theorem extend_ok (cs : CommonSiblings Node) (d e : Nat) (sibs : List Node) (h1 : cs.taken ≤ e)
    (h2 : e ≤ sibs.length) :
    cs.extend d e sibs = .ok { cs with stack := pushSibs cs.stack d ((sibs.drop cs.taken).take (e - cs.taken)),
                                       taken := e } := by
  simp [CommonSiblings.extend, sliceFromTo, h1, h2]

theorem dropWhile_eq_self {α : Type} (p : α → Bool) : ∀ (l : List α), (∀ x ∈ l, p x = false) → l.dropWhile p = l
  | [], _ => rfl
  | x :: xs, h => by simp [List.dropWhile, h x (by simp)]

theorem popTo_stack (cs : CommonSiblings Node) (d : Nat) (h : ∀ e ∈ cs.stack, e.1 < d) :
    (cs.popTo d).stack = cs.stack := by
  simp only [CommonSiblings.popTo]
  apply dropWhile_eq_self
  intro x hx
  have := h x hx
  simp; omega

theorem popIfAtDepth_hit (cs : CommonSiblings Node) (d : Nat) (s : Node) (rest : List (Nat × Node))
    (h : cs.stack = (d, s) :: rest) : cs.popIfAtDepth d = (some s, { cs with stack := rest }) := by
  simp [CommonSiblings.popIfAtDepth, h]

theorem popIfAtDepth_miss (cs : CommonSiblings Node) (d : Nat) (h : ∀ e ∈ cs.stack, e.1 < d) :
    cs.popIfAtDepth d = (none, cs) := by
  unfold CommonSiblings.popIfAtDepth
  cases hs : cs.stack with
  | nil => rfl
  | cons x rest =>
    obtain ⟨d', n⟩ := x
    have := h (d', n) (by rw [hs]; simp)
    have hne : (d' == d) = false := by simp; omega
    simp [hne]

/-! ### the first terminal of a range -/

namespace PTree

/-- the first `VerifiedMultiPath` of the range -/
def first : List Bool → Nat → PTree Node VH → VPath VH
  | pos, off, tip t seg us =>
    { terminal := t, depth := pos.length + seg.length, uStart := off, uEnd := off + us.length,
      route := pos ++ seg }
  | pos, off, fork seg cs l _ => l.first (pos ++ seg ++ [false]) (off + cs.length)

/-- the siblings of the first terminal below the range's position -/
def firstCtx : PTree Node VH → Ctx Node
  | tip _ _ us => us.map (fun s => (true, s))
  | fork _ cs l r => cs.map (fun s => (true, s)) ++ [(false, r.hash H)] ++ l.firstCtx

/-- number of recorded bisections on the leftmost chain -/
def leftBisN : PTree Node VH → Nat
  | tip _ _ _ => 0
  | fork _ cs l _ => (if cs.length > 0 then 1 else 0) + l.leftBisN

theorem ownBis_length (pos : List Bool) (off : Nat) (cs : List Node) :
    (ownBis pos off cs).length = if cs.length > 0 then 1 else 0 := by
  unfold ownBis; split <;> rfl

theorem vpaths_eq_first : ∀ (T : PTree Node VH) (pos : List Bool) (off : Nat),
    ∃ tl, T.vpaths pos off = T.first pos off :: tl
  | tip _ _ _, _, _ => ⟨[], rfl⟩
  | fork seg cs l r, pos, off => by
    obtain ⟨tl, h⟩ := vpaths_eq_first l (pos ++ seg ++ [false]) (off + cs.length)
    exact ⟨tl ++ r.vpaths (pos ++ seg ++ [true]) (off + cs.length + l.used), by
      simp only [vpaths, first]; rw [h]; rfl⟩

theorem first_uStart_ge : ∀ (T : PTree Node VH) (pos : List Bool) (off : Nat), off ≤ (T.first pos off).uStart
  | tip _ _ _, _, _ => Nat.le_refl _
  | fork seg cs l _, pos, off => by
    have := first_uStart_ge l (pos ++ seg ++ [false]) (off + cs.length)
    simp only [first]; omega

theorem leftBisN_le : ∀ (T : PTree Node VH) (pos : List Bool) (off : Nat), T.leftBisN ≤ (T.vbis pos off).length
  | tip _ _ _, _, _ => by simp [leftBisN]
  | fork seg cs l r, pos, off => by
    have := leftBisN_le l (pos ++ seg ++ [false]) (off + cs.length)
    simp only [leftBisN, vbis, List.length_append, ownBis_length]; omega

end PTree

/-- the part of `advance` after the `while` loop -/
def advTail (v : VerifiedMulti Node VH) (nt : VPath VH) (cs : CommonSiblings Node) :
    Outcome MultiVUErr (CommonSiblings Node) := do
  let tn ← checkedSub "multi_proof.rs:638 unique_siblings.end - start" nt.uEnd nt.uStart
  let d ← checkedSub "multi_proof.rs:640 next_terminal.depth - terminal_n" nt.depth tn
  let cs ← cs.extend (d + 1) nt.uEnd v.siblings
  pure { cs with termIdx := cs.termIdx + 1 }

theorem advance_eq (cs : CommonSiblings Node) (v : VerifiedMulti Node VH) :
    cs.advance v = (getIdx "multi_proof.rs:616 proof.inner[self.terminal_index]" v.inner cs.termIdx >>= fun nt =>
      advanceLoop v nt.uStart (v.bisections.length + 1) true cs >>= advTail v nt) := rfl

/-- **`advance` for the first terminal of a range.**  From a state that holds the siblings `ctx` of the
range's position, has taken the siblings up to the range's offset and points at the range's first
bisection: the loop consumes the bisections of the leftmost chain (index in range, `assert_eq!` holds,
slices in range) and the tail pushes the unique siblings. -/
theorem advanceLoop_first (v : VerifiedMulti Node VH) :
    ∀ (T : PTree Node VH) (pos : List Bool) (off : Nat) (ctx : Ctx Node) (b0 fuel : Nat) (prune : Bool)
      (cs : CommonSiblings Node),
      T.WF → ctx.length = pos.length →
      SegAt v.bisections b0 (T.vbis pos off) → SegAt v.siblings off T.flat →
      cs.bisIdx = b0 → cs.taken = off → cs.stack = stackOf ctx →
      (prune = true → ∀ e ∈ cs.stack, e.1 < pos.length) → T.leftBisN + 1 ≤ fuel →
      ∃ cs', (advanceLoop v (T.first pos off).uStart fuel prune cs >>= advTail v (T.first pos off)) = .ok cs' ∧
        cs'.stack = stackOf (ctx ++ T.firstCtx H) ∧ cs'.taken = (T.first pos off).uEnd ∧
        cs'.bisIdx = b0 + T.leftBisN ∧ cs'.termIdx = cs.termIdx + 1 := by
  intro T
  induction T with
  | tip t seg us =>
    intro pos off ctx b0 fuel prune cs hwf hctx hbis hsib hbi htk hst hpr hfuel
    simp only [PTree.WF] at hwf
    obtain ⟨f, rfl⟩ : ∃ f, fuel = f + 1 := ⟨fuel - 1, by omega⟩
    have hsl := hsib.length_le
    have hslice := hsib.slice
    simp only [PTree.flat] at hsl hslice
    simp only [PTree.first, advanceLoop, htk, beq_self_eq_true, if_true, Outcome.ok_bind, advTail, checkedSub]
    rw [if_pos (by omega)]
    simp only [Outcome.ok_bind]
    rw [if_pos (by omega)]
    simp only [Outcome.ok_bind]
    rw [extend_ok _ _ _ _ (by omega) (by omega)]
    simp only [Outcome.ok_bind, Outcome.pure_eq]
    refine ⟨_, rfl, ?_, rfl, by simp [hbi, PTree.leftBisN], rfl⟩
    simp only [htk, hst]
    have e1 : off + us.length - off = us.length := by omega
    have e2 : pos.length + seg.length - (off + us.length - off) + 1 = 1 + ctx.length := by omega
    rw [e2, e1, hslice, pushSibs_eq_pushC, stackOf_append]
    rfl
  | fork seg cs_ l r ihl _ =>
    intro pos off ctx b0 fuel prune cs hwf hctx hbis hsib hbi htk hst hpr hfuel
    obtain ⟨hsc, hwl, _⟩ := hwf
    simp only [PTree.vbis] at hbis
    simp only [PTree.flat] at hsib
    simp only [PTree.leftBisN] at hfuel
    simp only [PTree.first, PTree.firstCtx, PTree.leftBisN]
    have hctx' : (ctx ++ cs_.map (fun s => (true, s)) ++ [(false, r.hash H)]).length
        = (pos ++ seg ++ [false]).length := by
      simp [hctx, hsc]
    have hassoc : ctx ++ (cs_.map (fun s => (true, s)) ++ [(false, r.hash H)] ++ l.firstCtx H)
        = (ctx ++ cs_.map (fun s => (true, s)) ++ [(false, r.hash H)]) ++ l.firstCtx H := by
      simp [List.append_assoc]
    rw [hassoc]
    by_cases hcs : cs_.length > 0
    · -- a recorded bisection: one iteration of the loop
      obtain ⟨f, rfl⟩ : ∃ f, fuel = f + 1 := ⟨fuel - 1, by omega⟩
      have hown : PTree.ownBis pos off cs_ = [{ startDepth := pos.length, cStart := off, cEnd := off + cs_.length }] := by
        simp [PTree.ownBis, hcs]
      rw [hown] at hbis
      have hb0 : v.bisections[b0]? = some { startDepth := pos.length, cStart := off, cEnd := off + cs_.length } := by
        have := hbis.left.left.getElem? 0 (by simp)
        simpa using this
      have hge := PTree.first_uStart_ge l (pos ++ seg ++ [false]) (off + cs_.length)
      have hne : ((l.first (pos ++ seg ++ [false]) (off + cs_.length)).uStart == cs.taken) = false := by
        rw [htk]; exact beq_false_of_ne (by omega)
      have hsl := hsib.left.left.length_le
      -- the state after `pop_to` (only the bisection stack may change)
      have hcs2 : ∀ (c2 : CommonSiblings Node), c2.stack = cs.stack → c2.taken = off → c2.bisIdx = b0 + 1 →
          c2.termIdx = cs.termIdx →
          ∃ cs', ((match c2.extend (pos.length + 1) (off + cs_.length) v.siblings with
              | .ok c3 => advanceLoop v (l.first (pos ++ seg ++ [false]) (off + cs_.length)).uStart f false
                  { c3 with bisStack := { startDepth := pos.length, cStart := off, cEnd := off + cs_.length } :: c3.bisStack }
              | .err e => .err e
              | .panic s => .panic s) >>= advTail v (l.first (pos ++ seg ++ [false]) (off + cs_.length))) = .ok cs' ∧
            cs'.stack = stackOf ((ctx ++ cs_.map (fun s => (true, s)) ++ [(false, r.hash H)]) ++ l.firstCtx H) ∧
            cs'.taken = (l.first (pos ++ seg ++ [false]) (off + cs_.length)).uEnd ∧
            cs'.bisIdx = b0 + ((if cs_.length > 0 then 1 else 0) + l.leftBisN) ∧ cs'.termIdx = cs.termIdx + 1 := by
        intro c2 h1 h2 h3 h4
        rw [extend_ok _ _ _ _ (by omega) (by omega)]
        simp only
        obtain ⟨cs', hr, hs', ht', hb', hti'⟩ := ihl (pos ++ seg ++ [false]) (off + cs_.length)
          (ctx ++ cs_.map (fun s => (true, s)) ++ [(false, r.hash H)]) (b0 + 1) f false
          { c2 with stack := pushSibs c2.stack (pos.length + 1) ((v.siblings.drop c2.taken).take (off + cs_.length - c2.taken)),
                    taken := off + cs_.length,
                    bisStack := { startDepth := pos.length, cStart := off, cEnd := off + cs_.length } :: c2.bisStack }
          hwl hctx' (by simpa using hbis.left.right) hsib.left.right h3 rfl
          (by
            simp only [h1, h2, hst]
            have e1 : off + cs_.length - off = cs_.length := by omega
            rw [e1, hsib.left.left.slice, pushSibs_eq_pushC, stackOf_snoc_false, stackOf_append, hctx, Nat.add_comm])
          (by intro h; cases h) (by simp only [hcs, if_true] at hfuel; omega)
        refine ⟨cs', hr, hs', ht', ?_, by rw [hti']; exact congrArg (· + 1) h4⟩
        rw [hb']; simp only [hcs, if_true]; omega
      unfold advanceLoop
      simp only [hne, Bool.false_eq_true, if_false, hbi, hb0]
      have hne2 : ¬ (off ≠ cs.taken) := by rw [htk]; simp
      simp only [hne2, if_false]
      cases prune with
      | true =>
        simp only [if_true]
        exact hcs2 _ (popTo_stack _ _ (hpr rfl)) htk rfl rfl
      | false =>
        simp only [Bool.false_eq_true, if_false]
        exact hcs2 _ rfl htk rfl rfl
    · -- no common bits: nothing recorded, the chain continues on the `0`-side
      have hcs0 : cs_.length = 0 := by omega
      have hown : PTree.ownBis pos off cs_ = [] := by simp [PTree.ownBis, hcs]
      rw [hown] at hbis
      obtain ⟨cs', hr, hs', ht', hb', hti'⟩ := ihl (pos ++ seg ++ [false]) (off + cs_.length)
        (ctx ++ cs_.map (fun s => (true, s)) ++ [(false, r.hash H)]) b0 fuel prune cs
        hwl hctx' (by simpa using hbis.left.right) hsib.left.right hbi (by omega)
        (by
          have : cs_ = [] := List.length_eq_zero_iff.1 hcs0
          subst this
          simp only [List.map_nil, List.append_nil]
          rw [stackOf_snoc_false]; exact hst)
        (by
          intro hp e he
          have := hpr hp e he
          simp only [List.length_append, List.length_singleton]; omega)
        (by simp only [hcs, if_false, Nat.zero_add] at hfuel; exact hfuel)
      refine ⟨cs', hr, hs', ht', ?_, hti'⟩
      rw [hb']; simp [hcs]


/-! ### the upward loop of `hash_and_compact_terminal` -/

theorem hashUpV_layer (path : List Bool) (sibs : List Node) : ∀ (up layer : Nat) (node : Node) (st : Stack Node),
    (hashUpV H path sibs up layer node st).2.1 = layer - up := by
  intro up
  induction up with
  | zero => intro layer node st; rfl
  | succ up ih =>
    intro layer node st
    simp only [hashUpV]
    rw [ih]; omega

theorem take_succ_getElem? {α : Type} (l : List α) (m : Nat) (x : α) (h : l[m]? = some x) :
    l.take (m + 1) = l.take m ++ [x] := by
  rw [List.take_add_one, h]; rfl

/-- **the loop of `hash_and_compact_terminal` against the single-path loop.**  `full` = the siblings of
the terminal's position; the `CommonSiblings` stack holds the proof-supplied ones up to the current
layer; the pending stack has an entry exactly at the bisection layers in `(ℓ - up, ℓ]`.  Then
`pop_if_at_depth(cur_layer).unwrap()` never fails and the loop computes `hashUpV`. -/
theorem hctLoop_sim (pth : List Bool) (full : Ctx Node) :
    ∀ (up ℓ : Nat) (node : Node) (P : Stack Node) (cs : CommonSiblings Node),
      up ≤ ℓ → ℓ ≤ full.length →
      cs.stack = stackOf (full.take ℓ) →
      P.Pairwise (fun a b => b.2 < a.2) → (∀ e ∈ P, e.2 ≤ ℓ) →
      (∀ d, ℓ - up < d → d ≤ ℓ → ((∃ x, (x, d) ∈ P) ↔ ∃ s, full[d-1]? = some (false, s))) →
      ∃ cs', hctLoop H pth up ℓ node P cs =
          .ok ((hashUpV H pth (full.map (·.2)) up ℓ node P).1,
               (hashUpV H pth (full.map (·.2)) up ℓ node P).2.2, cs') ∧
        cs'.stack = stackOf (full.take (ℓ - up)) ∧ cs'.taken = cs.taken ∧ cs'.bisIdx = cs.bisIdx ∧
        cs'.termIdx = cs.termIdx ∧
        (hashUpV H pth (full.map (·.2)) up ℓ node P).2.2 = P.dropWhile (fun e => decide (e.2 > ℓ - up)) := by
  intro up
  induction up with
  | zero =>
    intro ℓ node P cs _ _ hst _ hle _
    refine ⟨cs, rfl, by simpa using hst, rfl, rfl, rfl, ?_⟩
    simp only [hashUpV, Nat.sub_zero]
    symm
    apply dropWhile_eq_self
    intro x hx
    have := hle x hx
    simp; omega
  | succ up ih =>
    intro ℓ node P cs hup hℓ hst hsorted hle hiff
    obtain ⟨m, rfl⟩ : ∃ m, ℓ = m + 1 := ⟨ℓ - 1, by omega⟩
    have hm : m < full.length := by omega
    obtain ⟨⟨flag, s⟩, hfm⟩ : ∃ x, full[m]? = some x := ⟨full[m], List.getElem?_eq_getElem hm⟩
    have htake := take_succ_getElem? full m _ hfm
    have hsibs : (full.map (·.2)).getD m H.term = s := by
      simp [List.getD, List.getElem?_map, hfm]
    have hsub : m + 1 - (up + 1) = m - up := by omega
    -- the recursive call
    have hrec : ∀ (node' : Node) (P' : Stack Node) (c1 : CommonSiblings Node),
        c1.stack = stackOf (full.take m) → c1.taken = cs.taken → c1.bisIdx = cs.bisIdx → c1.termIdx = cs.termIdx →
        P'.Pairwise (fun a b => b.2 < a.2) → (∀ e ∈ P', e.2 ≤ m) →
        (∀ d, m - up < d → d ≤ m → ((∃ x, (x, d) ∈ P') ↔ ∃ x, (x, d) ∈ P)) →
        ∃ cs', hctLoop H pth up m node' P' c1 =
            .ok ((hashUpV H pth (full.map (·.2)) up m node' P').1,
                 (hashUpV H pth (full.map (·.2)) up m node' P').2.2, cs') ∧
          cs'.stack = stackOf (full.take (m - up)) ∧ cs'.taken = cs.taken ∧ cs'.bisIdx = cs.bisIdx ∧
          cs'.termIdx = cs.termIdx ∧
          (hashUpV H pth (full.map (·.2)) up m node' P').2.2 = P'.dropWhile (fun e => decide (e.2 > m - up)) := by
      intro node' P' c1 h1 h2 h3 h4 hs' hle' hiff'
      obtain ⟨cs', hr, a, b, c, d, e⟩ := ih m node' P' c1 (by omega) (by omega) h1 hs' hle' (by
        intro d hd1 hd2
        rw [hiff' d hd1 hd2]
        exact hiff d (by omega) (by omega))
      exact ⟨cs', hr, a, b.trans h2, c.trans h3, d.trans h4, e⟩
    rw [hsub]
    have hiffTop := hiff (m + 1) (by omega) (Nat.le_refl _)
    simp only [Nat.add_sub_cancel, hfm, Option.some.injEq, Prod.mk.injEq] at hiffTop
    -- is the pending top at this layer?
    by_cases htop : ∃ n rest, P = (n, m + 1) :: rest
    · obtain ⟨n, rest, rfl⟩ := htop
      have hflag : flag = false := by
        obtain ⟨s', h1, _⟩ := hiffTop.1 ⟨n, by simp⟩
        exact h1
      subst hflag
      have hmiss : cs.popIfAtDepth (m + 1) = (none, cs) := by
        apply popIfAtDepth_miss
        intro e he
        rw [hst, htake, stackOf_snoc_false] at he
        have := (mem_stackOf _ e he).2
        simp only [List.length_take] at this
        omega
      obtain ⟨hhead, hrest⟩ := List.pairwise_cons.1 hsorted
      obtain ⟨cs', hr, a, b, c, d, e⟩ := hrec (compactStep H (pth.getD m false) node n) rest cs
        (by rw [hst, htake, stackOf_snoc_false]) rfl rfl rfl hrest
        (by intro e he; have := hhead e he; omega)
        (by
          intro d hd1 hd2
          constructor
          · rintro ⟨x, hx⟩; exact ⟨x, List.mem_cons_of_mem _ hx⟩
          · rintro ⟨x, hx⟩
            rcases List.mem_cons.1 hx with h | h
            · injection h with _ h; omega
            · exact ⟨x, h⟩)
      refine ⟨cs', ?_, a, b, c, d, ?_⟩
      · simp only [hctLoop, hashUpV, Nat.add_sub_cancel, beq_self_eq_true, if_true, hmiss]
        exact hr
      · simp only [hashUpV, Nat.add_sub_cancel, beq_self_eq_true, if_true]
        rw [e]
        have : decide ((n, m + 1).2 > m - up) = true := by simp; omega
        simp [List.dropWhile, this]
    · -- no: the sibling comes from the proof
      have hnone : ¬ ∃ x, (x, m + 1) ∈ P := by
        rintro ⟨x, hx⟩
        cases P with
        | nil => cases hx
        | cons y rest =>
          obtain ⟨hhead, _⟩ := List.pairwise_cons.1 hsorted
          rcases List.mem_cons.1 hx with h | h
          · exact htop ⟨x, rest, by rw [h]⟩
          · have h1 := hhead _ h
            have h2 := hle y (by simp)
            simp only at h1
            omega
      have hflag : flag = true := by
        cases flag with
        | true => rfl
        | false => exact absurd (hiffTop.2 ⟨s, rfl, rfl⟩) hnone
      subst hflag
      have hhit : cs.popIfAtDepth (m + 1) = (some s, { cs with stack := stackOf (full.take m) }) := by
        apply popIfAtDepth_hit
        rw [hst, htake, stackOf_snoc_true]
        simp only [List.length_take]
        have : min m full.length = m := by omega
        rw [this]
      have hPle : ∀ e ∈ P, e.2 ≤ m := by
        intro e he
        have h1 := hle e he
        by_cases h2 : e.2 = m + 1
        · exact absurd ⟨e.1, by rw [← h2]; exact he⟩ hnone
        · omega
      obtain ⟨cs', hr, a, b, c, d, e⟩ := hrec (compactStep H (pth.getD m false) node s) P
        { cs with stack := stackOf (full.take m) } rfl rfl rfl rfl hsorted hPle (fun _ _ _ => Iff.rfl)
      refine ⟨cs', ?_, a, b, c, d, ?_⟩
      · cases P with
        | nil =>
          simp only [hctLoop, hashUpV, Nat.add_sub_cancel, hhit, hsibs]
          exact hr
        | cons y rest =>
          obtain ⟨n, l⟩ := y
          have hne : (l == m + 1) = false := beq_false_of_ne (fun h => htop ⟨n, rest, by rw [h]⟩)
          simp only [hctLoop, hashUpV, Nat.add_sub_cancel, hne, Bool.false_eq_true, if_false, hhit, hsibs]
          exact hr
      · cases P with
        | nil =>
          simp only [hashUpV, Nat.add_sub_cancel, hsibs]
          rw [e]
        | cons y rest =>
          obtain ⟨n, l⟩ := y
          have hne : (l == m + 1) = false := beq_false_of_ne (fun h => htop ⟨n, rest, by rw [h]⟩)
          simp only [hashUpV, Nat.add_sub_cancel, hne, Bool.false_eq_true, if_false, hsibs]
          rw [e]

end Nomt
