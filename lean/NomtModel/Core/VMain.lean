import NomtModel.Core.VBlock
set_option linter.unusedSectionVars false
set_option linter.unusedVariables false
namespace Nomt
variable {Node VH : Type} [DecidableEq Node] [DecidableEq VH] (H : Hasher Node VH)

def blockResultV (fuel e : Nat) (q : List Bool) (S' : List (Key × VH)) (pl : PathUpd Node)
    (next : Option (List Bool)) (σ : Stack Node) : Stack Node :=
  let r := hashUpV H pl.path pl.siblings (e - tgtV next pl.path) e (nodeAt H fuel e (restrict 0 q S')) σ
  (r.1, r.2.1) :: r.2.2

theorem take_succ_bits (l : List Bool) (e : Nat) (h : e < l.length) :
    l.take (e+1) = l.take e ++ [l.getD e false] := take_succ_of_getD l e h

theorem runV_block (hs : H.Sound) (L : Nat) (S' : List (Key × VH)) (hc' : Canon L 0 S') :
    ∀ (fuel e : Nat) (q : List Bool) (Q : List (PathUpd Node)) (next : Option (List Bool))
      (σ : Stack Node) (pl : PathUpd Node),
      e + fuel = L → q.length = e →
      Q.getLast? = some pl →
      PCanon fuel e Q →
      (∀ p ∈ Q, p.path.take e = q) →
      (∀ p ∈ Q, PathOK H L S' Q e p) →
      (∀ c, next = some c → ∀ p ∈ Q, shared c p.path < e) →
      (∀ x ∈ σ, x.2 ≤ e) →
      runV H Q next σ = blockResultV H fuel e q S' pl next σ := by
  intro fuel
  induction fuel with
  | zero =>
    intro e q Q next σ pl hL hq hlast hpc hpre hok hnext hσ
    match Q, hpc with
    | [], _ => simp at hlast
    | p :: rest, ⟨hrest, hplen⟩ =>
      subst hrest
      simp only [List.getLast?_singleton, Option.some.injEq] at hlast
      subst hlast
      have hpq : p.path = q := by
        have := hpre p (by simp); rw [List.take_of_length_le (by omega)] at this; exact this
      have hsub := (hok p (by simp)).sub
      rw [hplen, hpq] at hsub
      have hLe : L - e = 0 := by omega
      simp only [runV, stepPath, blockResultV, hplen, hsub, hLe]
  | succ f ih =>
    intro e q Q next σ pl hL hq hlast hpc hpre hok hnext hσ
    match Q, hpc with
    | [], _ => simp at hlast
    | p :: rest, Or.inl ⟨hrest, hplen⟩ =>
      subst hrest
      simp only [List.getLast?_singleton, Option.some.injEq] at hlast
      subst hlast
      have hpq : p.path = q := by
        have := hpre p (by simp); rw [List.take_of_length_le (by omega)] at this; exact this
      have hsub := (hok p (by simp)).sub
      rw [hplen, hpq] at hsub
      have hLe : L - e = f + 1 := by omega
      simp only [runV, stepPath, blockResultV, hplen, hsub, hLe]
    | p :: rest, Or.inr ⟨hlen, hsplit, pc0, pc1⟩ =>
      generalize hQdef : p :: rest = Q at *
      -- facts about the last path
      have hplQ : pl ∈ Q := List.mem_of_getLast? hlast
      have hpllen : e < pl.path.length := hlen pl hplQ
      have htpl : tgtV next pl.path ≤ e := by
        cases next with
        | none => simp [tgtV]
        | some c => have := hnext c rfl pl hplQ; simp only [tgtV]; omega
      -- the new set restricted to the block position
      have hX : Canon (f+1) e (restrict 0 q S') := by
        have := Canon_restrict q (f+1) 0 S' (by rw [hq]; rw [show f + 1 + e = L by omega]; exact hc')
        simpa [hq] using this
      have hside : ∀ b, restrict 0 (q ++ [b]) S' = side e b (restrict 0 q S') := by
        intro b; rw [restrict_append]; simp [hq]
      have harith : e + 1 - tgtV next pl.path = (e - tgtV next pl.path) + 1 := by omega
      have hLf : L - (e + 1) = f := by omega
      -- generic facts for sub-blocks
      have hsubpre : ∀ b, ∀ x ∈ sideP e b Q, x.path.take (e+1) = q ++ [b] := by
        intro b x hx
        obtain ⟨hxQ, hxb⟩ := mem_sideP.mp hx
        rw [take_succ_bits x.path e (hlen x hxQ), hpre x hxQ, hxb]
      have hsubok : ∀ b, ∀ x ∈ sideP e b Q, PathOK H L S' (sideP e b Q) (e+1) x := by
        intro b x hx
        exact PathOK_mono H L S' Q _ e b x rfl hx (fun y hy => by rw [hpre y hy, hpre x (mem_sideP.mp hx).1])
          hlen (hok x (mem_sideP.mp hx).1)
      cases h1 : sideP e true Q with
      | nil =>
        -- every path continues with bit 0
        have h0 : sideP e false Q = Q := by rw [h1] at hsplit; simpa using hsplit.symm
        rw [h0] at pc0
        have hbit : pl.path.getD e false = false := by
          have : pl ∈ sideP e false Q := by rw [h0]; exact hplQ
          exact (mem_sideP.mp this).2
        have hrec := ih (e+1) (q ++ [false]) Q next σ pl (by omega) (by simp [hq]) hlast pc0
          (by intro x hx; exact hsubpre false x (by rw [h0]; exact hx))
          (by intro x hx; have := hsubok false x (by rw [h0]; exact hx); rw [h0] at this; exact this)
          (by intro c hc x hx; have := hnext c hc x hx; omega)
          (by intro x hx; have := hσ x hx; omega)
        rw [hrec]
        simp only [blockResultV]
        rw [harith, hashUpV_peel_proof H pl.path pl.siblings _ e _ σ hσ, hbit]
        -- the proof sibling is the specified node of the (untouched) right half
        have hsib := (hok pl hplQ).sib e (Nat.le_refl e) hpllen (by
          intro p' hp' hpref
          rw [hbit] at hpref
          have hb := prefix_snoc_getD (pl.path.take e) p'.path (!false) hpref
          have hl : (pl.path.take e).length = e := by simp; omega
          rw [hl] at hb
          have : p' ∈ sideP e true Q := mem_sideP.mpr ⟨hp', by simpa using hb⟩
          rw [h1] at this; cases this)
        rw [hsib, hbit, hpre pl hplQ, hLf, hside, hside]
        have := compact_spec H hs f e (restrict 0 q S') hX false
        simp only [Bool.not_false] at this ⊢
        rw [this]
      | cons b1 t1 =>
        cases h0 : sideP e false Q with
        | nil =>
          -- every path continues with bit 1
          have h1' : sideP e true Q = Q := by rw [h0] at hsplit; simpa using hsplit.symm
          rw [h1'] at pc1
          have hbit : pl.path.getD e false = true := by
            have : pl ∈ sideP e true Q := by rw [h1']; exact hplQ
            exact (mem_sideP.mp this).2
          have hrec := ih (e+1) (q ++ [true]) Q next σ pl (by omega) (by simp [hq]) hlast pc1
            (by intro x hx; exact hsubpre true x (by rw [h1']; exact hx))
            (by intro x hx; have := hsubok true x (by rw [h1']; exact hx); rw [h1'] at this; exact this)
            (by intro c hc x hx; have := hnext c hc x hx; omega)
            (by intro x hx; have := hσ x hx; omega)
          rw [hrec]
          simp only [blockResultV]
          rw [harith, hashUpV_peel_proof H pl.path pl.siblings _ e _ σ hσ, hbit]
          have hsib := (hok pl hplQ).sib e (Nat.le_refl e) hpllen (by
            intro p' hp' hpref
            rw [hbit] at hpref
            have hb := prefix_snoc_getD (pl.path.take e) p'.path (!true) hpref
            have hl : (pl.path.take e).length = e := by simp; omega
            rw [hl] at hb
            have : p' ∈ sideP e false Q := mem_sideP.mpr ⟨hp', by simpa using hb⟩
            rw [h0] at this; cases this)
          rw [hsib, hbit, hpre pl hplQ, hLf, hside, hside]
          have := compact_spec H hs f e (restrict 0 q S') hX true
          simp only [Bool.not_true] at this ⊢
          rw [this]
        | cons b0 t0 =>
          -- both halves contain paths
          rw [h0] at pc0
          rw [h1] at pc1
          have mem0 : ∀ x ∈ b0 :: t0, x ∈ Q ∧ x.path.getD e false = false := by
            intro x hx; rw [← h0] at hx; exact mem_sideP.mp hx
          have mem1 : ∀ x ∈ b1 :: t1, x ∈ Q ∧ x.path.getD e false = true := by
            intro x hx; rw [← h1] at hx; exact mem_sideP.mp hx
          have hcross : ∀ x0 ∈ b0 :: t0, ∀ x1 ∈ b1 :: t1, shared x1.path x0.path = e := by
            intro x0 hx0 x1 hx1
            have m0 := mem0 x0 hx0
            have m1 := mem1 x1 hx1
            apply shared_eq_of_take e x1.path x0.path
            · rw [hpre x1 m1.1, hpre x0 m0.1]
            · exact hlen x1 m1.1
            · exact hlen x0 m0.1
            · rw [m0.2, m1.2]; simp
          obtain ⟨init0, l0, hinit⟩ : ∃ init l, b0 :: t0 = init ++ [l] :=
            ⟨(b0 :: t0).dropLast, (b0 :: t0).getLast (by simp),
              (List.dropLast_concat_getLast (by simp)).symm⟩
          have hl0 : l0 ∈ b0 :: t0 := by rw [hinit]; simp
          have hQeq : Q = init0 ++ l0 :: (b1 :: t1) := by
            calc Q = sideP e false Q ++ sideP e true Q := hsplit
              _ = init0 ++ l0 :: (b1 :: t1) := by rw [h0, h1, hinit]; simp
          have hrun : runV H Q next σ =
              runV H (b1 :: t1) next (runV H (b0 :: t0) (some b1.path) σ) := by
            conv => lhs; rw [hQeq]
            rw [runV_append, ← hinit]
          rw [hrun]
          -- left half
          have hlast0 : (b0 :: t0).getLast? = some l0 := by rw [hinit]; simp
          have hrec0 := ih (e+1) (q ++ [false]) (b0 :: t0) (some b1.path) σ l0 (by omega) (by simp [hq])
            hlast0 pc0
            (by intro x hx; exact hsubpre false x (by rw [h0]; exact hx))
            (by intro x hx; have := hsubok false x (by rw [h0]; exact hx); rw [h0] at this; exact this)
            (by intro c hc x hx
                injection hc with hc; subst hc
                have := hcross x hx b1 (by simp); omega)
            (by intro x hx; have := hσ x hx; omega)
          have ht0 : tgtV (some b1.path) l0.path = e + 1 := by
            simp [tgtV, hcross l0 hl0 b1 (by simp)]
          have hres0 : runV H (b0 :: t0) (some b1.path) σ =
              (nodeAt H f (e+1) (restrict 0 (q ++ [false]) S'), e+1) :: σ := by
            rw [hrec0]; simp [blockResultV, ht0, hashUpV]
          rw [hres0]
          -- right half
          have hlast1 : (b1 :: t1).getLast? = some pl := by
            have := hlast
            rw [hQeq, show init0 ++ l0 :: (b1 :: t1) = (init0 ++ [l0]) ++ (b1 :: t1) by simp,
              List.getLast?_append] at this
            cases hgl : (b1 :: t1).getLast? with
            | none => simp at hgl
            | some z => rw [hgl] at this; simpa using this
          have hpl1 : pl ∈ b1 :: t1 := List.mem_of_getLast? hlast1
          have hbit : pl.path.getD e false = true := (mem1 pl hpl1).2
          have hrec1 := ih (e+1) (q ++ [true]) (b1 :: t1) next
            ((nodeAt H f (e+1) (restrict 0 (q ++ [false]) S'), e+1) :: σ) pl (by omega) (by simp [hq])
            hlast1 pc1
            (by intro x hx; exact hsubpre true x (by rw [h1]; exact hx))
            (by intro x hx; have := hsubok true x (by rw [h1]; exact hx); rw [h1] at this; exact this)
            (by intro c hc x hx; have := hnext c hc x (mem1 x hx).1; omega)
            (by intro x hx
                simp only [List.mem_cons] at hx
                rcases hx with hx | hx
                · subst hx; simp
                · have := hσ x hx; omega)
          rw [hrec1]
          simp only [blockResultV]
          rw [harith, hashUpV_peel_pop, hbit, hside, hside]
          have := compact_spec H hs f e (restrict 0 q S') hX true
          simp only [Bool.not_true] at this
          rw [this]
end Nomt
