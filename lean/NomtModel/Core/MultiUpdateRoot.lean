import NomtModel.Core.MultiUpdateSpec
import NomtModel.Core.MultiGlue
/-!
**Root correctness of the multi-proof update** (C07 / T7.3 of the plan).  The path proofs reconstructed
from an accepted multi-proof (`PTree.pins`: route, terminal, full sibling list — common and unique
siblings from the proof, the other side of each bisection from the verified hashes) are outputs of
`PathProof::verify` against the same root; `multiVerifyUpdate` is the single-path `verifyUpdate` on them
(`multiVerifyUpdate_spec`), which returns the root of the updated set (`MGlue.verifyUpdate_eq_kvApply`).
-/
set_option linter.unusedSectionVars false
namespace Nomt
variable {Node VH : Type} [DecidableEq Node] [DecidableEq VH] (H : Hasher Node VH)

namespace PTree

/-- the inputs of `verify_update` (path_proof.rs) reconstructed from the multi-proof -/
def pins (A : Nat → List (Key × Option VH)) (root : Node) :
    List Bool → Ctx Node → Nat → PTree Node VH → List (PathUpdateIn Node VH)
  | pos, ctx, i0, tip t seg us =>
    [{ inner := { path := pos ++ seg, terminal := t.asLeaf, siblings := ctx.map (·.2) ++ us, root := root },
       ops := A i0 }]
  | pos, ctx, i0, fork seg cs l r =>
    l.pins A root (pos ++ seg ++ [false]) (ctx ++ cs.map (fun s => (true, s)) ++ [(false, r.hash H)]) i0 ++
      r.pins A root (pos ++ seg ++ [true]) (ctx ++ cs.map (fun s => (true, s)) ++ [(false, l.hash H)]) (i0 + l.size)

theorem pins_map_toUpd (A : Nat → List (Key × Option VH)) (root : Node) : ∀ (T : PTree Node VH) (pos : List Bool)
    (ctx : Ctx Node) (i0 : Nat), (T.pins H A root pos ctx i0).map (toUpd H) = T.upds H A pos ctx i0
  | tip _ _ _, _, _, _ => by simp [pins, upds, toUpd]
  | fork _ _ l r, _, _, _ => by
    simp only [pins, upds, List.map_append, pins_map_toUpd A root l, pins_map_toUpd A root r]

theorem pins_ne_nil (A : Nat → List (Key × Option VH)) (root : Node) : ∀ (T : PTree Node VH) (pos : List Bool)
    (ctx : Ctx Node) (i0 : Nat), T.pins H A root pos ctx i0 ≠ []
  | tip _ _ _, _, _, _ => by simp [pins]
  | fork _ _ l _, _, _, _ => by
    simp only [pins, ne_eq, List.append_eq_nil_iff, not_and]
    intro h; exact absurd h (pins_ne_nil A root l _ _ _)

/-- each reconstructed path proof verifies against the root (as `PathProof::verify` would) -/
theorem pins_verified (A : Nat → List (Key × Option VH)) (L : Nat) (root : Node) :
    ∀ (T : PTree Node VH) (pos : List Bool) (ctx : Ctx Node) (i0 : Nat),
      T.WF → ctx.length = pos.length → root = hashPath H (T.hash H) pos (ctx.map (·.2)) →
      ∀ p ∈ T.pins H A root pos ctx i0, p.inner.path.length ≤ L →
        ∃ P, verify H L P p.inner.path root = .ok p.inner := by
  intro T
  induction T with
  | tip t seg us =>
    intro pos ctx i0 hwf hctx hroot p hp hlen
    simp only [pins, List.mem_singleton] at hp
    subst hp
    simp only [WF] at hwf
    simp only [List.length_append] at hlen
    refine ⟨{ terminal := t, siblings := ctx.map (·.2) ++ us }, ?_⟩
    have hsl : (ctx.map (·.2) ++ us).length = (pos ++ seg).length := by simp [hctx, hwf]
    unfold verify
    simp only
    rw [if_neg (by rw [hsl]; simp only [List.length_append]; omega), hsl, List.take_length]
    have hh : hashPath H (t.node H) (pos ++ seg) (ctx.map (·.2) ++ us) = root := by
      rw [hroot, hashPath_append H _ pos seg _ _ (by simp [hctx])]; rfl
    rw [if_pos hh]
    cases t <;> rfl
  | fork seg cs l r ihl ihr =>
    intro pos ctx i0 hwf hctx hroot p hp hlen
    obtain ⟨hsc, hwl, hwr⟩ := hwf
    simp only [pins, List.mem_append] at hp
    have hm : ∀ (x : Node), (ctx ++ cs.map (fun s => (true, s)) ++ [(false, x)]).map (·.2) = ctx.map (·.2) ++ cs ++ [x] := by
      intro x; simp [List.map_append, Function.comp_def]
    have hl1 : (ctx.map (·.2) ++ cs).length = (pos ++ seg).length := by simp [hctx, hsc]
    have hl2 : (ctx.map (·.2)).length = pos.length := by simp [hctx]
    rcases hp with hp | hp
    · apply ihl (pos ++ seg ++ [false]) _ i0 hwl (by simp [hctx, hsc]) _ p hp hlen
      rw [hm, hashPath_append H _ (pos ++ seg) [false] _ _ hl1, hashPath_append H _ pos seg _ _ hl2, hroot]
      rfl
    · apply ihr (pos ++ seg ++ [true]) _ (i0 + l.size) hwr (by simp [hctx, hsc]) _ p hp hlen
      rw [hm, hashPath_append H _ (pos ++ seg) [true] _ _ hl1, hashPath_append H _ pos seg _ _ hl2, hroot]
      rfl

/-- each reconstructed path proof corresponds to a verified path of the multi-proof -/
theorem pins_spec (A : Nat → List (Key × Option VH)) (root : Node) :
    ∀ (T : PTree Node VH) (pos : List Bool) (ctx : Ctx Node) (i0 off : Nat),
      ∀ p ∈ T.pins H A root pos ctx i0, ∃ k vp, k < T.size ∧ (T.vpaths pos off)[k]? = some vp ∧
        p.inner.path = vp.route ∧ p.inner.terminal = vp.terminal.asLeaf ∧ p.ops = A (i0 + k) := by
  intro T
  induction T with
  | tip t seg us =>
    intro pos ctx i0 off p hp
    simp only [pins, List.mem_singleton] at hp
    subst hp
    exact ⟨0, _, by simp [size], rfl, rfl, rfl, rfl⟩
  | fork seg cs l r ihl ihr =>
    intro pos ctx i0 off p hp
    simp only [pins, List.mem_append] at hp
    rcases hp with hp | hp
    · obtain ⟨k, vp, hk, hget, h1, h2, h3⟩ := ihl _ _ i0 (off + cs.length) p hp
      refine ⟨k, vp, by simp only [size]; omega, ?_, h1, h2, h3⟩
      simp only [vpaths]
      rw [List.getElem?_append_left (by rw [vpaths_length]; exact hk)]
      exact hget
    · obtain ⟨k, vp, hk, hget, h1, h2, h3⟩ := ihr _ _ (i0 + l.size) (off + cs.length + l.used) p hp
      refine ⟨l.size + k, vp, by simp only [size]; omega, ?_, h1, h2, by rw [h3, Nat.add_assoc]⟩
      simp only [vpaths]
      rw [List.getElem?_append_right (by rw [vpaths_length]; omega), vpaths_length]
      have : l.size + k - l.size = k := by omega
      rw [this]; exact hget

theorem pins_prefix (A : Nat → List (Key × Option VH)) (root : Node) :
    ∀ (T : PTree Node VH) (pos : List Bool) (ctx : Ctx Node) (i0 : Nat),
      ∀ p ∈ T.pins H A root pos ctx i0, pos <+: p.inner.path := by
  intro T
  induction T with
  | tip t seg us =>
    intro pos ctx i0 p hp
    simp only [pins, List.mem_singleton] at hp
    subst hp
    exact List.prefix_append _ _
  | fork seg cs l r ihl ihr =>
    intro pos ctx i0 p hp
    simp only [pins, List.mem_append] at hp
    rcases hp with hp | hp
    · exact (by simp [List.append_assoc] : pos <+: pos ++ seg ++ [false]).trans (ihl _ _ _ p hp)
    · exact (by simp [List.append_assoc] : pos <+: pos ++ seg ++ [true]).trans (ihr _ _ _ p hp)

theorem pins_sorted (A : Nat → List (Key × Option VH)) (root : Node) :
    ∀ (T : PTree Node VH) (pos : List Bool) (ctx : Ctx Node) (i0 : Nat),
      (T.pins H A root pos ctx i0).Pairwise (fun a b => bitsLt a.inner.path b.inner.path = true) := by
  intro T
  induction T with
  | tip t seg us => intro pos ctx i0; simp [pins]
  | fork seg cs l r ihl ihr =>
    intro pos ctx i0
    simp only [pins]
    refine List.pairwise_append.2 ⟨ihl _ _ _, ihr _ _ _, ?_⟩
    intro a ha b hb
    have hnp : ¬ (pos ++ seg ++ [false]) <+: (pos ++ seg ++ [true]) := by simp
    exact bl_extend _ _ _ _ (bitsLt_snoc (pos ++ seg)) hnp (pins_prefix H A root l _ _ _ a ha)
      (pins_prefix H A root r _ _ _ b hb)

theorem pins_allOps (A : Nat → List (Key × Option VH)) (root : Node) :
    ∀ (T : PTree Node VH) (pos : List Bool) (ctx : Ctx Node) (i0 : Nat),
      opsUpTo A (i0 + T.size) = opsUpTo A i0 ++ allOps (T.pins H A root pos ctx i0) := by
  intro T
  induction T with
  | tip t seg us => intro pos ctx i0; simp [pins, size, opsUpTo, allOps]
  | fork seg cs l r ihl ihr =>
    intro pos ctx i0
    simp only [pins, size]
    rw [← Nat.add_assoc, ihr (pos ++ seg ++ [true]) (ctx ++ cs.map (fun s => (true, s)) ++ [(false, l.hash H)]),
      ihl (pos ++ seg ++ [false]) (ctx ++ cs.map (fun s => (true, s)) ++ [(false, r.hash H)])]
    simp [allOps, List.flatMap_append]

end PTree

variable {H} {L : Nat} {v : VerifiedMulti Node VH} {T : PTree Node VH}

/-- an accepted multi-proof against the root of a canonical set of `L`-bit keys: leaf keys are `L`-bit
keys, no depth exceeds `L` -/
theorem MCtx.of_canon (hs : H.Sound) (S : List (Key × VH)) (hc : Canon L 0 S) (hlen : ∀ kv ∈ S, kv.1.length = L)
    (mp : MultiProof Node VH) (hv : verifyMulti H mp (nodeAt H L 0 S) = .ok v) (hT : TreeOf H v T) :
    MCtx H L v T := by
  have hroutes := verifyMulti_routes H hs L S hc mp v hv
  refine ⟨hT, ?_, ?_⟩
  · intro vp hvp k x ht
    obtain ⟨_, hterm⟩ := hroutes vp hvp
    rw [ht] at hterm
    simp only [TermOK] at hterm
    have : (k, x) ∈ restrict 0 vp.route S := by rw [hterm]; simp
    exact hlen _ ((restrict_sublist _ _ _).subset this)
  · intro vp hvp
    obtain ⟨hl, _⟩ := hroutes vp hvp
    have hvp' := hvp
    rw [hT.inner] at hvp'
    obtain ⟨_, h2, _⟩ := PTree.vpaths_route T [] 0 hT.al vp hvp'
    omega

/-- **root correctness (soundness form)**: an `ok` verdict of the multi-proof update, on a multi-proof
accepted against the root of `S`, is the root of `kvApply S ops` — whatever ops the caller supplied. -/
theorem multiVerifyUpdate_sound (hs : H.Sound) (S : List (Key × VH)) (hc : Canon L 0 S)
    (hlen : ∀ kv ∈ S, kv.1.length = L) (mp : MultiProof Node VH)
    (hv : verifyMulti H mp (nodeAt H L 0 S) = .ok v) (ops : List (Key × Option VH))
    (hol : ∀ o ∈ ops, o.1.length = L) (r : Node) (h : multiVerifyUpdate H L v ops = .ok r) :
    r = nodeAt H L 0 (kvApply S ops) := by
  obtain ⟨T, hT, _⟩ := verifyMulti_tree H mp _ v hv
  have c := MCtx.of_canon hs S hc hlen mp hv hT
  have hroot : v.root = nodeAt H L 0 S := (verifyMulti_ok H mp _ v hv).2.choose_spec.2.2.2.2.2.2
  by_cases hne : ops = []
  · subst hne
    simp only [multiVerifyUpdate, List.isEmpty_nil, if_true] at h
    injection h with h
    rw [← h, hroot]; rfl
  · obtain ⟨A, hsafe, hops, hsorted, hcover, hr⟩ := (multiVerifyUpdate_spec c ops hol).2.1 r h hne
    rw [hr, ← PTree.pins_map_toUpd H A v.root T [] [] 0]
    have hall : allOps (T.pins H A v.root [] [] 0) = ops := by
      have := PTree.pins_allOps H A v.root T [] [] 0
      rw [Nat.zero_add] at this
      have hl : v.inner.length = T.size := by rw [hT.inner, PTree.vpaths_length]
      rw [← hl, hops] at this
      simpa [opsUpTo] using this.symm
    have hspec := PTree.pins_spec H A v.root T [] [] 0 0
    have hvp : ∀ p ∈ T.pins H A v.root [] [] 0, ∃ k vp, v.inner[k]? = some vp ∧ vp ∈ v.inner ∧
        p.inner.path = vp.route ∧ p.ops = A k := by
      intro p hp
      obtain ⟨k, vp, _, hget, h1, _, h3⟩ := hspec p hp
      rw [← hT.inner] at hget
      exact ⟨k, vp, hget, List.mem_of_getElem? hget, h1, by rw [h3, Nat.zero_add]⟩
    have hsub : ∀ i, i < v.inner.length → (A i).Sublist ops := by
      intro i hi
      rw [← hops]
      have e : v.inner.length = (i + 1) + (v.inner.length - (i + 1)) := by omega
      rw [e]
      generalize v.inner.length - (i + 1) = m
      induction m with
      | zero => simp only [Nat.add_zero, opsUpTo]; exact List.sublist_append_right _ _
      | succ m ih => rw [← Nat.add_assoc]; simp only [opsUpTo]; exact ih.trans (List.sublist_append_left _ _)
    have g : MGlue H L S (T.pins H A v.root [] [] 0) := by
      refine ⟨hs, hc, hlen, ?_, ?_, PTree.pins_sorted H A v.root T [] [] 0, ?_, ?_⟩
      · intro p hp
        obtain ⟨k, vp, _, hmem, h1, _⟩ := hvp p hp
        have hd : p.inner.path.length ≤ L := by
          rw [h1]
          have hmem' := hmem
          rw [hT.inner] at hmem'
          obtain ⟨_, h2, _⟩ := PTree.vpaths_route T [] 0 hT.al vp hmem'
          rw [h2]; exact c.depthLe vp hmem
        obtain ⟨P, hP⟩ := PTree.pins_verified H A L v.root T [] [] 0 hT.wf rfl (by rw [hT.root]; rfl) p hp hd
        exact ⟨P, p.inner.path, by rw [← hroot]; exact hP⟩
      · intro p hp o ho
        have : o ∈ ops := by rw [← hall]; exact mem_allOps.2 ⟨p, hp, ho⟩
        exact hol o this
      · intro p hp o ho
        obtain ⟨k, vp, hget, hmem, h1, h3⟩ := hvp p hp
        rw [h3] at ho
        rw [h1]
        exact c.route_prefix_of_cover vp hmem o.1 (hcover k vp hget o ho)
      · intro p hp
        obtain ⟨k, vp, hget, _, _, h3⟩ := hvp p hp
        rw [h3]
        exact List.Pairwise.sublist (hsub k (List.getElem?_eq_some_iff.1 hget).1) hsorted
    rw [g.verifyUpdate_eq_kvApply (PTree.pins_ne_nil H A v.root T [] [] 0) v.root, hall]

/-- **root correctness**: strictly ascending, in-scope ops with `L`-bit keys against a multi-proof
accepted for the root of `S`: the multi-proof update returns the root of `kvApply S ops`. -/
theorem multiVerifyUpdate_eq_root (hs : H.Sound) (S : List (Key × VH)) (hc : Canon L 0 S)
    (hlen : ∀ kv ∈ S, kv.1.length = L) (mp : MultiProof Node VH)
    (hv : verifyMulti H mp (nodeAt H L 0 S) = .ok v) (ops : List (Key × Option VH))
    (hol : ∀ o ∈ ops, o.1.length = L) (hsorted : ops.Pairwise KeyLt)
    (hscope : ∀ o ∈ ops, ∃ (j : Nat) (t : VPath VH), v.inner[j]? = some t ∧
      o.1.take t.depth = t.terminal.path.take t.depth) :
    multiVerifyUpdate H L v ops = .ok (nodeAt H L 0 (kvApply S ops)) := by
  obtain ⟨T, hT, _⟩ := verifyMulti_tree H mp _ v hv
  have c := MCtx.of_canon hs S hc hlen mp hv hT
  obtain ⟨r, hr⟩ := multiVerifyUpdate_ok c ops hol hsorted hscope
  rw [hr, multiVerifyUpdate_sound hs S hc hlen mp hv ops hol r hr]

end Nomt

namespace Nomt
variable {Node VH : Type} [DecidableEq Node] [DecidableEq VH] (H : Hasher Node VH)

theorem PTree.vpaths_terminals : ∀ (T : PTree Node VH) (pos : List Bool) (off : Nat),
    (T.vpaths pos off).map (fun vp => vp.terminal) = (T.mpaths pos).map (fun p => p.terminal)
  | .tip _ _ _, _, _ => rfl
  | .fork _ _ l r, _, _ => by
    simp only [PTree.vpaths, PTree.mpaths, List.map_append, PTree.vpaths_terminals l, PTree.vpaths_terminals r]

/-- **the multi-proof update never panics** on an accepted multi-proof whose leaf keys are `L`-bit keys
and whose verified depths do not exceed `L`, for any ops with `L`-bit keys -/
theorem multiVerifyUpdate_no_panic (L : Nat) (mp : MultiProof Node VH) (root : Node) (v : VerifiedMulti Node VH)
    (hv : verifyMulti H mp root = .ok v)
    (hleaf : ∀ vp ∈ v.inner, ∀ k x, vp.terminal = .leaf k x → k.length = L)
    (hdepth : ∀ vp ∈ v.inner, vp.depth ≤ L)
    (ops : List (Key × Option VH)) (hol : ∀ o ∈ ops, o.1.length = L) :
    (multiVerifyUpdate H L v ops).isPanic = false := by
  obtain ⟨T, hT, _⟩ := verifyMulti_tree H mp root v hv
  exact (multiVerifyUpdate_spec ⟨hT, hleaf, hdepth⟩ ops hol).1

/-- the same with the length conditions stated on the proof object: leaf keys of length `L`, terminator
positions of length `≤ L` -/
theorem multiVerifyUpdate_no_panic_of_paths (L : Nat) (mp : MultiProof Node VH) (root : Node)
    (v : VerifiedMulti Node VH) (hv : verifyMulti H mp root = .ok v)
    (hleaf : ∀ p ∈ mp.paths, ∀ k x, p.terminal = .leaf k x → k.length = L)
    (hterm : ∀ p ∈ mp.paths, ∀ pos, p.terminal = .terminator pos → pos.length ≤ L)
    (ops : List (Key × Option VH)) (hol : ∀ o ∈ ops, o.1.length = L) :
    (multiVerifyUpdate H L v ops).isPanic = false := by
  obtain ⟨T, hT, hmp⟩ := verifyMulti_tree H mp root v hv
  have hterms : ∀ vp ∈ v.inner, vp.terminal = .terminator [] ∨ ∃ p ∈ mp.paths, p.terminal = vp.terminal := by
    intro vp hvp
    by_cases hne : mp.paths = []
    · left
      obtain ⟨_, r, hr, _, _, hinner, _⟩ := verifyMulti_ok H mp root v hv
      rw [hne] at hr
      simp only [verifyFuel, maxPathLen, verifyRange] at hr
      injection hr with hr
      rw [hinner, ← hr] at hvp
      simp only [List.mem_singleton] at hvp
      rw [hvp]
    · right
      have h1 : vp.terminal ∈ (v.inner.map (fun vp => vp.terminal)) := List.mem_map_of_mem hvp
      rw [hT.inner, PTree.vpaths_terminals, hmp hne] at h1
      obtain ⟨p, hp, hpe⟩ := List.mem_map.1 h1
      exact ⟨p, hp, hpe⟩
  have hdp : ∀ vp ∈ v.inner, vp.depth ≤ vp.terminal.path.length := by
    intro vp hvp
    rw [hT.inner] at hvp
    obtain ⟨h1, h2, _⟩ := PTree.vpaths_route T [] 0 hT.al vp hvp
    have := h1.length_le
    omega
  apply multiVerifyUpdate_no_panic H L mp root v hv _ _ ops hol
  · intro vp hvp k x ht
    rcases hterms vp hvp with h | ⟨p, hp, hpe⟩
    · rw [ht] at h; cases h
    · exact hleaf p hp k x (by rw [hpe, ht])
  · intro vp hvp
    have hd := hdp vp hvp
    rcases hterms vp hvp with h | ⟨p, hp, hpe⟩
    · rw [h] at hd; simp only [Terminal.path, List.length_nil] at hd; omega
    · cases ht : vp.terminal with
      | leaf k x =>
        have := hleaf p hp k x (by rw [hpe, ht])
        rw [ht] at hd; simp only [Terminal.path] at hd; omega
      | terminator pos =>
        have := hterm p hp pos (by rw [hpe, ht])
        rw [ht] at hd; simp only [Terminal.path] at hd; omega

/-- the same under the verifier's trust assumption (the root is the root of a canonical set of `L`-bit
keys): nothing has to be assumed about the proof object -/
theorem multiVerifyUpdate_no_panic_canon (hs : H.Sound) (L : Nat) (S : List (Key × VH)) (hc : Canon L 0 S)
    (hlen : ∀ kv ∈ S, kv.1.length = L) (mp : MultiProof Node VH) (v : VerifiedMulti Node VH)
    (hv : verifyMulti H mp (nodeAt H L 0 S) = .ok v)
    (ops : List (Key × Option VH)) (hol : ∀ o ∈ ops, o.1.length = L) :
    (multiVerifyUpdate H L v ops).isPanic = false := by
  obtain ⟨T, hT, _⟩ := verifyMulti_tree H mp _ v hv
  exact (multiVerifyUpdate_spec (MCtx.of_canon hs S hc hlen mp hv hT) ops hol).1

end Nomt
