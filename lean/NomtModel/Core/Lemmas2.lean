import NomtModel.Core.Lemmas
namespace Nomt
variable {Node VH : Type} (H : Hasher Node VH)

/-! ### `side` lemmas -/

theorem mem_side {d : Nat} {b : Bool} {s : List (Key × VH)} {kv : Key × VH} :
    kv ∈ side d b s ↔ kv ∈ s ∧ kv.1.getD d false = b := by
  simp [side, List.mem_filter]

theorem take_succ_of_getD (k : Key) (d : Nat) (h : d < k.length) :
    k.take (d+1) = k.take d ++ [k.getD d false] := by
  induction k generalizing d with
  | nil => simp at h
  | cons x xs ih =>
    cases d with
    | zero => simp [List.getD]
    | succ d =>
      simp only [List.length_cons, Nat.add_lt_add_iff_right] at h
      have := ih d h
      simp [List.take_succ_cons, this, List.getD]

/-! ### `run` over an append -/

theorem run_append (skip : Nat) :
    ∀ (B0 : List (Key × VH)) (a : Key × VH) (B1 : List (Key × VH)) (b : Key × VH)
      (prev next : Option Key) (st : Stack Node),
      run H skip prev (B0 ++ a :: (b :: B1)) next st
        = run H skip (some a.1) (b :: B1) next (run H skip prev (B0 ++ [a]) (some b.1) st) := by
  intro B0
  induction B0 with
  | nil =>
    intro a B1 b prev next st
    obtain ⟨ka, va⟩ := a
    obtain ⟨kb, vb⟩ := b
    simp [run]
  | cons x xs ih =>
    intro a B1 b prev next st
    obtain ⟨kx, vx⟩ := x
    cases xs with
    | nil =>
      obtain ⟨ka, va⟩ := a
      obtain ⟨kb, vb⟩ := b
      simp [run]
    | cons y ys =>
      obtain ⟨ky, vy⟩ := y
      have := ih a B1 b (some kx) next (stepKey H skip prev kx vx (some ky) st)
      simp only [List.cons_append, run] at this ⊢
      exact this

/-! ### `hashUp` only looks at the bits it consumes -/

theorem hashUp_congr (k k' : Key) (skip : Nat) :
    ∀ (up layer : Nat) (node : Node) (st : Stack Node),
      up ≤ layer →
      (∀ i, layer - up ≤ i → i < layer → k.getD (skip + i) false = k'.getD (skip + i) false) →
      hashUp H k skip up layer node st = hashUp H k' skip up layer node st := by
  intro up
  induction up with
  | zero => intro layer node st _ _; simp [hashUp]
  | succ up ih =>
    intro layer node st hle hbits
    simp only [hashUp]
    have hb : k.getD (skip + (layer - 1)) false = k'.getD (skip + (layer - 1)) false :=
      hbits (layer - 1) (by omega) (by omega)
    rw [hb]
    apply ih
    · omega
    · intro i h1 h2; exact hbits i (by omega) (by omega)

end Nomt
