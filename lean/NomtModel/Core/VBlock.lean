import NomtModel.Core.VUpdate
set_option linter.unusedSectionVars false
namespace Nomt
variable {Node VH : Type} [DecidableEq Node] [DecidableEq VH] (H : Hasher Node VH)

def sideP (e : Nat) (b : Bool) (Q : List (PathUpd Node)) : List (PathUpd Node) :=
  Q.filter (fun p => p.path.getD e false == b)

theorem mem_sideP {e : Nat} {b : Bool} {Q : List (PathUpd Node)} {p : PathUpd Node} :
    p ∈ sideP e b Q ↔ p ∈ Q ∧ p.path.getD e false = b := by
  simp [sideP, List.mem_filter]

/-- the paths under a position are either one terminal exactly there, or split by the next bit;
    (= sorted, none a prefix of another) -/
def PCanon : (fuel e : Nat) → List (PathUpd Node) → Prop
  | _, _, [] => True
  | 0, e, p :: rest => rest = [] ∧ p.path.length = e
  | fuel+1, e, p :: rest =>
      (rest = [] ∧ p.path.length = e) ∨
      ((∀ x ∈ p :: rest, e < x.path.length) ∧
        (p :: rest) = sideP e false (p :: rest) ++ sideP e true (p :: rest) ∧
        PCanon fuel (e+1) (sideP e false (p :: rest)) ∧ PCanon fuel (e+1) (sideP e true (p :: rest)))

theorem prefix_snoc_getD (a l : List Bool) (b : Bool) (h : (a ++ [b]) <+: l) : l.getD a.length false = b := by
  obtain ⟨t, rfl⟩ := h
  simp [List.getD, List.getElem?_append_right]

/-- what a verifier knows about one path, phrased against the NEW set `S'`:
    its replacement root is the specified node, and every sibling below depth `e` whose sub-trie
    contains no other path of the block is the specified node of `S'` there -/
structure PathOK (L : Nat) (S' : List (Key × VH)) (Q : List (PathUpd Node)) (e : Nat) (p : PathUpd Node) : Prop where
  len : p.path.length ≤ L
  sub : p.subRoot = nodeAt H (L - p.path.length) p.path.length (restrict 0 p.path S')
  sib : ∀ j, e ≤ j → j < p.path.length →
      (∀ p' ∈ Q, ¬ ((p.path.take j ++ [!(p.path.getD j false)]) <+: p'.path)) →
      p.siblings.getD j H.term =
        nodeAt H (L - (j+1)) (j+1) (restrict 0 (p.path.take j ++ [!(p.path.getD j false)]) S')

theorem PathOK_mono (L : Nat) (S' : List (Key × VH)) (Q Q' : List (PathUpd Node)) (e : Nat) (b : Bool)
    (p : PathUpd Node) (hQ' : Q' = sideP e b Q) (hp : p ∈ Q') (hpre : ∀ x ∈ Q, x.path.take e = p.path.take e)
    (hlen : ∀ x ∈ Q, e < x.path.length)
    (h : PathOK H L S' Q e p) : PathOK H L S' Q' (e+1) p := by
  refine ⟨h.len, h.sub, ?_⟩
  intro j hj hjl hno
  apply h.sib j (by omega) hjl
  intro p' hp' hpref
  -- a path of `Q` under that sibling position agrees with `p` on bit `e`, so it is in `Q'`
  apply hno p' _ hpref
  rw [hQ', mem_sideP]
  refine ⟨hp', ?_⟩
  have hpb : p.path.getD e false = b := by rw [hQ'] at hp; exact (mem_sideP.mp hp).2
  obtain ⟨t, ht⟩ := hpref
  -- bit e of p' comes from p.path.take j (j > e)
  have : p'.path.getD e false = p.path.getD e false := by
    rw [← ht]
    have hlen1 : e < (p.path.take j).length := by simp; omega
    simp only [List.getD, List.append_assoc]
    rw [List.getElem?_append_left hlen1, List.getElem?_take_of_lt (by omega)]
  rw [this, hpb]

end Nomt
