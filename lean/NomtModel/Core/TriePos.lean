/-!
# Mirror of `core/src/trie_pos.rs` and `core/src/page_id.rs`

Bit paths are `List Bool` (most significant bit of byte 0 first, bitvec `Msb0`), node indices `Nat`, page ids
`List Nat` (child indices, root page = `[]`).  A Rust panic (`assert!`, `unwrap` on `None` / `Err`, slice
index out of range, integer underflow or overflow with overflow checks) is `none`; the functions follow the Rust
statement by statement.  No proofs in this file (the driver imports it).

Release builds (no overflow checks): the only arithmetic that could wrap instead of panic is
`bottom_node_index` (`node_index as u8 - 62`) and `parent_node_index` (`node_index - 2`).  For the first the
wrapped value is `≥ 194 > MAX_CHILD_INDEX`, so `ChildPageIndex::new(..).unwrap()` panics anyway; the second is
unreachable from the public constructors (`T2_moves_total`).
-/
namespace Nomt.TriePos

/-- `core/src/page.rs`: `DEPTH` (the functions below carry the literal `6`; `T2_const_*` ties it to the sources) -/
def DEPTH : Nat := 6
/-- `core/src/page.rs`: `NODES_PER_PAGE = (1 << DEPTH + 1) - 2` -/
def NODES_PER_PAGE : Nat := 126
/-- `core/src/page_id.rs`: `MAX_PAGE_DEPTH` -/
def MAX_PAGE_DEPTH : Nat := 42
/-- `core/src/page_id.rs`: `MAX_CHILD_INDEX` -/
def MAX_CHILD_INDEX : Nat := 63
/-- number of bits of a key path -/
def KEY_BITS : Nat := 256

abbrev PageId := List Nat

/-- `BitSlice::load_be`: the bits read as a big-endian number -/
def loadBE (bs : List Bool) : Nat := bs.foldl (fun acc b => 2 * acc + b.toNat) 0

/-- the 6 low bits of a child index, most significant first (`child_index.view_bits::<Msb0>()[2..8]`) -/
def bits6 (c : Nat) : List Bool :=
  [c / 32 % 2 == 1, c / 16 % 2 == 1, c / 8 % 2 == 1, c / 4 % 2 == 1, c / 2 % 2 == 1, c % 2 == 1]

/-- the key-path bits a page id stands for -/
def pidBits (p : PageId) : List Bool := p.flatMap bits6

/-! ## `ChildPageIndex`, `PageId` -/

/-- `ChildPageIndex::new(index: u8)` -/
def cpiNew (n : Nat) : Option Nat := if n > MAX_CHILD_INDEX then none else some n

inductive ChildPageIdError where | pageIdOverflow
deriving DecidableEq, Repr

/-- `PageId::child_page_id` -/
def childPageId (p : PageId) (c : Nat) : Except ChildPageIdError PageId :=
  if p.length ≥ MAX_PAGE_DEPTH then .error .pageIdOverflow else .ok (p ++ [c])

/-- `PageId::parent_page_id` (the root is its own parent) -/
def parentPageId (p : PageId) : PageId := if p = [] then [] else p.dropLast

/-- `PageId::depth` -/
def pidDepth (p : PageId) : Nat := p.length

/-- `PageId::child_index_at_level` (`self.path[depth]`, panics out of range) -/
def childIndexAtLevel (p : PageId) (lvl : Nat) : Option Nat := p[lvl]?

/-- `PageId::is_descendant_of` (`self.path.starts_with(&other.path)`) -/
def isDescendantOf (p other : PageId) : Bool := other.isPrefixOf p

/-- `PageId::max_descendant` -/
def maxDescendant (p : PageId) : PageId := p ++ List.replicate (MAX_PAGE_DEPTH - p.length) MAX_CHILD_INDEX

/-- `PageId::min_key_path` / `max_key_path`: the sextets of the id, then all `fill`.  The Rust writes
`path[6i .. 6i+6]` for every child index — a slice-range panic if `6·len > 256`, impossible for `len ≤ 42`. -/
def keyPathFill (fill : Bool) (p : PageId) : Option (List Bool) :=
  if 6 * p.length > KEY_BITS then none
  else some (pidBits p ++ List.replicate (KEY_BITS - 6 * p.length) fill)

def minKeyPath (p : PageId) : Option (List Bool) := keyPathFill false p
def maxKeyPath (p : PageId) : Option (List Bool) := keyPathFill true p

/-- `Ord for PageId` (derived; `ArrayVec<u8>` compares as a slice: lexicographic, a proper prefix is smaller) -/
def pidLt : PageId → PageId → Bool
  | [], [] => false
  | [], _ :: _ => true
  | _ :: _, [] => false
  | a :: as, b :: bs => decide (a < b) || (a == b && pidLt as bs)

def pidLe (a b : PageId) : Bool := !pidLt b a

/-- `PageId::encode` as implemented: for every limb `word += limb + 1; word <<= 6`, in a `u64` for depth `< 10`
(never overflows: `< 2^61`), in a 256-bit word otherwise (the shift silently drops high bits). -/
def pidEncode (p : PageId) : Nat :=
  if p.length < 10 then p.foldl (fun w c => (w + (c + 1)) * 64) 0
  else p.foldl (fun w c => (w + (c + 1)) * 64 % 2 ^ 256) 0

/-- `HIGHEST_ENCODED_42`: bytes `16, 65, 4` repeated, last byte `64` -/
def HIGHEST_ENCODED_42 : Nat :=
  ([16, 65, 4, 16, 65, 4, 16, 65, 4, 16, 65, 4, 16, 65, 4, 16, 65, 4, 16, 65, 4, 16, 65, 4, 16, 65,
    4, 16, 65, 4, 16, 64] : List Nat).foldl (fun acc b => acc * 256 + b) 0

/-- number of significant bits (`256 - leading_zeros`) -/
def bitCount : Nat → Nat → Nat
  | 0, _ => 0
  | f + 1, n => if n = 0 then 0 else bitCount f (n / 2) + 1

/-- the sextet loop of `PageId::decode`; `uint -= 1` on zero is an underflow (panic) -/
def decodeLoop : Nat → Nat → List Nat → Option (Nat × List Nat)
  | 0, u, acc => some (u, acc)
  | n + 1, u, acc => if u = 0 then none else decodeLoop n ((u - 1) / 64) (acc ++ [(u - 1) % 64])

/-- `PageId::decode` — `Except.error ()` is `InvalidPageIdBytes`, `none` a panic.  NOT the inverse of `pidEncode`
(`T2_decode_not_inverse_of_encode`); only the crate's own tests call it. -/
def pidDecode (u : Nat) : Option (Except Unit PageId) :=
  if u > HIGHEST_ENCODED_42 then some (.error ()) else
  let bc := bitCount 257 u
  let sextets := (bc + 5) / 6
  if bc = 0 then some (.ok []) else
  match decodeLoop (sextets - 1) u [] with
  | none => none
  | some (u', path) =>
    -- `path: ArrayVec<u8, 42>`; `push` beyond the capacity panics
    if path.length > MAX_PAGE_DEPTH then none else
    if u' % 256 ≠ 0 then
      if path.length + 1 > MAX_PAGE_DEPTH then none
      else some (.ok ((path ++ [(u' - 1) % 256]).reverse))
    else some (.ok path.reverse)

/-! ## `PageIdsIterator` -/

structure PidIter where
  /-- `key_path: Uint<256>` as 256 bits, most significant first -/
  bits : List Bool
  pageId : Option PageId
deriving DecidableEq, Repr

/-- `PageIdsIterator::new` -/
def PidIter.new (key : List Bool) : PidIter := ⟨key, some []⟩

/-- `PageIdsIterator::next`: `(item, state')`; `none` = the iterator is exhausted.  The inner `Option` is the
`ChildPageIndex::new(..).unwrap()` panic site (never taken: the index is `byte(31) >> 2`). -/
def PidIter.next (it : PidIter) : Option (Option (PageId × PidIter)) :=
  match it.pageId with
  | none => some none
  | some prev =>
    match cpiNew (loadBE (it.bits.take 6)) with
    | none => none
    | some c =>
      let bits' := it.bits.drop 6 ++ List.replicate (min 6 it.bits.length) false
      let next := match childPageId prev c with | .ok q => some q | .error _ => none
      some (some (prev, ⟨bits', next⟩))

/-- `iter.take(n).collect()`; `none` = a panic on the way -/
def PidIter.collect : Nat → PidIter → Option (List PageId)
  | 0, _ => some []
  | n + 1, it =>
    match it.next with
    | none => none
    | some none => some []
    | some (some (p, it')) => (PidIter.collect n it').map (p :: ·)

/-! ## `TriePosition` -/

structure Pos where
  /-- `path: [u8; 32]` as 256 bits; the bits after `depth` are irrelevant (but observable through `raw_path`) -/
  raw : List Bool
  depth : Nat
  nodeIndex : Nat
deriving DecidableEq, Repr

/-- `TriePosition::new` -/
def Pos.new : Pos := ⟨List.replicate KEY_BITS false, 0, 0⟩

/-- `TriePosition::path` -/
def Pos.path (p : Pos) : List Bool := p.raw.take p.depth

/-- `TriePosition::is_root` -/
def Pos.isRoot (p : Pos) : Bool := p.depth == 0

/-- `last_page_path`: `&path[prev_page_end .. depth]` -/
def lastPagePath (raw : List Bool) (depth : Nat) : Option (List Bool) :=
  if depth = 0 then none
  else if depth > raw.length then none
  else some ((raw.take depth).drop ((depth - 1) / 6 * 6))

/-- the free function `node_index(page_path)` -/
def nodeIndexOf (pp : List Bool) : Nat :=
  let d := min 6 pp.length
  if d = 0 then 0 else 2 ^ d - 2 + loadBE (pp.take d)

/-- `TriePosition::from_path_and_depth` -/
def Pos.fromPathAndDepth (raw : List Bool) (depth : Nat) : Option Pos :=
  if depth = 0 then none          -- assert_ne!(depth, 0)
  else if depth > 256 then none   -- assert!(depth <= 256)
  else (lastPagePath raw depth).map fun pp => ⟨raw, depth, nodeIndexOf pp⟩

/-- `TriePosition::from_bitslice`.  NB: the empty slice reaches `from_path_and_depth(_, 0)` and panics. -/
def Pos.fromBitslice (s : List Bool) : Option Pos :=
  if s.length > 256 then none
  else Pos.fromPathAndDepth (s ++ List.replicate (KEY_BITS - s.length) false) s.length

/-- `TriePosition::depth_in_page` -/
def Pos.depthInPage (p : Pos) : Nat :=
  if p.depth = 0 then 0 else p.depth - ((p.depth - 1) / 6) * 6

/-- `TriePosition::child_node_indices`: the left index (`ChildNodeIndices(left)`) -/
def Pos.childNodeIndices (p : Pos) : Option Nat :=
  let d := p.depthInPage
  if d = 0 || d > 5 then none else some (p.nodeIndex * 2 + 2)

/-- `ChildNodeIndices::{left, right, in_next_page}` -/
def cniLeft (l : Nat) : Nat := l
def cniRight (l : Nat) : Nat := l + 1
def cniInNextPage (l : Nat) : Bool := l == 0

/-- `TriePosition::down` -/
def Pos.down (p : Pos) (bit : Bool) : Option Pos :=
  if p.depth = 256 then none else
  let ni : Option Nat :=
    if p.depth % 6 = 0 then some bit.toNat
    else p.childNodeIndices.map fun l => if bit then cniRight l else cniLeft l
  ni.map fun i => ⟨p.raw.set p.depth bit, p.depth + 1, i⟩

/-- `parent_node_index`: `(node_index - 2) / 2` on `usize` -/
def parentNodeIndex (i : Nat) : Option Nat := if i < 2 then none else some ((i - 2) / 2)

def iterParent : Nat → Nat → Option Nat
  | 0, i => some i
  | n + 1, i => (parentNodeIndex i).bind (iterParent n)

/-- `TriePosition::up` -/
def Pos.up (p : Pos) (d : Nat) : Option Pos :=
  if d > p.depth then none else   -- checked_sub
  let newDepth := p.depth - d
  if newDepth = 0 then some Pos.new else
  let prevPageDepth := (p.depth + 6 - 1) / 6
  let newPageDepth := (newDepth + 6 - 1) / 6
  if prevPageDepth = newPageDepth then
    (iterParent d p.nodeIndex).map fun i => ⟨p.raw, newDepth, i⟩
  else
    (lastPagePath p.raw newDepth).map fun pp => ⟨p.raw, newDepth, nodeIndexOf pp⟩

/-- the free function `sibling_index` -/
def siblingIndexOf (i : Nat) : Nat := if i % 2 = 0 then i + 1 else i - 1

/-- `TriePosition::sibling` -/
def Pos.sibling (p : Pos) : Option Pos :=
  if p.depth = 0 then none else
  let i := p.depth - 1
  match p.raw[i]? with
  | none => none
  | some b => some ⟨p.raw.set i (!b), p.depth, siblingIndexOf p.nodeIndex⟩

/-- `TriePosition::peek_last_bit` -/
def Pos.peekLastBit (p : Pos) : Option Bool :=
  if p.depth = 0 then none else p.raw[p.depth - 1]?

/-- exact chunks of six bits (`chunks_exact(DEPTH)`), the remainder dropped -/
def chunks6 : List Bool → List (List Bool)
  | a :: b :: c :: d :: e :: f :: rest => [a, b, c, d, e, f] :: chunks6 rest
  | _ => []

/-- the loop of `TriePosition::page_id` -/
def pageIdGo (depth : Nat) : Nat → List (List Bool) → PageId → Option PageId
  | _, [], pid => some pid
  | i, c :: cs, pid =>
    if (i + 1) * 6 = depth then some pid else
    match cpiNew (loadBE c) with
    | none => none
    | some ci =>
      match childPageId pid ci with
      | .error _ => none
      | .ok pid' => pageIdGo depth (i + 1) cs pid'

/-- `TriePosition::page_id`: outer `none` = panic, inner `none` = the root position -/
def Pos.pageId (p : Pos) : Option (Option PageId) :=
  if p.isRoot then some none
  else (pageIdGo p.depth 0 (chunks6 p.path) []).map some

/-- `bottom_node_index`: `node_index as u8 - 62` -/
def bottomNodeIndex (i : Nat) : Option Nat :=
  let b := i % 256
  if b < 62 then none else some (b - 62)

/-- `TriePosition::child_page_index` -/
def Pos.childPageIndex (p : Pos) : Option Nat :=
  if p.nodeIndex < 62 then none else (bottomNodeIndex p.nodeIndex).bind cpiNew

/-- `TriePosition::sibling_child_page_index` -/
def Pos.siblingChildPageIndex (p : Pos) : Option Nat :=
  (bottomNodeIndex (siblingIndexOf p.nodeIndex)).bind cpiNew

/-- `TriePosition::sibling_index` -/
def Pos.siblingIndex (p : Pos) : Nat := siblingIndexOf p.nodeIndex

/-- `TriePosition::is_first_layer_in_page`: `node_index & !1 == 0` -/
def Pos.isFirstLayerInPage (p : Pos) : Bool := p.nodeIndex / 2 == 0

/-- `shared_bits`: length of the common prefix -/
def sharedBits : List Bool → List Bool → Nat
  | a :: as, b :: bs => if a == b then sharedBits as bs + 1 else 0
  | _, _ => 0

/-- `TriePosition::shared_depth` -/
def Pos.sharedDepth (p q : Pos) : Nat := sharedBits p.path q.path

/-- `TriePosition::subtrie_contains` -/
def Pos.subtrieContains (p : Pos) (key : List Bool) : Bool := p.path.isPrefixOf key

/-- `PartialEq for TriePosition` -/
def Pos.eqv (p q : Pos) : Bool := p.path == q.path

end Nomt.TriePos
