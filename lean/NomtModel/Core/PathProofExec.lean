import NomtModel.Core.Outcome
import NomtModel.Core.PathProof
/-!
`PathProof::verify`, `in_scope`, `confirm_*` with their slice operations made explicit: a Rust slice
`x[..n]` panics when `n > x.len()`.  `verifyO` etc. are the mirrors with those panic sites; the theorems
show they agree with the total definitions of `PathProof.lean` and never reach a panic site.
-/
namespace Nomt
variable {Node VH : Type} [DecidableEq Node] [DecidableEq VH] (H : Hasher Node VH)

/-- Rust `&s[..n]` -/
def sliceTo {α : Type} (site : String) (s : List α) (n : Nat) : Outcome VerifyErr (List α) :=
  if n ≤ s.length then .ok (s.take n) else .panic site

/-- mirror of `PathProof::verify` with the slice `&key_path[..self.siblings.len()]` explicit -/
def verifyO (L : Nat) (P : PathProof Node VH) (keyPath : List Bool) (root : Node) :
    Outcome VerifyErr (Verified Node VH) :=
  if P.siblings.length > min keyPath.length L then .err .tooManySiblings
  else
    match sliceTo "path_proof.rs:83" keyPath P.siblings.length with
    | .ok rel =>
      let n := hashPath H (P.terminal.node H) rel P.siblings
      if n = root then
        .ok { path := rel
              terminal := match P.terminal with | .leaf k v => some (k, v) | .terminator _ => none
              siblings := P.siblings
              root := root }
      else .err .rootMismatch
    | .err e => .err e
    | .panic s => .panic s

/-- mirror of `in_scope` with `key_path.view_bits()[..self.key_path.len()]` explicit -/
def inScopeO (v : Verified Node VH) (k : Key) : Outcome VerifyErr Bool :=
  match sliceTo "path_proof.rs:216" k v.path.length with
  | .ok other => .ok (v.path == other)
  | .err e => .err e
  | .panic s => .panic s

def outcomeOfExcept {α} : Except VerifyErr α → Outcome VerifyErr α
  | .ok a => .ok a
  | .error e => .err e

/-- T18.1a: `verify` never reaches its panic site, for any proof object, key slice and root, and
agrees with the total model. -/
theorem verifyO_eq (L : Nat) (P : PathProof Node VH) (kp : List Bool) (root : Node) :
    verifyO H L P kp root = outcomeOfExcept (verify H L P kp root) := by
  obtain ⟨t, sibs⟩ := P
  cases t <;>
  · unfold verifyO verify sliceTo
    by_cases h : sibs.length > min kp.length L
    · simp [h, outcomeOfExcept]
    · have h' : sibs.length ≤ kp.length := by
        have : sibs.length ≤ min kp.length L := by omega
        exact Nat.le_trans this (Nat.min_le_left _ _)
      simp only [h, if_false, h', if_true]
      split <;> simp [outcomeOfExcept]

theorem verifyO_no_panic (L : Nat) (P : PathProof Node VH) (kp : List Bool) (root : Node) :
    (verifyO H L P kp root).isPanic = false := by
  rw [verifyO_eq]; cases verify H L P kp root <;> rfl

/-- a verified path is never longer than the key length bound -/
theorem verify_path_len (L : Nat) (P : PathProof Node VH) (kp : List Bool) (root : Node) (v : Verified Node VH)
    (hv : verify H L P kp root = .ok v) : v.path.length ≤ L := by
  unfold verify at hv
  split at hv
  · cases hv
  · rename_i hg
    simp only at hv
    split at hv
    · injection hv with hv; subst hv; simp; omega
    · cases hv

/-- T18.1b: `in_scope` / `confirm_*` on a verified proof never panic for full-length keys -/
theorem inScopeO_no_panic (L : Nat) (P : PathProof Node VH) (kp : List Bool) (root : Node) (v : Verified Node VH)
    (hv : verify H L P kp root = .ok v) (k : Key) (hk : k.length = L) :
    inScopeO v k = .ok (v.inScope k) := by
  have hl := verify_path_len H L P kp root v hv
  unfold inScopeO sliceTo Verified.inScope
  simp [hk, hl]

end Nomt
