import NomtModel.Core.PathSound
set_option linter.unusedSectionVars false
namespace Nomt
variable {Node VH : Type} [DecidableEq Node] [DecidableEq VH] (H : Hasher Node VH)

/-- the specified path proof for key `k` in `S` (walk the reference trie, collect siblings top-down) -/
def proveAux : (fuel d : Nat) → List (Key × VH) → Key → Terminal VH × List Node
  | _, d, [], k => (.terminator (k.take d), [])
  | _, _, [(k0, v0)], _ => (.leaf k0 v0, [])
  | 0, d, _ :: _ :: _, k => (.terminator (k.take d), [])      -- unreachable for canonical sets
  | fuel+1, d, a :: b :: rest, k =>
      let bit := k.getD d false
      let r := proveAux fuel (d+1) (side d bit (a :: b :: rest)) k
      (r.1, nodeAt H fuel (d+1) (side d (!bit) (a :: b :: rest)) :: r.2)

def proveSpec (L : Nat) (S : List (Key × VH)) (k : Key) : PathProof Node VH :=
  let r := proveAux H L 0 S k
  { terminal := r.1, siblings := r.2 }

theorem proveAux_len : ∀ (fuel d : Nat) (S : List (Key × VH)) (k : Key),
    (proveAux H fuel d S k).2.length ≤ fuel := by
  intro fuel
  induction fuel with
  | zero =>
    intro d S k
    match S with
    | [] => simp [proveAux]
    | [(k0, v0)] => simp [proveAux]
    | a :: b :: rest => simp [proveAux]
  | succ f ih =>
    intro d S k
    match S with
    | [] => simp [proveAux]
    | [(k0, v0)] => simp [proveAux]
    | a :: b :: rest =>
      simp only [proveAux, List.length_cons]
      exact Nat.succ_le_succ (ih _ _ _)

/-- hashing the specified terminal up the key's own bits reproduces the specified node -/
theorem proveAux_hash : ∀ (fuel d : Nat) (S : List (Key × VH)) (k : Key),
    Canon fuel d S → d + fuel ≤ k.length →
    hashPath H ((proveAux H fuel d S k).1.node H)
      ((k.drop d).take (proveAux H fuel d S k).2.length) (proveAux H fuel d S k).2
      = nodeAt H fuel d S := by
  intro fuel
  induction fuel with
  | zero =>
    intro d S k hc _
    match S, hc with
    | [], _ => simp [proveAux, hashPath, Terminal.node, nodeAt_nil]
    | [(k0, v0)], _ => simp [proveAux, hashPath, Terminal.node, nodeAt_single]
  | succ f ih =>
    intro d S k hc hk
    match S, hc with
    | [], _ => simp [proveAux, hashPath, Terminal.node, nodeAt_nil]
    | [(k0, v0)], _ => simp [proveAux, hashPath, Terminal.node, nodeAt_single]
    | a :: b :: rest, hc =>
      obtain ⟨_, c0, c1⟩ := hc
      have hdrop : k.drop d = k.getD d false :: k.drop (d+1) := by
        have hlt : d < k.length := by omega
        rw [List.drop_eq_getElem_cons hlt]
        simp [List.getD, List.getElem?_eq_getElem hlt]
      simp only [proveAux, List.length_cons, hdrop, List.take_succ_cons, hashPath]
      cases hbit : k.getD d false with
      | false =>
        have := ih (d+1) (side d false (a :: b :: rest)) k c0 (by omega)
        simp only [Bool.false_eq_true, if_false, Bool.not_false]
        rw [this, nodeAt_two]
      | true =>
        have := ih (d+1) (side d true (a :: b :: rest)) k c1 (by omega)
        simp only [if_true, Bool.not_true]
        rw [this, nodeAt_two]

/-- **C05, completeness (specification level)**: the specified proof of every key verifies against the root. -/
theorem proveSpec_verifies (L : Nat) (S : List (Key × VH)) (hc : Canon L 0 S) (k : Key) (hk : k.length = L) :
    ∃ v, verify H L (proveSpec H L S k) k (nodeAt H L 0 S) = .ok v ∧ v.inScope k = true := by
  have hlen := proveAux_len H L 0 S k
  have hhash := proveAux_hash H L 0 S k hc (by omega)
  simp only [List.drop_zero] at hhash
  unfold verify proveSpec
  simp only
  have hguard : ¬ (proveAux H L 0 S k).2.length > min k.length L := by
    rw [hk]; simp; exact hlen
  rw [if_neg hguard, if_pos hhash]
  refine ⟨_, rfl, ?_⟩
  simp [Verified.inScope]

/-- **C05, truthfulness**: the specified proof confirms exactly the content of `S` for its key. -/
theorem proveSpec_truthful (hs : H.Sound) (L : Nat) (S : List (Key × VH)) (hc : Canon L 0 S)
    (k : Key) (hk : k.length = L) :
    ∃ v, verify H L (proveSpec H L S k) k (nodeAt H L 0 S) = .ok v ∧
      (∀ vh, v.confirmValue k vh = some (decide ((k, vh) ∈ S))) ∧
      ((v.confirmNonexistence k = some true ∧ ∀ vh, (k, vh) ∉ S) ∨
       (v.confirmNonexistence k = some false ∧ ∃ vh, (k, vh) ∈ S)) := by
  obtain ⟨v, hv, hin⟩ := proveSpec_verifies H L S hc k hk
  refine ⟨v, hv, ?_, ?_⟩
  · intro vh
    have hsnd := path_proof_sound H hs L S hc _ k v hv k vh
    have hex : ∃ b, v.confirmValue k vh = some b := by simp [Verified.confirmValue, hin]
    obtain ⟨b, hb⟩ := hex
    cases b with
    | true => have := hsnd.1 hb; simp [hb, this]
    | false => have := hsnd.2.1 hb; simp [hb, this]
  · have hex : ∃ b, v.confirmNonexistence k = some b := by simp [Verified.confirmNonexistence, hin]
    obtain ⟨b, hb⟩ := hex
    obtain ⟨_, _, hterm⟩ := verify_ok_spec H hs L S hc _ k v hv
    cases b with
    | true =>
      left
      refine ⟨hb, ?_⟩
      intro vh; exact (path_proof_sound H hs L S hc _ k v hv k vh).2.2.1 hb vh
    | false =>
      right
      refine ⟨hb, ?_⟩
      rcases hterm with ⟨k0, v0, ht, _⟩ | ⟨ht, _⟩
      · exact (path_proof_sound H hs L S hc _ k v hv k v0).2.2.2 hb
      · simp [Verified.confirmNonexistence, hin, ht] at hb

end Nomt

