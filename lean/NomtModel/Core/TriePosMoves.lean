import NomtModel.Core.TriePosSpec
/-!
# The moves of `TriePosition` (`from_path_and_depth`, `down`, `up`, `sibling`) keep the invariant
`node_index = specIndex (path)` and never reach a panic site inside their documented domain.
-/
namespace Nomt.TriePos

/-- invariant of every position the public constructors and moves can produce -/
structure Pos.WF (p : Pos) : Prop where
  rawLen : p.raw.length = 256
  depthLe : p.depth ≤ 256
  idx : p.nodeIndex = specIndex p.path

theorem Pos.path_length (p : Pos) (h : p.WF) : p.path.length = p.depth := by
  unfold Pos.path
  rw [List.length_take, h.rawLen]
  have := h.depthLe
  omega

theorem Pos.wf_new : Pos.new.WF := ⟨List.length_replicate .., Nat.zero_le _, rfl⟩

theorem lastPagePath_eq (raw : List Bool) (depth : Nat) (h1 : 1 ≤ depth) (h2 : depth ≤ raw.length) :
    lastPagePath raw depth = some (lp (raw.take depth)) := by
  unfold lastPagePath lp specPageBits
  rw [if_neg (by omega), if_neg (by omega), List.length_take, Nat.min_eq_left h2]

/-! ## `from_path_and_depth`, `from_bitslice` -/

theorem fromPathAndDepth_eq (raw : List Bool) (depth : Nat) (hr : raw.length = 256) (h1 : 1 ≤ depth)
    (h2 : depth ≤ 256) :
    Pos.fromPathAndDepth raw depth = some ⟨raw, depth, specIndex (raw.take depth)⟩ := by
  unfold Pos.fromPathAndDepth
  rw [if_neg (by omega), if_neg (by omega), lastPagePath_eq _ _ h1 (by omega), specIndex_eq_nodeIndexOf_lp]
  rfl

theorem fromPathAndDepth_wf (raw : List Bool) (depth : Nat) (hr : raw.length = 256) (h1 : 1 ≤ depth)
    (h2 : depth ≤ 256) : (⟨raw, depth, specIndex (raw.take depth)⟩ : Pos).WF := ⟨hr, h2, rfl⟩

theorem fromPathAndDepth_none_iff (raw : List Bool) (depth : Nat) (hr : raw.length = 256) :
    Pos.fromPathAndDepth raw depth = none ↔ depth = 0 ∨ 256 < depth := by
  constructor
  · intro h
    by_cases h0 : depth = 0
    · exact Or.inl h0
    · by_cases h2 : 256 < depth
      · exact Or.inr h2
      · rw [fromPathAndDepth_eq raw depth hr (by omega) (by omega)] at h; cases h
  · rintro (h | h)
    · simp [Pos.fromPathAndDepth, h]
    · unfold Pos.fromPathAndDepth
      rw [if_neg (by omega), if_pos h]

theorem fromBitslice_eq (s : List Bool) (h1 : 1 ≤ s.length) (h2 : s.length ≤ 256) :
    Pos.fromBitslice s =
      some ⟨s ++ List.replicate (256 - s.length) false, s.length, specIndex s⟩ := by
  unfold Pos.fromBitslice KEY_BITS
  rw [if_neg (by omega), fromPathAndDepth_eq _ _ (by simp; omega) h1 h2]
  simp

/-! ## `down` -/

theorem take_succ_set (raw : List Bool) (d : Nat) (b : Bool) (h : d < raw.length) :
    (raw.set d b).take (d + 1) = raw.take d ++ [b] := by
  rw [List.take_set, List.take_succ_eq_append_getElem h,
    List.set_append_right _ _ (by rw [List.length_take]; omega)]
  have : d - (List.take d raw).length = 0 := by rw [List.length_take]; omega
  rw [this]
  rfl

theorem depthInPage_eq (p : Pos) (h : 1 ≤ p.depth) : p.depthInPage = specR p.depth := by
  unfold Pos.depthInPage specR
  rw [if_neg (by omega)]
  omega

theorem down_eq (p : Pos) (b : Bool) (hw : p.WF) (hd : p.depth < 256) :
    p.down b = some ⟨p.raw.set p.depth b, p.depth + 1, specIndex (p.path ++ [b])⟩ := by
  have hl := p.path_length hw
  unfold Pos.down
  rw [if_neg (by omega)]
  by_cases h6 : p.depth % 6 = 0
  · simp only [h6, if_true, Option.map_some]
    rw [specIndex_single_page_start _ _ (by rw [hl]; exact h6)]
  · simp only [h6, if_false]
    have h1 : 1 ≤ p.depth := by omega
    unfold Pos.childNodeIndices
    rw [depthInPage_eq p h1]
    have hr : ¬ ((specR p.depth = 0 || specR p.depth > 5) = true) := by
      unfold specR; simp; omega
    simp only [hr, if_false, Option.map_some]
    rw [specIndex_snoc _ _ (by rw [hl]; exact h6), ← hw.idx]
    cases b <;> simp [cniLeft, cniRight] <;> omega

theorem down_path (p : Pos) (b : Bool) (hw : p.WF) (hd : p.depth < 256) :
    (⟨p.raw.set p.depth b, p.depth + 1, specIndex (p.path ++ [b])⟩ : Pos).path = p.path ++ [b] := by
  unfold Pos.path
  exact take_succ_set _ _ _ (by rw [hw.rawLen]; exact hd)

theorem down_wf (p : Pos) (b : Bool) (hw : p.WF) (hd : p.depth < 256) :
    (⟨p.raw.set p.depth b, p.depth + 1, specIndex (p.path ++ [b])⟩ : Pos).WF := by
  refine ⟨by simp [hw.rawLen], by simp; omega, ?_⟩
  rw [down_path p b hw hd]

theorem down_none_iff (p : Pos) (b : Bool) (hw : p.WF) : p.down b = none ↔ p.depth = 256 := by
  constructor
  · intro h
    by_cases hd : p.depth = 256
    · exact hd
    · have := hw.depthLe
      rw [down_eq p b hw (by omega)] at h; cases h
  · intro h; simp [Pos.down, h]

/-! ## `up` -/

theorem parent_specIndex_snoc (bs : List Bool) (b : Bool) (h : bs.length % 6 ≠ 0) :
    parentNodeIndex (specIndex (bs ++ [b])) = some (specIndex bs) := by
  rw [specIndex_snoc bs b h]
  unfold parentNodeIndex
  rw [if_neg (by omega)]
  congr 1
  cases b <;> simp <;> omega

theorem take_pred_append (bs : List Bool) (h : bs ≠ []) :
    ∃ x, bs = bs.take (bs.length - 1) ++ [x] := by
  refine ⟨bs.getLast h, ?_⟩
  rw [← List.dropLast_eq_take]
  exact eq_dropLast_append_getLast bs h

/-- inside one page, `d` parent steps lead to the index of the path shortened by `d` bits -/
theorem iterParent_specIndex : ∀ (d : Nat) (bs : List Bool), d < bs.length →
    (bs.length + 5) / 6 = (bs.length - d + 5) / 6 →
    iterParent d (specIndex bs) = some (specIndex (bs.take (bs.length - d))) := by
  intro d
  induction d with
  | zero => intro bs _ _; simp [iterParent]
  | succ d ih =>
    intro bs hd hp
    have hne : bs ≠ [] := by intro e; subst e; simp at hd
    obtain ⟨x, hx⟩ := take_pred_append bs hne
    have hlen : (bs.take (bs.length - 1)).length = bs.length - 1 := by rw [List.length_take]; omega
    have h6 : (bs.take (bs.length - 1)).length % 6 ≠ 0 := by rw [hlen]; omega
    unfold iterParent
    conv => lhs; rw [hx]
    rw [parent_specIndex_snoc _ _ h6, Option.bind_some]
    have hp' : (bs.length - 1 + 5) / 6 = (bs.length - 1 - d + 5) / 6 := by omega
    rw [ih (bs.take (bs.length - 1)) (by rw [hlen]; omega) (by rw [hlen]; exact hp')]
    rw [hlen, List.take_take]
    have e : min (bs.length - 1 - d) (bs.length - 1) = bs.length - (d + 1) := by omega
    rw [e]

theorem up_eq (p : Pos) (d : Nat) (hw : p.WF) (hd : d ≤ p.depth) :
    p.up d = some (if p.depth - d = 0 then Pos.new
      else ⟨p.raw, p.depth - d, specIndex (p.raw.take (p.depth - d))⟩) := by
  have hl := p.path_length hw
  have hD := hw.depthLe
  unfold Pos.up
  rw [if_neg (by omega)]
  by_cases h0 : p.depth - d = 0
  · simp [h0]
  · simp only [h0, if_false]
    by_cases hp : (p.depth + 6 - 1) / 6 = (p.depth - d + 6 - 1) / 6
    · rw [if_pos hp]
      by_cases hd0 : d = 0
      · subst hd0
        simp only [iterParent, Option.map_some, Nat.sub_zero]
        rw [hw.idx]; rfl
      · have := iterParent_specIndex d p.path (by rw [hl]; omega) (by rw [hl]; omega)
        rw [hw.idx, this, hl]
        simp only [Option.map_some, Pos.path, List.take_take]
        have : min (p.depth - d) p.depth = p.depth - d := by omega
        rw [this]
    · rw [if_neg hp, lastPagePath_eq _ _ (by omega) (by rw [hw.rawLen]; omega), specIndex_eq_nodeIndexOf_lp]
      rfl

theorem up_wf (p : Pos) (d : Nat) (hw : p.WF) (hd : d ≤ p.depth) :
    (if p.depth - d = 0 then Pos.new
      else ⟨p.raw, p.depth - d, specIndex (p.raw.take (p.depth - d))⟩ : Pos).WF := by
  split
  · exact Pos.wf_new
  · exact ⟨hw.rawLen, by have := hw.depthLe; simp; omega, rfl⟩

theorem up_path (p : Pos) (d : Nat) (hw : p.WF) (hd : d ≤ p.depth) :
    (if p.depth - d = 0 then Pos.new
      else ⟨p.raw, p.depth - d, specIndex (p.raw.take (p.depth - d))⟩ : Pos).path = p.path.take (p.depth - d) := by
  split
  · rename_i h; rw [h]; simp [Pos.new, Pos.path]
  · simp only [Pos.path, List.take_take]
    have : min (p.depth - d) p.depth = p.depth - d := by omega
    rw [this]

theorem up_none_iff (p : Pos) (d : Nat) (hw : p.WF) : p.up d = none ↔ p.depth < d := by
  constructor
  · intro h
    by_cases hd : p.depth < d
    · exact hd
    · rw [up_eq p d hw (by omega)] at h; cases h
  · intro h; unfold Pos.up; rw [if_pos h]

/-! ## `sibling` -/

theorem siblingIndexOf_snoc (bs : List Bool) (b : Bool) :
    siblingIndexOf (specIndex (bs ++ [b])) = specIndex (bs ++ [!b]) := by
  unfold siblingIndexOf
  by_cases h : bs.length % 6 = 0
  · rw [specIndex_single_page_start _ _ h, specIndex_single_page_start _ _ h]
    cases b <;> simp
  · rw [specIndex_snoc _ _ h, specIndex_snoc _ _ h]
    cases b <;> simp <;> omega

theorem siblingIndexOf_involutive (i : Nat) : siblingIndexOf (siblingIndexOf i) = i := by
  unfold siblingIndexOf
  split <;> split <;> omega

theorem path_split_last (p : Pos) (hw : p.WF) (h1 : 1 ≤ p.depth) :
    ∃ b, p.raw[p.depth - 1]? = some b ∧ p.path = p.raw.take (p.depth - 1) ++ [b] := by
  have hlt : p.depth - 1 < p.raw.length := by rw [hw.rawLen]; have := hw.depthLe; omega
  refine ⟨p.raw[p.depth - 1], by simp [hlt], ?_⟩
  unfold Pos.path
  have : p.depth = (p.depth - 1) + 1 := by omega
  conv => lhs; rw [this]
  rw [List.take_succ_eq_append_getElem hlt]

theorem take_set_self (raw : List Bool) (i : Nat) (x : Bool) : (raw.set i x).take i = raw.take i := by
  rw [List.take_set_of_le (Nat.le_refl _)]

theorem sibling_eq (p : Pos) (hw : p.WF) (h1 : 1 ≤ p.depth) :
    ∃ b, p.path = p.raw.take (p.depth - 1) ++ [b] ∧
      p.sibling = some ⟨p.raw.set (p.depth - 1) (!b), p.depth, specIndex (p.raw.take (p.depth - 1) ++ [!b])⟩ := by
  obtain ⟨b, hb, hp⟩ := path_split_last p hw h1
  refine ⟨b, hp, ?_⟩
  unfold Pos.sibling
  rw [if_neg (by omega)]
  simp only [hb]
  rw [hw.idx, hp, siblingIndexOf_snoc]

theorem sibling_path (p : Pos) (b : Bool) (hw : p.WF) (h1 : 1 ≤ p.depth) (i : Nat) :
    (⟨p.raw.set (p.depth - 1) (!b), p.depth, i⟩ : Pos).path = p.raw.take (p.depth - 1) ++ [!b] := by
  unfold Pos.path
  have hlt : p.depth - 1 < p.raw.length := by rw [hw.rawLen]; have := hw.depthLe; omega
  have := take_succ_set p.raw (p.depth - 1) (!b) hlt
  have e : p.depth - 1 + 1 = p.depth := by omega
  rw [e] at this
  exact this

theorem sibling_wf (p : Pos) (b : Bool) (hw : p.WF) (h1 : 1 ≤ p.depth) :
    (⟨p.raw.set (p.depth - 1) (!b), p.depth, specIndex (p.raw.take (p.depth - 1) ++ [!b])⟩ : Pos).WF := by
  refine ⟨by simp [hw.rawLen], hw.depthLe, ?_⟩
  rw [sibling_path p b hw h1]

theorem sibling_none_iff (p : Pos) (hw : p.WF) : p.sibling = none ↔ p.depth = 0 := by
  constructor
  · intro h
    by_cases hd : p.depth = 0
    · exact hd
    · obtain ⟨b, _, hs⟩ := sibling_eq p hw (by omega)
      rw [hs] at h; cases h
  · intro h; simp [Pos.sibling, h]

/-! ## reachable positions -/

/-- everything the public API of `TriePosition` can build -/
inductive Reach : Pos → Prop where
  | new : Reach Pos.new
  | fromPathAndDepth (raw depth p) : raw.length = 256 → Pos.fromPathAndDepth raw depth = some p → Reach p
  | fromBitslice (s p) : Pos.fromBitslice s = some p → Reach p
  | down (p b q) : Reach p → p.down b = some q → Reach q
  | up (p d q) : Reach p → p.up d = some q → Reach q
  | sibling (p q) : Reach p → p.sibling = some q → Reach q

theorem Reach.wf {p : Pos} (h : Reach p) : p.WF := by
  induction h with
  | new => exact Pos.wf_new
  | fromPathAndDepth raw depth p hr he =>
    have hn : ¬ (depth = 0 ∨ 256 < depth) := fun h => Option.some_ne_none _ (he.symm.trans ((fromPathAndDepth_none_iff raw depth hr).mpr h))
    rw [fromPathAndDepth_eq raw depth hr (by omega) (by omega)] at he
    injection he with he; subst he
    exact fromPathAndDepth_wf raw depth hr (by omega) (by omega)
  | fromBitslice s p he =>
    by_cases h2 : s.length ≤ 256
    · by_cases h1 : 1 ≤ s.length
      · rw [fromBitslice_eq s h1 h2] at he
        injection he with he; subst he
        refine ⟨by simp; omega, h2, ?_⟩
        simp [Pos.path]
      · have : s = [] := by cases s with | nil => rfl | cons => simp at h1
        subst this
        simp [Pos.fromBitslice, Pos.fromPathAndDepth] at he
    · unfold Pos.fromBitslice at he; rw [if_pos (by omega)] at he; cases he
  | down p b q _ he ih =>
    have hn : ¬ (p.depth = 256) := fun h => Option.some_ne_none _ (he.symm.trans ((down_none_iff p b ih).mpr h))
    have hd : p.depth < 256 := by have := ih.depthLe; omega
    rw [down_eq p b ih hd] at he
    injection he with he; subst he
    exact down_wf p b ih hd
  | up p d q _ he ih =>
    have hn : ¬ (p.depth < d) := fun h => Option.some_ne_none _ (he.symm.trans ((up_none_iff p d ih).mpr h))
    rw [up_eq p d ih (by omega)] at he
    injection he with he; subst he
    exact up_wf p d ih (by omega)
  | sibling p q _ he ih =>
    have hn : ¬ (p.depth = 0) := fun h => Option.some_ne_none _ (he.symm.trans ((sibling_none_iff p ih).mpr h))
    obtain ⟨b, _, hs⟩ := sibling_eq p ih (by omega)
    rw [hs] at he
    injection he with he; subst he
    exact sibling_wf p b ih (by omega)

end Nomt.TriePos
