import NomtModel.Core.Complete
/-!
Uniqueness of the verifying path proof: under `Hasher.Sound`, a terminal hashed up the key's own bits with
ANY sibling list that reproduces the specified node of a canonical set is the specified proof `proveAux` —
same depth (number of siblings), same siblings, same terminal up to the (unhashed) position a terminator
carries.
-/
set_option linter.unusedSectionVars false
namespace Nomt
variable {Node VH : Type} [DecidableEq Node] [DecidableEq VH] (H : Hasher Node VH)

theorem terminal_node_kind (hs : H.Sound) (t : Terminal VH) : H.kind (t.node H) ≠ .internal := by
  cases t with
  | leaf k v => simp [Terminal.node, hs.kind_leaf]
  | terminator p => simp [Terminal.node, hs.kind_term]

/-- the terminal agrees with the specified one: the same leaf, or both terminators (the specified one at the
position the key reaches after `n` bits) -/
def TermAgrees (k : Key) (n : Nat) (t spec : Terminal VH) : Prop :=
  (∃ k0 v0, t = .leaf k0 v0 ∧ spec = .leaf k0 v0) ∨
  (∃ pos, t = .terminator pos ∧ spec = .terminator (k.take n))

theorem hashPath_cons_internal (n : Node) (b : Bool) (ps : List Bool) (s : Node) (ss : List Node) :
    hashPath H n (b :: ps) (s :: ss) =
      if b then H.internal s (hashPath H n ps ss) else H.internal (hashPath H n ps ss) s := rfl

theorem proveAux_unique (hs : H.Sound) : ∀ (fuel d : Nat) (X : List (Key × VH)) (k : Key) (t : Terminal VH)
    (sibs : List Node), Canon fuel d X → d + fuel ≤ k.length → sibs.length ≤ fuel →
    hashPath H (t.node H) ((k.drop d).take sibs.length) sibs = nodeAt H fuel d X →
    sibs = (proveAux H fuel d X k).2 ∧ TermAgrees k (d + sibs.length) t (proveAux H fuel d X k).1 := by
  intro fuel
  induction fuel with
  | zero =>
    intro d X k t sibs hc hk hl hh
    have hnil : sibs = [] := List.eq_nil_of_length_eq_zero (by omega)
    subst hnil
    simp only [List.length_nil, List.take_zero, hashPath] at hh
    match X, hc with
    | [], _ =>
      rw [nodeAt_nil] at hh
      cases t with
      | leaf k0 v0 =>
        have := congrArg H.kind hh
        simp [Terminal.node, hs.kind_leaf, hs.kind_term] at this
      | terminator pos => exact ⟨by simp [proveAux], Or.inr ⟨pos, rfl, by simp [proveAux]⟩⟩
    | [(k0, v0)], _ =>
      rw [nodeAt_single] at hh
      cases t with
      | leaf k1 v1 =>
        obtain ⟨rfl, rfl⟩ := hs.leaf_inj _ _ _ _ hh
        exact ⟨by simp [proveAux], Or.inl ⟨k1, v1, rfl, by simp [proveAux]⟩⟩
      | terminator pos =>
        have := congrArg H.kind hh
        simp [Terminal.node, hs.kind_leaf, hs.kind_term] at this
  | succ f ih =>
    intro d X k t sibs hc hk hl hh
    -- a non-empty sibling list makes the hash an internal node
    have hint : ∀ s ss, sibs = s :: ss → ∃ below,
        hashPath H (t.node H) ((k.drop d).take sibs.length) sibs =
          (if k.getD d false then H.internal s below else H.internal below s) ∧
        below = hashPath H (t.node H) ((k.drop (d+1)).take ss.length) ss := by
      intro s ss e
      subst e
      have hdrop : k.drop d = k.getD d false :: k.drop (d+1) := by
        have hlt : d < k.length := by omega
        rw [List.drop_eq_getElem_cons hlt]
        simp [List.getD, List.getElem?_eq_getElem hlt]
      refine ⟨_, ?_, rfl⟩
      simp only [List.length_cons, hdrop, List.take_succ_cons, hashPath_cons_internal]
    match X, hc with
    | [], _ =>
      rw [nodeAt_nil] at hh
      cases sibs with
      | nil =>
        simp only [List.length_nil, List.take_zero, hashPath] at hh
        cases t with
        | leaf k0 v0 =>
          have := congrArg H.kind hh
          simp [Terminal.node, hs.kind_leaf, hs.kind_term] at this
        | terminator pos => exact ⟨by simp [proveAux], Or.inr ⟨pos, rfl, by simp [proveAux]⟩⟩
      | cons s ss =>
        obtain ⟨below, he, _⟩ := hint s ss rfl
        rw [he] at hh
        have := congrArg H.kind hh
        split at this <;> simp [hs.kind_internal, hs.kind_term] at this
    | [(k0, v0)], _ =>
      rw [nodeAt_single] at hh
      cases sibs with
      | nil =>
        simp only [List.length_nil, List.take_zero, hashPath] at hh
        cases t with
        | leaf k1 v1 =>
          obtain ⟨rfl, rfl⟩ := hs.leaf_inj _ _ _ _ hh
          exact ⟨by simp [proveAux], Or.inl ⟨k1, v1, rfl, by simp [proveAux]⟩⟩
        | terminator pos =>
          have := congrArg H.kind hh
          simp [Terminal.node, hs.kind_leaf, hs.kind_term] at this
      | cons s ss =>
        obtain ⟨below, he, _⟩ := hint s ss rfl
        rw [he] at hh
        have := congrArg H.kind hh
        split at this <;> simp [hs.kind_internal, hs.kind_leaf] at this
    | a :: b :: rest, hc =>
      obtain ⟨_, c0, c1⟩ := hc
      rw [nodeAt_two] at hh
      cases sibs with
      | nil =>
        simp only [List.length_nil, List.take_zero, hashPath] at hh
        have := congrArg H.kind hh
        rw [hs.kind_internal] at this
        exact absurd this (terminal_node_kind H hs t)
      | cons s ss =>
        obtain ⟨below, he, hbelow⟩ := hint s ss rfl
        rw [he] at hh
        have hl' : ss.length ≤ f := by simpa using hl
        cases hbit : k.getD d false with
        | false =>
          simp only [hbit, Bool.false_eq_true, if_false] at hh
          obtain ⟨h1, h2⟩ := hs.internal_inj _ _ _ _ hh
          subst h2
          rw [hbelow] at h1
          obtain ⟨hs1, ht1⟩ := ih (d+1) (side d false (a :: b :: rest)) k t ss c0 (by omega) hl' h1
          simp only [proveAux, hbit, Bool.not_false]
          refine ⟨by rw [← hs1], ?_⟩
          have e : d + (ss.length + 1) = d + 1 + ss.length := by omega
          simp only [List.length_cons, e]; exact ht1
        | true =>
          simp only [hbit, if_true] at hh
          obtain ⟨h1, h2⟩ := hs.internal_inj _ _ _ _ hh
          subst h1
          rw [hbelow] at h2
          obtain ⟨hs1, ht1⟩ := ih (d+1) (side d true (a :: b :: rest)) k t ss c1 (by omega) hl' h2
          simp only [proveAux, hbit, Bool.not_true]
          refine ⟨by rw [← hs1], ?_⟩
          have e : d + (ss.length + 1) = d + 1 + ss.length := by omega
          simp only [List.length_cons, e]; exact ht1

end Nomt
