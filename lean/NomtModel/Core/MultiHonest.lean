import NomtModel.Core.MultiFrom
import NomtModel.Core.Complete
import NomtModel.Core.MultiUpdateRoot
/-!
Completeness of multi-proofs, semantic part: the specified path proofs (`proveSpec`) of keys with strictly
ascending terminals in one canonical set are well-shaped (`honest_shape`): their bisection tree exists,
and its hash is the specified root.  Hence `from_path_proofs` succeeds on them and `verify` accepts the
result (`fromPathProofs_complete`).
-/
set_option linter.unusedSectionVars false
namespace Nomt
variable {Node VH : Type} [DecidableEq Node] [DecidableEq VH] (H : Hasher Node VH)

/-! ### the specified path proof, one level down -/

theorem proveAux_two (f d : Nat) (a b : Key × VH) (rest : List (Key × VH)) (k : Key) :
    proveAux H (f+1) d (a :: b :: rest) k =
      ((proveAux H f (d+1) (side d (k.getD d false) (a :: b :: rest)) k).1,
       nodeAt H f (d+1) (side d (!(k.getD d false)) (a :: b :: rest)) ::
         (proveAux H f (d+1) (side d (k.getD d false) (a :: b :: rest)) k).2) := by
  simp [proveAux]

/-- the terminal's path extends the key's bits down to the terminal's depth -/
theorem proveAux_path : ∀ (fuel d : Nat) (X : List (Key × VH)) (k : Key),
    (∀ kv ∈ X, kv.1.length = d + fuel ∧ kv.1.take d = k.take d) → k.length = d + fuel → Canon fuel d X →
    k.take (d + (proveAux H fuel d X k).2.length) <+: (proveAux H fuel d X k).1.path := by
  intro fuel
  induction fuel with
  | zero =>
    intro d X k hX hk hc
    match X, hc, hX with
    | [], _, _ => simp [proveAux, Terminal.path]
    | [(k0, v0)], _, hX =>
      simp only [proveAux, Terminal.path, List.length_nil, Nat.add_zero]
      rw [← (hX (k0, v0) (by simp)).2]; exact List.take_prefix _ _
  | succ f ih =>
    intro d X k hX hk hc
    match X, hc, hX with
    | [], _, _ => simp [proveAux, Terminal.path]
    | [(k0, v0)], _, hX =>
      simp only [proveAux, Terminal.path, List.length_nil, Nat.add_zero]
      rw [← (hX (k0, v0) (by simp)).2]; exact List.take_prefix _ _
    | a :: b :: rest, hc, hX =>
      rw [proveAux_two]
      simp only [List.length_cons]
      have := ih (d + 1) (side d (k.getD d false) (a :: b :: rest)) k
        (by
          intro kv hkv
          obtain ⟨hm, hb⟩ := mem_side.1 hkv
          obtain ⟨h1, h2⟩ := hX kv hm
          refine ⟨by omega, ?_⟩
          rw [take_succ_of_getD kv.1 d (by omega), take_succ_of_getD k d (by omega), h2, hb])
        (by omega) (Canon_side f d _ _ hc)
      have e : d + ((proveAux H f (d + 1) (side d (k.getD d false) (a :: b :: rest)) k).2.length + 1)
          = d + 1 + (proveAux H f (d + 1) (side d (k.getD d false) (a :: b :: rest)) k).2.length := by omega
      rw [e]; exact this

/-! ### manipulating shapes -/

theorem Shape.fork_inv {pos seg : List Bool} {cs : List Node} {items : List (Item Node VH)} {Tl Tr : PTree Node VH}
    (h : Shape pos items (.fork seg cs Tl Tr)) :
    ∃ L R, items = L ++ R ∧ L ≠ [] ∧ R ≠ [] ∧ seg.length = cs.length ∧
      (∀ it ∈ L ++ R, (pos ++ seg) <+: it.1.path) ∧
      (∀ it, (L ++ R).head? = some it → cs <+: it.2) ∧
      (∀ it ∈ L, it.1.path[pos.length + seg.length]? = some false) ∧
      (∀ it ∈ R, it.1.path[pos.length + seg.length]? = some true) ∧
      Shape (pos ++ seg ++ [false]) (L.map (fun it => (it.1, it.2.drop (cs.length + 1)))) Tl ∧
      Shape (pos ++ seg ++ [true]) (R.map (fun it => (it.1, it.2.drop (cs.length + 1)))) Tr := by
  cases h with
  | fork _ _ _ L R _ _ h1 h2 h3 h4 h5 h6 h7 h8 h9 => exact ⟨L, R, rfl, h1, h2, h3, h4, h5, h6, h7, h8, h9⟩

theorem Shape.is_fork {pos : List Bool} {items : List (Item Node VH)} {T : PTree Node VH}
    (h : Shape pos items T) (h2 : 2 ≤ items.length) : ∃ seg cs Tl Tr, T = .fork seg cs Tl Tr := by
  cases h with
  | tip _ _ _ _ _ _ => simp at h2
  | fork _ seg cs _ _ Tl Tr => exact ⟨seg, cs, Tl, Tr, rfl⟩

/-- one more common bit (with its common sibling) above a bisection -/
theorem Shape.cons_common {pos seg : List Bool} {cs : List Node} {items : List (Item Node VH)}
    {Tl Tr : PTree Node VH} (b : Bool) (s : Node)
    (h : Shape (pos ++ [b]) items (.fork seg cs Tl Tr)) :
    Shape pos (items.map (fun it => (it.1, s :: it.2))) (.fork (b :: seg) (s :: cs) Tl Tr) := by
  obtain ⟨L, R, rfl, h1, h2, h3, h4, h5, h6, h7, h8, h9⟩ := h.fork_inv
  have hpos : pos ++ b :: seg = pos ++ [b] ++ seg := by simp
  have hlen : pos.length + (b :: seg).length = (pos ++ [b]).length + seg.length := by
    simp only [List.length_cons, List.length_append, List.length_nil]; omega
  have hmapL : (L.map (fun it => (it.1, s :: it.2))).map (fun it => (it.1, it.2.drop ((s :: cs).length + 1)))
      = L.map (fun it => (it.1, it.2.drop (cs.length + 1))) := by
    rw [List.map_map]; apply List.map_congr_left; intro it _; simp
  have hmapR : (R.map (fun it => (it.1, s :: it.2))).map (fun it => (it.1, it.2.drop ((s :: cs).length + 1)))
      = R.map (fun it => (it.1, it.2.drop (cs.length + 1))) := by
    rw [List.map_map]; apply List.map_congr_left; intro it _; simp
  rw [List.map_append]
  apply Shape.fork pos (b :: seg) (s :: cs) _ _ Tl Tr (by simpa using h1) (by simpa using h2)
    (by simp [h3])
  · intro it hit
    rw [← List.map_append] at hit
    obtain ⟨it', hit', rfl⟩ := List.mem_map.1 hit
    rw [hpos]; exact h4 it' hit'
  · intro it hit
    rw [← List.map_append, List.head?_map] at hit
    cases hh : (L ++ R).head? with
    | none => rw [hh] at hit; cases hit
    | some it' =>
      rw [hh] at hit
      simp only [Option.map, Option.some.injEq] at hit
      rw [← hit]
      exact List.cons_prefix_cons.2 ⟨rfl, h5 it' hh⟩
  · intro it hit
    obtain ⟨it', hit', rfl⟩ := List.mem_map.1 hit
    rw [hlen]; exact h6 it' hit'
  · intro it hit
    obtain ⟨it', hit', rfl⟩ := List.mem_map.1 hit
    rw [hlen]; exact h7 it' hit'
  · rw [hmapL, hpos]; exact h8
  · rw [hmapR, hpos]; exact h9

/-! ### the specified proofs of one canonical set are well-shaped -/

theorem prefix_snoc_of_getD (p l : List Bool) (b : Bool) (h : p <+: l) (hl : p.length < l.length)
    (hb : l.getD p.length false = b) : (p ++ [b]) <+: l := by
  have h1 : l.take p.length = p := (bl_prefix_iff_take _ _).1 h
  have h2 := take_succ_of_getD l p.length hl
  rw [h1, hb] at h2
  rw [← h2]; exact List.take_prefix _ _

theorem proveAux_nil (fuel d : Nat) (k : Key) :
    proveAux H fuel d ([] : List (Key × VH)) k = (.terminator (k.take d), []) := by
  cases fuel <;> simp [proveAux]

theorem proveAux_single (fuel d : Nat) (k0 : Key) (v0 : VH) (k : Key) :
    proveAux H fuel d [(k0, v0)] k = (.leaf k0 v0, []) := by
  cases fuel <;> simp [proveAux]

/-- one key: a tip -/
theorem honest_tip (fuel d : Nat) (X : List (Key × VH)) (pos : List Bool) (k : Key)
    (hpos : pos.length = d) (hc : Canon fuel d X) (hX : ∀ kv ∈ X, kv.1.length = d + fuel ∧ pos <+: kv.1)
    (hk : k.length = d + fuel ∧ pos <+: k) :
    ∃ T, Shape pos [proveAux H fuel d X k] T ∧ T.hash H = nodeAt H fuel d X ∧
      (T.mpaths pos).map (·.depth) = [d + (proveAux H fuel d X k).2.length] := by
  have hkt : k.take d = pos := by rw [← hpos]; exact (bl_prefix_iff_take _ _).1 hk.2
  have hlen := proveAux_len H fuel d X k
  refine ⟨.tip (proveAux H fuel d X k).1 ((k.drop d).take (proveAux H fuel d X k).2.length)
    (proveAux H fuel d X k).2, ?_, ?_, ?_⟩
  · apply Shape.tip
    · have := proveAux_path H fuel d X k (by
        intro kv hkv
        obtain ⟨h1, h2⟩ := hX kv hkv
        refine ⟨h1, ?_⟩
        rw [hkt, ← hpos]; exact (bl_prefix_iff_take _ _).1 h2) hk.1 hc
      rw [List.take_add, hkt] at this
      exact this
    · simp only [List.length_take, List.length_drop]; omega
  · exact proveAux_hash H fuel d X k hc (by omega)
  · simp only [PTree.mpaths, List.map_cons, List.map_nil, List.length_take, List.length_drop, hpos]
    congr 1; omega

theorem honest_shape : ∀ (fuel d : Nat) (X : List (Key × VH)) (pos : List Bool) (ks : List Key),
    pos.length = d → Canon fuel d X → (∀ kv ∈ X, kv.1.length = d + fuel ∧ pos <+: kv.1) → ks ≠ [] →
    (∀ k ∈ ks, k.length = d + fuel ∧ pos <+: k) →
    ks.Pairwise (fun a b => bitsLt (proveAux H fuel d X a).1.path (proveAux H fuel d X b).1.path = true) →
    ∃ T, Shape pos (ks.map (fun k => proveAux H fuel d X k)) T ∧ T.hash H = nodeAt H fuel d X ∧
      (T.mpaths pos).map (·.depth) = ks.map (fun k => d + (proveAux H fuel d X k).2.length) := by
  intro fuel
  induction fuel with
  | zero =>
    intro d X pos ks hpos hc hX hne hks hasc
    match ks, hne, hks, hasc with
    | [k], _, hks, _ => exact honest_tip H 0 d X pos k hpos hc hX (hks k (by simp))
    | k1 :: k2 :: rest, _, hks, hasc =>
      exfalso
      have h12 := (List.pairwise_cons.1 hasc).1 k2 (by simp)
      have ht1 : k1.take d = pos := by rw [← hpos]; exact (bl_prefix_iff_take _ _).1 (hks k1 (by simp)).2
      have ht2 : k2.take d = pos := by rw [← hpos]; exact (bl_prefix_iff_take _ _).1 (hks k2 (by simp)).2
      match X, hc with
      | [], _ => simp [proveAux_nil, Terminal.path, ht1, ht2, bl_irrefl] at h12
      | [(k0, v0)], _ => simp [proveAux_single, Terminal.path, bl_irrefl] at h12
  | succ f ih =>
    intro d X pos ks hpos hc hX hne hks hasc
    match ks, hne, hks, hasc with
    | [k], _, hks, _ => exact honest_tip H (f+1) d X pos k hpos hc hX (hks k (by simp))
    | k1 :: k2 :: rest, _, hks, hasc =>
      have h12 := (List.pairwise_cons.1 hasc).1 k2 (by simp)
      have ht : ∀ k ∈ k1 :: k2 :: rest, k.take d = pos := by
        intro k hk; rw [← hpos]; exact (bl_prefix_iff_take _ _).1 (hks k hk).2
      match X, hc, hX, hasc, h12 with
      | [], _, _, _, h12 =>
        exfalso; simp [proveAux_nil, Terminal.path, ht k1 (by simp), ht k2 (by simp), bl_irrefl] at h12
      | [(k0, v0)], _, _, _, h12 =>
        exfalso; simp [proveAux_single, Terminal.path, bl_irrefl] at h12
      | a :: b :: r, hc, hX, hasc, _ =>
        generalize hXe : a :: b :: r = X at *
        generalize hkse : k1 :: k2 :: rest = ks at *
        have hks2 : 2 ≤ ks.length := by rw [← hkse]; simp
        -- one level of the proofs
        have hstep : ∀ k, proveAux H (f+1) d X k =
            ((proveAux H f (d+1) (side d (k.getD d false) X) k).1,
             nodeAt H f (d+1) (side d (!(k.getD d false)) X) ::
               (proveAux H f (d+1) (side d (k.getD d false) X) k).2) := by
          intro k; rw [← hXe]; exact proveAux_two H f d a b r k
        -- the terminal path of each key: below `pos`, with the key's bit at `d`
        have hpath : ∀ k ∈ ks, pos <+: (proveAux H (f+1) d X k).1.path ∧
            (proveAux H (f+1) d X k).1.path[d]? = some (k.getD d false) := by
          intro k hk
          have hp := proveAux_path H (f+1) d X k (by
            intro kv hkv
            obtain ⟨h1, h2⟩ := hX kv hkv
            refine ⟨h1, ?_⟩
            rw [ht k hk, ← hpos]; exact (bl_prefix_iff_take _ _).1 h2) (hks k hk).1 hc
          have hn : 1 ≤ (proveAux H (f+1) d X k).2.length := by rw [hstep]; simp
          have hn2 := proveAux_len H (f+1) d X k
          have hkl := (hks k hk).1
          constructor
          · rw [← ht k hk]
            exact (List.take_prefix_take_left (by omega)).trans hp
          · rw [prefix_getElem? _ _ hp d (by simp only [List.length_take]; omega),
              List.getElem?_take_of_lt (by omega)]
            simp [List.getD]
            rw [List.getElem?_eq_getElem (by omega)]; simp
        -- the keys are sorted by their bit `d`
        have hpart := filter_partition (fun k : Key => k.getD d false) ks (by
          apply List.Pairwise.imp_of_mem _ hasc
          intro x y hx hy hlt hbad
          have hxp := hpath x hx
          have hyp := hpath y hy
          have ht' : (proveAux H (f+1) d X x).1.path.take d = (proveAux H (f+1) d X y).1.path.take d := by
            rw [prefix_take_eq _ _ hxp.1 d (by omega), prefix_take_eq _ _ hyp.1 d (by omega)]
          exact bitsLt_bit d _ _ ht' hlt ⟨by rw [hxp.2, hbad.1], by rw [hyp.2, hbad.2]⟩)
        generalize hkl : ks.filter (fun k => k.getD d false == false) = kl at hpart
        generalize hkr : ks.filter (fun k => k.getD d false == true) = kr at hpart
        have hklm : ∀ k ∈ kl, k ∈ ks ∧ k.getD d false = false := by
          intro k hk; rw [← hkl] at hk; simpa using List.mem_filter.1 hk
        have hkrm : ∀ k ∈ kr, k ∈ ks ∧ k.getD d false = true := by
          intro k hk; rw [← hkr] at hk; simpa using List.mem_filter.1 hk
        -- hypotheses of the recursive calls
        have hside : ∀ (bit : Bool) (kv : Key × VH), kv ∈ side d bit X →
            kv.1.length = d + 1 + f ∧ (pos ++ [bit]) <+: kv.1 := by
          intro bit kv hkv
          obtain ⟨hm, hb⟩ := mem_side.1 hkv
          obtain ⟨h1, h2⟩ := hX kv hm
          exact ⟨by omega, prefix_snoc_of_getD pos kv.1 bit h2 (by omega) (by rw [hpos]; exact hb)⟩
        have hkeys : ∀ (bit : Bool) (k : Key), k ∈ ks → k.getD d false = bit →
            k.length = d + 1 + f ∧ (pos ++ [bit]) <+: k := by
          intro bit k hk hb
          obtain ⟨h1, h2⟩ := hks k hk
          exact ⟨by omega, prefix_snoc_of_getD pos k bit h2 (by omega) (by rw [hpos]; exact hb)⟩
        have hasc' : ∀ (bit : Bool) (q : List Key), q.Sublist ks → (∀ k ∈ q, k.getD d false = bit) →
            q.Pairwise (fun a b => bitsLt (proveAux H f (d+1) (side d bit X) a).1.path
              (proveAux H f (d+1) (side d bit X) b).1.path = true) := by
          intro bit q hsub hq
          apply List.Pairwise.imp_of_mem _ (List.Pairwise.sublist hsub hasc)
          intro x y hx hy hlt
          rw [hstep x, hstep y, hq x hx, hq y hy] at hlt
          exact hlt
        have hitems : ∀ (bit : Bool) (q : List Key), (∀ k ∈ q, k.getD d false = bit) →
            (q.map (fun k => proveAux H f (d+1) (side d bit X) k)).map
                (fun it => (it.1, nodeAt H f (d+1) (side d (!bit) X) :: it.2))
              = q.map (fun k => proveAux H (f+1) d X k) := by
          intro bit q hq
          rw [List.map_map]
          apply List.map_congr_left
          intro k hk
          simp only [Function.comp, hstep k, hq k hk]
        have hnode : nodeAt H (f+1) d X = H.internal (nodeAt H f (d+1) (side d false X)) (nodeAt H f (d+1) (side d true X)) := by
          rw [← hXe]; exact nodeAt_two H f d a b r
        -- all keys on one side: one more common bit
        have hcommon : ∀ (bit : Bool), (∀ k ∈ ks, k.getD d false = bit) →
            ∃ T, Shape pos (ks.map (fun k => proveAux H (f+1) d X k)) T ∧ T.hash H = nodeAt H (f+1) d X ∧
              (T.mpaths pos).map (·.depth) = ks.map (fun k => d + (proveAux H (f+1) d X k).2.length) := by
          intro bit hall
          obtain ⟨T', hsh', hh', hd'⟩ := ih (d+1) (side d bit X) (pos ++ [bit]) ks (by simp [hpos])
            (by rw [← hXe]; exact Canon_side f d _ bit (by rw [hXe]; exact hc)) (hside bit)
            (by intro h; rw [h] at hks2; simp at hks2)
            (fun k hk => hkeys bit k hk (hall k hk)) (hasc' bit ks (List.Sublist.refl _) hall)
          obtain ⟨seg, cs, Tl, Tr, rfl⟩ := hsh'.is_fork (by simpa using hks2)
          refine ⟨.fork (bit :: seg) (nodeAt H f (d+1) (side d (!bit) X) :: cs) Tl Tr, ?_, ?_, ?_⟩
          · rw [← hitems bit ks hall]
            exact hsh'.cons_common bit _
          · simp only [PTree.hash, hashPath] at hh' ⊢
            rw [hh', hnode]
            cases bit <;> simp
          · have e : pos ++ bit :: seg = pos ++ [bit] ++ seg := by simp
            simp only [PTree.mpaths] at hd' ⊢
            rw [e, hd']
            apply List.map_congr_left
            intro k hk
            rw [hstep k, List.length_cons, hall k hk]; omega
        by_cases hle : kl = []
        · -- everything on the `1`-side
          apply hcommon true
          intro k hk
          rw [hpart, hle, List.nil_append] at hk
          exact (hkrm k hk).2
        · by_cases hre : kr = []
          · apply hcommon false
            intro k hk
            rw [hpart, hre, List.append_nil] at hk
            exact (hklm k hk).2
          · -- a bisection at this bit
            have hsubl : kl.Sublist ks := by rw [← hkl]; exact List.filter_sublist
            have hsubr : kr.Sublist ks := by rw [← hkr]; exact List.filter_sublist
            obtain ⟨Tl, hshl, hhl, hdl⟩ := ih (d+1) (side d false X) (pos ++ [false]) kl (by simp [hpos])
              (by rw [← hXe]; exact Canon_side f d _ false (by rw [hXe]; exact hc)) (hside false) hle
              (fun k hk => hkeys false k (hklm k hk).1 (hklm k hk).2)
              (hasc' false kl hsubl (fun k hk => (hklm k hk).2))
            obtain ⟨Tr, hshr, hhr, hdr⟩ := ih (d+1) (side d true X) (pos ++ [true]) kr (by simp [hpos])
              (by rw [← hXe]; exact Canon_side f d _ true (by rw [hXe]; exact hc)) (hside true) hre
              (fun k hk => hkeys true k (hkrm k hk).1 (hkrm k hk).2)
              (hasc' true kr hsubr (fun k hk => (hkrm k hk).2))
            refine ⟨.fork [] [] Tl Tr, ?_, ?_, ?_⟩
            · have hdropL : (kl.map (fun k => proveAux H (f+1) d X k)).map (fun it => (it.1, it.2.drop (([] : List Node).length + 1)))
                  = kl.map (fun k => proveAux H f (d+1) (side d false X) k) := by
                rw [List.map_map]
                apply List.map_congr_left
                intro k hk
                simp only [Function.comp, hstep k, (hklm k hk).2, List.length_nil, Nat.zero_add, List.drop_succ_cons,
                  List.drop_zero]
              have hdropR : (kr.map (fun k => proveAux H (f+1) d X k)).map (fun it => (it.1, it.2.drop (([] : List Node).length + 1)))
                  = kr.map (fun k => proveAux H f (d+1) (side d true X) k) := by
                rw [List.map_map]
                apply List.map_congr_left
                intro k hk
                simp only [Function.comp, hstep k, (hkrm k hk).2, List.length_nil, Nat.zero_add, List.drop_succ_cons,
                  List.drop_zero]
              rw [hpart, List.map_append]
              apply Shape.fork pos [] [] _ _ Tl Tr (by simpa using hle) (by simpa using hre) rfl
              · intro it hit
                rw [← List.map_append, ← hpart] at hit
                obtain ⟨k, hk, rfl⟩ := List.mem_map.1 hit
                rw [List.append_nil]; exact (hpath k hk).1
              · intro it _; exact List.nil_prefix
              · intro it hit
                obtain ⟨k, hk, rfl⟩ := List.mem_map.1 hit
                have e : pos.length + ([] : List Bool).length = d := by simp [hpos]
                rw [e, (hpath k (hklm k hk).1).2, (hklm k hk).2]
              · intro it hit
                obtain ⟨k, hk, rfl⟩ := List.mem_map.1 hit
                have e : pos.length + ([] : List Bool).length = d := by simp [hpos]
                rw [e, (hpath k (hkrm k hk).1).2, (hkrm k hk).2]
              · rw [hdropL, List.append_nil]; exact hshl
              · rw [hdropR, List.append_nil]; exact hshr
            · simp only [PTree.hash, hashPath, hhl, hhr, hnode]
            · simp only [PTree.mpaths, List.append_nil, List.map_append, hdl, hdr]
              rw [hpart, List.map_append]
              congr 1
              · apply List.map_congr_left
                intro k _
                rw [hstep k, List.length_cons, (hklm k (by assumption)).2]; omega
              · apply List.map_congr_left
                intro k _
                rw [hstep k, List.length_cons, (hkrm k (by assumption)).2]; omega

theorem PTree.vpaths_depths : ∀ (T : PTree Node VH) (pos : List Bool) (off : Nat),
    (T.vpaths pos off).map (fun vp => vp.depth) = (T.mpaths pos).map (fun p => p.depth)
  | .tip _ _ _, _, _ => rfl
  | .fork _ _ l r, _, _ => by
    simp only [PTree.vpaths, PTree.mpaths, List.map_append, PTree.vpaths_depths l, PTree.vpaths_depths r]

/-- **completeness of multi-proofs**: the specified path proofs of `L`-bit keys of a canonical set `S`,
in an order in which their terminal paths strictly ascend, are merged by `from_path_proofs` into a
multi-proof which `verify` accepts against the root of `S`; the verified terminals are those of the path
proofs, in order, each at the depth of its path proof (the number of its siblings), and every proved key
is in scope of the verified multi-proof. -/
theorem fromPathProofs_complete (L : Nat) (S : List (Key × VH)) (hc : Canon L 0 S)
    (hlen : ∀ kv ∈ S, kv.1.length = L) (ks : List Key) (hne : ks ≠ []) (hkl : ∀ k ∈ ks, k.length = L)
    (hasc : (ks.map (fun k => (proveSpec H L S k).terminal.path)).Pairwise (fun a b => bitsLt a b = true)) :
    ∃ (mp : MultiProof Node VH) (v : VerifiedMulti Node VH),
      fromPathProofs (ks.map (proveSpec H L S)) = .ok mp ∧
      verifyMulti H mp (nodeAt H L 0 S) = .ok v ∧
      v.inner.map (·.terminal) = (ks.map (proveSpec H L S)).map (·.terminal) ∧
      v.inner.map (·.depth) = (ks.map (proveSpec H L S)).map (·.siblings.length) ∧
      mp.paths.map (·.terminal) = (ks.map (proveSpec H L S)).map (·.terminal) ∧
      v.siblings = mp.siblings ∧ v.root = nodeAt H L 0 S ∧
      (∀ k ∈ ks, ∃ (j : Nat) (t : VPath VH), v.inner[j]? = some t ∧
        k.take t.depth = t.terminal.path.take t.depth) := by
  obtain ⟨T, hsh, hhash, hdep⟩ := honest_shape H L 0 S [] ks rfl hc
    (fun kv hkv => ⟨by rw [hlen kv hkv]; omega, List.nil_prefix⟩) hne
    (fun k hk => ⟨by rw [hkl k hk]; omega, List.nil_prefix⟩)
    (by rw [List.pairwise_map] at hasc; exact hasc)
  have hitems : (ks.map (proveSpec H L S)).map (fun pp => (pp.terminal, pp.siblings))
      = ks.map (fun k => proveAux H L 0 S k) := by
    rw [List.map_map]; apply List.map_congr_left; intro k _; rfl
  have hfrom := fromPathProofs_shape (ks.map (proveSpec H L S)) T (by rw [hitems]; exact hsh)
  have hver := verifyMulti_complete H T hsh.wf hsh.aligned
  rw [hhash] at hver
  have hterm : (T.mpaths []).map (·.terminal) = (ks.map (proveSpec H L S)).map (·.terminal) := by
    rw [hsh.terminals, List.map_map, List.map_map]; apply List.map_congr_left; intro k _; rfl
  have hdepth : (T.vpaths [] 0).map (·.depth) = (ks.map (proveSpec H L S)).map (·.siblings.length) := by
    rw [PTree.vpaths_depths, hdep, List.map_map]; apply List.map_congr_left; intro k _
    simp [proveSpec]
  have hterm' : (T.vpaths [] 0).map (·.terminal) = (ks.map (proveSpec H L S)).map (·.terminal) := by
    rw [PTree.vpaths_terminals, hterm]
  refine ⟨_, _, hfrom, hver, hterm', hdepth, hterm, rfl, rfl, ?_⟩
  intro k hk
  obtain ⟨j, hj, hkj⟩ := List.mem_iff_getElem.1 hk
  have hjl : j < (T.vpaths [] 0).length := by
    have := congrArg List.length hterm'
    simp only [List.length_map] at this
    omega
  refine ⟨j, (T.vpaths [] 0)[j], List.getElem?_eq_getElem hjl, ?_⟩
  have ht : ((T.vpaths [] 0)[j]).terminal = (proveSpec H L S k).terminal := by
    have := congrArg (fun l => l[j]?) hterm'
    simp only [List.getElem?_map, List.getElem?_eq_getElem hjl, List.getElem?_eq_getElem hj, Option.map, hkj] at this
    injection this
  have hd : ((T.vpaths [] 0)[j]).depth = (proveSpec H L S k).siblings.length := by
    have := congrArg (fun l => l[j]?) hdepth
    simp only [List.getElem?_map, List.getElem?_eq_getElem hjl, List.getElem?_eq_getElem hj, Option.map, hkj] at this
    injection this
  rw [ht, hd]
  have hp := proveAux_path H L 0 S k (fun kv hkv => ⟨by rw [hlen kv hkv]; omega, by simp⟩)
    (by rw [hkl k hk]; omega) hc
  rw [Nat.zero_add] at hp
  have hn := proveAux_len H L 0 S k
  have := prefix_take_eq _ _ hp (proveSpec H L S k).siblings.length (by
    simp only [proveSpec, List.length_take]; rw [hkl k hk]; omega)
  simp only [proveSpec] at this ⊢
  rw [this, List.take_take, Nat.min_self]

end Nomt
