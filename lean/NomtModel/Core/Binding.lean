import NomtModel.Core.PathProof
set_option linter.unusedSectionVars false
namespace Nomt
variable {Node VH : Type} (H : Hasher Node VH)

/-- **C02, binding**: under collision-freedom the root determines the key-value set. -/
theorem nodeAt_inj (hs : H.Sound) : ∀ (fuel d : Nat) (S S' : List (Key × VH)),
    Canon fuel d S → Canon fuel d S' → nodeAt H fuel d S = nodeAt H fuel d S' → S = S' := by
  intro fuel
  induction fuel with
  | zero =>
    intro d S S' hc hc' h
    match S, hc, S', hc' with
    | [], _, [], _ => rfl
    | [], _, [(k, v)], _ =>
      rw [nodeAt_nil, nodeAt_single] at h
      have := congrArg H.kind h; simp [hs.kind_term, hs.kind_leaf] at this
    | [(k, v)], _, [], _ =>
      rw [nodeAt_nil, nodeAt_single] at h
      have := congrArg H.kind h; simp [hs.kind_term, hs.kind_leaf] at this
    | [(k, v)], _, [(k', v')], _ =>
      rw [nodeAt_single, nodeAt_single] at h
      have := hs.leaf_inj _ _ _ _ h; simp only at this; rw [this.1, this.2]
  | succ f ih =>
    intro d S S' hc hc' h
    match S, hc, S', hc' with
    | [], _, [], _ => rfl
    | [], _, [(k, v)], _ =>
      rw [nodeAt_nil, nodeAt_single] at h
      have := congrArg H.kind h; simp [hs.kind_term, hs.kind_leaf] at this
    | [(k, v)], _, [], _ =>
      rw [nodeAt_nil, nodeAt_single] at h
      have := congrArg H.kind h; simp [hs.kind_term, hs.kind_leaf] at this
    | [(k, v)], _, [(k', v')], _ =>
      rw [nodeAt_single, nodeAt_single] at h
      have := hs.leaf_inj _ _ _ _ h; simp only at this; rw [this.1, this.2]
    | [], _, a :: b :: r, _ =>
      rw [nodeAt_nil, nodeAt_two] at h
      have := congrArg H.kind h; simp [hs.kind_term, hs.kind_internal] at this
    | a :: b :: r, _, [], _ =>
      rw [nodeAt_nil, nodeAt_two] at h
      have := congrArg H.kind h; simp [hs.kind_term, hs.kind_internal] at this
    | [(k, v)], _, a :: b :: r, _ =>
      rw [nodeAt_single, nodeAt_two] at h
      have := congrArg H.kind h; simp [hs.kind_leaf, hs.kind_internal] at this
    | a :: b :: r, _, [(k, v)], _ =>
      rw [nodeAt_single, nodeAt_two] at h
      have := congrArg H.kind h; simp [hs.kind_leaf, hs.kind_internal] at this
    | a :: b :: r, hc, a' :: b' :: r', hc' =>
      rw [nodeAt_two, nodeAt_two] at h
      obtain ⟨hl, hr⟩ := hs.internal_inj _ _ _ _ h
      obtain ⟨hB, c0, c1⟩ := hc
      obtain ⟨hB', c0', c1'⟩ := hc'
      have e0 := ih (d+1) _ _ c0 c0' hl
      have e1 := ih (d+1) _ _ c1 c1' hr
      rw [hB, hB', e0, e1]

theorem rootOf_inj (hs : H.Sound) (L : Nat) (S S' : List (Key × VH))
    (hc : Canon L 0 S) (hc' : Canon L 0 S') (h : nodeAt H L 0 S = nodeAt H L 0 S') : S = S' :=
  nodeAt_inj H hs L 0 S S' hc hc' h
end Nomt

