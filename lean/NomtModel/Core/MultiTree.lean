import NomtModel.Core.MultiUpdateSafe
/-!
The recursion tree of a successful `verify_range`, reified (`PTree`): a *tip* is one terminal hashed up
its unique siblings, a *fork* is a bisection (common bits with their common siblings, then the `0`-side
and the `1`-side range).  Everything `verify_range` returns — node, number of siblings used, the
`VerifiedMultiPath`s with their unique-sibling ranges, the `VerifiedBisection`s — is a structural function
of the tree (`verifyRange_tree`), so that the pre-order layout of `inner` / `bisections` / `siblings`
which `verify_update` relies on can be stated and used by structural induction.
-/
set_option linter.unusedSectionVars false
namespace Nomt
variable {Node VH : Type} [DecidableEq Node] [DecidableEq VH] (H : Hasher Node VH)

/-! ### one bisection step of a successful `verify_range`, with everything it implies -/

/-- A successful `verify_range` on `≥ 2` ascending paths below `pos`: the bisection index is strictly
inside, both recursive calls succeeded on ranges whose paths extend `pos ++ seg ++ [bit]`, and the result
is assembled from theirs. -/
theorem verifyRange_split (fuel : Nat) (pos : List Bool) (sd : Nat) (first p2 : MultiPathProof VH)
    (rest : List (MultiPathProof VH)) (sibs : List Node) (off : Nat) (r : RangeOut Node VH)
    (h : verifyRange H (fuel+1) pos sd (first :: p2 :: rest) sibs off = .ok r)
    (hpos : pos.length = sd)
    (hpre : ∀ p ∈ first :: p2 :: rest, p.terminal.path.take sd = pos)
    (hasc : AscPaths (first :: p2 :: rest)) :
    ∃ (cb idx : Nat) (seg : List Bool) (l rr : RangeOut Node VH),
      seg = (first.terminal.path.drop sd).take cb ∧ seg.length = cb ∧ cb ≤ sibs.length ∧
      0 < idx ∧ idx < (first :: p2 :: rest).length ∧
      verifyRange H fuel (pos ++ seg ++ [false]) (sd + cb + 1) ((first :: p2 :: rest).take idx)
        (sibs.drop cb) (off + cb) = .ok l ∧
      verifyRange H fuel (pos ++ seg ++ [true]) (sd + cb + 1) ((first :: p2 :: rest).drop idx)
        (sibs.drop (cb + l.used)) (off + cb + l.used) = .ok rr ∧
      cb + l.used ≤ sibs.length ∧
      (∀ p ∈ (first :: p2 :: rest).take idx, p.terminal.path.take (sd + cb + 1) = pos ++ seg ++ [false]) ∧
      (∀ p ∈ (first :: p2 :: rest).drop idx, p.terminal.path.take (sd + cb + 1) = pos ++ seg ++ [true]) ∧
      r = { node := hashPath H (H.internal l.node rr.node) seg (sibs.take cb)
            used := cb + l.used + rr.used
            paths := l.paths ++ rr.paths
            bis := (if cb > 0 then [{ startDepth := sd, cStart := off, cEnd := off + cb }] else [])
                    ++ l.bis ++ rr.bis } := by
  unfold verifyRange at h
  simp only at h
  obtain ⟨_, hg1, h⟩ := Outcome.bind_eq_ok h
  obtain ⟨a, h1, h⟩ := Outcome.bind_eq_ok h
  obtain ⟨b, h2, h⟩ := Outcome.bind_eq_ok h
  obtain ⟨_, hg2, h⟩ := Outcome.bind_eq_ok h
  obtain ⟨_, hg3, h⟩ := Outcome.bind_eq_ok h
  obtain ⟨sr, h3, h⟩ := Outcome.bind_eq_ok h
  obtain ⟨idx, h4, h⟩ := Outcome.bind_eq_ok h
  obtain ⟨ls, h5, h⟩ := Outcome.bind_eq_ok h
  obtain ⟨l, h6, h⟩ := Outcome.bind_eq_ok h
  obtain ⟨rs, h7, h⟩ := Outcome.bind_eq_ok h
  obtain ⟨rr, h8, h⟩ := Outcome.bind_eq_ok h
  simp only [Outcome.pure_eq] at h
  injection h with hres
  obtain ⟨hsd1, ha⟩ := sliceFrom_ok h1
  obtain ⟨hsd2, hb⟩ := sliceFrom_ok h2
  obtain ⟨hcbs, hls⟩ := sliceFrom_ok h5
  obtain ⟨hrsl, hrs⟩ := sliceFrom_ok h7
  generalize hP : first :: p2 :: rest = P at *
  generalize hlast : (p2 :: rest).getLast (by simp) = last at *
  have hfirstP : first ∈ P := by rw [← hP]; simp
  have hlastP : last ∈ P := by
    rw [← hP, ← hlast]; exact List.mem_cons_of_mem _ (List.getLast_mem _)
  generalize hcb : shared a b = cb at *
  have hcl1 : sd + cb + 1 - 1 = sd + cb := by omega
  rw [hcl1] at h3
  have hD : ∀ p ∈ P, sd + cb < p.terminal.path.length := by
    intro p hp
    rw [← List.take_append_drop idx P] at hp
    rcases List.mem_append.1 hp with hin | hin
    · have := verifyRange_depths H _ _ _ _ _ _ _ h6 p hin; omega
    · have := verifyRange_depths H _ _ _ _ _ _ _ h8 p hin; omega
  have hasc' : AscPaths (first :: p2 :: rest) := by rw [hP]; exact hasc
  obtain ⟨hfirst_lt, hasc2⟩ := List.pairwise_cons.1 hasc'
  have hfirst_le : ∀ p ∈ P, bitsLeq first.terminal.path p.terminal.path := by
    intro p hp
    rw [← hP] at hp
    rcases List.mem_cons.1 hp with hp | hp
    · left; rw [hp]
    · right; exact hfirst_lt p hp
  have hle_last : ∀ p ∈ P, bitsLeq p.terminal.path last.terminal.path := by
    intro p hp
    rw [← hP] at hp
    rcases List.mem_cons.1 hp with hp | hp
    · right; rw [hp]; apply hfirst_lt; rw [← hlast]; exact List.getLast_mem _
    · rcases pairwise_getLast (p2 :: rest) (by simp) hasc2 p hp with h | h
      · left; rw [h, hlast]
      · right; rw [hlast] at h; exact h
  have hpre_first := hpre first hfirstP
  have hpre_last := hpre last hlastP
  have hcom : first.terminal.path.take (sd + cb) = last.terminal.path.take (sd + cb) := by
    rw [List.take_add, List.take_add, hpre_first, hpre_last, ← ha, ← hb, ← hcb, shared_take a b]
  have hall : ∀ p ∈ P, p.terminal.path.take (sd + cb) = first.terminal.path.take (sd + cb) := by
    intro p hp
    exact take_of_between (sd + cb) _ _ _ (by have := hD first hfirstP; omega) hcom
      (hfirst_le p hp) (hle_last p hp)
  let g : MultiPathProof VH → Bool := fun p => p.terminal.path.getD (sd + cb) false
  have hbit : ∀ p ∈ P, p.terminal.path[sd + cb]? = some (g p) := fun p hp =>
    getElem?_of_lt_length _ _ (hD p hp)
  have hf : ∀ x ∈ P, bisectCmp (sd + cb) x = .ok (if !g x then .lt else .gt) := by
    intro x hx
    simp only [bisectCmp, hbit x hx]
  have hascP : ∀ (i j : Nat) (x y : MultiPathProof VH), i < j → P[i]? = some x → P[j]? = some y →
      bitsLt x.terminal.path y.terminal.path = true := by
    intro i j x y hij hx hy
    obtain ⟨hi, hxi⟩ := List.getElem?_eq_some_iff.1 hx
    obtain ⟨hj, hyj⟩ := List.getElem?_eq_some_iff.1 hy
    have := (List.pairwise_iff_getElem.1 hasc) i j hi hj hij
    rw [hxi, hyj] at this; exact this
  have hmono : ∀ (i j : Nat) (x y : MultiPathProof VH), i < j → P[i]? = some x → P[j]? = some y →
      g x = true → g y = true := by
    intro i j x y hij hx hy hgx
    have hxP : x ∈ P := List.mem_of_getElem? hx
    have hyP : y ∈ P := List.mem_of_getElem? hy
    have hlt := hascP i j x y hij hx hy
    have hnb := bitsLt_bit (sd + cb) _ _ ((hall x hxP).trans (hall y hyP).symm) hlt
    cases hgy : g y with
    | true => rfl
    | false =>
      exfalso; apply hnb
      rw [hbit x hxP, hbit y hyP, hgx, hgy]; exact ⟨rfl, rfl⟩
  obtain ⟨idx', hbs, hidxle, hlo, hhi⟩ := binarySearchBy_partition _ P g hf hmono
  rw [hbs] at h3
  injection h3 with h3; subst h3
  simp only [Outcome.pure_eq] at h4
  injection h4 with h4; subst h4
  have hgf : g first = false ∧ g last = true := by
    have h0 : a[cb]? = some (g first) := by
      rw [ha, List.getElem?_drop]; exact hbit first hfirstP
    have h1' : b[cb]? = some (g last) := by
      rw [hb, List.getElem?_drop]; exact hbit last hlastP
    rw [← hcb] at h0 h1'
    have hne := shared_differ a b _ _ h0 h1'
    have hlt : bitsLt first.terminal.path last.terminal.path = true := by
      apply hfirst_lt; rw [← hlast]; exact List.getLast_mem _
    have hnb := bitsLt_bit (sd + cb) _ _ hcom hlt
    rw [hbit first hfirstP, hbit last hlastP] at hnb
    cases hg1 : g first <;> cases hg2 : g last <;> simp_all
  have hP0 : P[0]? = some first := by rw [← hP]; rfl
  have hidx0 : 0 < idx' := by
    rcases Nat.eq_zero_or_pos idx' with h0 | h0
    · have := hhi 0 first (by omega) hP0
      rw [hgf.1] at this; cases this
    · exact h0
  have hidxlt : idx' < P.length := by
    obtain ⟨j, hj⟩ := List.mem_iff_getElem?.1 hlastP
    have hjl := (List.getElem?_eq_some_iff.1 hj).1
    rcases Nat.lt_or_ge j idx' with hlt | hge
    · have := hlo j last hlt hj
      rw [hgf.2] at this; cases this
    · omega
  have hfseg : (a.take cb).length = cb := by
    have := shared_le_left a b
    simp; omega
  have hfirst_cl : first.terminal.path.take (sd + cb) = pos ++ a.take cb := by
    rw [List.take_add, hpre_first, ← ha]
  have hpre' : ∀ (bit : Bool) (p : MultiPathProof VH), p ∈ P → g p = bit →
      p.terminal.path.take (sd + cb + 1) = pos ++ a.take cb ++ [bit] := by
    intro bit p hp hg
    rw [List.take_add_one, hall p hp, hfirst_cl, hbit p hp, hg]; rfl
  have hg3' := failIf_ok hg3
  simp only [decide_eq_false_iff_not, Nat.not_lt] at hg3'
  refine ⟨cb, idx', a.take cb, l, rr, by rw [ha], hfseg, hg3', hidx0, hidxlt, ?_, ?_, ?_, ?_, ?_, ?_⟩
  · rw [← hls]; exact h6
  · rw [← hrs]; exact h8
  · exact hrsl
  · intro p hp
    obtain ⟨j, hj, hpj⟩ := List.mem_take_iff_getElem.1 hp
    have hjl : j < P.length := by
      have := Nat.min_le_right idx' P.length; omega
    have hjP : P[j]? = some p := by rw [List.getElem?_eq_getElem hjl, hpj]
    exact hpre' false p (List.mem_of_getElem? hjP) (hlo j p (by
      have := Nat.min_le_left idx' P.length; omega) hjP)
  · intro p hp
    obtain ⟨j, hj⟩ := List.mem_iff_getElem?.1 hp
    rw [List.getElem?_drop] at hj
    exact hpre' true p (List.mem_of_getElem? hj) (hhi _ p (by omega) hj)
  · exact hres.symm

/-! ### the recursion tree -/

/-- the recursion tree of `verify_range` on a non-empty range -/
inductive PTree (Node VH : Type) where
  /-- one path: terminal, the bits `path()[start_depth..depth]`, its unique siblings (top-down) -/
  | tip (t : Terminal VH) (seg : List Bool) (us : List Node)
  /-- a bisection: the common bits, the common siblings (top-down), the `0`-side and the `1`-side -/
  | fork (seg : List Bool) (cs : List Node) (l r : PTree Node VH)

namespace PTree

/-- the node `verify_range` computes -/
def hash : PTree Node VH → Node
  | tip t seg us => hashPath H (t.node H) seg us
  | fork seg cs l r => hashPath H (H.internal l.hash r.hash) seg cs

/-- siblings used -/
def used : PTree Node VH → Nat
  | tip _ _ us => us.length
  | fork _ cs l r => cs.length + l.used + r.used

/-- the siblings used, in proof order (pre-order) -/
def flat : PTree Node VH → List Node
  | tip _ _ us => us
  | fork _ cs l r => cs ++ l.flat ++ r.flat

/-- number of terminals -/
def size : PTree Node VH → Nat
  | tip _ _ _ => 1
  | fork _ _ l r => l.size + r.size

/-- lengths of bit segments and sibling lists agree -/
def WF : PTree Node VH → Prop
  | tip _ seg us => seg.length = us.length
  | fork seg cs l r => seg.length = cs.length ∧ l.WF ∧ r.WF

/-- every terminal's path extends the position it was hashed along -/
def Aligned : List Bool → PTree Node VH → Prop
  | pos, tip t seg _ => (pos ++ seg) <+: t.path
  | pos, fork seg _ l r => l.Aligned (pos ++ seg ++ [false]) ∧ r.Aligned (pos ++ seg ++ [true])

/-- the `VerifiedMultiPath`s pushed, given the position and the sibling offset of the range -/
def vpaths : List Bool → Nat → PTree Node VH → List (VPath VH)
  | pos, off, tip t seg us =>
    [{ terminal := t, depth := pos.length + seg.length, uStart := off, uEnd := off + us.length,
       route := pos ++ seg }]
  | pos, off, fork seg cs l r =>
    l.vpaths (pos ++ seg ++ [false]) (off + cs.length) ++
      r.vpaths (pos ++ seg ++ [true]) (off + cs.length + l.used)

/-- the bisection a fork records (none if there are no common bits) -/
def ownBis (pos : List Bool) (off : Nat) (cs : List Node) : List VBis :=
  if cs.length > 0 then [{ startDepth := pos.length, cStart := off, cEnd := off + cs.length }] else []

/-- the `VerifiedBisection`s pushed -/
def vbis : List Bool → Nat → PTree Node VH → List VBis
  | _, _, tip _ _ _ => []
  | pos, off, fork seg cs l r =>
    ownBis pos off cs ++ l.vbis (pos ++ seg ++ [false]) (off + cs.length) ++
      r.vbis (pos ++ seg ++ [true]) (off + cs.length + l.used)

/-- the proof's `paths` of the range -/
def mpaths : List Bool → PTree Node VH → List (MultiPathProof VH)
  | pos, tip t seg _ => [{ terminal := t, depth := pos.length + seg.length }]
  | pos, fork seg _ l r => l.mpaths (pos ++ seg ++ [false]) ++ r.mpaths (pos ++ seg ++ [true])

theorem used_eq_flat : ∀ (T : PTree Node VH), T.used = T.flat.length
  | tip _ _ _ => rfl
  | fork _ cs l r => by simp [used, flat, used_eq_flat l, used_eq_flat r, Nat.add_assoc]

theorem size_pos : ∀ (T : PTree Node VH), 0 < T.size
  | tip _ _ _ => by simp [size]
  | fork _ _ l r => by have := size_pos l; simp [size]; omega

theorem vpaths_length : ∀ (T : PTree Node VH) (pos : List Bool) (off : Nat),
    (T.vpaths pos off).length = T.size
  | tip _ _ _, _, _ => rfl
  | fork _ _ l r, pos, off => by simp [vpaths, size, vpaths_length l, vpaths_length r]

theorem mpaths_length : ∀ (T : PTree Node VH) (pos : List Bool), (T.mpaths pos).length = T.size
  | tip _ _ _, _ => rfl
  | fork _ _ l r, pos => by simp [mpaths, size, mpaths_length l, mpaths_length r]

end PTree

/-- the output of `verify_range` as a function of its recursion tree -/
def PTree.out (T : PTree Node VH) (pos : List Bool) (off : Nat) : RangeOut Node VH :=
  { node := T.hash H, used := T.used, paths := T.vpaths pos off, bis := T.vbis pos off }

/-- **a successful `verify_range` on a non-empty ascending range is its recursion tree** -/
theorem verifyRange_tree :
    ∀ (fuel : Nat) (pos : List Bool) (sd : Nat) (paths : List (MultiPathProof VH)) (sibs : List Node)
      (off : Nat) (r : RangeOut Node VH),
      verifyRange H fuel pos sd paths sibs off = .ok r →
      pos.length = sd → paths ≠ [] → (∀ p ∈ paths, p.terminal.path.take sd = pos) → AscPaths paths →
      ∃ T : PTree Node VH, T.WF ∧ T.Aligned pos ∧ r = T.out H pos off ∧ sibs.take T.used = T.flat ∧
        T.used ≤ sibs.length ∧ T.mpaths pos = paths := by
  intro fuel
  induction fuel with
  | zero => intro pos sd paths sibs off r h; simp [verifyRange] at h
  | succ fuel ih =>
    intro pos sd paths sibs off r h hpos hne hpre hasc
    match paths, h, hne, hpre, hasc with
    | [], _, hne, _, _ => exact absurd rfl hne
    | [tp], h, _, hpre, _ =>
      unfold verifyRange at h
      simp only at h
      obtain ⟨_, hg1, h⟩ := Outcome.bind_eq_ok h
      obtain ⟨ul, h1, h⟩ := Outcome.bind_eq_ok h
      obtain ⟨_, hg2, h⟩ := Outcome.bind_eq_ok h
      obtain ⟨seg, h2, h⟩ := Outcome.bind_eq_ok h
      obtain ⟨us, h3, h⟩ := Outcome.bind_eq_ok h
      simp only [Outcome.pure_eq] at h
      injection h with h; subst h
      obtain ⟨hle, hul⟩ := checkedSub_ok h1
      obtain ⟨_, hb, hseg⟩ := sliceFromTo_ok h2
      obtain ⟨hus, huse⟩ := sliceUpTo_ok h3
      have hseglen : seg.length = ul := by subst hseg; simp; omega
      have huslen : us.length = ul := by subst huse; simp; omega
      have hdepth : tp.depth = sd + ul := by omega
      refine ⟨.tip tp.terminal seg us, ?_, ?_, ?_, ?_, ?_, ?_⟩
      · simp [PTree.WF, hseglen, huslen]
      · simp only [PTree.Aligned]
        have hp := hpre tp (by simp)
        have : pos ++ seg = tp.terminal.path.take (sd + ul) := by
          rw [List.take_add, hp, hseg]
          have : sd + ul - sd = ul := by omega
          rw [this]
        rw [this]; exact List.take_prefix _ _
      · simp only [PTree.out, PTree.hash, PTree.used, PTree.vpaths, PTree.vbis, huslen, hpos, hseglen, hdepth]
      · simp only [PTree.used, PTree.flat, huslen]; exact huse.symm
      · simp only [PTree.used, huslen]; exact hus
      · simp only [PTree.mpaths, hpos, hseglen, ← hdepth]
    | first :: p2 :: rest, h, _, hpre, hasc =>
      obtain ⟨cb, idx, seg, l, rr, hsegdef, hseglen, hcbs, hidx0, hidxlt, h6, h8, hlu, hprel, hprer, hr⟩ :=
        verifyRange_split H fuel pos sd first p2 rest sibs off r h hpos hpre hasc
      generalize hP : first :: p2 :: rest = P at *
      have hnel : P.take idx ≠ [] := by
        intro hnil
        have : (P.take idx).length = 0 := by rw [hnil]; rfl
        rw [List.length_take] at this; omega
      have hner : P.drop idx ≠ [] := by
        intro hnil
        have : (P.drop idx).length = 0 := by rw [hnil]; rfl
        rw [List.length_drop] at this; omega
      obtain ⟨Tl, hwl, hal, hol, hfl, hul, hml⟩ := ih _ _ _ _ _ _ h6 (by simp [hseglen, hpos]; omega) hnel hprel
        (List.Pairwise.sublist (List.take_sublist _ _) hasc)
      obtain ⟨Tr, hwr, har, hor, hfr, hur, hmr⟩ := ih _ _ _ _ _ _ h8 (by simp [hseglen, hpos]; omega) hner hprer
        (List.Pairwise.sublist (List.drop_sublist _ _) hasc)
      have hlused : l.used = Tl.used := by rw [hol]; rfl
      have hrused : rr.used = Tr.used := by rw [hor]; rfl
      have hcslen : (sibs.take cb).length = cb := by simp; omega
      rw [List.length_drop] at hul hur
      rw [hlused] at hor hfr hur
      refine ⟨.fork seg (sibs.take cb) Tl Tr, ?_, ?_, ?_, ?_, ?_, ?_⟩
      · exact ⟨by rw [hseglen, hcslen], hwl, hwr⟩
      · exact ⟨hal, har⟩
      · rw [hr, hlused, hol, hor]
        simp only [PTree.out, PTree.hash, PTree.used, PTree.vpaths, PTree.vbis, PTree.ownBis, hcslen, hpos,
          List.append_assoc]
      · simp only [PTree.used, PTree.flat, hcslen]
        rw [← hfl, ← hfr]
        rw [Nat.add_assoc, List.take_add, List.take_add, List.drop_drop, List.append_assoc]
      · simp only [PTree.used, hcslen]; omega
      · simp only [PTree.mpaths, hml, hmr, List.take_append_drop]

end Nomt
