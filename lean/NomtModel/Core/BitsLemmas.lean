import NomtModel.Core.Bits
import NomtModel.Core.Build
import NomtModel.Core.Sorted
/-!
Order facts about `bitsLt` (Rust `BitSlice: Ord` / `[u8; 32]: Ord`), its relation with `shared`
(`shared_bits`), with prefixes and with `lexLt`.  All names are prefixed `bl_`.
-/
namespace Nomt

theorem bl_irrefl : ∀ (a : List Bool), bitsLt a a = false
  | [] => rfl
  | x :: xs => by simp [bitsLt, bl_irrefl xs]

theorem bl_ne {a b : List Bool} (h : bitsLt a b = true) : a ≠ b := by
  intro e; subst e; rw [bl_irrefl] at h; cases h

theorem bl_trans : ∀ (a b c : List Bool), bitsLt a b = true → bitsLt b c = true → bitsLt a c = true
  | [], [], _, h, _ => by simp [bitsLt] at h
  | [], _ :: _, [], _, h => by simp [bitsLt] at h
  | [], _ :: _, _ :: _, _, _ => by simp [bitsLt]
  | _ :: _, [], _, h, _ => by simp [bitsLt] at h
  | _ :: _, _ :: _, [], _, h => by simp [bitsLt] at h
  | x :: xs, y :: ys, z :: zs, h1, h2 => by
    have ih := bl_trans xs ys zs
    cases x <;> cases y <;> cases z <;> simp_all [bitsLt]

theorem bl_asymm (a b : List Bool) (h : bitsLt a b = true) : bitsLt b a = false := by
  cases h' : bitsLt b a with
  | false => rfl
  | true => have := bl_trans a b a h h'; rw [bl_irrefl] at this; cases this

/-- totality: distinct bit strings are comparable -/
theorem bl_total : ∀ (a b : List Bool), bitsLt a b = false → a ≠ b → bitsLt b a = true
  | [], [], _, h => absurd rfl h
  | [], _ :: _, h, _ => by simp [bitsLt] at h
  | _ :: _, [], _, _ => by simp [bitsLt]
  | x :: xs, y :: ys, h1, h2 => by
    have ih := bl_total xs ys
    cases x <;> cases y <;> simp_all [bitsLt]

theorem bl_trichotomy (a b : List Bool) : a = b ∨ bitsLt a b = true ∨ bitsLt b a = true := by
  by_cases h : a = b
  · exact Or.inl h
  · cases h' : bitsLt a b with
    | true => exact Or.inr (Or.inl rfl)
    | false => exact Or.inr (Or.inr (bl_total a b h' h))

theorem bl_not_le {a b : List Bool} : (bitsLe a b = false) ↔ bitsLt b a = true := by
  simp [bitsLe]

/-! ### prefixes -/

/-- a proper prefix is smaller -/
theorem bl_of_prefix : ∀ (a b : List Bool), a <+: b → a ≠ b → bitsLt a b = true
  | [], [], _, h => absurd rfl h
  | [], _ :: _, _, _ => by simp [bitsLt]
  | _ :: _, [], h, _ => by simp at h
  | x :: xs, y :: ys, h, hne => by
    rw [List.cons_prefix_cons] at h
    obtain ⟨rfl, h⟩ := h
    have : xs ≠ ys := fun e => hne (by rw [e])
    simp [bitsLt, bl_of_prefix xs ys h this]

/-- if `a < b` and `a` is not a prefix of `b`, then every extension of `a` is below every extension of `b` -/
theorem bl_extend : ∀ (a b a' b' : List Bool), bitsLt a b = true → ¬ a <+: b → a <+: a' → b <+: b' →
    bitsLt a' b' = true
  | [], _, _, _, _, hn, _, _ => absurd List.nil_prefix hn
  | _ :: _, [], _, _, h, _, _, _ => by simp [bitsLt] at h
  | x :: xs, y :: ys, [], _, _, _, ha, _ => by simp at ha
  | x :: xs, y :: ys, _ :: _, [], _, _, _, hb => by simp at hb
  | x :: xs, y :: ys, x' :: xs', y' :: ys', h, hn, ha, hb => by
    rw [List.cons_prefix_cons] at ha hb hn
    obtain ⟨rfl, ha⟩ := ha
    obtain ⟨rfl, hb⟩ := hb
    by_cases hxy : x = y
    · subst hxy
      simp only [bitsLt, beq_self_eq_true, if_true] at h ⊢
      exact bl_extend xs ys xs' ys' h (fun hp => hn ⟨rfl, hp⟩) ha hb
    · simp only [bitsLt, beq_iff_eq, hxy, if_false] at h ⊢
      exact h

/-- with a common `d`-bit prefix and both longer than `d`, `x < y` forbids `x_d = 1 ∧ y_d = 0` -/
theorem bl_bit : ∀ (d : Nat) (x y : List Bool), x.take d = y.take d → d < x.length → d < y.length →
    bitsLt x y = true → ¬ (x.getD d false = true ∧ y.getD d false = false) := by
  intro d
  induction d with
  | zero =>
    intro x y _ hx hy hlt
    match x, y, hx, hy with
    | a :: as, b :: bs, _, _ =>
      cases a <;> cases b <;> simp_all [bitsLt]
  | succ d ih =>
    intro x y ht hx hy hlt
    match x, y, hx, hy with
    | a :: as, b :: bs, hx, hy =>
      simp only [List.take_succ_cons, List.cons.injEq] at ht
      obtain ⟨rfl, ht⟩ := ht
      simp only [bitsLt, beq_self_eq_true, if_true] at hlt
      simpa using ih as bs ht (by simpa using hx) (by simpa using hy) hlt

/-! ### `lexLt` (the order used by `canon_of_sorted`) -/

theorem bl_lexLt : ∀ (a b : List Bool), a.length = b.length → bitsLt a b = true → lexLt a b
  | [], [], _, h => by simp [bitsLt] at h
  | [], _ :: _, hl, _ => by simp at hl
  | _ :: _, [], hl, _ => by simp at hl
  | x :: xs, y :: ys, hl, h => by
    have ih := bl_lexLt xs ys (by simpa using hl)
    cases x <;> cases y <;> simp_all [bitsLt, lexLt]

theorem bl_of_lexLt : ∀ (a b : List Bool), lexLt a b → bitsLt a b = true
  | [], _, h => by simp [lexLt] at h
  | _ :: _, [], h => by simp [lexLt] at h
  | x :: xs, y :: ys, h => by
    have ih := bl_of_lexLt xs ys
    cases x <;> cases y <;> simp_all [bitsLt, lexLt]

/-! ### `shared` (`shared_bits`) -/

theorem bl_shared_le_left : ∀ (a b : List Bool), shared a b ≤ a.length
  | [], _ => by simp [shared]
  | _ :: _, [] => by simp [shared]
  | x :: xs, y :: ys => by
    have := bl_shared_le_left xs ys
    simp only [shared]; split <;> simp <;> omega

theorem bl_shared_le_right (a b : List Bool) : shared a b ≤ b.length := by
  rw [shared_comm]; exact bl_shared_le_left b a

/-- `shared a b` reaches the length of `a` exactly when `a` is a prefix of `b` -/
theorem bl_shared_eq_length : ∀ (a b : List Bool), shared a b = a.length ↔ a <+: b
  | [], _ => by simp [shared]
  | _ :: _, [] => by simp [shared]
  | x :: xs, y :: ys => by
    have ih := bl_shared_eq_length xs ys
    by_cases hxy : x = y
    · subst hxy
      simp only [shared, beq_self_eq_true, if_true, List.length_cons, Nat.add_right_cancel_iff,
        List.cons_prefix_cons, true_and]
      exact ih
    · simp [shared, hxy, List.cons_prefix_cons]

/-- the first `shared a b` bits agree -/
theorem bl_take_shared : ∀ (a b : List Bool), a.take (shared a b) = b.take (shared a b)
  | [], _ => by simp [shared]
  | _ :: _, [] => by simp [shared]
  | x :: xs, y :: ys => by
    by_cases hxy : x = y
    · subst hxy
      simp [shared, bl_take_shared xs ys]
    · simp [shared, hxy]

/-- distinct strings of equal length differ strictly before their end -/
theorem bl_shared_lt_of_ne : ∀ (a b : List Bool), a.length = b.length → a ≠ b → shared a b < a.length
  | [], [], _, h => absurd rfl h
  | [], _ :: _, hl, _ => by simp at hl
  | _ :: _, [], hl, _ => by simp at hl
  | x :: xs, y :: ys, hl, hne => by
    by_cases hxy : x = y
    · subst hxy
      have := bl_shared_lt_of_ne xs ys (by simpa using hl) (fun e => hne (by rw [e]))
      simp [shared]; omega
    · simp [shared, hxy]

/-- distinct equal-length keys with a common `skip`-bit prefix: `common_after_prefix` stays in range -/
theorem bl_sharedRel_lt (skip : Nat) (a b : Key) (hl : a.length = b.length) (hne : a ≠ b)
    (hp : a.take skip = b.take skip) : sharedRel skip a b + skip < a.length := by
  unfold sharedRel
  have hne' : a.drop skip ≠ b.drop skip := by
    intro e; apply hne
    rw [← List.take_append_drop skip a, ← List.take_append_drop skip b, hp, e]
  have hl' : (a.drop skip).length = (b.drop skip).length := by simp [hl]
  have := bl_shared_lt_of_ne _ _ hl' hne'
  simp only [List.length_drop] at this
  omega

/-! ### prefix / take / getD conversions -/

theorem bl_prefix_iff_take (p k : List Bool) : p <+: k ↔ k.take p.length = p := by
  constructor
  · intro h; exact (List.prefix_iff_eq_take.mp h).symm
  · intro h; rw [← h]; exact List.take_prefix _ _

/-- pointwise agreement (with default) is the prefix relation when the key is long enough -/
theorem bl_prefix_of_getD : ∀ (p k : List Bool), p.length ≤ k.length →
    (∀ i, i < p.length → k.getD i false = p.getD i false) → p <+: k
  | [], _, _, _ => List.nil_prefix
  | _ :: _, [], hl, _ => by simp at hl
  | x :: xs, y :: ys, hl, h => by
    rw [List.cons_prefix_cons]
    refine ⟨by simpa using (h 0 (by simp)).symm, ?_⟩
    apply bl_prefix_of_getD xs ys (by simpa using hl)
    intro i hi
    simpa using h (i+1) (by simpa using hi)

theorem bl_getD_of_prefix (p k : List Bool) (h : p <+: k) (i : Nat) (hi : i < p.length) :
    k.getD i false = p.getD i false := by
  obtain ⟨t, rfl⟩ := h
  simp [List.getD, List.getElem?_append_left hi]

end Nomt
