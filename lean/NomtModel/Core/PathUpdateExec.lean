import NomtModel.Core.Outcome
import NomtModel.Core.VUpdate
import NomtModel.Core.Bits
/-!
Executable mirror of `core/src/proof/path_proof.rs::verify_update` *including* its argument checks
and its panic sites (`Outcome.panic`).  The hashing core is `verifyUpdate` of `VUpdate.lean`, for
which `verifyUpdate_eq_root` is proved; the glue here (checks, `leaf_ops_spliced`, `build_trie` slicing)
is what C18 is about.
-/
namespace Nomt
variable {Node VH : Type} [DecidableEq Node] [DecidableEq VH] (H : Hasher Node VH)

inductive VUErr where
  | pathsOutOfOrder | opsOutOfOrder | opOutOfScope | pathWithoutOps | rootMismatch
deriving DecidableEq, Repr

structure PathUpdateIn (Node VH : Type) where
  inner : Verified Node VH
  ops : List (Key × Option VH)

/-- `key.view_bits().starts_with(path)` -/
def startsWith (k : Key) (p : List Bool) : Bool := k.take p.length == p

/-- the per-op checks of one path, in the code's order -/
def checkOps (path : List Bool) : Option Key → List (Key × Option VH) → Option VUErr
  | _, [] => none
  | prev, (k, _) :: rest =>
    if (match prev with | some p => bitsLe k p | none => false) then some .opsOutOfOrder
    else if !startsWith k path then some .opOutOfScope
    else checkOps path (some k) rest

/-- the argument checks of `verify_update`, in the code's order -/
def checkPaths (prevRoot : Node) : Option (List Bool) → List (PathUpdateIn Node VH) → Option VUErr
  | _, [] => none
  | prev, p :: rest =>
    if p.inner.root ≠ prevRoot then some .rootMismatch
    else if (match prev with | some q => bitsLe p.inner.path q | none => false) then some .pathsOutOfOrder
    else if p.ops.isEmpty then some .pathWithoutOps
    else match checkOps p.inner.path none p.ops with
      | some e => some e
      | none => checkPaths prevRoot (some p.inner.path) rest

/-- `leaf_ops_spliced`: the terminal leaf is kept unless an op names its key; `None`s dropped.
(ops are strictly ascending here — checked before) -/
def spliceAux (lk : Key) (lv : VH) : List (Key × Option VH) → List (Key × Option VH)
  | [] => [(lk, some lv)]
  | (k, o) :: rest =>
    if k == lk then (k, o) :: rest
    else if bitsLt lk k then (lk, some lv) :: (k, o) :: rest
    else (k, o) :: spliceAux lk lv rest

def leafOpsSpliced (leaf : Option (Key × VH)) (ops : List (Key × Option VH)) : List (Key × VH) :=
  let all := match leaf with | some (lk, lv) => spliceAux lk lv ops | none => ops
  all.filterMap (fun (k, o) => o.map (fun v => (k, v)))

/-- `build_trie` panics (slice end `skip + leaf_depth > 256`) iff two neighbouring keys agree on
every bit after `skip`. -/
def buildTrieSlicePanics (L skip : Nat) : List (Key × VH) → Bool
  | (k, _) :: (k', v') :: rest => (sharedRel skip k k' + 1 + skip > L) || buildTrieSlicePanics L skip ((k', v') :: rest)
  | _ => false

def buildTrieO (L skip : Nat) (ops : List (Key × VH)) : Outcome VUErr Node :=
  if buildTrieSlicePanics L skip ops then .panic "update.rs:208 slice end out of range"
  else .ok (buildTrie H skip ops)

/-- the sub-roots and the `skip - (n + 1)` underflow check, path by path -/
def prepPaths (L : Nat) : List (PathUpdateIn Node VH) → Outcome VUErr (List (PathUpd Node))
  | [] => .ok []
  | p :: rest =>
    let skip := p.inner.path.length
    let under : Bool := match rest with
      | q :: _ => shared q.inner.path p.inner.path + 1 > skip
      | [] => false
    if under then .panic "path_proof.rs:316 attempt to subtract with overflow"
    else
      match buildTrieO H L skip (leafOpsSpliced p.inner.terminal p.ops) with
      | .ok sub =>
        match prepPaths L rest with
        | .ok r => .ok ({ path := p.inner.path, siblings := p.inner.siblings, subRoot := sub } :: r)
        | .err e => .err e
        | .panic s => .panic s
      | .err e => .err e
      | .panic s => .panic s

/-- mirror of `verify_update` (path_proof.rs) -/
def pathVerifyUpdate (L : Nat) (prevRoot : Node) (paths : List (PathUpdateIn Node VH)) : Outcome VUErr Node :=
  if paths.isEmpty then .ok prevRoot
  else match checkPaths prevRoot none paths with
    | some e => .err e
    | none =>
      match prepPaths H L paths with
      | .ok ps => .ok (verifyUpdate H prevRoot ps)
      | .err e => .err e
      | .panic s => .panic s

end Nomt
