import NomtModel.Core.PathProof
set_option linter.unusedSectionVars false
namespace Nomt
variable {Node VH : Type} [DecidableEq Node] [DecidableEq VH] (H : Hasher Node VH)

/-- mirror of the `match (NodeKind::of(&cur_node), NodeKind::of(&sibling))` in `verify_update`,
`hash_and_compact_terminal` and `compact_step` -/
def compactStep (bit : Bool) (cur sib : Node) : Node :=
  match H.kind cur, H.kind sib with
  | .terminator, .terminator => cur
  | .leaf, .terminator => cur
  | .terminator, .leaf => sib
  | _, _ => if bit then H.internal sib cur else H.internal cur sib

theorem kind_nodeAt (hs : H.Sound) (fuel d : Nat) (B : List (Key × VH)) (hc : Canon fuel d B) :
    (B = [] → H.kind (nodeAt H fuel d B) = .terminator) ∧
    (∀ kv, B = [kv] → H.kind (nodeAt H fuel d B) = .leaf) ∧
    (2 ≤ B.length → H.kind (nodeAt H fuel d B) = .internal) := by
  refine ⟨?_, ?_, ?_⟩
  · intro h; subst h; rw [nodeAt_nil]; exact hs.kind_term
  · intro kv h; subst h; rw [nodeAt_single]; exact hs.kind_leaf _ _
  · intro h
    match fuel, B, hc, h with
    | 0, a :: b :: rest, hc, _ => exact absurd hc (by simp [Canon])
    | f+1, a :: b :: rest, _, _ => rw [nodeAt_two]; exact hs.kind_internal _ _

theorem side_length_le (d : Nat) (b : Bool) (X : List (Key × VH)) : (side d b X).length ≤ X.length :=
  List.length_filter_le _ _

/-- **compaction law**: combining the specified nodes of the two halves of a canonical set with the
code's compaction table gives the specified node of the whole -/
theorem compact_spec (hs : H.Sound) (fuel d : Nat) (X : List (Key × VH)) (hc : Canon (fuel+1) d X) (b : Bool) :
    compactStep H b (nodeAt H fuel (d+1) (side d b X)) (nodeAt H fuel (d+1) (side d (!b) X))
      = nodeAt H (fuel+1) d X := by
  have cA := Canon_side fuel d X b hc
  have cC := Canon_side fuel d X (!b) hc
  match X, hc with
  | [], _ =>
    simp [side, compactStep, nodeAt_nil, hs.kind_term]
  | [kv], _ =>
    -- the single element is on exactly one side
    by_cases hb : kv.1.getD d false = b
    · have hA : side d b [kv] = [kv] := by
        simp only [side, List.filter_cons, List.filter_nil, hb, beq_self_eq_true, if_true]
      have hC : side d (!b) [kv] = [] := by
        simp only [side, List.filter_cons, List.filter_nil, hb]
        cases b <;> simp
      rw [hA, hC, nodeAt_nil, nodeAt_single, nodeAt_single]
      simp [compactStep, hs.kind_leaf, hs.kind_term]
    · have hb' : kv.1.getD d false = !b := by
        cases b <;> cases h : kv.1.getD d false <;> simp_all
      have hA : side d b [kv] = [] := by
        simp only [side, List.filter_cons, List.filter_nil, hb']
        cases b <;> simp
      have hC : side d (!b) [kv] = [kv] := by
        simp only [side, List.filter_cons, List.filter_nil, hb', beq_self_eq_true, if_true]
      rw [hA, hC, nodeAt_nil, nodeAt_single, nodeAt_single]
      simp [compactStep, hs.kind_leaf, hs.kind_term]
  | a :: c :: rest, hc' =>
    obtain ⟨hX, _, _⟩ := hc'
    rw [nodeAt_two]
    -- the two sides together have at least two elements, so no compaction case applies
    have hlen : (side d false (a :: c :: rest)).length + (side d true (a :: c :: rest)).length ≥ 2 := by
      have := congrArg List.length hX
      simp only [List.length_cons, List.length_append] at this
      omega
    have kA := kind_nodeAt H hs fuel (d+1) _ cA
    have kC := kind_nodeAt H hs fuel (d+1) _ cC
    -- case split on the sizes of the two sides
    cases b with
    | false =>
      simp only [Bool.not_false] at kA kC cA cC ⊢
      generalize hA : side d false (a :: c :: rest) = A at *
      generalize hC : side d true (a :: c :: rest) = C at *
      match A, C, hlen with
      | [], [], h => simp at h
      | [], [_], h => simp at h
      | [_], [], h => simp at h
      | [x], [y], _ =>
        simp [compactStep, kA.2.1 x rfl, kC.2.1 y rfl]
      | [], y :: z :: r, _ =>
        simp [compactStep, kA.1 rfl, kC.2.2 (by simp)]
      | [x], y :: z :: r, _ =>
        simp [compactStep, kA.2.1 x rfl, kC.2.2 (by simp)]
      | x :: w :: r, C, _ =>
        have : H.kind (nodeAt H fuel (d + 1) (x :: w :: r)) = .internal := kA.2.2 (by simp)
        simp [compactStep, this]
    | true =>
      simp only [Bool.not_true] at kA kC cA cC ⊢
      generalize hA : side d true (a :: c :: rest) = A at *
      generalize hC : side d false (a :: c :: rest) = C at *
      match A, C, hlen with
      | [], [], h => simp at h
      | [], [_], h => simp at h
      | [_], [], h => simp at h
      | [x], [y], _ =>
        simp [compactStep, kA.2.1 x rfl, kC.2.1 y rfl]
      | [], y :: z :: r, _ =>
        simp [compactStep, kA.1 rfl, kC.2.2 (by simp)]
      | [x], y :: z :: r, _ =>
        simp [compactStep, kA.2.1 x rfl, kC.2.2 (by simp)]
      | x :: w :: r, C, _ =>
        have : H.kind (nodeAt H fuel (d + 1) (x :: w :: r)) = .internal := kA.2.2 (by simp)
        simp [compactStep, this]

end Nomt

