import NomtModel.Core.Outcome
import NomtModel.Core.PathUpdateExec
/-!
Executable, total mirrors of `core/src/proof/multi_proof.rs` (line numbers refer to that file):

* `fromPathProofs`      — `MultiProof::from_path_proofs` (iterative bisection with the explicit stack)
* `verifyMulti` / `verifyRange` — `verify` / `verify_range`
* `findIndexFor`, `confirmValue`, `confirmNonexistence`, `confirm…WithIndex` — `VerifiedMultiProof::…`
* `multiVerifyUpdate`   — `verify_update` with `CommonSiblings::{advance,pop_to,extend,pop_if_at_depth}`
  and `hash_and_compact_terminal`

The mirror follows the REPAIRED `verify_range` (/repo commit 2b65ee4: malformed proofs give
`InvalidDepth` / `TooFewSiblings` / `PathPrefixOfAnother` instead of a panic); the slice / index /
subtraction sites behind the new guards are kept explicit and proved unreachable (`Props/C18.lean`).

Conventions.  `usize` is `Nat`; a subtraction that would underflow, a slice or index out of range, an
`unwrap` on `None`, an `unwrap_err` on `Ok` and a failing `assert!` are `Outcome.panic "<site>"` (the
harness is built with overflow checks on).  `PathProofTerminal::path()` is `Terminal.path`: the full key
of a leaf, the first `depth` bits of a terminator position.  Rust's `slice::binary_search_by` is mirrored
instruction by instruction (`binarySearchBy`, toolchain 1.95: the branch-free variant that never exits
early) because malformed proofs make the comparison function non-monotone and which elements get probed
decides between a verdict and a panic.

The only non-Rust data is the ghost field `VPath.route`: the bits along which `verify_range` actually
hashed a terminal up to the root.  It never influences a result; it is what the soundness theorem talks
about (`Props/C07.lean`).
-/
namespace Nomt

/-! ### generic panic-site helpers -/
section helpers
variable {ε α : Type}

@[simp] theorem Outcome.ok_bind {β : Type} (a : α) (f : α → Outcome ε β) : (Outcome.ok a >>= f) = f a := rfl
@[simp] theorem Outcome.err_bind {β : Type} (e : ε) (f : α → Outcome ε β) : (Outcome.err e >>= f) = .err e := rfl
@[simp] theorem Outcome.panic_bind {β : Type} (s : String) (f : α → Outcome ε β) :
    (Outcome.panic s >>= f) = .panic s := rfl
@[simp] theorem Outcome.pure_eq (a : α) : (pure a : Outcome ε α) = .ok a := rfl

theorem Outcome.bind_eq_ok {β : Type} {x : Outcome ε α} {f : α → Outcome ε β} {b : β}
    (h : (x >>= f) = .ok b) : ∃ a, x = .ok a ∧ f a = .ok b := by
  cases x with
  | ok a => exact ⟨a, rfl, h⟩
  | err e => cases h
  | panic s => cases h

/-- Rust `v[i]` -/
def getIdx (site : String) (l : List α) (i : Nat) : Outcome ε α :=
  match l[i]? with
  | some a => .ok a
  | none => .panic site

/-- Rust `&s[a..b]` -/
def sliceFromTo (site : String) (l : List α) (a b : Nat) : Outcome ε (List α) :=
  if a ≤ b ∧ b ≤ l.length then .ok ((l.drop a).take (b - a)) else .panic site

/-- Rust `&s[a..]` -/
def sliceFrom (site : String) (l : List α) (a : Nat) : Outcome ε (List α) :=
  if a ≤ l.length then .ok (l.drop a) else .panic site

/-- Rust `&s[..b]` -/
def sliceUpTo (site : String) (l : List α) (b : Nat) : Outcome ε (List α) :=
  if b ≤ l.length then .ok (l.take b) else .panic site

/-- `a - b` on `usize` with overflow checks -/
def checkedSub (site : String) (a b : Nat) : Outcome ε Nat :=
  if b ≤ a then .ok (a - b) else .panic site

/-- `if c { return Err(e) }` -/
def failIf (c : Bool) (e : ε) : Outcome ε Unit := if c then .err e else .ok ()

/-- result of `slice::binary_search_by`: `Ok(i)` / `Err(i)` -/
inductive BSearch where
  | found (i : Nat)
  | notFound (i : Nat)
deriving DecidableEq, Repr

/-- the `while size > 1` loop of `core::slice::binary_search_by` (rustc 1.95):
`half = size/2; mid = base+half; base = if f(mid) == Greater { base } else { mid }; size -= half`.
`size` strictly decreases while it is `> 1`, so `fuel = len` is never exhausted. -/
def bsLoop (f : α → Outcome ε Ordering) (l : List α) : Nat → Nat → Nat → Outcome ε Nat
  | 0, base, _ => .ok base
  | fuel+1, base, size =>
    if size ≤ 1 then .ok base
    else
      let half := size / 2
      let mid := base + half
      match l[mid]? with
      | none => .panic "slice::binary_search_by: get_unchecked out of range (unreachable)"
      | some x =>
        match f x with
        | .ok c => bsLoop f l fuel (if c == .gt then base else mid) (size - half)
        | .err e => .err e
        | .panic s => .panic s

/-- `core::slice::binary_search_by` (rustc 1.95).  The comparison function may panic. -/
def binarySearchBy (f : α → Outcome ε Ordering) (l : List α) : Outcome ε BSearch :=
  if l.isEmpty then .ok (.notFound 0)
  else
    match bsLoop f l l.length 0 l.length with
    | .ok base =>
      match l[base]? with
      | none => .panic "slice::binary_search_by: get_unchecked out of range (unreachable)"
      | some x =>
        match f x with
        | .ok .eq => .ok (.found base)
        | .ok .lt => .ok (.notFound (base + 1))
        | .ok .gt => .ok (.notFound base)
        | .err e => .err e
        | .panic s => .panic s
    | .err e => .err e
    | .panic s => .panic s

end helpers

/-- `Ord::cmp` on two bit slices -/
def bitsCmp (a b : List Bool) : Ordering :=
  if bitsLt a b then .lt else if bitsLt b a then .gt else .eq

variable {Node VH : Type} [DecidableEq Node] [DecidableEq VH] (H : Hasher Node VH)

/-- `PathProofTerminal::path()` -/
def Terminal.path : Terminal VH → List Bool
  | .leaf k _ => k
  | .terminator pos => pos

/-- `PathProofTerminal::as_leaf_option()` -/
def Terminal.asLeaf : Terminal VH → Option (Key × VH)
  | .leaf k v => some (k, v)
  | .terminator _ => none

structure MultiPathProof (VH : Type) where
  terminal : Terminal VH
  depth : Nat

structure MultiProof (Node VH : Type) where
  paths : List (MultiPathProof VH)
  siblings : List Node

/-! ### `MultiProof::from_path_proofs` -/

/-- `PathProofRange` -/
structure PRange where
  lower : Nat
  upper : Nat
  pbi : Nat        -- `path_bit_index`

/-- the `loop { … }` of `from_path_proofs`.  One call = one iteration.  `stack` has its top at the head. -/
def fromLoop (pps : List (PathProof Node VH)) :
    Nat → PRange → List Node → List PRange → List (MultiPathProof VH) → List Node →
      Outcome Unit (MultiProof Node VH)
  | 0, _, _, _, _, _ => .panic "from_path_proofs: fuel exhausted (unreachable, see fromFuel)"
  | fuel+1, r, common, stack, paths, sibs =>
    -- prove_unique_path_remainder
    if r.upper = 0 then .panic "multi_proof.rs:91 self.upper - 1 underflow"
    else if r.lower = r.upper - 1 then
      match pps[r.lower]? with
      | none => .panic "multi_proof.rs:95 path_proofs[self.lower]"
      | some pp =>
        let uniq := pp.siblings.drop r.pbi
        let paths' := paths ++ [{ terminal := pp.terminal, depth := r.pbi + uniq.length }]
        let sibs' := sibs ++ uniq
        if !common.isEmpty then .panic "multi_proof.rs:239 assert!(common_siblings.is_empty())"
        else
          match stack with
          | [] => .ok { paths := paths', siblings := sibs' }
          | nx :: st => fromLoop pps fuel nx common st paths' sibs'
    else
      -- step
      match pps[r.lower]?, pps[r.upper - 1]? with
      | none, _ => .panic "multi_proof.rs:118 path_proofs[self.lower]"
      | some _, none => .panic "multi_proof.rs:119 path_proofs[self.upper - 1]"
      | some lo, some up =>
        match lo.terminal.path[r.pbi]?, up.terminal.path[r.pbi]? with
        | none, _ => .panic "multi_proof.rs:121 path_lower[path_bit_index]"
        | some _, none => .panic "multi_proof.rs:121 path_upper[path_bit_index]"
        | some bl, some bu =>
          if bl != bu then
            match (sliceFromTo "multi_proof.rs:134 path_proofs[lower..upper]" pps r.lower r.upper :
                Outcome Unit _) with
            | .ok sl =>
              match binarySearchBy (fun (pp : PathProof Node VH) =>
                  match pp.terminal.path[r.pbi]? with
                  | none => (.panic "multi_proof.rs:136 path()[path_bit_index]" : Outcome Unit Ordering)
                  | some b => .ok (if !b then .lt else .gt)) sl with
              | .ok (.notFound i) =>
                let mid := r.lower + i
                let left : PRange := { pbi := r.pbi + 1, lower := r.lower, upper := mid }
                let right : PRange := { pbi := r.pbi + 1, lower := mid, upper := r.upper }
                fromLoop pps fuel left [] (right :: stack) paths (sibs ++ common)
              | .ok (.found _) => .panic "multi_proof.rs:142 unwrap_err on Ok"
              | .err e => .err e
              | .panic s => .panic s
            | .err e => .err e
            | .panic s => .panic s
          else
            match lo.siblings[r.pbi]? with
            | none => .panic "multi_proof.rs:159 siblings[path_bit_index]"
            | some sib =>
              fromLoop pps fuel { r with pbi := r.pbi + 1 } (common ++ [sib]) stack paths sibs

/-- longest terminal path among the path proofs -/
def maxPathLenPP : List (PathProof Node VH) → Nat
  | [] => 0
  | p :: ps => max p.terminal.path.length (maxPathLenPP ps)

/-- Fuel of `fromLoop`.  Every iteration treats one `(range, path_bit_index)`; an iteration that neither
finishes a range nor panics needs `path_lower[path_bit_index]` to exist, i.e. `pbi < M` with `M` the
longest terminal path, and produces at most two ranges at `pbi + 1`.  The iterations therefore form a
binary tree of height `≤ M`, at most `2^(M+1) - 1` of them: `2^(M+2)` can not be exhausted.  (For ordered,
prefix-free input the loop takes `O(n·M)` iterations; the exponential bound is only met by unordered
input, on which the Rust loop spins equally long.) -/
def fromFuel (pps : List (PathProof Node VH)) : Nat := 2 ^ (maxPathLenPP pps + 2)

/-- mirror of `MultiProof::from_path_proofs` -/
def fromPathProofs (pps : List (PathProof Node VH)) : Outcome Unit (MultiProof Node VH) :=
  if pps.isEmpty then .ok { paths := [], siblings := [] }
  else fromLoop pps (fromFuel pps) { pbi := 0, lower := 0, upper := pps.length } [] [] [] []

/-! ### `verify` / `verify_range` -/

inductive MultiVerifyErr where
  | rootMismatch | pathsOutOfOrder | tooManySiblings
  | tooFewSiblings | invalidDepth | pathPrefixOfAnother
deriving DecidableEq, Repr

/-- `VerifiedMultiPath` (+ the ghost `route`) -/
structure VPath (VH : Type) where
  terminal : Terminal VH
  depth : Nat
  uStart : Nat            -- `unique_siblings.start`
  uEnd : Nat              -- `unique_siblings.end`
  route : List Bool       -- ghost: the bits along which the terminal was hashed up to the root

/-- `VerifiedBisection` -/
structure VBis where
  startDepth : Nat
  cStart : Nat            -- `common_siblings.start`
  cEnd : Nat              -- `common_siblings.end`
deriving DecidableEq, Repr

/-- `VerifiedMultiProof` -/
structure VerifiedMulti (Node VH : Type) where
  inner : List (VPath VH)
  bisections : List VBis
  siblings : List Node
  root : Node

/-- what one `verify_range` call returns and appends to the two `&mut Vec`s -/
structure RangeOut (Node VH : Type) where
  node : Node
  used : Nat
  paths : List (VPath VH)
  bis : List VBis

/-- the comparison closure of the bisection search (multi_proof.rs:516) -/
def bisectCmp (i : Nat) (item : MultiPathProof VH) : Outcome MultiVerifyErr Ordering :=
  match item.terminal.path[i]? with
  | none => .panic "multi_proof.rs:517 path()[uncommon_start_len - 1]"
  | some b => .ok (if !b then .lt else .gt)

/-- mirror of `verify_range`; `pos` is ghost (the position of the range's node).  One unit of fuel per
recursion level. -/
def verifyRange : Nat → List Bool → Nat → List (MultiPathProof VH) → List Node → Nat →
    Outcome MultiVerifyErr (RangeOut Node VH)
  | 0, _, _, _, _, _ => .panic "verify_range: fuel exhausted (unreachable, see verifyFuel)"
  | fuel+1, pos, sd, paths, sibs, off =>
    match paths with
    | [] =>
      .ok { node := H.term, used := 0, bis := [],
            paths := [{ terminal := .terminator [], depth := 0, uStart := 0, uEnd := 0, route := pos }] }
    | [tp] => do
      failIf (decide (tp.depth < sd) || decide (tp.depth > tp.terminal.path.length)) .invalidDepth
      let ul ← checkedSub "multi_proof.rs:482 terminal_path.depth - start_depth" tp.depth sd
      failIf (decide (sibs.length < ul)) .tooFewSiblings
      let seg ← sliceFromTo "multi_proof.rs:486 path()[start_depth..start_depth + unique_len]"
        tp.terminal.path sd (sd + ul)
      let us ← sliceUpTo "multi_proof.rs:487 siblings[..unique_len]" sibs ul
      pure { node := hashPath H (tp.terminal.node H) seg us, used := ul, bis := [],
             paths := [{ terminal := tp.terminal, depth := tp.depth, uStart := off, uEnd := off + ul,
                         route := pos ++ seg }] }
    | first :: p2 :: rest => do
      let last := (p2 :: rest).getLast (by simp)
      failIf (decide (first.terminal.path.length < sd) || decide (last.terminal.path.length < sd))
        .pathPrefixOfAnother
      let a ← sliceFrom "multi_proof.rs:506 start_path.path()[start_depth..]" first.terminal.path sd
      let b ← sliceFrom "multi_proof.rs:507 end_path.path()[start_depth..]" last.terminal.path sd
      let cb := shared a b                 -- common_bits
      failIf (paths.any (fun p => decide (p.terminal.path.length ≤ sd + cb))) .pathPrefixOfAnother
      failIf (decide (sibs.length < cb)) .tooFewSiblings
      let usl := sd + cb + 1               -- uncommon_start_len
      let sr ← binarySearchBy (bisectCmp (usl - 1)) paths
      let idx ← (match sr with
        | .notFound i => pure i
        | .found _ => .panic "multi_proof.rs:528 unwrap_err on Ok")
      let bis : List VBis := if cb > 0 then [{ startDepth := sd, cStart := off, cEnd := off + cb }] else []
      let firstSeg := a.take cb            -- start_path.path()[start_depth..common_len]
      let ls ← sliceFrom "multi_proof.rs:544 siblings[common_bits..]" sibs cb
      let l ← verifyRange fuel (pos ++ firstSeg ++ [false]) usl (paths.take idx) ls (off + cb)
      let rs ← sliceFrom "multi_proof.rs:554 siblings[common_bits + left_siblings_used..]" sibs (cb + l.used)
      let r ← verifyRange fuel (pos ++ firstSeg ++ [true]) usl (paths.drop idx) rs (off + cb + l.used)
      pure { node := hashPath H (H.internal l.node r.node) firstSeg (sibs.take cb)
             used := cb + l.used + r.used
             paths := l.paths ++ r.paths
             bis := bis ++ l.bis ++ r.bis }

/-- longest terminal path of a multi-proof -/
def maxPathLen : List (MultiPathProof VH) → Nat
  | [] => 0
  | p :: ps => max p.terminal.path.length (maxPathLen ps)

/-- Fuel of `verifyRange`: a call on ≥ 2 paths recurses only after `start_path.path()[start_depth..]`
succeeded, i.e. with `start_depth ≤ M` (`M` = longest terminal path), and its children get a start depth
that is at least one larger.  So calls on ≥ 2 paths sit at recursion levels `≤ M`, all calls at levels
`≤ M + 1`: `M + 2` units are never exhausted. -/
def verifyFuel (paths : List (MultiPathProof VH)) : Nat := maxPathLen paths + 2

/-- the ordering loop of `verify` (multi_proof.rs:425-432): `true` = ascending -/
def pathsAscending : List (MultiPathProof VH) → Bool
  | a :: b :: rest => !bitsLe b.terminal.path a.terminal.path && pathsAscending (b :: rest)
  | _ => true

/-- mirror of `verify` -/
def verifyMulti (mp : MultiProof Node VH) (root : Node) : Outcome MultiVerifyErr (VerifiedMulti Node VH) :=
  if !pathsAscending mp.paths then .err .pathsOutOfOrder
  else
    match verifyRange H (verifyFuel mp.paths) [] 0 mp.paths mp.siblings 0 with
    | .ok r =>
      if root ≠ r.node then .err .rootMismatch
      else if r.used ≠ mp.siblings.length then .err .tooManySiblings
      else .ok { inner := r.paths, bisections := r.bis, siblings := mp.siblings, root := root }
    | .err e => .err e
    | .panic s => .panic s

/-! ### `VerifiedMultiProof::{find_index_for, confirm_*}` -/

inductive KeyOutOfScope where | keyOutOfScope
deriving DecidableEq, Repr

/-- the comparison closure of `find_index_for` (multi_proof.rs:311) -/
def pathCmp (key : Key) (vp : VPath VH) : Outcome KeyOutOfScope Ordering := do
  let a ← sliceUpTo "multi_proof.rs:311 path()[..depth]" vp.terminal.path vp.depth
  let b ← sliceUpTo "multi_proof.rs:311 key_path[..depth]" key vp.depth
  pure (bitsCmp a b)

/-- mirror of `find_index_for` -/
def findIndexFor (v : VerifiedMulti Node VH) (key : Key) : Outcome KeyOutOfScope Nat :=
  match binarySearchBy (pathCmp key) v.inner with
  | .ok (.found i) => .ok i
  | .ok (.notFound _) => .err .keyOutOfScope
  | .err e => .err e
  | .panic s => .panic s

/-- `confirm_nonexistence_inner` -/
def confirmNonexistenceInner (v : VerifiedMulti Node VH) (key : Key) (i : Nat) : Outcome KeyOutOfScope Bool := do
  let vp ← getIdx "multi_proof.rs:400 inner[index]" v.inner i
  pure (match vp.terminal with
    | .terminator _ => true
    | .leaf k _ => decide (k ≠ key))

/-- `confirm_value_inner` -/
def confirmValueInner (v : VerifiedMulti Node VH) (key : Key) (vh : VH) (i : Nat) : Outcome KeyOutOfScope Bool := do
  let vp ← getIdx "multi_proof.rs:408 inner[index]" v.inner i
  pure (match vp.terminal with
    | .terminator _ => false
    | .leaf k vh' => decide (k = key ∧ vh' = vh))

/-- mirror of `confirm_nonexistence` -/
def confirmNonexistence (v : VerifiedMulti Node VH) (key : Key) : Outcome KeyOutOfScope Bool := do
  let i ← findIndexFor v key
  confirmNonexistenceInner v key i

/-- mirror of `confirm_value` -/
def confirmValue (v : VerifiedMulti Node VH) (key : Key) (vh : VH) : Outcome KeyOutOfScope Bool := do
  let i ← findIndexFor v key
  confirmValueInner v key vh i

/-- the `in_scope` computation of the `…_with_index` functions (panics on an out-of-range index, as
documented) -/
def inScopeAt (v : VerifiedMulti Node VH) (key : Key) (i : Nat) : Outcome KeyOutOfScope Bool := do
  let vp ← getIdx "multi_proof.rs:358/386 inner[index]" v.inner i
  let a ← sliceUpTo "multi_proof.rs:360/389 path()[..depth]" vp.terminal.path vp.depth
  let b ← sliceUpTo "multi_proof.rs:360/389 key_path[..depth]" key vp.depth
  pure (a == b)

/-- mirror of `confirm_nonexistence_with_index` -/
def confirmNonexistenceWithIndex (v : VerifiedMulti Node VH) (key : Key) (i : Nat) :
    Outcome KeyOutOfScope Bool := do
  if ← inScopeAt v key i then confirmNonexistenceInner v key i else .err .keyOutOfScope

/-- mirror of `confirm_value_with_index` -/
def confirmValueWithIndex (v : VerifiedMulti Node VH) (key : Key) (vh : VH) (i : Nat) :
    Outcome KeyOutOfScope Bool := do
  if ← inScopeAt v key i then confirmValueInner v key vh i else .err .keyOutOfScope

/-! ### `verify_update` -/

inductive MultiVUErr where
  | opsOutOfOrder | opOutOfScope | rootMismatch | pathPrefixOfAnother
deriving DecidableEq, Repr

/-- `terminal_contains` -/
def terminalContains (t : VPath VH) (key : Key) : Outcome MultiVUErr Bool := do
  let a ← sliceUpTo "multi_proof.rs:587 key_path[..depth]" key t.depth
  let b ← sliceUpTo "multi_proof.rs:587 path()[..depth]" t.terminal.path t.depth
  pure (a == b)

/-- `CommonSiblings`; both stacks have their top at the head -/
structure CommonSiblings (Node : Type) where
  bisStack : List VBis := []
  stack : List (Nat × Node) := []
  taken : Nat := 0
  termIdx : Nat := 0
  bisIdx : Nat := 0

def pushSibs (st : List (Nat × Node)) (d : Nat) : List Node → List (Nat × Node)
  | [] => st
  | s :: ss => pushSibs ((d, s) :: st) (d + 1) ss

/-- `CommonSiblings::extend` -/
def CommonSiblings.extend (cs : CommonSiblings Node) (startDepth end_ : Nat) (sibs : List Node) :
    Outcome MultiVUErr (CommonSiblings Node) := do
  let seg ← sliceFromTo "multi_proof.rs:662 siblings[self.taken_siblings..end]" sibs cs.taken end_
  pure { cs with stack := pushSibs cs.stack startDepth seg, taken := end_ }

/-- `CommonSiblings::pop_to` -/
def CommonSiblings.popTo (cs : CommonSiblings Node) (depth : Nat) : CommonSiblings Node :=
  { cs with bisStack := cs.bisStack.dropWhile (fun b => decide (b.startDepth ≥ depth))
            stack := cs.stack.dropWhile (fun p => decide (p.1 ≥ depth)) }

/-- `CommonSiblings::pop_if_at_depth` -/
def CommonSiblings.popIfAtDepth (cs : CommonSiblings Node) (depth : Nat) : Option Node × CommonSiblings Node :=
  match cs.stack with
  | (d, n) :: rest => if d == depth then (some n, { cs with stack := rest }) else (none, cs)
  | [] => (none, cs)

/-- the `while next_terminal.unique_siblings.start != self.taken_siblings` loop of `advance`.
Every iteration that continues reads `bisections[bisection_index]` and increments the index, so more
than `bisections.len()` iterations are impossible: fuel `len + 1` is never exhausted. -/
def advanceLoop (v : VerifiedMulti Node VH) (uStart : Nat) :
    Nat → Bool → CommonSiblings Node → Outcome MultiVUErr (CommonSiblings Node)
  | 0, _, _ => .panic "CommonSiblings::advance: fuel exhausted (unreachable)"
  | fuel+1, prune, cs =>
    if uStart == cs.taken then .ok cs
    else
      match v.bisections[cs.bisIdx]? with
      | none => .panic "multi_proof.rs:620 proof.bisections[self.bisection_index]"
      | some nb =>
        let cs := { cs with bisIdx := cs.bisIdx + 1 }
        if nb.cStart ≠ cs.taken then .panic "multi_proof.rs:623 assert_eq!(common_siblings.start, taken_siblings)"
        else
          let cs := if prune then cs.popTo nb.startDepth else cs
          match cs.extend (nb.startDepth + 1) nb.cEnd v.siblings with
          | .ok cs => advanceLoop v uStart fuel false { cs with bisStack := nb :: cs.bisStack }
          | .err e => .err e
          | .panic s => .panic s

/-- `CommonSiblings::advance` -/
def CommonSiblings.advance (cs : CommonSiblings Node) (v : VerifiedMulti Node VH) :
    Outcome MultiVUErr (CommonSiblings Node) := do
  let nt ← getIdx "multi_proof.rs:616 proof.inner[self.terminal_index]" v.inner cs.termIdx
  let cs ← advanceLoop v nt.uStart (v.bisections.length + 1) true cs
  let tn ← checkedSub "multi_proof.rs:638 unique_siblings.end - start" nt.uEnd nt.uStart
  let d ← checkedSub "multi_proof.rs:640 next_terminal.depth - terminal_n" nt.depth tn
  let cs ← cs.extend (d + 1) nt.uEnd v.siblings
  pure { cs with termIdx := cs.termIdx + 1 }

/-- the `for bit in … .rev().take(up_layers)` loop of `hash_and_compact_terminal`; `layer` = `cur_layer` -/
def hctLoop (path : List Bool) :
    Nat → Nat → Node → Stack Node → CommonSiblings Node →
      Outcome MultiVUErr (Node × Stack Node × CommonSiblings Node)
  | 0, _, node, pend, cs => .ok (node, pend, cs)
  | up+1, layer, node, pend, cs =>
    let bit := path.getD (layer - 1) false
    let fromPending : Option (Node × Stack Node) :=
      match pend with
      | (n, l) :: rest => if l == layer then some (n, rest) else none
      | [] => none
    match fromPending with
    | some (n, rest) =>
      hctLoop path up (layer - 1) (compactStep H bit node n) rest (cs.popIfAtDepth layer).2
    | none =>
      match cs.popIfAtDepth layer with
      | (some s, cs') => hctLoop path up (layer - 1) (compactStep H bit node s) pend cs'
      | (none, _) => .panic "multi_proof.rs:868 common_siblings.pop_if_at_depth(cur_layer).unwrap()"

/-- `build_trie` with its slice panic (see `buildTrieSlicePanics`) -/
def buildTrieM (L skip : Nat) (ops : List (Key × VH)) : Outcome MultiVUErr Node :=
  if buildTrieSlicePanics L skip ops then .panic "update.rs:163/203 key slice out of range"
  else .ok (buildTrie H skip ops)

/-- the `up_layers` computation of `hash_and_compact_terminal` (multi_proof.rs:826-841) -/
def upLayers (t : VPath VH) (next : Option (VPath VH)) : Outcome MultiVUErr Nat :=
  match next with
  | some nt =>
    let n := shared t.terminal.path nt.terminal.path
    if n == t.depth then .err .pathPrefixOfAnother
    else checkedSub "multi_proof.rs:838 skip - (n + 1)" t.depth (n + 1)
  | none => pure t.depth

/-- mirror of `hash_and_compact_terminal` -/
def hashAndCompactTerminal (L : Nat) (pend : Stack Node) (t : VPath VH) (next : Option (VPath VH))
    (cs : CommonSiblings Node) (ops : List (Key × Option VH)) :
    Outcome MultiVUErr (Stack Node × CommonSiblings Node) := do
  let skip := t.depth
  let up ← upLayers t next
  let sub ← buildTrieM H L skip (leafOpsSpliced t.terminal.asLeaf ops)
  let pth ← sliceUpTo "multi_proof.rs:853 path()[..terminal.depth]" t.terminal.path t.depth
  let r ← hctLoop H pth up skip sub pend cs
  pure ((r.1, skip - up) :: r.2.1, r.2.2)

/-- `for terminal_index in start..updated_index` (multi_proof.rs:778-790) -/
def ingestRange (L : Nat) (v : VerifiedMulti Node VH) :
    Nat → Nat → Stack Node × CommonSiblings Node → Outcome MultiVUErr (Stack Node × CommonSiblings Node)
  | 0, _, st => .ok st
  | n+1, ti, st => do
    let t ← getIdx "multi_proof.rs:779 proof.inner[terminal_index]" v.inner ti
    let nt ← getIdx "multi_proof.rs:780 proof.inner[terminal_index + 1]" v.inner (ti + 1)
    let cs ← st.2.advance v
    let st ← hashAndCompactTerminal H L st.1 t (some nt) cs []
    ingestRange L v n (ti + 1) st

/-- `for terminal_index in start..proof.inner.len()` of the last (dummy) item (multi_proof.rs:717-741) -/
def ingestFinal (L : Nat) (v : VerifiedMulti Node VH) (updatedIdx : Nat) (working : List (Key × Option VH)) :
    Nat → Nat → Stack Node × CommonSiblings Node → Outcome MultiVUErr (Stack Node × CommonSiblings Node)
  | 0, _, st => .ok st
  | n+1, ti, st => do
    let t ← getIdx "multi_proof.rs:724 proof.inner[terminal_index]" v.inner ti
    let nt := v.inner[ti + 1]?          -- `None` iff `terminal_index == len - 1`
    let ops := if ti == updatedIdx then working else []
    let cs ← st.2.advance v
    let st ← hashAndCompactTerminal H L st.1 t nt cs ops
    ingestFinal L v updatedIdx working n (ti + 1) st

/-- the `while !terminal_contains(..)` search (multi_proof.rs:752-762) on `inner[i..]` -/
def findTerminalFrom (key : Key) : List (VPath VH) → Nat → Outcome MultiVUErr Nat
  | [], _ => .err .opOutOfScope
  | t :: rest, i => do
    if ← terminalContains t key then pure i else findTerminalFrom key rest (i + 1)

/-- loop state of `verify_update` -/
structure UState (Node VH : Type) where
  pending : Stack Node := []
  cs : CommonSiblings Node := {}
  lastKey : Option Key := none
  lastTi : Option Nat := none           -- `last_terminal_index`
  nextPending : Option Nat := none      -- `next_pending_terminal_index`
  working : List (Key × Option VH) := []

/-- one non-final iteration of the `for (i, (key, op))` loop -/
def updateStep (L : Nat) (v : VerifiedMulti Node VH) (st : UState Node VH) (key : Key) (op : Option VH) :
    Outcome MultiVUErr (UState Node VH) :=
  if (match st.lastKey with | some lk => bitsLe key lk | none => false) then .err .opsOutOfOrder
  else do
    let st := { st with lastKey := some key }
    let nti0 := st.lastTi.getD 0
    let nti ← findTerminalFrom key (v.inner.drop nti0) nti0
    if (match st.lastTi with | none => true | some x => x == nti) then
      pure { st with lastTi := some nti, working := st.working ++ [(key, op)] }
    else
      let ui := st.lastTi.getD 0
      let start := st.nextPending.getD 0
      let s1 ← ingestRange H L v (ui - start) start (st.pending, st.cs)
      let t ← getIdx "multi_proof.rs:796 proof.inner[updated_index]" v.inner ui
      let nt := v.inner[ui + 1]?
      let cs ← s1.2.advance v
      let s2 ← hashAndCompactTerminal H L s1.1 t nt cs st.working
      pure { st with lastTi := some nti, working := [(key, op)], pending := s2.1, cs := s2.2,
                     nextPending := some (ui + 1) }

def updateLoop (L : Nat) (v : VerifiedMulti Node VH) :
    List (Key × Option VH) → UState Node VH → Outcome MultiVUErr (UState Node VH)
  | [], st => .ok st
  | (k, o) :: rest, st => do
    let st ← updateStep H L v st k o
    updateLoop L v rest st

/-- mirror of `verify_update` (multi_proof.rs:688); `L` = key length (256) -/
def multiVerifyUpdate (L : Nat) (v : VerifiedMulti Node VH) (ops : List (Key × Option VH)) :
    Outcome MultiVUErr Node :=
  if ops.isEmpty then .ok v.root
  else do
    let st ← updateLoop H L v ops {}
    let ui := st.lastTi.getD 0
    let start := st.nextPending.getD 0
    let s ← ingestFinal H L v ui st.working (v.inner.length - start) start (st.pending, st.cs)
    pure (match s.1 with
      | (n, _) :: _ => n
      | [] => v.root)

end Nomt
