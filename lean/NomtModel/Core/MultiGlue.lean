import NomtModel.Core.UpdateApply
/-!
The T8.3 glue of `Core/UpdateGlue2.lean` / `Core/UpdateApply.lean` without the argument check
"every path has at least one op" (`PathWithoutOps`): `verify_update` on a *multi*-proof ingests every
verified terminal, also those no op falls under.  Same statements, same proofs; the hypotheses that
`checkPaths = none` provided there (`sortedPaths`, `opsPrefix`, `opsSorted`) are fields here.
-/
set_option linter.unusedSectionVars false
namespace Nomt
variable {Node VH : Type} [DecidableEq Node] [DecidableEq VH] (H : Hasher Node VH)

/-- paths verified against the root of the canonical set `S` of `L`-bit keys, strictly ascending; each
carries strictly ascending `L`-bit op keys below its position (possibly none) -/
structure MGlue (L : Nat) (S : List (Key × VH)) (paths : List (PathUpdateIn Node VH)) : Prop where
  hs : H.Sound
  hc : Canon L 0 S
  hlen : ∀ kv ∈ S, kv.1.length = L
  hv : ∀ p ∈ paths, VerifiedFor H L S p.inner
  hol : ∀ p ∈ paths, ∀ o ∈ p.ops, o.1.length = L
  sortedPaths : paths.Pairwise (fun a b => bitsLt a.inner.path b.inner.path = true)
  opsPrefix : ∀ p ∈ paths, ∀ o ∈ p.ops, p.inner.path <+: o.1
  opsSorted : ∀ p ∈ paths, p.ops.Pairwise KeyLt

variable {H} {L : Nat} {S S' : List (Key × VH)} {paths : List (PathUpdateIn Node VH)}

theorem MGlue.path_inj (c : MGlue H L S paths) (p q : PathUpdateIn Node VH) (hp : p ∈ paths) (hq : q ∈ paths)
    (h : p.inner.path <+: q.inner.path) : p = q := by
  have e := VerifiedFor.prefix_eq H c.hs L S _ _ (c.hv p hp) (c.hv q hq) h
  exact pairwise_inj (fun x : PathUpdateIn Node VH => x.inner.path) _ (fun a b hab => bl_ne hab) paths
    c.sortedPaths p hp q hq e

theorem MGlue.same_ext (c : MGlue H L S paths) (p q : PathUpdateIn Node VH) (hp : p ∈ paths) (hq : q ∈ paths)
    (k : Key) (h1 : p.inner.path <+: k) (h2 : q.inner.path <+: k) : p = q := by
  rcases List.prefix_or_prefix_of_prefix h1 h2 with h | h
  · exact c.path_inj p q hp hq h
  · exact (c.path_inj q p hq hp h).symm

theorem MGlue.sortedS (c : MGlue H L S paths) : S.Pairwise KeyLt :=
  canon_sorted L 0 S [] c.hc (by intro kv h; rw [c.hlen kv h]; omega) (by intro kv _; rfl)

theorem MGlue.len' (c : MGlue H L S paths) (U : UpdatedSet S (allOps paths) S') :
    ∀ kv ∈ S', kv.1.length = L := by
  rintro ⟨k, v⟩ h
  rcases (U.mem k v).mp h with h | ⟨h, _⟩
  · obtain ⟨p, hp, ho⟩ := mem_allOps.mp h
    exact c.hol p hp _ ho
  · exact c.hlen _ h

theorem MGlue.canon' (c : MGlue H L S paths) (U : UpdatedSet S (allOps paths) S') : Canon L 0 S' :=
  canon_of_sorted L 0 S' [] (sortedKV_of_keyLt L S' U.sorted (c.len' U))
    (by intro kv h; rw [c.len' U kv h]; omega) (by intro kv _; rfl)

theorem MGlue.spliced (c : MGlue H L S paths) (p : PathUpdateIn Node VH) (hp : p ∈ paths) :
    (leafOpsSpliced p.inner.terminal p.ops).Pairwise KeyLt := leafOpsSpliced_sorted _ _ (c.opsSorted p hp)

theorem MGlue.sub_ok (c : MGlue H L S paths) (U : UpdatedSet S (allOps paths) S')
    (p : PathUpdateIn Node VH) (hp : p ∈ paths) :
    buildTrie H p.inner.path.length (leafOpsSpliced p.inner.terminal p.ops) =
      nodeAt H (L - p.inner.path.length) p.inner.path.length (restrict 0 p.inner.path S') := by
  have hpre := c.opsPrefix p hp
  have hsorted := c.opsSorted p hp
  have sp1 := c.spliced p hp
  obtain ⟨hle, hleaf⟩ := VerifiedFor.leaf_spec H c.hs L S c.hc c.hlen p.inner (c.hv p hp)
  have heq : leafOpsSpliced p.inner.terminal p.ops = restrict 0 p.inner.path S' := by
    apply sorted_ext _ _ sp1 (List.Pairwise.sublist (restrict_sublist _ _ _) U.sorted)
    rintro ⟨k, v⟩
    rw [mem_leafOpsSpliced _ _ hsorted, mem_restrict_prefix L S' (c.len' U) _ hle, U.mem]
    constructor
    · rintro (h | ⟨ht, hne⟩)
      · exact ⟨Or.inl (mem_allOps.mpr ⟨p, hp, h⟩), hpre _ h⟩
      · rcases hleaf with ⟨k0, v0, ht0, hr, _, hk0⟩ | ⟨ht0, _⟩
        · rw [ht0] at ht
          simp only [Option.some.injEq, Prod.mk.injEq] at ht
          obtain ⟨rfl, rfl⟩ := ht
          have hS : (k0, v0) ∈ S := (restrict_sublist _ _ _).subset (by rw [hr]; simp)
          refine ⟨Or.inr ⟨hS, ?_⟩, hk0⟩
          intro o ho heq
          obtain ⟨q, hq, hoq⟩ := mem_allOps.mp ho
          have hqk : q.inner.path <+: k0 := heq ▸ (c.opsPrefix q hq o hoq)
          have := c.same_ext p q hp hq k0 hk0 hqk
          subst this
          exact hne o hoq heq
        · rw [ht0] at ht; cases ht
    · rintro ⟨h | ⟨hS, hne⟩, hk⟩
      · left
        obtain ⟨q, hq, hoq⟩ := mem_allOps.mp h
        have := c.same_ext p q hp hq k hk (c.opsPrefix q hq _ hoq)
        subst this; exact hoq
      · right
        have hm : (k, v) ∈ restrict 0 p.inner.path S :=
          (mem_restrict_prefix L S c.hlen _ hle _).mpr ⟨hS, hk⟩
        rcases hleaf with ⟨k0, v0, ht0, hr, _, _⟩ | ⟨_, hr⟩
        · rw [hr] at hm
          simp only [List.mem_singleton, Prod.mk.injEq] at hm
          obtain ⟨rfl, rfl⟩ := hm
          exact ⟨ht0, fun o ho => hne o (mem_allOps.mpr ⟨p, hp, ho⟩)⟩
        · rw [hr] at hm; cases hm
  rw [heq]
  have hcr := Canon_restrict p.inner.path (L - p.inner.path.length) 0 S'
    (by have : L - p.inner.path.length + p.inner.path.length = L := by omega
        rw [this]; exact c.canon' U)
  simp only [Nat.zero_add] at hcr
  apply buildTrie_eq_nodeAt H _ _ _ p.inner.path hcr
  · intro kv h
    rw [c.len' U kv ((restrict_sublist _ _ _).subset h)]; omega
  · intro kv h
    exact (bl_prefix_iff_take _ _).mp ((mem_restrict_prefix L S' (c.len' U) _ hle kv).mp h).2

theorem MGlue.sib_ok (c : MGlue H L S paths) (U : UpdatedSet S (allOps paths) S')
    (p : PathUpdateIn Node VH) (hp : p ∈ paths) (j : Nat) (hj : j < p.inner.path.length)
    (hno : ∀ q ∈ paths, ¬ (p.inner.path.take j ++ [!(p.inner.path.getD j false)]) <+: q.inner.path) :
    p.inner.siblings.getD j H.term =
      nodeAt H (L - (j+1)) (j+1) (restrict 0 (p.inner.path.take j ++ [!(p.inner.path.getD j false)]) S') := by
  obtain ⟨P, kp, hv⟩ := c.hv p hp
  obtain ⟨l1, hle, _, hh⟩ := verify_ok_hash H L P kp _ p.inner hv
  have hsib := hashPath_sibs H c.hs _ p.inner.path p.inner.siblings L 0 S l1 hh j hj
  simp only [Nat.zero_add] at hsib
  rw [hsib]
  generalize hsp : p.inner.path.take j ++ [!(p.inner.path.getD j false)] = sp at *
  have hspl : sp.length ≤ L := by
    rw [← hsp]; simp only [List.length_append, List.length_take, List.length_singleton]; omega
  have hclaim : ∀ k, sp <+: k → ∀ o ∈ allOps paths, o.1 ≠ k := by
    intro k hk o ho heq
    obtain ⟨q, hq, hoq⟩ := mem_allOps.mp ho
    have hqk : q.inner.path <+: k := heq ▸ (c.opsPrefix q hq o hoq)
    rcases List.prefix_or_prefix_of_prefix hk hqk with h | h
    · exact hno q hq h
    · rw [← hsp, List.prefix_concat_iff] at h
      rcases h with h | h
      · exact hno q hq (by rw [h, hsp]; exact List.prefix_refl _)
      · have hqp : q.inner.path <+: p.inner.path := h.trans (List.take_prefix _ _)
        have := c.path_inj q p hq hp hqp
        subst this
        have := h.length_le
        simp only [List.length_take] at this
        omega
  have : restrict 0 sp S' = restrict 0 sp S := by
    apply sorted_ext _ _ (List.Pairwise.sublist (restrict_sublist _ _ _) U.sorted)
      (List.Pairwise.sublist (restrict_sublist _ _ _) c.sortedS)
    rintro ⟨k, v⟩
    rw [mem_restrict_prefix L S' (c.len' U) _ hspl, mem_restrict_prefix L S c.hlen _ hspl, U.mem]
    constructor
    · rintro ⟨h | ⟨hS, _⟩, hk⟩
      · exact absurd rfl (hclaim k hk _ h)
      · exact ⟨hS, hk⟩
    · rintro ⟨hS, hk⟩
      exact ⟨Or.inr ⟨hS, hclaim k hk⟩, hk⟩
  rw [this]

/-- the hashing core of `verify_update` on the prepared paths returns the root of the updated set -/
theorem MGlue.verifyUpdate_eq_root (c : MGlue H L S paths) (hne : paths ≠ [])
    (U : UpdatedSet S (allOps paths) S') (prev : Node) :
    verifyUpdate H prev (paths.map (toUpd H)) = nodeAt H L 0 S' := by
  apply _root_.Nomt.verifyUpdate_eq_root H c.hs L S' (c.canon' U) _ _ (by simpa using hne)
  · apply pcanon_of_sorted L 0 _ []
    · rw [List.pairwise_map]; exact c.sortedPaths
    · rw [List.pairwise_map]
      apply List.Pairwise.imp_of_mem _ c.sortedPaths
      intro a b ha hb hab
      constructor
      · intro h
        have := c.path_inj a b ha hb h
        subst this
        rw [bl_irrefl] at hab; cases hab
      · intro h
        have := c.path_inj b a hb ha h
        subst this
        rw [bl_irrefl] at hab; cases hab
    · rfl
    · intro x _; rfl
    · intro x hx
      obtain ⟨p, hp, rfl⟩ := List.mem_map.mp hx
      have := (VerifiedFor.leaf_spec H c.hs L S c.hc c.hlen p.inner (c.hv p hp)).1
      simp only [toUpd]; omega
  · intro x hx
    obtain ⟨p, hp, rfl⟩ := List.mem_map.mp hx
    refine ⟨(VerifiedFor.leaf_spec H c.hs L S c.hc c.hlen p.inner (c.hv p hp)).1, c.sub_ok U p hp, ?_⟩
    intro j _ hj hno
    apply c.sib_ok U p hp j hj
    intro q hq hpre
    exact hno (toUpd H q) (List.mem_map_of_mem hq) hpre

theorem MGlue.allOps_distinct (c : MGlue H L S paths) :
    (allOps paths).Pairwise (fun a b => a.1 ≠ b.1) := by
  rw [allOps, List.pairwise_flatMap]
  constructor
  · intro p hp
    exact List.Pairwise.imp (fun h => bl_ne h) (c.opsSorted p hp)
  · apply List.Pairwise.imp_of_mem _ c.sortedPaths
    intro a b ha hb hab x hx y hy e
    have := c.same_ext a b ha hb x.1 (c.opsPrefix a ha x hx) (e ▸ c.opsPrefix b hb y hy)
    subst this
    rw [bl_irrefl] at hab; cases hab

theorem MGlue.updatedSet (c : MGlue H L S paths) : UpdatedSet S (allOps paths) (kvApply S (allOps paths)) :=
  kvApply_updatedSet _ S c.sortedS c.allOps_distinct

/-- the core on the prepared paths returns the root of `kvApply S (all the ops)` -/
theorem MGlue.verifyUpdate_eq_kvApply (c : MGlue H L S paths) (hne : paths ≠ []) (prev : Node) :
    verifyUpdate H prev (paths.map (toUpd H)) = nodeAt H L 0 (kvApply S (allOps paths)) :=
  c.verifyUpdate_eq_root hne c.updatedSet prev

end Nomt
