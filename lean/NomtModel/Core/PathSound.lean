import NomtModel.Core.PathProof
set_option linter.unusedSectionVars false
namespace Nomt
variable {Node VH : Type} [DecidableEq Node] [DecidableEq VH] (H : Hasher Node VH)

/-- what a successful `verify` tells us, in terms of the specification -/
theorem verify_ok_spec (hs : H.Sound) (L : Nat) (S : List (Key × VH)) (hc : Canon L 0 S)
    (P : PathProof Node VH) (kp : List Bool) (v : Verified Node VH)
    (hv : verify H L P kp (nodeAt H L 0 S) = .ok v) :
    v.path.length ≤ L ∧
    (∀ kv, kv ∈ restrict 0 v.path S ↔ kv ∈ S ∧ ∀ i, i < v.path.length → kv.1.getD i false = v.path.getD i false) ∧
    ((∃ k0 v0, v.terminal = some (k0, v0) ∧ restrict 0 v.path S = [(k0, v0)]) ∨
     (v.terminal = none ∧ restrict 0 v.path S = [])) := by
  unfold verify at hv
  split at hv
  · cases hv
  · rename_i hguard
    simp only at hv
    split at hv
    · rename_i hroot
      injection hv with hv
      have hlen : (kp.take P.siblings.length).length = P.siblings.length := by
        simp; omega
      have hsound := hashPath_sound H hs (P.terminal.node H) (kp.take P.siblings.length) P.siblings L 0 S
        hlen.symm hroot
      obtain ⟨hle, hnode⟩ := hsound
      have hcr := Canon_restrict (kp.take P.siblings.length) (L - (kp.take P.siblings.length).length) 0 S
        (by have : L - (kp.take P.siblings.length).length + (kp.take P.siblings.length).length = L := by omega
            rw [this]; exact hc)
      subst hv
      simp only
      refine ⟨hle, ?_, ?_⟩
      · intro kv
        have := mem_restrict (kp.take P.siblings.length) 0 S kv
        simpa using this
      · cases hterm : P.terminal with
        | leaf k0 v0 =>
          left
          refine ⟨k0, v0, rfl, ?_⟩
          rw [hterm] at hnode
          exact nodeAt_eq_leaf H hs _ _ _ hcr k0 v0 hnode
        | terminator pos =>
          right
          refine ⟨rfl, ?_⟩
          rw [hterm] at hnode
          exact nodeAt_eq_term H hs _ _ _ hcr hnode
    · cases hv

theorem inScope_bits (v : Verified Node VH) (k : Key) (h : v.inScope k = true) :
    ∀ i, i < v.path.length → k.getD i false = v.path.getD i false := by
  intro i hi
  simp only [Verified.inScope, beq_iff_eq] at h
  rw [h]
  have : (k.take v.path.length).length = v.path.length := by rw [← h]
  rw [getD_take_lt k v.path.length i (by omega)]

/-- **C08, path proofs**: whatever the prover supplied, a proof that verifies against the root of `S`
only confirms true statements about `S`. -/
theorem path_proof_sound (hs : H.Sound) (L : Nat) (S : List (Key × VH)) (hc : Canon L 0 S)
    (P : PathProof Node VH) (kp : List Bool) (v : Verified Node VH)
    (hv : verify H L P kp (nodeAt H L 0 S) = .ok v) (k : Key) (vh : VH) :
    (v.confirmValue k vh = some true → (k, vh) ∈ S) ∧
    (v.confirmValue k vh = some false → (k, vh) ∉ S) ∧
    (v.confirmNonexistence k = some true → ∀ vh', (k, vh') ∉ S) ∧
    (v.confirmNonexistence k = some false → ∃ vh', (k, vh') ∈ S) := by
  obtain ⟨_, hmem, hterm⟩ := verify_ok_spec H hs L S hc P kp v hv
  by_cases hin : v.inScope k = true
  · have hbits := inScope_bits v k hin
    have hiff : ∀ x, (k, x) ∈ S ↔ (k, x) ∈ restrict 0 v.path S := by
      intro x; rw [hmem]; exact ⟨fun h => ⟨h, hbits⟩, fun h => h.1⟩
    rcases hterm with ⟨k0, v0, ht, hr⟩ | ⟨ht, hr⟩
    · simp only [Verified.confirmValue, Verified.confirmNonexistence, hin, if_true, ht,
        Option.some.injEq, decide_eq_true_eq, decide_eq_false_iff_not, Prod.mk.injEq]
      refine ⟨?_, ?_, ?_, ?_⟩
      · rintro ⟨rfl, rfl⟩; rw [hiff, hr]; simp
      · intro hne hmemS; rw [hiff, hr] at hmemS; simp at hmemS; exact hne ⟨hmemS.1.symm, hmemS.2.symm⟩
      · intro hne vh' hmemS; rw [hiff, hr] at hmemS; simp at hmemS; exact hne hmemS.1.symm
      · intro heq; simp at heq; subst heq; exact ⟨v0, by rw [hiff, hr]; simp⟩
    · simp only [Verified.confirmValue, Verified.confirmNonexistence, hin, if_true, ht]
      refine ⟨?_, ?_, ?_, ?_⟩
      · simp
      · intro _ hmemS; rw [hiff, hr] at hmemS; simp at hmemS
      · intro _ vh' hmemS; rw [hiff, hr] at hmemS; simp at hmemS
      · simp
  · simp [Verified.confirmValue, Verified.confirmNonexistence, hin]

end Nomt

