import NomtModel.Core.TriePos
/-!
# Specification of trie-position addressing and the basic arithmetic lemmas

A position of depth `d ≥ 1` with bit path `bs` lives in the page whose id is the list of 6-bit groups of the
first `6·⌊(d−1)/6⌋` bits (`specPage`), at node index `2^r − 2 + (value of the last r bits)` with
`r = ((d−1) mod 6) + 1` (`specIndex`).
-/
namespace Nomt.TriePos

/-! ## specification -/

/-- number of bits of a depth-`d` position that lie in its own page -/
def specR (d : Nat) : Nat := (d - 1) % 6 + 1

/-- number of bits of a depth-`d` position that select its page -/
def specPageBits (d : Nat) : Nat := (d - 1) / 6 * 6

/-- six-bit groups of a bit list (a remainder of fewer than six bits is dropped) -/
def sextetsOf (bs : List Bool) : List Nat := (chunks6 bs).map loadBE

def specIndex (bs : List Bool) : Nat :=
  if bs = [] then 0
  else 2 ^ specR bs.length - 2 + loadBE (bs.drop (bs.length - specR bs.length))

def specPage (bs : List Bool) : PageId := sextetsOf (bs.take (specPageBits bs.length))

/-- the part of a bit path inside its last page (`last_page_path`) -/
def lp (bs : List Bool) : List Bool := bs.drop (specPageBits bs.length)

/-! ## generic list helpers -/

theorem snoc_induction {α : Type} {P : List α → Prop} (hnil : P [])
    (hsnoc : ∀ l a, P l → P (l ++ [a])) : ∀ l, P l := by
  have h : ∀ l : List α, P l.reverse := by
    intro l
    induction l with
    | nil => exact hnil
    | cons a l ih => rw [List.reverse_cons]; exact hsnoc _ _ ih
  intro l
  have := h l.reverse
  rwa [List.reverse_reverse] at this

theorem eq_dropLast_append_getLast {α : Type} (l : List α) (h : l ≠ []) :
    l = l.dropLast ++ [l.getLast h] := (List.dropLast_concat_getLast h).symm

/-! ## `loadBE` -/

theorem loadBE_nil : loadBE [] = 0 := rfl

theorem loadBE_snoc (l : List Bool) (b : Bool) : loadBE (l ++ [b]) = 2 * loadBE l + b.toNat := by
  simp [loadBE, List.foldl_append]

theorem foldl_loadBE_bound (l : List Bool) : ∀ acc,
    l.foldl (fun acc b => 2 * acc + b.toNat) acc + 1 ≤ 2 ^ l.length * (acc + 1) := by
  induction l with
  | nil => intro acc; simp
  | cons b l ih =>
    intro acc
    simp only [List.foldl, List.length_cons]
    have h1 := ih (2 * acc + b.toNat)
    have hb : b.toNat ≤ 1 := by cases b <;> simp
    have h2 : 2 ^ l.length * (2 * acc + b.toNat + 1) ≤ 2 ^ l.length * (2 * (acc + 1)) :=
      Nat.mul_le_mul_left _ (by omega)
    have h3 : 2 ^ (l.length + 1) * (acc + 1) = 2 ^ l.length * (2 * (acc + 1)) := by
      rw [Nat.pow_succ, Nat.mul_assoc]
    omega

theorem loadBE_lt (l : List Bool) : loadBE l < 2 ^ l.length := by
  have := foldl_loadBE_bound l 0
  simp only [Nat.zero_add, Nat.mul_one] at this
  exact this

theorem loadBE_cons (b : Bool) (l : List Bool) : loadBE (b :: l) = b.toNat * 2 ^ l.length + loadBE l := by
  revert b
  refine snoc_induction (P := fun l => ∀ b : Bool, loadBE (b :: l) = b.toNat * 2 ^ l.length + loadBE l) ?_ ?_ l
  · intro b; simp [loadBE]
  · intro l a ih b
    rw [← List.cons_append, loadBE_snoc, ih, loadBE_snoc, List.length_append, List.length_singleton, Nat.pow_succ]
    have : b.toNat * (2 ^ l.length * 2) = 2 * (b.toNat * 2 ^ l.length) := by
      rw [← Nat.mul_assoc, Nat.mul_comm]
    omega

/-! ## arithmetic of depths -/

theorem specR_pos (d : Nat) : 1 ≤ specR d := by unfold specR; omega
theorem specR_le (d : Nat) : specR d ≤ 6 := by unfold specR; omega
theorem specPageBits_add_specR (d : Nat) (h : 1 ≤ d) : specPageBits d + specR d = d := by
  unfold specPageBits specR; omega
theorem specPageBits_le (d : Nat) : specPageBits d ≤ d := by unfold specPageBits; omega

theorem lp_length (bs : List Bool) (h : bs ≠ []) : (lp bs).length = specR bs.length := by
  have : 1 ≤ bs.length := List.length_pos_iff.mpr h
  unfold lp
  rw [List.length_drop]
  have := specPageBits_add_specR bs.length this
  omega

theorem lp_nil : lp [] = [] := rfl

theorem take_append_lp (bs : List Bool) : bs.take (specPageBits bs.length) ++ lp bs = bs :=
  List.take_append_drop _ _

/-- how the last-page path grows with one more bit -/
theorem lp_snoc (bs : List Bool) (b : Bool) :
    lp (bs ++ [b]) = if bs.length % 6 = 0 then [b] else lp bs ++ [b] := by
  unfold lp specPageBits
  simp only [List.length_append, List.length_singleton, Nat.add_sub_cancel]
  split
  · rename_i h
    have : bs.length / 6 * 6 = bs.length := by omega
    rw [this, List.drop_append_of_le_length (Nat.le_refl _), List.drop_length, List.nil_append]
  · rename_i h
    have e : bs.length / 6 * 6 = (bs.length - 1) / 6 * 6 := by omega
    rw [e, List.drop_append_of_le_length (by omega)]

/-! ## `nodeIndexOf` -/

theorem nodeIndexOf_nil : nodeIndexOf [] = 0 := rfl

theorem nodeIndexOf_eq (l : List Bool) (h1 : 1 ≤ l.length) (h6 : l.length ≤ 6) :
    nodeIndexOf l = 2 ^ l.length - 2 + loadBE l := by
  unfold nodeIndexOf
  have : min 6 l.length = l.length := by omega
  simp only [this]
  rw [if_neg (by omega), List.take_length]

theorem nodeIndexOf_single (b : Bool) : nodeIndexOf [b] = b.toNat := by
  rw [nodeIndexOf_eq _ (by simp) (by simp)]
  cases b <;> rfl

theorem two_le_pow (n : Nat) (h : 1 ≤ n) : 2 ≤ 2 ^ n := by
  have := Nat.pow_le_pow_right (n := 2) (by decide) h
  simpa using this

theorem nodeIndexOf_snoc (l : List Bool) (b : Bool) (h1 : 1 ≤ l.length) (h5 : l.length ≤ 5) :
    nodeIndexOf (l ++ [b]) = 2 * nodeIndexOf l + 2 + b.toNat := by
  rw [nodeIndexOf_eq _ (by simp) (by simp; omega), nodeIndexOf_eq _ h1 (by omega), loadBE_snoc,
    List.length_append, List.length_singleton, Nat.pow_succ]
  have := two_le_pow l.length h1
  omega

theorem nodeIndexOf_lt (l : List Bool) (h1 : 1 ≤ l.length) (h6 : l.length ≤ 6) :
    nodeIndexOf l < 2 ^ (l.length + 1) - 2 := by
  rw [nodeIndexOf_eq _ h1 h6, Nat.pow_succ]
  have := loadBE_lt l
  have := two_le_pow l.length h1
  omega

theorem nodeIndexOf_ge (l : List Bool) (h1 : 1 ≤ l.length) (h6 : l.length ≤ 6) :
    2 ^ l.length - 2 ≤ nodeIndexOf l := by
  rw [nodeIndexOf_eq _ h1 h6]; omega

theorem nodeIndexOf_lt_126 (l : List Bool) (h1 : 1 ≤ l.length) (h6 : l.length ≤ 6) :
    nodeIndexOf l < NODES_PER_PAGE := by
  have h := nodeIndexOf_lt l h1 h6
  have : 2 ^ (l.length + 1) ≤ 2 ^ 7 := Nat.pow_le_pow_right (by decide) (by omega)
  unfold NODES_PER_PAGE
  omega

/-! ## `specIndex` through the last-page path -/

theorem specIndex_nil : specIndex [] = 0 := rfl

theorem specIndex_eq_nodeIndexOf_lp (bs : List Bool) : specIndex bs = nodeIndexOf (lp bs) := by
  by_cases h : bs = []
  · subst h; rfl
  · have hl := lp_length bs h
    have h1 : 1 ≤ bs.length := List.length_pos_iff.mpr h
    rw [nodeIndexOf_eq _ (by rw [hl]; exact specR_pos _) (by rw [hl]; exact specR_le _), hl]
    unfold specIndex
    rw [if_neg h]
    have : bs.length - specR bs.length = specPageBits bs.length := by
      have := specPageBits_add_specR bs.length h1; omega
    rw [this]; rfl

theorem specIndex_single_page_start (bs : List Bool) (b : Bool) (h : bs.length % 6 = 0) :
    specIndex (bs ++ [b]) = b.toNat := by
  rw [specIndex_eq_nodeIndexOf_lp, lp_snoc, if_pos h, nodeIndexOf_single]

theorem specIndex_snoc (bs : List Bool) (b : Bool) (h : bs.length % 6 ≠ 0) :
    specIndex (bs ++ [b]) = 2 * specIndex bs + 2 + b.toNat := by
  have hne : bs ≠ [] := by intro e; subst e; simp at h
  rw [specIndex_eq_nodeIndexOf_lp, lp_snoc, if_neg h, specIndex_eq_nodeIndexOf_lp]
  have hl := lp_length bs hne
  apply nodeIndexOf_snoc
  · rw [hl]; exact specR_pos _
  · rw [hl]; unfold specR; omega

theorem specIndex_lt (bs : List Bool) (h : bs ≠ []) : specIndex bs < NODES_PER_PAGE := by
  rw [specIndex_eq_nodeIndexOf_lp]
  have hl := lp_length bs h
  exact nodeIndexOf_lt_126 _ (by rw [hl]; exact specR_pos _) (by rw [hl]; exact specR_le _)

/-- bounds of the index by the layer: layer `r` occupies `[2^r − 2, 2^(r+1) − 2)` -/
theorem specIndex_layer (bs : List Bool) (h : bs ≠ []) :
    2 ^ specR bs.length - 2 ≤ specIndex bs ∧ specIndex bs < 2 ^ (specR bs.length + 1) - 2 := by
  rw [specIndex_eq_nodeIndexOf_lp]
  have hl := lp_length bs h
  have h1 : 1 ≤ (lp bs).length := by rw [hl]; exact specR_pos _
  have h6 : (lp bs).length ≤ 6 := by rw [hl]; exact specR_le _
  have a := nodeIndexOf_ge _ h1 h6
  have b := nodeIndexOf_lt _ h1 h6
  rw [hl] at a b
  exact ⟨a, b⟩

end Nomt.TriePos
