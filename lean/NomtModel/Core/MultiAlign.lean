import NomtModel.Core.MultiSound
/-!
The alignment lemma of multi-proof verification: for ascending terminal paths (checked by `verify`),
`verify_range` hashes every terminal along the first `depth` bits of *its own* terminal path.
Ingredients: the bit-string order (`bitsLt`), correctness of the branch-free `binary_search_by` on a
monotone predicate, and the depth bounds a successful `verify_range` implies.
-/
set_option linter.unusedSectionVars false
namespace Nomt
variable {Node VH : Type} [DecidableEq Node] [DecidableEq VH] (H : Hasher Node VH)

/-! ### the order on bit strings -/

theorem bitsLt_transE : ∀ (a b c : List Bool), bitsLt a b = true → bitsLt b c = true → bitsLt a c = true
  | [], [], _, h, _ => by simp [bitsLt] at h
  | [], _ :: _, [], _, h => by simp [bitsLt] at h
  | [], _ :: _, _ :: _, _, _ => by simp [bitsLt]
  | _ :: _, [], _, h, _ => by simp [bitsLt] at h
  | _ :: _, _ :: _, [], _, h => by simp [bitsLt] at h
  | x :: xs, y :: ys, z :: zs, h1, h2 => by
    simp only [bitsLt] at h1 h2 ⊢
    have ih := bitsLt_transE xs ys zs
    cases x <;> cases y <;> cases z <;> simp_all

/-- `a ≤ b` -/
def bitsLeq (a b : List Bool) : Prop := a = b ∨ bitsLt a b = true

/-- anything between two strings that share their first `c` bits shares them too -/
theorem take_of_between : ∀ (c : Nat) (a p b : List Bool), c ≤ a.length → a.take c = b.take c →
    bitsLeq a p → bitsLeq p b → p.take c = a.take c := by
  intro c
  induction c with
  | zero => intro a p b _ _ _ _; simp
  | succ c ih =>
    intro a p b hlen ht hap hpb
    match a, b, hlen, ht with
    | x :: xs, [], _, ht => exact absurd ht (by simp)
    | x :: xs, y :: ys, hlen, ht =>
      simp only [List.take_succ_cons, List.cons.injEq] at ht
      obtain ⟨hxy, ht⟩ := ht
      subst hxy
      match p, hap, hpb with
      | [], hap, _ =>
        rcases hap with h | h
        · cases h
        · simp [bitsLt] at h
      | z :: zs, hap, hpb =>
        have hz : z = x := by
          rcases hap with h | h
          · exact (List.cons.inj h).1.symm
          · rcases hpb with h' | h'
            · exact (List.cons.inj h').1
            · simp only [bitsLt] at h h'
              cases x <;> cases z <;> simp_all
        subst hz
        have hap' : bitsLeq xs zs := by
          rcases hap with h | h
          · exact Or.inl (List.cons.inj h).2
          · simp only [bitsLt, beq_self_eq_true, if_true] at h; exact Or.inr h
        have hpb' : bitsLeq zs ys := by
          rcases hpb with h | h
          · exact Or.inl (List.cons.inj h).2
          · simp only [bitsLt, beq_self_eq_true, if_true] at h; exact Or.inr h
        simp only [List.take_succ_cons, List.cons.injEq, true_and]
        exact ih xs zs ys (by simpa using hlen) ht hap' hpb'

/-- with a common `c`-bit prefix, `p < q` forbids `p_c = 1 ∧ q_c = 0` -/
theorem bitsLt_bit : ∀ (c : Nat) (p q : List Bool), p.take c = q.take c → bitsLt p q = true →
    ¬ (p[c]? = some true ∧ q[c]? = some false) := by
  intro c
  induction c with
  | zero =>
    intro p q _ hlt
    match p, q, hlt with
    | [], _, _ => simp
    | _ :: _, [], hlt => simp [bitsLt] at hlt
    | x :: xs, y :: ys, hlt =>
      simp only [bitsLt] at hlt
      cases x <;> cases y <;> simp_all
  | succ c ih =>
    intro p q ht hlt
    match p, q, hlt with
    | [], _, _ => simp
    | _ :: _, [], hlt => simp [bitsLt] at hlt
    | x :: xs, y :: ys, hlt =>
      simp only [List.take_succ_cons, List.cons.injEq] at ht
      obtain ⟨hxy, ht⟩ := ht
      subst hxy
      simp only [bitsLt, beq_self_eq_true, if_true] at hlt
      simpa using ih xs ys ht hlt

theorem shared_take : ∀ (a b : List Bool), a.take (shared a b) = b.take (shared a b)
  | [], _ => by simp [shared]
  | _ :: _, [] => by simp [shared]
  | x :: xs, y :: ys => by
    simp only [shared]
    split
    · rename_i h
      have : x = y := by simpa using h
      subst this
      simp [shared_take xs ys]
    · simp

theorem shared_differ : ∀ (a b : List Bool) (x y : Bool), a[shared a b]? = some x → b[shared a b]? = some y → x ≠ y
  | [], _, _, _, h, _ => by simp at h
  | _ :: _, [], _, _, _, h => by simp at h
  | a :: as, b :: bs, x, y, h1, h2 => by
    simp only [shared] at h1 h2
    split at h1
    · rename_i h
      rw [if_pos h] at h2
      simp only [List.getElem?_cons_succ] at h1 h2
      exact shared_differ as bs x y h1 h2
    · rename_i h
      rw [if_neg h] at h2
      simp only [List.getElem?_cons_zero, Option.some.injEq] at h1 h2
      subst h1 h2
      simpa using h

/-! ### `binary_search_by` on a monotone predicate finds the partition point -/
section bsearch
variable {ε α : Type}

/-- loop invariant of `bsLoop` -/
def BsInv (l : List α) (g : α → Bool) (base size : Nat) : Prop :=
  base + size ≤ l.length ∧ 1 ≤ size ∧
  (∀ j x, j < base → l[j]? = some x → g x = false) ∧
  (∀ j x, base + size ≤ j → l[j]? = some x → g x = true)

theorem bsLoop_partition (f : α → Outcome ε Ordering) (l : List α) (g : α → Bool)
    (hf : ∀ x ∈ l, f x = .ok (if !g x then .lt else .gt))
    (hmono : ∀ (i j : Nat) (x y : α), i < j → l[i]? = some x → l[j]? = some y → g x = true → g y = true) :
    ∀ (fuel base size : Nat), BsInv l g base size → size ≤ fuel →
      ∃ base', bsLoop f l fuel base size = .ok base' ∧ BsInv l g base' 1 := by
  intro fuel
  induction fuel with
  | zero => intro base size hinv hle; have := hinv.2.1; omega
  | succ fuel ih =>
    intro base size hinv hle
    obtain ⟨hb, h1, hlo, hhi⟩ := hinv
    unfold bsLoop
    by_cases hs : size ≤ 1
    · have : size = 1 := by omega
      subst this
      simp only [hs, if_true]
      exact ⟨base, rfl, hb, Nat.le_refl 1, hlo, hhi⟩
    · simp only [hs, if_false]
      have hhalf : 1 ≤ size / 2 := by
        have : 2 ≤ size := by omega
        exact Nat.le_div_iff_mul_le (by decide) |>.2 (by omega)
      have hhalf2 : size / 2 + size / 2 ≤ size := by
        have := Nat.div_mul_le_self size 2
        omega
      have hmid : base + size / 2 < l.length := by omega
      have hx : l[base + size / 2]? = some l[base + size / 2] := List.getElem?_eq_getElem hmid
      rw [hx]
      simp only
      rw [hf _ (List.getElem_mem hmid)]
      simp only
      cases hg : g l[base + size / 2] with
      | true =>
        simp only [Bool.not_true, Bool.false_eq_true, if_false]
        have : (Ordering.gt == Ordering.gt) = true := rfl
        simp only [this, if_true]
        apply ih base (size - size / 2) ⟨by omega, by omega, hlo, ?_⟩ (by omega)
        intro j y hj hy
        by_cases hjm : j = base + size / 2
        · subst hjm; rw [hx] at hy; injection hy with hy; subst hy; exact hg
        · exact hmono (base + size / 2) j _ y (by omega) hx hy hg
      | false =>
        simp only [Bool.not_false, if_true]
        have : (Ordering.lt == Ordering.gt) = false := rfl
        simp only [this, Bool.false_eq_true, if_false]
        apply ih (base + size / 2) (size - size / 2) ⟨by omega, by omega, ?_, ?_⟩ (by omega)
        · intro j y hj hy
          cases hgy : g y with
          | false => rfl
          | true =>
            have := hmono j (base + size / 2) y _ hj hy hx hgy
            rw [hg] at this; cases this
        · intro j y hj hy
          exact hhi j y (by omega) hy

/-- on a monotone `false … false true … true` list the search returns `Err(partition point)` -/
theorem binarySearchBy_partition (f : α → Outcome ε Ordering) (l : List α) (g : α → Bool)
    (hf : ∀ x ∈ l, f x = .ok (if !g x then .lt else .gt))
    (hmono : ∀ (i j : Nat) (x y : α), i < j → l[i]? = some x → l[j]? = some y → g x = true → g y = true) :
    ∃ idx, binarySearchBy f l = .ok (.notFound idx) ∧ idx ≤ l.length ∧
      (∀ j x, j < idx → l[j]? = some x → g x = false) ∧
      (∀ j x, idx ≤ j → l[j]? = some x → g x = true) := by
  unfold binarySearchBy
  by_cases he : l.isEmpty
  · simp only [he, if_true]
    have : l = [] := by simpa using he
    subst this
    exact ⟨0, rfl, by simp, by simp, by simp⟩
  · simp only [he]
    have hne : l ≠ [] := by simpa using he
    have hlen : 1 ≤ l.length := by
      cases l with
      | nil => exact absurd rfl hne
      | cons _ _ => simp
    obtain ⟨base, hb, hinv⟩ := bsLoop_partition f l g hf hmono l.length 0 l.length
      ⟨by omega, hlen, by intro j x hj; omega, by
        intro j x hj hx
        have := (List.getElem?_eq_some_iff.1 hx).1
        omega⟩ (Nat.le_refl _)
    obtain ⟨hbl, _, hlo, hhi⟩ := hinv
    have hbase : base < l.length := by omega
    have hx : l[base]? = some l[base] := List.getElem?_eq_getElem hbase
    simp only [Bool.false_eq_true, if_false, hb, hx]
    rw [hf _ (List.getElem_mem hbase)]
    cases hg : g l[base] with
    | true =>
      simp only [Bool.not_true, Bool.false_eq_true, if_false]
      refine ⟨base, rfl, by omega, hlo, ?_⟩
      intro j y hj hy
      by_cases hjb : j = base
      · subst hjb; rw [hx] at hy; injection hy with hy; subst hy; exact hg
      · exact hhi j y (by omega) hy
    | false =>
      simp only [Bool.not_false, if_true]
      refine ⟨base + 1, rfl, by omega, ?_, hhi⟩
      intro j y hj hy
      by_cases hjb : j = base
      · subst hjb; rw [hx] at hy; injection hy with hy; subst hy; exact hg
      · exact hlo j y (by omega) hy

end bsearch


/-! ### ascending paths -/

/-- strictly ascending terminal paths -/
def AscPaths (paths : List (MultiPathProof VH)) : Prop :=
  paths.Pairwise (fun p q => bitsLt p.terminal.path q.terminal.path = true)

theorem pathsAscending_pairwise : ∀ (paths : List (MultiPathProof VH)),
    pathsAscending paths = true → AscPaths paths
  | [], _ => List.Pairwise.nil
  | [_], _ => by simp [AscPaths]
  | a :: b :: rest, h => by
    simp only [pathsAscending, bitsLe, Bool.not_not, Bool.and_eq_true] at h
    have ih : AscPaths (b :: rest) := pathsAscending_pairwise (b :: rest) h.2
    unfold AscPaths at ih ⊢
    refine List.pairwise_cons.2 ⟨?_, ih⟩
    intro q hq
    rcases List.mem_cons.1 hq with hq | hq
    · subst hq; exact h.1
    · exact bitsLt_transE _ _ _ h.1 ((List.pairwise_cons.1 ih).1 q hq)

/-! ### depth bounds implied by a successful `verify_range` -/

theorem verifyRange_depths :
    ∀ (fuel : Nat) (pos : List Bool) (sd : Nat) (paths : List (MultiPathProof VH)) (sibs : List Node)
      (off : Nat) (r : RangeOut Node VH),
      verifyRange H fuel pos sd paths sibs off = .ok r →
      ∀ p ∈ paths, sd ≤ p.depth ∧ p.depth ≤ p.terminal.path.length := by
  intro fuel
  induction fuel with
  | zero => intro pos sd paths sibs off r h; simp [verifyRange] at h
  | succ fuel ih =>
    intro pos sd paths sibs off r h p hp
    unfold verifyRange at h
    match paths, h, hp with
    | [], _, hp => simp at hp
    | [tp], h, hp =>
      simp only at h
      obtain ⟨_, hg1, h⟩ := Outcome.bind_eq_ok h
      obtain ⟨ul, h1, h⟩ := Outcome.bind_eq_ok h
      obtain ⟨_, hg2, h⟩ := Outcome.bind_eq_ok h
      obtain ⟨seg, h2, h⟩ := Outcome.bind_eq_ok h
      simp only [List.mem_singleton] at hp
      subst hp
      obtain ⟨hle, hul⟩ := checkedSub_ok h1
      obtain ⟨_, hb, _⟩ := sliceFromTo_ok h2
      exact ⟨hle, by omega⟩
    | first :: p2 :: rest, h, hp =>
      simp only at h
      obtain ⟨_, hg1, h⟩ := Outcome.bind_eq_ok h
      obtain ⟨a, h1, h⟩ := Outcome.bind_eq_ok h
      obtain ⟨b, h2, h⟩ := Outcome.bind_eq_ok h
      obtain ⟨_, hg2, h⟩ := Outcome.bind_eq_ok h
      obtain ⟨_, hg3, h⟩ := Outcome.bind_eq_ok h
      obtain ⟨sr, h3, h⟩ := Outcome.bind_eq_ok h
      obtain ⟨idx, h4, h⟩ := Outcome.bind_eq_ok h
      obtain ⟨ls, h5, h⟩ := Outcome.bind_eq_ok h
      obtain ⟨l, h6, h⟩ := Outcome.bind_eq_ok h
      obtain ⟨rs, h7, h⟩ := Outcome.bind_eq_ok h
      obtain ⟨rr, h8, h⟩ := Outcome.bind_eq_ok h
      rw [← List.take_append_drop idx (first :: p2 :: rest)] at hp
      rcases List.mem_append.1 hp with hin | hin
      · have := ih _ _ _ _ _ _ h6 p hin
        exact ⟨by omega, this.2⟩
      · have := ih _ _ _ _ _ _ h8 p hin
        exact ⟨by omega, this.2⟩


/-! ### alignment -/

theorem pairwise_getLast {α : Type} {R : α → α → Prop} : ∀ (l : List α) (h : l ≠ []), l.Pairwise R →
    ∀ x ∈ l, x = l.getLast h ∨ R x (l.getLast h)
  | [a], _, _, x, hx => by
    simp only [List.mem_singleton] at hx
    left; simp [hx]
  | a :: b :: rest, _, hp, x, hx => by
    rw [List.getLast_cons (by simp : b :: rest ≠ [])]
    obtain ⟨ha, hp'⟩ := List.pairwise_cons.1 hp
    rcases List.mem_cons.1 hx with hx | hx
    · right; subst hx; exact ha _ (List.getLast_mem _)
    · exact pairwise_getLast (b :: rest) _ hp' x hx

theorem getElem?_of_lt_length (l : List Bool) (c : Nat) (h : c < l.length) : l[c]? = some (l.getD c false) := by
  simp [List.getD, List.getElem?_eq_getElem h]

/-- **alignment**: on ascending paths that share the range's position, a successful `verify_range` hashes
every terminal along the first `depth` bits of its own path. -/
theorem verifyRange_aligned :
    ∀ (fuel : Nat) (pos : List Bool) (sd : Nat) (paths : List (MultiPathProof VH)) (sibs : List Node)
      (off : Nat) (r : RangeOut Node VH),
      verifyRange H fuel pos sd paths sibs off = .ok r →
      pos.length = sd → (∀ p ∈ paths, p.terminal.path.take sd = pos) → AscPaths paths →
      (paths = [] → pos = []) →
      ∀ vp ∈ r.paths, vp.aligned := by
  intro fuel
  induction fuel with
  | zero => intro pos sd paths sibs off r h; simp [verifyRange] at h
  | succ fuel ih =>
    intro pos sd paths sibs off r h hpos hpre hasc hemp vp hvp
    unfold verifyRange at h
    match paths, h, hpre, hasc, hemp with
    | [], h, _, _, hemp =>
      simp only at h
      injection h with h; subst h
      simp only [List.mem_singleton] at hvp
      subst hvp
      simp [VPath.aligned, hemp rfl, Terminal.path]
    | [tp], h, hpre, _, _ =>
      simp only at h
      obtain ⟨_, hg1, h⟩ := Outcome.bind_eq_ok h
      obtain ⟨ul, h1, h⟩ := Outcome.bind_eq_ok h
      obtain ⟨_, hg2, h⟩ := Outcome.bind_eq_ok h
      obtain ⟨seg, h2, h⟩ := Outcome.bind_eq_ok h
      obtain ⟨us, h3, h⟩ := Outcome.bind_eq_ok h
      simp only [Outcome.pure_eq] at h
      injection h with h; subst h
      simp only [List.mem_singleton] at hvp
      subst hvp
      obtain ⟨hle, hul⟩ := checkedSub_ok h1
      obtain ⟨_, hb, hseg⟩ := sliceFromTo_ok h2
      simp only [VPath.aligned]
      have hp := hpre tp (by simp)
      have e : tp.depth = sd + (tp.depth - sd) := by omega
      rw [e, List.take_add, hp, hseg, hul]
      have : sd + (tp.depth - sd) - sd = tp.depth - sd := by omega
      rw [this]
    | first :: p2 :: rest, h, hpre, hasc, _ =>
      simp only at h
      obtain ⟨_, hg1, h⟩ := Outcome.bind_eq_ok h
      obtain ⟨a, h1, h⟩ := Outcome.bind_eq_ok h
      obtain ⟨b, h2, h⟩ := Outcome.bind_eq_ok h
      obtain ⟨_, hg2, h⟩ := Outcome.bind_eq_ok h
      obtain ⟨_, hg3, h⟩ := Outcome.bind_eq_ok h
      obtain ⟨sr, h3, h⟩ := Outcome.bind_eq_ok h
      obtain ⟨idx, h4, h⟩ := Outcome.bind_eq_ok h
      obtain ⟨ls, h5, h⟩ := Outcome.bind_eq_ok h
      obtain ⟨l, h6, h⟩ := Outcome.bind_eq_ok h
      obtain ⟨rs, h7, h⟩ := Outcome.bind_eq_ok h
      obtain ⟨rr, h8, h⟩ := Outcome.bind_eq_ok h
      simp only [Outcome.pure_eq] at h
      injection h with h; subst h
      simp only at hvp
      -- names
      obtain ⟨hsd1, ha⟩ := sliceFrom_ok h1
      obtain ⟨hsd2, hb⟩ := sliceFrom_ok h2
      generalize hP : first :: p2 :: rest = P at *
      generalize hlast : (p2 :: rest).getLast (by simp) = last at *
      have hfirstP : first ∈ P := by rw [← hP]; simp
      have hlastP : last ∈ P := by
        rw [← hP, ← hlast]; exact List.mem_cons_of_mem _ (List.getLast_mem _)
      generalize hcb : shared a b = cb at *
      have hcl1 : sd + cb + 1 - 1 = sd + cb := by omega
      rw [hcl1] at h3
      -- depth bounds from the two recursive calls
      have hD : ∀ p ∈ P, sd + cb < p.terminal.path.length := by
        intro p hp
        rw [← List.take_append_drop idx P] at hp
        rcases List.mem_append.1 hp with hin | hin
        · have := verifyRange_depths H _ _ _ _ _ _ _ h6 p hin; omega
        · have := verifyRange_depths H _ _ _ _ _ _ _ h8 p hin; omega
      -- order facts
      have hasc' : AscPaths (first :: p2 :: rest) := by rw [hP]; exact hasc
      obtain ⟨hfirst_lt, hasc2⟩ := List.pairwise_cons.1 hasc'
      have hfirst_le : ∀ p ∈ P, bitsLeq first.terminal.path p.terminal.path := by
        intro p hp
        rw [← hP] at hp
        rcases List.mem_cons.1 hp with hp | hp
        · left; rw [hp]
        · right; exact hfirst_lt p hp
      have hle_last : ∀ p ∈ P, bitsLeq p.terminal.path last.terminal.path := by
        intro p hp
        rw [← hP] at hp
        rcases List.mem_cons.1 hp with hp | hp
        · right; rw [hp]; apply hfirst_lt; rw [← hlast]; exact List.getLast_mem _
        · rcases pairwise_getLast (p2 :: rest) (by simp) hasc2 p hp with h | h
          · left; rw [h, hlast]
          · right; rw [hlast] at h; exact h
      -- common prefix of length sd + cb
      have hpre_first := hpre first hfirstP
      have hpre_last := hpre last hlastP
      have hcom : first.terminal.path.take (sd + cb) = last.terminal.path.take (sd + cb) := by
        rw [List.take_add, List.take_add, hpre_first, hpre_last, ← ha, ← hb, ← hcb, shared_take a b]
      have hall : ∀ p ∈ P, p.terminal.path.take (sd + cb) = first.terminal.path.take (sd + cb) := by
        intro p hp
        exact take_of_between (sd + cb) _ _ _ (by have := hD first hfirstP; omega) hcom
          (hfirst_le p hp) (hle_last p hp)
      -- the search predicate
      let g : MultiPathProof VH → Bool := fun p => p.terminal.path.getD (sd + cb) false
      have hbit : ∀ p ∈ P, p.terminal.path[sd + cb]? = some (g p) := fun p hp =>
        getElem?_of_lt_length _ _ (hD p hp)
      have hf : ∀ x ∈ P, bisectCmp (sd + cb) x = .ok (if !g x then .lt else .gt) := by
        intro x hx
        simp only [bisectCmp, hbit x hx]
      have hascP : ∀ (i j : Nat) (x y : MultiPathProof VH), i < j → P[i]? = some x → P[j]? = some y →
          bitsLt x.terminal.path y.terminal.path = true := by
        intro i j x y hij hx hy
        obtain ⟨hi, hxi⟩ := List.getElem?_eq_some_iff.1 hx
        obtain ⟨hj, hyj⟩ := List.getElem?_eq_some_iff.1 hy
        have := (List.pairwise_iff_getElem.1 hasc) i j hi hj hij
        rw [hxi, hyj] at this; exact this
      have hmono : ∀ (i j : Nat) (x y : MultiPathProof VH), i < j → P[i]? = some x → P[j]? = some y →
          g x = true → g y = true := by
        intro i j x y hij hx hy hgx
        have hxP : x ∈ P := List.mem_of_getElem? hx
        have hyP : y ∈ P := List.mem_of_getElem? hy
        have hlt := hascP i j x y hij hx hy
        have hnb := bitsLt_bit (sd + cb) _ _ ((hall x hxP).trans (hall y hyP).symm) hlt
        cases hgy : g y with
        | true => rfl
        | false =>
          exfalso; apply hnb
          rw [hbit x hxP, hbit y hyP, hgx, hgy]; exact ⟨rfl, rfl⟩
      obtain ⟨idx', hbs, hidxle, hlo, hhi⟩ := binarySearchBy_partition _ P g hf hmono
      rw [hbs] at h3
      injection h3 with h3; subst h3
      simp only [Outcome.pure_eq] at h4
      injection h4 with h4; subst h4
      -- first has bit 0, last has bit 1
      have hgf : g first = false ∧ g last = true := by
        have h0 : a[cb]? = some (g first) := by
          rw [ha, List.getElem?_drop]; exact hbit first hfirstP
        have h1' : b[cb]? = some (g last) := by
          rw [hb, List.getElem?_drop]; exact hbit last hlastP
        rw [← hcb] at h0 h1'
        have hne := shared_differ a b _ _ h0 h1'
        have hlt : bitsLt first.terminal.path last.terminal.path = true := by
          apply hfirst_lt; rw [← hlast]; exact List.getLast_mem _
        have hnb := bitsLt_bit (sd + cb) _ _ hcom hlt
        rw [hbit first hfirstP, hbit last hlastP] at hnb
        cases hg1 : g first <;> cases hg2 : g last <;> simp_all
      have hP0 : P[0]? = some first := by rw [← hP]; rfl
      have hidx0 : 0 < idx' := by
        rcases Nat.eq_zero_or_pos idx' with h0 | h0
        · have := hhi 0 first (by omega) hP0
          rw [hgf.1] at this; cases this
        · exact h0
      have hidxlt : idx' < P.length := by
        obtain ⟨j, hj⟩ := List.mem_iff_getElem?.1 hlastP
        have hjl := (List.getElem?_eq_some_iff.1 hj).1
        rcases Nat.lt_or_ge j idx' with hlt | hge
        · have := hlo j last hlt hj
          rw [hgf.2] at this; cases this
        · omega
      have hfseg : (a.take cb).length = cb := by
        have := shared_le_left a b
        simp; omega
      have hfirst_cl : first.terminal.path.take (sd + cb) = pos ++ a.take cb := by
        rw [List.take_add, hpre_first, ← ha]
      have hpre' : ∀ (bit : Bool) (p : MultiPathProof VH), p ∈ P → g p = bit →
          p.terminal.path.take (sd + cb + 1) = pos ++ a.take cb ++ [bit] := by
        intro bit p hp hg
        rw [List.take_add_one, hall p hp, hfirst_cl, hbit p hp, hg]; rfl
      rcases List.mem_append.1 hvp with hin | hin
      · apply ih _ _ _ _ _ _ h6 (by simp [hfseg, hpos]; omega) ?_ (List.Pairwise.sublist (List.take_sublist _ _) hasc) ?_ vp hin
        · intro p hp
          obtain ⟨j, hj, hpj⟩ := List.mem_take_iff_getElem.1 hp
          have hjl : j < P.length := by
            have := Nat.min_le_right idx' P.length; omega
          have hjP : P[j]? = some p := by rw [List.getElem?_eq_getElem hjl, hpj]
          exact hpre' false p (List.mem_of_getElem? hjP) (hlo j p (by
            have := Nat.min_le_left idx' P.length; omega) hjP)
        · intro hnil
          have : (List.take idx' P).length = 0 := by rw [hnil]; rfl
          rw [List.length_take] at this
          omega
      · apply ih _ _ _ _ _ _ h8 (by simp [hfseg, hpos]; omega) ?_ (List.Pairwise.sublist (List.drop_sublist _ _) hasc) ?_ vp hin
        · intro p hp
          obtain ⟨j, hj⟩ := List.mem_iff_getElem?.1 hp
          rw [List.getElem?_drop] at hj
          exact hpre' true p (List.mem_of_getElem? hj) (hhi _ p (by omega) hj)
        · intro hnil
          have : (List.drop idx' P).length = 0 := by rw [hnil]; rfl
          rw [List.length_drop] at this
          omega

/-- every path of an accepted multi-proof is aligned -/
theorem verifyMulti_aligned (mp : MultiProof Node VH) (root : Node) (v : VerifiedMulti Node VH)
    (hv : verifyMulti H mp root = .ok v) : ∀ vp ∈ v.inner, vp.aligned := by
  obtain ⟨hasc, r, hr, _, _, hinner, _⟩ := verifyMulti_ok H mp root v hv
  rw [hinner]
  exact verifyRange_aligned H _ [] 0 mp.paths mp.siblings 0 r hr rfl (by intro p _; simp)
    (pathsAscending_pairwise mp.paths hasc) (fun _ => rfl)


/-- the depth of a verified path does not exceed its terminal path (the slice succeeded) -/
theorem verifyRange_vdepths :
    ∀ (fuel : Nat) (pos : List Bool) (sd : Nat) (paths : List (MultiPathProof VH)) (sibs : List Node)
      (off : Nat) (r : RangeOut Node VH),
      verifyRange H fuel pos sd paths sibs off = .ok r →
      ∀ vp ∈ r.paths, vp.depth ≤ vp.terminal.path.length := by
  intro fuel
  induction fuel with
  | zero => intro pos sd paths sibs off r h; simp [verifyRange] at h
  | succ fuel ih =>
    intro pos sd paths sibs off r h vp hvp
    unfold verifyRange at h
    match paths, h with
    | [], h =>
      simp only at h
      injection h with h; subst h
      simp only [List.mem_singleton] at hvp
      subst hvp; simp
    | [tp], h =>
      simp only at h
      obtain ⟨_, hg1, h⟩ := Outcome.bind_eq_ok h
      obtain ⟨ul, h1, h⟩ := Outcome.bind_eq_ok h
      obtain ⟨_, hg2, h⟩ := Outcome.bind_eq_ok h
      obtain ⟨seg, h2, h⟩ := Outcome.bind_eq_ok h
      obtain ⟨us, h3, h⟩ := Outcome.bind_eq_ok h
      simp only [Outcome.pure_eq] at h
      injection h with h; subst h
      simp only [List.mem_singleton] at hvp
      subst hvp
      obtain ⟨hle, hul⟩ := checkedSub_ok h1
      obtain ⟨_, hb, _⟩ := sliceFromTo_ok h2
      simp only; omega
    | first :: p2 :: rest, h =>
      simp only at h
      obtain ⟨_, hg1, h⟩ := Outcome.bind_eq_ok h
      obtain ⟨a, h1, h⟩ := Outcome.bind_eq_ok h
      obtain ⟨b, h2, h⟩ := Outcome.bind_eq_ok h
      obtain ⟨_, hg2, h⟩ := Outcome.bind_eq_ok h
      obtain ⟨_, hg3, h⟩ := Outcome.bind_eq_ok h
      obtain ⟨sr, h3, h⟩ := Outcome.bind_eq_ok h
      obtain ⟨idx, h4, h⟩ := Outcome.bind_eq_ok h
      obtain ⟨ls, h5, h⟩ := Outcome.bind_eq_ok h
      obtain ⟨l, h6, h⟩ := Outcome.bind_eq_ok h
      obtain ⟨rs, h7, h⟩ := Outcome.bind_eq_ok h
      obtain ⟨rr, h8, h⟩ := Outcome.bind_eq_ok h
      simp only [Outcome.pure_eq] at h
      injection h with h; subst h
      simp only at hvp
      rcases List.mem_append.1 hvp with hin | hin
      · exact ih _ _ _ _ _ _ h6 vp hin
      · exact ih _ _ _ _ _ _ h8 vp hin


/-! ### the verified paths lie in pairwise different subtrees -/

/-- neither route is a prefix of the other -/
def RouteIncomp (x y : VPath VH) : Prop := ¬ x.route <+: y.route ∧ ¬ y.route <+: x.route

theorem not_prefix_of_diverge (P qa qb : List Bool) (b : Bool) :
    ¬ (P ++ [b] ++ qa) <+: (P ++ [!b] ++ qb) := by
  rintro ⟨t, ht⟩
  simp only [List.append_assoc] at ht
  have := List.append_cancel_left ht
  simp only [List.cons_append, List.nil_append, List.cons.injEq] at this
  cases b <;> simp at this

theorem verifyRange_route_prefix :
    ∀ (fuel : Nat) (pos : List Bool) (sd : Nat) (paths : List (MultiPathProof VH)) (sibs : List Node)
      (off : Nat) (r : RangeOut Node VH),
      verifyRange H fuel pos sd paths sibs off = .ok r →
      ∀ vp ∈ r.paths, ∃ q, vp.route = pos ++ q := by
  intro fuel
  induction fuel with
  | zero => intro pos sd paths sibs off r h; simp [verifyRange] at h
  | succ fuel ih =>
    intro pos sd paths sibs off r h vp hvp
    unfold verifyRange at h
    match paths, h with
    | [], h =>
      simp only at h
      injection h with h; subst h
      simp only [List.mem_singleton] at hvp
      subst hvp; exact ⟨[], by simp⟩
    | [tp], h =>
      simp only at h
      obtain ⟨_, hg1, h⟩ := Outcome.bind_eq_ok h
      obtain ⟨ul, h1, h⟩ := Outcome.bind_eq_ok h
      obtain ⟨_, hg2, h⟩ := Outcome.bind_eq_ok h
      obtain ⟨seg, h2, h⟩ := Outcome.bind_eq_ok h
      obtain ⟨us, h3, h⟩ := Outcome.bind_eq_ok h
      simp only [Outcome.pure_eq] at h
      injection h with h; subst h
      simp only [List.mem_singleton] at hvp
      subst hvp; exact ⟨seg, rfl⟩
    | first :: p2 :: rest, h =>
      simp only at h
      obtain ⟨_, hg1, h⟩ := Outcome.bind_eq_ok h
      obtain ⟨a, h1, h⟩ := Outcome.bind_eq_ok h
      obtain ⟨b, h2, h⟩ := Outcome.bind_eq_ok h
      obtain ⟨_, hg2, h⟩ := Outcome.bind_eq_ok h
      obtain ⟨_, hg3, h⟩ := Outcome.bind_eq_ok h
      obtain ⟨sr, h3, h⟩ := Outcome.bind_eq_ok h
      obtain ⟨idx, h4, h⟩ := Outcome.bind_eq_ok h
      obtain ⟨ls, h5, h⟩ := Outcome.bind_eq_ok h
      obtain ⟨l, h6, h⟩ := Outcome.bind_eq_ok h
      obtain ⟨rs, h7, h⟩ := Outcome.bind_eq_ok h
      obtain ⟨rr, h8, h⟩ := Outcome.bind_eq_ok h
      simp only [Outcome.pure_eq] at h
      injection h with h; subst h
      simp only at hvp
      rcases List.mem_append.1 hvp with hin | hin
      · obtain ⟨q, hq⟩ := ih _ _ _ _ _ _ h6 vp hin
        exact ⟨a.take (shared a b) ++ [false] ++ q, by simp [hq]⟩
      · obtain ⟨q, hq⟩ := ih _ _ _ _ _ _ h8 vp hin
        exact ⟨a.take (shared a b) ++ [true] ++ q, by simp [hq]⟩

theorem verifyRange_routes_incomp :
    ∀ (fuel : Nat) (pos : List Bool) (sd : Nat) (paths : List (MultiPathProof VH)) (sibs : List Node)
      (off : Nat) (r : RangeOut Node VH),
      verifyRange H fuel pos sd paths sibs off = .ok r → r.paths.Pairwise RouteIncomp := by
  intro fuel
  induction fuel with
  | zero => intro pos sd paths sibs off r h; simp [verifyRange] at h
  | succ fuel ih =>
    intro pos sd paths sibs off r h
    unfold verifyRange at h
    match paths, h with
    | [], h =>
      simp only at h
      injection h with h; subst h; simp
    | [tp], h =>
      simp only at h
      obtain ⟨_, hg1, h⟩ := Outcome.bind_eq_ok h
      obtain ⟨ul, h1, h⟩ := Outcome.bind_eq_ok h
      obtain ⟨_, hg2, h⟩ := Outcome.bind_eq_ok h
      obtain ⟨seg, h2, h⟩ := Outcome.bind_eq_ok h
      obtain ⟨us, h3, h⟩ := Outcome.bind_eq_ok h
      simp only [Outcome.pure_eq] at h
      injection h with h; subst h; simp
    | first :: p2 :: rest, h =>
      simp only at h
      obtain ⟨_, hg1, h⟩ := Outcome.bind_eq_ok h
      obtain ⟨a, h1, h⟩ := Outcome.bind_eq_ok h
      obtain ⟨b, h2, h⟩ := Outcome.bind_eq_ok h
      obtain ⟨_, hg2, h⟩ := Outcome.bind_eq_ok h
      obtain ⟨_, hg3, h⟩ := Outcome.bind_eq_ok h
      obtain ⟨sr, h3, h⟩ := Outcome.bind_eq_ok h
      obtain ⟨idx, h4, h⟩ := Outcome.bind_eq_ok h
      obtain ⟨ls, h5, h⟩ := Outcome.bind_eq_ok h
      obtain ⟨l, h6, h⟩ := Outcome.bind_eq_ok h
      obtain ⟨rs, h7, h⟩ := Outcome.bind_eq_ok h
      obtain ⟨rr, h8, h⟩ := Outcome.bind_eq_ok h
      simp only [Outcome.pure_eq] at h
      injection h with h; subst h
      simp only
      refine List.pairwise_append.2 ⟨ih _ _ _ _ _ _ h6, ih _ _ _ _ _ _ h8, ?_⟩
      intro x hx y hy
      obtain ⟨qx, hqx⟩ := verifyRange_route_prefix H _ _ _ _ _ _ _ h6 x hx
      obtain ⟨qy, hqy⟩ := verifyRange_route_prefix H _ _ _ _ _ _ _ h8 y hy
      unfold RouteIncomp
      rw [hqx, hqy]
      exact ⟨not_prefix_of_diverge (pos ++ a.take (shared a b)) qx qy false,
             not_prefix_of_diverge (pos ++ a.take (shared a b)) qy qx true⟩

/-- **at most one verified path covers a key** -/
theorem verifyMulti_cover_unique (mp : MultiProof Node VH) (root : Node) (v : VerifiedMulti Node VH)
    (hv : verifyMulti H mp root = .ok v) (key : Key) (i j : Nat) (vi vj : VPath VH)
    (hi : v.inner[i]? = some vi) (hj : v.inner[j]? = some vj)
    (hci : vi.covers key) (hcj : vj.covers key) : i = j := by
  obtain ⟨_, r, hr, _, _, hinner, _⟩ := verifyMulti_ok H mp root v hv
  have hal := verifyMulti_aligned H mp root v hv
  have hinc := verifyRange_routes_incomp H _ _ _ _ _ _ r hr
  rw [← hinner] at hinc
  have hri : vi.route = key.take vi.depth := (hal vi (List.mem_of_getElem? hi)).trans hci.2.2
  have hrj : vj.route = key.take vj.depth := (hal vj (List.mem_of_getElem? hj)).trans hcj.2.2
  obtain ⟨hil, hie⟩ := List.getElem?_eq_some_iff.1 hi
  obtain ⟨hjl, hje⟩ := List.getElem?_eq_some_iff.1 hj
  have key_fact : ∀ (x y : VPath VH), x.route = key.take x.depth → y.route = key.take y.depth →
      RouteIncomp x y → False := by
    intro x y hx hy hinc
    rcases Nat.le_total x.depth y.depth with hle | hle
    · exact hinc.1 (by rw [hx, hy]; exact List.take_prefix_take_left hle)
    · exact hinc.2 (by rw [hx, hy]; exact List.take_prefix_take_left hle)
  rcases Nat.lt_trichotomy i j with hlt | heq | hgt
  · exfalso
    have := (List.pairwise_iff_getElem.1 hinc) i j hil hjl hlt
    rw [hie, hje] at this
    exact key_fact vi vj hri hrj this
  · exact heq
  · exfalso
    have := (List.pairwise_iff_getElem.1 hinc) j i hjl hil hgt
    rw [hie, hje] at this
    exact key_fact vj vi hrj hri this

/-! ### the lookups never reach a panic site on an accepted multi-proof -/
section nopanic
variable {ε α : Type}

theorem bsLoop_ok (f : α → Outcome ε Ordering) (l : List α) (hf : ∀ x ∈ l, ∃ c, f x = .ok c) :
    ∀ (fuel base size : Nat), base + size ≤ l.length → 1 ≤ size →
      ∃ base', bsLoop f l fuel base size = .ok base' ∧ base' < l.length := by
  intro fuel
  induction fuel with
  | zero => intro base size hb h1; exact ⟨base, rfl, by omega⟩
  | succ fuel ih =>
    intro base size hb h1
    unfold bsLoop
    by_cases hs : size ≤ 1
    · simp only [hs, if_true]; exact ⟨base, rfl, by omega⟩
    · simp only [hs, if_false]
      have hhalf : 1 ≤ size / 2 := Nat.le_div_iff_mul_le (by decide) |>.2 (by omega)
      have hhalf2 : size / 2 + size / 2 ≤ size := by
        have := Nat.div_mul_le_self size 2
        omega
      have hmid : base + size / 2 < l.length := by omega
      rw [List.getElem?_eq_getElem hmid]
      obtain ⟨c, hc⟩ := hf _ (List.getElem_mem hmid)
      simp only [hc]
      split
      · exact ih _ _ (by omega) (by omega)
      · exact ih _ _ (by omega) (by omega)

theorem binarySearchBy_no_panic (f : α → Outcome ε Ordering) (l : List α) (hf : ∀ x ∈ l, ∃ c, f x = .ok c) :
    (binarySearchBy f l).isPanic = false := by
  unfold binarySearchBy
  by_cases he : l.isEmpty
  · simp [he, Outcome.isPanic]
  · simp only [he]
    have hne : l ≠ [] := by simpa using he
    have hlen : 1 ≤ l.length := by
      cases l with
      | nil => exact absurd rfl hne
      | cons _ _ => simp
    obtain ⟨base, hb, hbl⟩ := bsLoop_ok f l hf l.length 0 l.length (by omega) hlen
    simp only [Bool.false_eq_true, if_false, hb, List.getElem?_eq_getElem hbl]
    obtain ⟨c, hc⟩ := hf _ (List.getElem_mem hbl)
    rw [hc]
    cases c <;> rfl

end nopanic

/-- `find_index_for` on an accepted multi-proof, for a key at least as long as every verified depth:
no slice is out of range, the answer is an index or `KeyOutOfScope` -/
theorem findIndexFor_no_panic (mp : MultiProof Node VH) (root : Node) (v : VerifiedMulti Node VH)
    (hv : verifyMulti H mp root = .ok v) (key : Key) (hk : ∀ vp ∈ v.inner, vp.depth ≤ key.length) :
    (findIndexFor v key).isPanic = false := by
  obtain ⟨_, r, hr, _, _, hinner, _⟩ := verifyMulti_ok H mp root v hv
  have hd : ∀ vp ∈ v.inner, vp.depth ≤ vp.terminal.path.length := by
    intro vp hvp
    exact verifyRange_vdepths H _ _ _ _ _ _ r hr vp (hinner ▸ hvp)
  have hf : ∀ x ∈ v.inner, ∃ c, pathCmp key x = .ok c := by
    intro x hx
    refine ⟨bitsCmp (x.terminal.path.take x.depth) (key.take x.depth), ?_⟩
    simp [pathCmp, sliceUpTo, hd x hx, hk x hx]
  have := binarySearchBy_no_panic (pathCmp key) v.inner hf
  unfold findIndexFor
  revert this
  cases binarySearchBy (pathCmp key) v.inner with
  | ok b => cases b <;> simp [Outcome.isPanic]
  | err e => simp [Outcome.isPanic]
  | panic s => simp [Outcome.isPanic]

end Nomt
