import NomtModel.Core.MultiSound
/-!
The alignment lemma of multi-proof verification: for ascending terminal paths (checked by `verify`),
`verify_range` hashes every terminal along the first `depth` bits of *its own* terminal path.
Ingredients: the bit-string order (`bitsLt`), correctness of the branch-free `binary_search_by` on a
monotone predicate, and the depth bounds a successful `verify_range` implies.
-/
set_option linter.unusedSectionVars false
namespace Nomt
variable {Node VH : Type} [DecidableEq Node] [DecidableEq VH] (H : Hasher Node VH)

/-! ### the order on bit strings -/

theorem bitsLt_trans : ∀ (a b c : List Bool), bitsLt a b = true → bitsLt b c = true → bitsLt a c = true
  | [], [], _, h, _ => by simp [bitsLt] at h
  | [], _ :: _, [], _, h => by simp [bitsLt] at h
  | [], _ :: _, _ :: _, _, _ => by simp [bitsLt]
  | _ :: _, [], _, h, _ => by simp [bitsLt] at h
  | _ :: _, _ :: _, [], _, h => by simp [bitsLt] at h
  | x :: xs, y :: ys, z :: zs, h1, h2 => by
    simp only [bitsLt] at h1 h2 ⊢
    have ih := bitsLt_trans xs ys zs
    cases x <;> cases y <;> cases z <;> simp_all

/-- `a ≤ b` -/
def bitsLeq (a b : List Bool) : Prop := a = b ∨ bitsLt a b = true

/-- anything between two strings that share their first `c` bits shares them too -/
theorem take_of_between : ∀ (c : Nat) (a p b : List Bool), c ≤ a.length → a.take c = b.take c →
    bitsLeq a p → bitsLeq p b → p.take c = a.take c := by
  intro c
  induction c with
  | zero => intro a p b _ _ _ _; simp
  | succ c ih =>
    intro a p b hlen ht hap hpb
    match a, b, hlen, ht with
    | x :: xs, [], _, ht => exact absurd ht (by simp)
    | x :: xs, y :: ys, hlen, ht =>
      simp only [List.take_succ_cons, List.cons.injEq] at ht
      obtain ⟨hxy, ht⟩ := ht
      subst hxy
      match p, hap, hpb with
      | [], hap, _ =>
        rcases hap with h | h
        · cases h
        · simp [bitsLt] at h
      | z :: zs, hap, hpb =>
        have hz : z = x := by
          rcases hap with h | h
          · exact (List.cons.inj h).1.symm
          · rcases hpb with h' | h'
            · exact (List.cons.inj h').1
            · simp only [bitsLt] at h h'
              cases x <;> cases z <;> simp_all
        subst hz
        have hap' : bitsLeq xs zs := by
          rcases hap with h | h
          · exact Or.inl (List.cons.inj h).2
          · simp only [bitsLt, beq_self_eq_true, if_true] at h; exact Or.inr h
        have hpb' : bitsLeq zs ys := by
          rcases hpb with h | h
          · exact Or.inl (List.cons.inj h).2
          · simp only [bitsLt, beq_self_eq_true, if_true] at h; exact Or.inr h
        simp only [List.take_succ_cons, List.cons.injEq, true_and]
        exact ih xs zs ys (by simpa using hlen) ht hap' hpb'

/-- with a common `c`-bit prefix, `p < q` forbids `p_c = 1 ∧ q_c = 0` -/
theorem bitsLt_bit : ∀ (c : Nat) (p q : List Bool), p.take c = q.take c → bitsLt p q = true →
    ¬ (p[c]? = some true ∧ q[c]? = some false) := by
  intro c
  induction c with
  | zero =>
    intro p q _ hlt
    match p, q, hlt with
    | [], _, _ => simp
    | _ :: _, [], hlt => simp [bitsLt] at hlt
    | x :: xs, y :: ys, hlt =>
      simp only [bitsLt] at hlt
      cases x <;> cases y <;> simp_all
  | succ c ih =>
    intro p q ht hlt
    match p, q, hlt with
    | [], _, _ => simp
    | _ :: _, [], hlt => simp [bitsLt] at hlt
    | x :: xs, y :: ys, hlt =>
      simp only [List.take_succ_cons, List.cons.injEq] at ht
      obtain ⟨hxy, ht⟩ := ht
      subst hxy
      simp only [bitsLt, beq_self_eq_true, if_true] at hlt
      simpa using ih xs ys ht hlt

theorem shared_take : ∀ (a b : List Bool), a.take (shared a b) = b.take (shared a b)
  | [], _ => by simp [shared]
  | _ :: _, [] => by simp [shared]
  | x :: xs, y :: ys => by
    simp only [shared]
    split
    · rename_i h
      have : x = y := by simpa using h
      subst this
      simp [shared_take xs ys]
    · simp

theorem shared_differ : ∀ (a b : List Bool) (x y : Bool), a[shared a b]? = some x → b[shared a b]? = some y → x ≠ y
  | [], _, _, _, h, _ => by simp at h
  | _ :: _, [], _, _, _, h => by simp at h
  | a :: as, b :: bs, x, y, h1, h2 => by
    simp only [shared] at h1 h2
    split at h1
    · rename_i h
      rw [if_pos h] at h2
      simp only [List.getElem?_cons_succ] at h1 h2
      exact shared_differ as bs x y h1 h2
    · rename_i h
      rw [if_neg h] at h2
      simp only [List.getElem?_cons_zero, Option.some.injEq] at h1 h2
      subst h1 h2
      simpa using h

/-! ### `binary_search_by` on a monotone predicate finds the partition point -/
section bsearch
variable {ε α : Type}

/-- loop invariant of `bsLoop` -/
def BsInv (l : List α) (g : α → Bool) (base size : Nat) : Prop :=
  base + size ≤ l.length ∧ 1 ≤ size ∧
  (∀ j x, j < base → l[j]? = some x → g x = false) ∧
  (∀ j x, base + size ≤ j → l[j]? = some x → g x = true)

theorem bsLoop_partition (f : α → Outcome ε Ordering) (l : List α) (g : α → Bool)
    (hf : ∀ x ∈ l, f x = .ok (if !g x then .lt else .gt))
    (hmono : ∀ (i j : Nat) (x y : α), i < j → l[i]? = some x → l[j]? = some y → g x = true → g y = true) :
    ∀ (fuel base size : Nat), BsInv l g base size → size ≤ fuel →
      ∃ base', bsLoop f l fuel base size = .ok base' ∧ BsInv l g base' 1 := by
  intro fuel
  induction fuel with
  | zero => intro base size hinv hle; have := hinv.2.1; omega
  | succ fuel ih =>
    intro base size hinv hle
    obtain ⟨hb, h1, hlo, hhi⟩ := hinv
    unfold bsLoop
    by_cases hs : size ≤ 1
    · have : size = 1 := by omega
      subst this
      simp only [hs, if_true]
      exact ⟨base, rfl, hb, Nat.le_refl 1, hlo, hhi⟩
    · simp only [hs, if_false]
      have hhalf : 1 ≤ size / 2 := by
        have : 2 ≤ size := by omega
        exact Nat.le_div_iff_mul_le (by decide) |>.2 (by omega)
      have hhalf2 : size / 2 + size / 2 ≤ size := by
        have := Nat.div_mul_le_self size 2
        omega
      have hmid : base + size / 2 < l.length := by omega
      have hx : l[base + size / 2]? = some l[base + size / 2] := List.getElem?_eq_getElem hmid
      rw [hx]
      simp only
      rw [hf _ (List.getElem_mem hmid)]
      simp only
      cases hg : g l[base + size / 2] with
      | true =>
        simp only [Bool.not_true, Bool.false_eq_true, if_false]
        have : (Ordering.gt == Ordering.gt) = true := rfl
        simp only [this, if_true]
        apply ih base (size - size / 2) ⟨by omega, by omega, hlo, ?_⟩ (by omega)
        intro j y hj hy
        by_cases hjm : j = base + size / 2
        · subst hjm; rw [hx] at hy; injection hy with hy; subst hy; exact hg
        · exact hmono (base + size / 2) j _ y (by omega) hx hy hg
      | false =>
        simp only [Bool.not_false, if_true]
        have : (Ordering.lt == Ordering.gt) = false := rfl
        simp only [this, Bool.false_eq_true, if_false]
        apply ih (base + size / 2) (size - size / 2) ⟨by omega, by omega, ?_, ?_⟩ (by omega)
        · intro j y hj hy
          cases hgy : g y with
          | false => rfl
          | true =>
            have := hmono j (base + size / 2) y _ hj hy hx hgy
            rw [hg] at this; cases this
        · intro j y hj hy
          exact hhi j y (by omega) hy

/-- on a monotone `false … false true … true` list the search returns `Err(partition point)` -/
theorem binarySearchBy_partition (f : α → Outcome ε Ordering) (l : List α) (g : α → Bool)
    (hf : ∀ x ∈ l, f x = .ok (if !g x then .lt else .gt))
    (hmono : ∀ (i j : Nat) (x y : α), i < j → l[i]? = some x → l[j]? = some y → g x = true → g y = true) :
    ∃ idx, binarySearchBy f l = .ok (.notFound idx) ∧ idx ≤ l.length ∧
      (∀ j x, j < idx → l[j]? = some x → g x = false) ∧
      (∀ j x, idx ≤ j → l[j]? = some x → g x = true) := by
  unfold binarySearchBy
  by_cases he : l.isEmpty
  · simp only [he, if_true]
    have : l = [] := by simpa using he
    subst this
    exact ⟨0, rfl, by simp, by simp, by simp⟩
  · simp only [he]
    have hne : l ≠ [] := by simpa using he
    have hlen : 1 ≤ l.length := by
      cases l with
      | nil => exact absurd rfl hne
      | cons _ _ => simp
    obtain ⟨base, hb, hinv⟩ := bsLoop_partition f l g hf hmono l.length 0 l.length
      ⟨by omega, hlen, by intro j x hj; omega, by
        intro j x hj hx
        have := (List.getElem?_eq_some_iff.1 hx).1
        omega⟩ (Nat.le_refl _)
    obtain ⟨hbl, _, hlo, hhi⟩ := hinv
    have hbase : base < l.length := by omega
    have hx : l[base]? = some l[base] := List.getElem?_eq_getElem hbase
    simp only [Bool.false_eq_true, if_false, hb, hx]
    rw [hf _ (List.getElem_mem hbase)]
    cases hg : g l[base] with
    | true =>
      simp only [Bool.not_true, Bool.false_eq_true, if_false]
      refine ⟨base, rfl, by omega, hlo, ?_⟩
      intro j y hj hy
      by_cases hjb : j = base
      · subst hjb; rw [hx] at hy; injection hy with hy; subst hy; exact hg
      · exact hhi j y (by omega) hy
    | false =>
      simp only [Bool.not_false, if_true]
      refine ⟨base + 1, rfl, by omega, ?_, hhi⟩
      intro j y hj hy
      by_cases hjb : j = base
      · subst hjb; rw [hx] at hy; injection hy with hy; subst hy; exact hg
      · exact hlo j y (by omega) hy

end bsearch

end Nomt
