import NomtModel.Core.Block2
namespace Nomt
variable {Node VH : Type} (H : Hasher Node VH)

/-- prefix facts for the sub-block on side `b` -/
theorem side_take (skip e : Nat) (b : Bool) (B : List (Key × VH)) (p : List Bool) (fuel : Nat)
    (hlen : ∀ kv ∈ B, kv.1.length = skip + e + (fuel + 1))
    (hp : ∀ kv ∈ B, kv.1.take (skip + e) = p) :
    ∀ kv ∈ side (skip + e) b B, kv.1.take (skip + (e + 1)) = p ++ [b] := by
  intro kv hkv
  rw [mem_side] at hkv
  have hl := hlen kv hkv.1
  have : skip + (e + 1) = (skip + e) + 1 := by omega
  rw [this, take_succ_of_getD kv.1 (skip + e) (by omega), hp kv hkv.1, hkv.2]

theorem run_block (skip : Nat) :
    ∀ (fuel e : Nat) (B : List (Key × VH)) (prev next : Option Key) (σ : Stack Node) (p : List Bool),
      B ≠ [] →
      Canon fuel (skip + e) B →
      (∀ kv ∈ B, kv.1.length = skip + e + fuel) →
      (∀ kv ∈ B, kv.1.take (skip + e) = p) →
      (∀ a, prev = some a → ∀ kv ∈ B, sharedRel skip a kv.1 < e) →
      (∀ c, next = some c → ∀ kv ∈ B, sharedRel skip c kv.1 < e) →
      (∀ k v, B = [(k, v)] → leafDepth skip prev k next = e) →
      (∀ x ∈ σ, x.2 ≤ e) →
      run H skip prev B next σ = blockResult H skip e fuel B next σ := by
  intro fuel
  induction fuel with
  | zero =>
    intro e B prev next σ p hne hcan hlen hp hprev hnext hsing hσ
    match B, hne, hcan with
    | [(k, v)], _, _ =>
      have hd := hsing k v rfl
      simp only [run, blockResult, stepKey_eq, hd, nodeAt_single]
  | succ fuel ih =>
    intro e B prev next σ p hne hcan hlen hp hprev hnext hsing hσ
    match B, hne, hcan with
    | [(k, v)], _, _ =>
      have hd := hsing k v rfl
      simp only [run, blockResult, stepKey_eq, hd, nodeAt_single]
    | a :: b :: rest, _, hcan =>
      -- abbreviations
      obtain ⟨hB, c0, c1⟩ := hcan
      generalize hBdef : (a :: b :: rest) = B at *
      have hBne : B ≠ [] := by rw [← hBdef]; simp
      have hB2 : ∀ k v, B ≠ [(k, v)] := by intro k v h; rw [← hBdef] at h; simp at h
      have hlen' : ∀ kv ∈ B, skip + e < kv.1.length := by
        intro kv hkv; have := hlen kv hkv; omega
      -- the representative key
      obtain ⟨ka, va⟩ := a
      have hka : (ka, va) ∈ B := by rw [← hBdef]; simp
      -- target layer is below e
      have ht : tgt skip next ka ≤ e := by
        cases next with
        | none => simp [tgt]
        | some c => have := hnext c rfl (ka, va) hka; simp only at this; simp only [tgt]; omega
      have hgoal : blockResult H skip e (fuel+1) B next σ =
          (let r := hashUp H ka skip (e - tgt skip next ka) e (nodeAt H (fuel+1) (skip+e) B) σ
           (r.1, r.2.1) :: r.2.2) := by
        rw [← hBdef]; rfl
      have hnode : nodeAt H (fuel+1) (skip+e) B =
          H.internal (nodeAt H fuel (skip+e+1) (side (skip+e) false B))
                     (nodeAt H fuel (skip+e+1) (side (skip+e) true B)) := by
        rw [← hBdef]; exact nodeAt_two H fuel (skip+e) _ _ _
      -- case analysis on the two sides
      cases h1 : side (skip+e) true B with
      | nil =>
        -- everything on the false side
        have h0 : side (skip+e) false B = B := by rw [h1] at hB; simpa using hB.symm
        rw [hgoal, hnode, h1, h0]
        rw [h0] at c0
        have hbit : ka.getD (skip+e) false = false := by
          have : (ka, va) ∈ side (skip+e) false B := by rw [h0]; exact hka
          exact (mem_side.mp this).2
        have hrec := ih (e+1) B prev next σ (p ++ [false]) hBne c0
          (by intro kv hkv; have := hlen kv hkv; omega)
          (by intro kv hkv
              have : kv ∈ side (skip+e) false B := by rw [h0]; exact hkv
              exact side_take skip e false B p fuel hlen hp kv this)
          (by intro x hx kv hkv; have := hprev x hx kv hkv; omega)
          (by intro x hx kv hkv; have := hnext x hx kv hkv; omega)
          (by intro k v h; exact absurd h (hB2 k v))
          (by intro x hx; have := hσ x hx; omega)
        rw [hrec]
        have hbr : blockResult H skip (e+1) fuel B next σ =
            (let r := hashUp H ka skip (e + 1 - tgt skip next ka) (e+1) (nodeAt H fuel (skip+(e+1)) B) σ
             (r.1, r.2.1) :: r.2.2) := by
          rw [← hBdef]; rfl
        rw [hbr]
        have harith : e + 1 - tgt skip next ka = (e - tgt skip next ka) + 1 := by omega
        rw [harith, hashUp_peel_term H ka skip _ e _ σ hσ, hbit, nodeAt_nil]
        rfl
      | cons f1 tail1 =>
        cases h0 : side (skip+e) false B with
        | nil =>
          -- everything on the true side
          have h1' : side (skip+e) true B = B := by rw [h0] at hB; simpa using hB.symm
          rw [hgoal, hnode, h0, h1']
          rw [h1'] at c1
          have hbit : ka.getD (skip+e) false = true := by
            have : (ka, va) ∈ side (skip+e) true B := by rw [h1']; exact hka
            exact (mem_side.mp this).2
          have hrec := ih (e+1) B prev next σ (p ++ [true]) hBne c1
            (by intro kv hkv; have := hlen kv hkv; omega)
            (by intro kv hkv
                have : kv ∈ side (skip+e) true B := by rw [h1']; exact hkv
                exact side_take skip e true B p fuel hlen hp kv this)
            (by intro x hx kv hkv; have := hprev x hx kv hkv; omega)
            (by intro x hx kv hkv; have := hnext x hx kv hkv; omega)
            (by intro k v h; exact absurd h (hB2 k v))
            (by intro x hx; have := hσ x hx; omega)
          rw [hrec]
          have hbr : blockResult H skip (e+1) fuel B next σ =
              (let r := hashUp H ka skip (e + 1 - tgt skip next ka) (e+1) (nodeAt H fuel (skip+(e+1)) B) σ
               (r.1, r.2.1) :: r.2.2) := by
            rw [← hBdef]; rfl
          rw [hbr]
          have harith : e + 1 - tgt skip next ka = (e - tgt skip next ka) + 1 := by omega
          rw [harith, hashUp_peel_term H ka skip _ e _ σ hσ, hbit, nodeAt_nil]
          rfl
        | cons f0 tail0 =>
          -- both sides non-empty
          rw [hgoal, hnode, h0, h1]
          rw [h0] at c0
          rw [h1] at c1
          obtain ⟨k0, v0⟩ := f0
          obtain ⟨k1, v1⟩ := f1
          have mem0 : ∀ kv ∈ (k0, v0) :: tail0, kv ∈ B ∧ kv.1.getD (skip+e) false = false := by
            intro kv hkv; rw [← h0] at hkv; exact mem_side.mp hkv
          have mem1 : ∀ kv ∈ (k1, v1) :: tail1, kv ∈ B ∧ kv.1.getD (skip+e) false = true := by
            intro kv hkv; rw [← h1] at hkv; exact mem_side.mp hkv
          have hcross : ∀ kv0 ∈ (k0, v0) :: tail0, ∀ kv1 ∈ (k1, v1) :: tail1,
              sharedRel skip kv1.1 kv0.1 = e := by
            intro kv0 h0' kv1 h1'
            have m0 := mem0 kv0 h0'
            have m1 := mem1 kv1 h1'
            apply sharedRel_split skip e kv1.1 kv0.1
            · rw [hp kv1 m1.1, hp kv0 m0.1]
            · exact hlen' kv1 m1.1
            · exact hlen' kv0 m0.1
            · rw [m0.2, m1.2]; simp
          -- split the false side into init ++ [last]
          obtain ⟨init0, l0, hinit⟩ : ∃ init l, (k0, v0) :: tail0 = init ++ [l] :=
            ⟨((k0, v0) :: tail0).dropLast, ((k0, v0) :: tail0).getLast (by simp),
              (List.dropLast_concat_getLast (by simp)).symm⟩
          have hl0 : l0 ∈ (k0, v0) :: tail0 := by rw [hinit]; simp
          have hBeq : B = init0 ++ l0 :: ((k1, v1) :: tail1) := by
            calc B = side (skip+e) false B ++ side (skip+e) true B := hB
              _ = init0 ++ l0 :: ((k1, v1) :: tail1) := by rw [h0, h1, hinit]; simp
          have hrun : run H skip prev B next σ =
              run H skip (some l0.1) ((k1, v1) :: tail1) next
                (run H skip prev ((k0, v0) :: tail0) (some k1) σ) := by
            conv => lhs; rw [hBeq]
            rw [run_append, ← hinit]
          rw [hrun]
          -- left block
          have hrec0 := ih (e+1) ((k0, v0) :: tail0) prev (some k1) σ (p ++ [false]) (by simp) c0
            (by intro kv hkv; have := hlen kv (mem0 kv hkv).1; omega)
            (by intro kv hkv
                exact side_take skip e false B p fuel hlen hp kv (by rw [h0]; exact hkv))
            (by intro x hx kv hkv; have := hprev x hx kv (mem0 kv hkv).1; omega)
            (by intro c hc kv hkv
                injection hc with hc; subst hc
                have := hcross kv hkv (k1, v1) (by simp)
                simp only at this; omega)
            (by intro k v hkv
                have hmem : (k, v) ∈ (k0, v0) :: tail0 := by rw [hkv]; simp
                have hx := hcross (k, v) hmem (k1, v1) (by simp)
                simp only at hx
                cases prev with
                | none => simp [leafDepth, hx]
                | some a =>
                  have := hprev a rfl (k, v) (mem0 _ hmem).1
                  simp only at this
                  simp only [leafDepth, Option.map_some, hx]
                  omega)
            (by intro x hx; have := hσ x hx; omega)
          have ht0 : tgt skip (some k1) k0 = e + 1 := by
            have := hcross (k0, v0) (by simp) (k1, v1) (by simp)
            simp only at this
            simp [tgt, this]
          have hres0 : run H skip prev ((k0, v0) :: tail0) (some k1) σ =
              (nodeAt H fuel (skip + (e+1)) ((k0, v0) :: tail0), e+1) :: σ := by
            rw [hrec0]
            simp [blockResult, ht0, hashUp]
          rw [hres0]
          -- right block
          have hrec1 := ih (e+1) ((k1, v1) :: tail1) (some l0.1) next
            ((nodeAt H fuel (skip + (e+1)) ((k0, v0) :: tail0), e+1) :: σ) (p ++ [true]) (by simp) c1
            (by intro kv hkv; have := hlen kv (mem1 kv hkv).1; omega)
            (by intro kv hkv
                exact side_take skip e true B p fuel hlen hp kv (by rw [h1]; exact hkv))
            (by intro a ha kv hkv
                injection ha with ha; subst ha
                have h := hcross l0 hl0 kv hkv
                rw [sharedRel_comm] at h
                omega)
            (by intro x hx kv hkv; have := hnext x hx kv (mem1 kv hkv).1; omega)
            (by intro k v hkv
                have hmem : (k, v) ∈ (k1, v1) :: tail1 := by rw [hkv]; simp
                have hx := hcross l0 hl0 (k, v) hmem
                rw [sharedRel_comm] at hx
                simp only at hx
                cases next with
                | none => simp [leafDepth, hx]
                | some c =>
                  have := hnext c rfl (k, v) (mem1 _ hmem).1
                  simp only at this
                  simp only [leafDepth, Option.map_some, hx]
                  omega)
            (by intro x hx
                simp only [List.mem_cons] at hx
                rcases hx with hx | hx
                · subst hx; simp
                · have := hσ x hx; omega)
          rw [hrec1]
          -- peel the top step and transfer to the representative key
          have hk1B : (k1, v1) ∈ B := (mem1 (k1, v1) (by simp)).1
          have hbit1 : k1.getD (skip+e) false = true := (mem1 (k1, v1) (by simp)).2
          have htk : tgt skip next k1 = tgt skip next ka := by
            cases next with
            | none => rfl
            | some c =>
              have hlt := hnext c rfl (ka, va) hka
              simp only at hlt
              have := sharedRel_block skip e c ka k1
                (by rw [hp (ka, va) hka, hp (k1, v1) hk1B]) hlt
              simp [tgt, this]
          have harith : e + 1 - tgt skip next k1 = (e - tgt skip next ka) + 1 := by
            rw [htk]; omega
          have hcongr : ∀ (N : Node),
              hashUp H k1 skip (e - tgt skip next ka) e N σ = hashUp H ka skip (e - tgt skip next ka) e N σ := by
            intro N
            apply hashUp_congr
            · omega
            · intro i _ hi
              apply getD_eq_of_take (skip + e) (skip + i)
              · rw [hp (k1, v1) hk1B, hp (ka, va) hka]
              · omega
          simp only [blockResult]
          rw [harith, hashUp_peel_pop, hbit1, hcongr]
          rfl
end Nomt
