import NomtModel.Core.MultiAlign
/-!
Totality of the (repaired) multi-proof verifier mirror: `verifyRange` / `verifyMulti` never reach one of
their explicit panic sites — the slices and the subtraction behind the new guards, the `unwrap_err`, and
the fuel bound of the Lean recursion — for any proof object whatsoever.
-/
set_option linter.unusedSectionVars false
namespace Nomt
variable {Node VH : Type} [DecidableEq Node] [DecidableEq VH] (H : Hasher Node VH)

section generic
variable {ε α β : Type}

theorem Outcome.bind_no_panic {x : Outcome ε α} {f : α → Outcome ε β} (hx : x.isPanic = false)
    (hf : ∀ a, x = .ok a → (f a).isPanic = false) : (x >>= f).isPanic = false := by
  cases x with
  | ok a => exact hf a rfl
  | err e => rfl
  | panic s => cases hx

theorem failIf_no_panic (c : Bool) (e : ε) : (failIf c e).isPanic = false := by
  cases c <;> rfl

theorem failIf_ok {c : Bool} {e : ε} {u : Unit} (h : failIf c e = .ok u) : c = false := by
  cases c
  · rfl
  · cases h

theorem sliceFrom_no_panic {site : String} {l : List α} {a : Nat} (h : a ≤ l.length) :
    (sliceFrom site l a : Outcome ε _).isPanic = false := by
  simp [sliceFrom, h, Outcome.isPanic]

end generic

/-- a successful range used no more siblings than it was given -/
theorem verifyRange_used_le :
    ∀ (fuel : Nat) (pos : List Bool) (sd : Nat) (paths : List (MultiPathProof VH)) (sibs : List Node)
      (off : Nat) (r : RangeOut Node VH),
      verifyRange H fuel pos sd paths sibs off = .ok r → r.used ≤ sibs.length := by
  intro fuel
  induction fuel with
  | zero => intro pos sd paths sibs off r h; simp [verifyRange] at h
  | succ fuel ih =>
    intro pos sd paths sibs off r h
    unfold verifyRange at h
    match paths, h with
    | [], h =>
      simp only at h
      injection h with h; subst h; simp
    | [tp], h =>
      simp only at h
      obtain ⟨_, hg1, h⟩ := Outcome.bind_eq_ok h
      obtain ⟨ul, h1, h⟩ := Outcome.bind_eq_ok h
      obtain ⟨_, hg2, h⟩ := Outcome.bind_eq_ok h
      obtain ⟨seg, h2, h⟩ := Outcome.bind_eq_ok h
      obtain ⟨us, h3, h⟩ := Outcome.bind_eq_ok h
      simp only [Outcome.pure_eq] at h
      injection h with h; subst h
      exact (sliceUpTo_ok h3).1
    | first :: p2 :: rest, h =>
      simp only at h
      obtain ⟨_, hg1, h⟩ := Outcome.bind_eq_ok h
      obtain ⟨a, h1, h⟩ := Outcome.bind_eq_ok h
      obtain ⟨b, h2, h⟩ := Outcome.bind_eq_ok h
      obtain ⟨_, hg2, h⟩ := Outcome.bind_eq_ok h
      obtain ⟨_, hg3, h⟩ := Outcome.bind_eq_ok h
      obtain ⟨sr, h3, h⟩ := Outcome.bind_eq_ok h
      obtain ⟨idx, h4, h⟩ := Outcome.bind_eq_ok h
      obtain ⟨ls, h5, h⟩ := Outcome.bind_eq_ok h
      obtain ⟨l, h6, h⟩ := Outcome.bind_eq_ok h
      obtain ⟨rs, h7, h⟩ := Outcome.bind_eq_ok h
      obtain ⟨rr, h8, h⟩ := Outcome.bind_eq_ok h
      simp only [Outcome.pure_eq] at h
      injection h with h; subst h
      obtain ⟨hle7, hrs⟩ := sliceFrom_ok h7
      have := ih _ _ _ _ _ _ h8
      rw [hrs, List.length_drop] at this
      simp only
      omega

theorem bisectCmp_ne_eq (i : Nat) (x : MultiPathProof VH) : bisectCmp i x ≠ .ok .eq := by
  unfold bisectCmp
  split
  · simp
  · rename_i b _
    cases b <;> simp

/-- **`verify_range` is total** (`M` bounds the terminal path lengths; the Lean fuel suffices) -/
theorem verifyRange_no_panic :
    ∀ (fuel : Nat) (pos : List Bool) (sd : Nat) (paths : List (MultiPathProof VH)) (sibs : List Node)
      (off M : Nat), (∀ p ∈ paths, p.terminal.path.length ≤ M) → sd ≤ M → M + 2 ≤ fuel + sd →
      (verifyRange H fuel pos sd paths sibs off).isPanic = false := by
  intro fuel
  induction fuel with
  | zero => intro pos sd paths sibs off M _ h1 h2; omega
  | succ fuel ih =>
    intro pos sd paths sibs off M hM hsd hfuel
    unfold verifyRange
    match paths, hM with
    | [], _ => rfl
    | [tp], _ =>
      simp only
      apply Outcome.bind_no_panic (failIf_no_panic _ _)
      intro _ hg1
      have hg1 := failIf_ok hg1
      simp only [Bool.or_eq_false_iff, decide_eq_false_iff_not, Nat.not_lt] at hg1
      apply Outcome.bind_no_panic (by simp [checkedSub, hg1.1, Outcome.isPanic])
      intro ul hul
      obtain ⟨_, hul⟩ := checkedSub_ok hul
      apply Outcome.bind_no_panic (failIf_no_panic _ _)
      intro _ hg2
      have hg2 := failIf_ok hg2
      simp only [decide_eq_false_iff_not, Nat.not_lt] at hg2
      have hs1 : sd ≤ sd + ul ∧ sd + ul ≤ tp.terminal.path.length := by omega
      apply Outcome.bind_no_panic (by simp [sliceFromTo, hs1, Outcome.isPanic])
      intro seg _
      apply Outcome.bind_no_panic (by simp [sliceUpTo, hg2, Outcome.isPanic])
      intro us _
      rfl
    | first :: p2 :: rest, hM =>
      simp only
      apply Outcome.bind_no_panic (failIf_no_panic _ _)
      intro _ hg1
      have hg1 := failIf_ok hg1
      simp only [Bool.or_eq_false_iff, decide_eq_false_iff_not, Nat.not_lt] at hg1
      apply Outcome.bind_no_panic (sliceFrom_no_panic hg1.1)
      intro a _
      apply Outcome.bind_no_panic (sliceFrom_no_panic hg1.2)
      intro b _
      apply Outcome.bind_no_panic (failIf_no_panic _ _)
      intro _ hg2
      have hg2 := failIf_ok hg2
      apply Outcome.bind_no_panic (failIf_no_panic _ _)
      intro _ hg3
      have hg3 := failIf_ok hg3
      simp only [decide_eq_false_iff_not, Nat.not_lt] at hg3
      have hlen : ∀ p ∈ first :: p2 :: rest, sd + shared a b < p.terminal.path.length := by
        intro p hp
        have := List.any_eq_false.1 hg2 p hp
        simpa using this
      have hcl1 : sd + shared a b + 1 - 1 = sd + shared a b := by omega
      have hcmp : ∀ x ∈ first :: p2 :: rest, ∃ c, bisectCmp (sd + shared a b + 1 - 1) x = .ok c := by
        intro x hx
        rw [hcl1]
        have hx' := hlen x hx
        unfold bisectCmp
        rw [List.getElem?_eq_getElem hx']
        exact ⟨_, rfl⟩
      apply Outcome.bind_no_panic (binarySearchBy_no_panic _ _ hcmp)
      intro sr hsr
      have hidx : ∃ i, sr = .notFound i := by
        cases sr with
        | notFound i => exact ⟨i, rfl⟩
        | found i =>
          obtain ⟨x, _, hx⟩ := binarySearchBy_found _ _ _ hsr
          exact absurd hx (bisectCmp_ne_eq _ x)
      obtain ⟨idx, rfl⟩ := hidx
      simp only [Outcome.pure_eq, Outcome.ok_bind]
      apply Outcome.bind_no_panic (sliceFrom_no_panic hg3)
      intro ls hls
      obtain ⟨_, hls⟩ := sliceFrom_ok hls
      have hsd' : sd + shared a b + 1 ≤ M := by
        have h1 := hlen first (by simp)
        have h2 := hM first (by simp)
        omega
      have hsub : ∀ (q : List (MultiPathProof VH)), (∀ p ∈ q, p ∈ first :: p2 :: rest) →
          ∀ p ∈ q, p.terminal.path.length ≤ M := fun q hq p hp => hM p (hq p hp)
      apply Outcome.bind_no_panic
        (ih _ _ _ _ _ M (hsub _ (fun p hp => List.mem_of_mem_take hp)) hsd' (by omega))
      intro l hl
      have hlu := verifyRange_used_le H _ _ _ _ _ _ l hl
      rw [hls, List.length_drop] at hlu
      apply Outcome.bind_no_panic (sliceFrom_no_panic (by omega))
      intro rs _
      apply Outcome.bind_no_panic
        (ih _ _ _ _ _ M (hsub _ (fun p hp => List.mem_of_mem_drop hp)) hsd' (by omega))
      intro r _
      rfl

theorem le_maxPathLen : ∀ (paths : List (MultiPathProof VH)) (p : MultiPathProof VH), p ∈ paths →
    p.terminal.path.length ≤ maxPathLen paths
  | [], _, h => by simp at h
  | q :: qs, p, h => by
    simp only [maxPathLen]
    rcases List.mem_cons.1 h with h | h
    · subst h; exact Nat.le_max_left _ _
    · exact Nat.le_trans (le_maxPathLen qs p h) (Nat.le_max_right _ _)

/-- **`verify` (multi-proof) is total**: every proof object and every root get a verdict -/
theorem verifyMulti_no_panic (mp : MultiProof Node VH) (root : Node) :
    (verifyMulti H mp root).isPanic = false := by
  have h := verifyRange_no_panic H (verifyFuel mp.paths) [] 0 mp.paths mp.siblings 0 (maxPathLen mp.paths)
    (le_maxPathLen mp.paths) (Nat.zero_le _) (by simp [verifyFuel])
  unfold verifyMulti
  split
  · rfl
  · revert h
    cases verifyRange H (verifyFuel mp.paths) [] 0 mp.paths mp.siblings 0 with
    | ok r =>
      intro _
      simp only
      split
      · rfl
      · split <;> rfl
    | err e => intro _; rfl
    | panic s => intro h; cases h

/-- lookups on an accepted multi-proof never reach a panic site -/
theorem multi_lookups_total (mp : MultiProof Node VH) (root : Node) (v : VerifiedMulti Node VH)
    (hv : verifyMulti H mp root = .ok v) (key : Key) (hk : ∀ vp ∈ v.inner, vp.depth ≤ key.length) (vh : VH) :
    (findIndexFor v key).isPanic = false ∧ (confirmValue v key vh).isPanic = false ∧
    (confirmNonexistence v key).isPanic = false := by
  have hfi := findIndexFor_no_panic H mp root v hv key hk
  refine ⟨hfi, ?_, ?_⟩
  · cases h : findIndexFor v key with
    | ok i =>
      obtain ⟨vp, hget, _⟩ := findIndexFor_ok v key i h
      simp [confirmValue, h, confirmValueInner, getIdx_some _ _ _ _ hget, Outcome.isPanic]
    | err e => simp [confirmValue, h, Outcome.isPanic]
    | panic s => rw [h] at hfi; simp [Outcome.isPanic] at hfi
  · cases h : findIndexFor v key with
    | ok i =>
      obtain ⟨vp, hget, _⟩ := findIndexFor_ok v key i h
      simp [confirmNonexistence, h, confirmNonexistenceInner, getIdx_some _ _ _ _ hget, Outcome.isPanic]
    | err e => simp [confirmNonexistence, h, Outcome.isPanic]
    | panic s => rw [h] at hfi; simp [Outcome.isPanic] at hfi

end Nomt
