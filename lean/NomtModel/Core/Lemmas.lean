import NomtModel.Core.Build
namespace Nomt
variable {Node VH : Type} (H : Hasher Node VH)

/-! ### shared-bit lemmas -/

theorem shared_eq_of_take (n : Nat) : ∀ (a b : List Bool),
    a.take n = b.take n → n < a.length → n < b.length → a.getD n false ≠ b.getD n false →
    shared a b = n := by
  induction n with
  | zero =>
    intro a b _ ha hb hne
    match a, b, ha, hb with
    | x :: xs, y :: ys, _, _ =>
      simp [List.getD] at hne
      simp [shared, hne]
  | succ n ih =>
    intro a b ht ha hb hne
    match a, b, ha, hb with
    | x :: xs, y :: ys, ha, hb =>
      simp only [List.take_succ_cons, List.cons.injEq] at ht
      obtain ⟨hxy, ht⟩ := ht
      subst hxy
      have : shared xs ys = n := by
        apply ih xs ys ht
        · simpa using ha
        · simpa using hb
        · simpa [List.getD] using hne
      simp [shared, this]

theorem shared_congr : ∀ (n : Nat) (a b b' : List Bool),
    shared a b < n → b.take n = b'.take n → shared a b' = shared a b := by
  intro n
  induction n with
  | zero => intro a b b' h; omega
  | succ n ih =>
    intro a b b' h ht
    match a, b, b' with
    | [], _, _ => simp [shared]
    | x :: xs, [], [] => simp [shared]
    | x :: xs, [], y :: ys => simp at ht
    | x :: xs, y :: ys, [] => simp at ht
    | x :: xs, y :: ys, y' :: ys' =>
      simp only [List.take_succ_cons, List.cons.injEq] at ht
      obtain ⟨hy, ht⟩ := ht
      subst hy
      by_cases hxy : x = y
      · subst hxy
        simp only [shared, beq_self_eq_true, if_true] at h ⊢
        have := ih xs ys ys' (by omega) ht
        omega
      · simp [shared, hxy]

theorem shared_comm : ∀ (a b : List Bool), shared a b = shared b a
  | [], [] => rfl
  | [], _ :: _ => rfl
  | _ :: _, [] => rfl
  | x :: xs, y :: ys => by
      by_cases h : x = y
      · subst h; simp [shared, shared_comm xs ys]
      · have h' : ¬ y = x := fun e => h e.symm
        simp [shared, h, h']

theorem sharedRel_comm (skip : Nat) (a b : Key) : sharedRel skip a b = sharedRel skip b a :=
  shared_comm _ _

end Nomt
