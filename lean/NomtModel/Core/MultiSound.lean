import NomtModel.Core.MultiProof
import NomtModel.Core.PathSound
/-!
Helper lemmas about the multi-proof mirrors (`MultiProof.lean`): what a successful `verifyRange` /
`verifyMulti` / `findIndexFor` means.  Property theorems are in `Props/C07.lean`.
-/
set_option linter.unusedSectionVars false
namespace Nomt
variable {Node VH : Type} [DecidableEq Node] [DecidableEq VH] (H : Hasher Node VH)

/-! ### small facts -/

theorem shared_le_left : ∀ (a b : List Bool), shared a b ≤ a.length
  | [], _ => by simp [shared]
  | _ :: _, [] => by simp [shared]
  | x :: xs, y :: ys => by
    simp only [shared]
    split
    · have := shared_le_left xs ys; simp; omega
    · simp

theorem restrict_append_gen : ∀ (p q : List Bool) (d : Nat) (S : List (Key × VH)),
    restrict d (p ++ q) S = restrict (d + p.length) q (restrict d p S) := by
  intro p
  induction p with
  | nil => intro q d S; simp [restrict]
  | cons x xs ih =>
    intro q d S
    simp only [List.cons_append, restrict, List.length_cons]
    rw [ih q (d+1) (side d x S)]
    have : d + 1 + xs.length = d + (xs.length + 1) := by omega
    rw [this]


/-- neither smaller nor larger: equal -/
theorem bitsLt_antisymm_eq : ∀ (a b : List Bool), bitsLt a b = false → bitsLt b a = false → a = b
  | [], [], _, _ => rfl
  | [], _ :: _, h, _ => by simp [bitsLt] at h
  | _ :: _, [], _, h => by simp [bitsLt] at h
  | x :: xs, y :: ys, h1, h2 => by
    simp only [bitsLt] at h1 h2
    by_cases hxy : x = y
    · subst hxy
      simp only [beq_self_eq_true, if_true] at h1 h2
      rw [bitsLt_antisymm_eq xs ys h1 h2]
    · have h1' : (x == y) = false := by simpa using hxy
      have h2' : (y == x) = false := by simpa using (fun h : y = x => hxy h.symm)
      rw [h1'] at h1; rw [h2'] at h2
      cases x <;> cases y <;> simp_all

theorem bitsCmp_eq_iff (a b : List Bool) : bitsCmp a b = .eq ↔ a = b := by
  constructor
  · intro h
    unfold bitsCmp at h
    split at h
    · cases h
    · split at h
      · cases h
      · rename_i h1 h2
        exact bitsLt_antisymm_eq a b (by simpa using h1) (by simpa using h2)
  · intro h; subst h; simp [bitsCmp, bitsLt_irrefl]

/-! ### `binary_search_by`: an `Ok(i)` answer was compared `Equal` -/

theorem binarySearchBy_found {ε α : Type} (f : α → Outcome ε Ordering) (l : List α) (i : Nat)
    (h : binarySearchBy f l = .ok (.found i)) : ∃ x, l[i]? = some x ∧ f x = .ok .eq := by
  unfold binarySearchBy at h
  split at h
  · cases h
  · split at h
    · rename_i base hb
      split at h
      · cases h
      · rename_i x hx
        split at h
        · rename_i hf
          injection h with h; injection h with h; subst h
          exact ⟨x, hx, hf⟩
        all_goals cases h
    all_goals cases h

/-! ### `find_index_for` -/

/-- the first `depth` bits of the terminal path are the first `depth` bits of the key -/
def VPath.covers (vp : VPath VH) (key : Key) : Prop :=
  vp.depth ≤ vp.terminal.path.length ∧ vp.depth ≤ key.length ∧
    vp.terminal.path.take vp.depth = key.take vp.depth

theorem pathCmp_eq (key : Key) (vp : VPath VH) (h : pathCmp key vp = .ok .eq) : vp.covers key := by
  unfold pathCmp sliceUpTo at h
  by_cases h1 : vp.depth ≤ vp.terminal.path.length
  · by_cases h2 : vp.depth ≤ key.length
    · simp only [h1, h2, if_true, Outcome.ok_bind, Outcome.pure_eq] at h
      injection h with h
      exact ⟨h1, h2, (bitsCmp_eq_iff _ _).1 h⟩
    · simp [h1, h2] at h
  · simp [h1] at h

theorem findIndexFor_ok (v : VerifiedMulti Node VH) (key : Key) (i : Nat) (h : findIndexFor v key = .ok i) :
    ∃ vp, v.inner[i]? = some vp ∧ vp.covers key := by
  unfold findIndexFor at h
  split at h
  · rename_i j hj
    injection h with h; subst h
    obtain ⟨x, hx, hf⟩ := binarySearchBy_found _ _ _ hj
    exact ⟨x, hx, pathCmp_eq key x hf⟩
  all_goals cases h

/-! ### route soundness of `verify_range` -/

/-- the terminal is the whole content of the set `X` -/
def TermOK (t : Terminal VH) (X : List (Key × VH)) : Prop :=
  match t with
  | .leaf k v => X = [(k, v)]
  | .terminator _ => X = []

theorem sliceFromTo_ok {ε α : Type} {site : String} {l : List α} {a b : Nat} {r : List α}
    (h : (sliceFromTo site l a b : Outcome ε _) = .ok r) : a ≤ b ∧ b ≤ l.length ∧ r = (l.drop a).take (b - a) := by
  unfold sliceFromTo at h
  split at h
  · rename_i hc; injection h with h; exact ⟨hc.1, hc.2, h.symm⟩
  · cases h

theorem sliceFrom_ok {ε α : Type} {site : String} {l : List α} {a : Nat} {r : List α}
    (h : (sliceFrom site l a : Outcome ε _) = .ok r) : a ≤ l.length ∧ r = l.drop a := by
  unfold sliceFrom at h
  split at h
  · rename_i hc; injection h with h; exact ⟨hc, h.symm⟩
  · cases h

theorem sliceUpTo_ok {ε α : Type} {site : String} {l : List α} {b : Nat} {r : List α}
    (h : (sliceUpTo site l b : Outcome ε _) = .ok r) : b ≤ l.length ∧ r = l.take b := by
  unfold sliceUpTo at h
  split at h
  · rename_i hc; injection h with h; exact ⟨hc, h.symm⟩
  · cases h

theorem checkedSub_ok {ε : Type} {site : String} {a b r : Nat}
    (h : (checkedSub site a b : Outcome ε _) = .ok r) : b ≤ a ∧ r = a - b := by
  unfold checkedSub at h
  split at h
  · rename_i hc; injection h with h; exact ⟨hc, h.symm⟩
  · cases h

/-- what the hash of a terminal tells about the set below it -/
theorem termOK_of_node (hs : H.Sound) (f d : Nat) (X : List (Key × VH)) (hc : Canon f d X)
    (t : Terminal VH) (h : nodeAt H f d X = t.node H) : TermOK t X := by
  cases t with
  | leaf k v => exact nodeAt_eq_leaf H hs f d X hc k v h
  | terminator p => exact nodeAt_eq_term H hs f d X hc h

/-- **route soundness**: if a range verifies to the specified node of a canonical set `X` (at any depth
`d`), every verified path's terminal is the whole content of `X` restricted along the path's route
(relative to the range's position `pos`). -/
theorem verifyRange_sound (hs : H.Sound) :
    ∀ (fuel : Nat) (pos : List Bool) (sd : Nat) (paths : List (MultiPathProof VH)) (sibs : List Node)
      (off : Nat) (r : RangeOut Node VH),
      verifyRange H fuel pos sd paths sibs off = .ok r →
      ∀ (f d : Nat) (X : List (Key × VH)), Canon f d X → r.node = nodeAt H f d X →
        ∀ vp ∈ r.paths, ∃ q, vp.route = pos ++ q ∧ q.length ≤ f ∧ TermOK vp.terminal (restrict d q X) := by
  intro fuel
  induction fuel with
  | zero => intro pos sd paths sibs off r h; simp [verifyRange] at h
  | succ fuel ih =>
    intro pos sd paths sibs off r h f d X hc hnode vp hvp
    unfold verifyRange at h
    match paths, h with
    | [], h =>
      simp only at h
      injection h with h; subst h
      simp only [List.mem_singleton] at hvp
      subst hvp
      refine ⟨[], by simp, by simp, ?_⟩
      simp only [restrict, TermOK]
      exact nodeAt_eq_term H hs f d X hc hnode.symm
    | [tp], h =>
      simp only at h
      obtain ⟨_, hg1, h⟩ := Outcome.bind_eq_ok h
      obtain ⟨ul, h1, h⟩ := Outcome.bind_eq_ok h
      obtain ⟨_, hg2, h⟩ := Outcome.bind_eq_ok h
      obtain ⟨seg, h2, h⟩ := Outcome.bind_eq_ok h
      obtain ⟨us, h3, h⟩ := Outcome.bind_eq_ok h
      simp only [Outcome.pure_eq] at h
      injection h with h; subst h
      simp only [List.mem_singleton] at hvp
      subst hvp
      obtain ⟨hle, hul⟩ := checkedSub_ok h1
      obtain ⟨_, hb, hseg⟩ := sliceFromTo_ok h2
      obtain ⟨hus, huse⟩ := sliceUpTo_ok h3
      have hseglen : seg.length = ul := by
        subst hseg; simp; omega
      have huslen : us.length = ul := by
        subst huse; simp; omega
      simp only at hnode
      obtain ⟨hlen, hn⟩ := hashPath_sound H hs (tp.terminal.node H) seg us f d X (by omega) hnode
      refine ⟨seg, rfl, hlen, ?_⟩
      have hcr := Canon_restrict seg (f - seg.length) d X (by
        have : f - seg.length + seg.length = f := by omega
        rw [this]; exact hc)
      exact termOK_of_node H hs _ _ _ hcr tp.terminal hn
    | first :: p2 :: rest, h =>
      simp only at h
      obtain ⟨_, hg1, h⟩ := Outcome.bind_eq_ok h
      obtain ⟨a, h1, h⟩ := Outcome.bind_eq_ok h
      obtain ⟨b, h2, h⟩ := Outcome.bind_eq_ok h
      obtain ⟨_, hg2, h⟩ := Outcome.bind_eq_ok h
      obtain ⟨_, hg3, h⟩ := Outcome.bind_eq_ok h
      obtain ⟨sr, h3, h⟩ := Outcome.bind_eq_ok h
      obtain ⟨idx, h4, h⟩ := Outcome.bind_eq_ok h
      obtain ⟨ls, h5, h⟩ := Outcome.bind_eq_ok h
      obtain ⟨l, h6, h⟩ := Outcome.bind_eq_ok h
      obtain ⟨rs, h7, h⟩ := Outcome.bind_eq_ok h
      obtain ⟨rr, h8, h⟩ := Outcome.bind_eq_ok h
      simp only [Outcome.pure_eq] at h
      injection h with h; subst h
      simp only at hnode hvp
      obtain ⟨hcb, _⟩ := sliceFrom_ok h5
      have hseglen : (a.take (shared a b)).length = shared a b := by
        have := shared_le_left a b
        simp; omega
      have hsiblen : (sibs.take (shared a b)).length = shared a b := by
        simp; omega
      obtain ⟨hlen, hn⟩ := hashPath_sound H hs _ (a.take (shared a b)) (sibs.take (shared a b)) f d X
        (by omega) hnode
      rw [hseglen] at hlen hn
      have hcr := Canon_restrict (a.take (shared a b)) (f - shared a b) d X (by
        rw [hseglen]
        have : f - shared a b + shared a b = f := by omega
        rw [this]; exact hc)
      rw [hseglen] at hcr
      obtain ⟨f', hf', hl', hr'⟩ := nodeAt_kind_internal_cases H hs _ _ _ _ _ hn
      rw [hf'] at hcr
      rcases List.mem_append.1 hvp with hin | hin
      · have hcl := Canon_side f' (d + shared a b) _ false hcr
        obtain ⟨q, hq, hql, hqt⟩ := ih _ _ _ _ _ _ h6 f' (d + shared a b + 1) _ hcl hl' vp hin
        refine ⟨a.take (shared a b) ++ [false] ++ q, by simp [hq], by simp; omega, ?_⟩
        rw [restrict_append_gen, restrict_append_gen]
        simp only [List.length_append, hseglen, List.length_singleton, restrict, ← Nat.add_assoc]
        exact hqt
      · have hcl := Canon_side f' (d + shared a b) _ true hcr
        obtain ⟨q, hq, hql, hqt⟩ := ih _ _ _ _ _ _ h8 f' (d + shared a b + 1) _ hcl hr' vp hin
        refine ⟨a.take (shared a b) ++ [true] ++ q, by simp [hq], by simp; omega, ?_⟩
        rw [restrict_append_gen, restrict_append_gen]
        simp only [List.length_append, hseglen, List.length_singleton, restrict, ← Nat.add_assoc]
        exact hqt

/-- unfolding a successful `verifyMulti` -/
theorem verifyMulti_ok (mp : MultiProof Node VH) (root : Node) (v : VerifiedMulti Node VH)
    (h : verifyMulti H mp root = .ok v) :
    pathsAscending mp.paths = true ∧
    ∃ r, verifyRange H (verifyFuel mp.paths) [] 0 mp.paths mp.siblings 0 = .ok r ∧ r.node = root ∧
      r.used = mp.siblings.length ∧ v.inner = r.paths ∧ v.bisections = r.bis ∧
      v.siblings = mp.siblings ∧ v.root = root := by
  unfold verifyMulti at h
  split at h
  · cases h
  · rename_i hasc
    split at h
    · rename_i r hr
      split at h
      · cases h
      · rename_i hroot
        split at h
        · cases h
        · rename_i hused
          injection h with h; subst h
          refine ⟨by simpa using hasc, r, hr, ?_, ?_, rfl, rfl, rfl, rfl⟩
          · exact (Decidable.not_not.1 hroot).symm
          · exact Decidable.not_not.1 hused
    all_goals cases h


/-- every verified path of a multi-proof accepted against the root of `S`: its terminal is the whole
content of `S` along its route -/
theorem verifyMulti_routes (hs : H.Sound) (L : Nat) (S : List (Key × VH)) (hc : Canon L 0 S)
    (mp : MultiProof Node VH) (v : VerifiedMulti Node VH)
    (hv : verifyMulti H mp (nodeAt H L 0 S) = .ok v) :
    ∀ vp ∈ v.inner, vp.route.length ≤ L ∧ TermOK vp.terminal (restrict 0 vp.route S) := by
  obtain ⟨_, r, hr, hnode, _, hinner, _⟩ := verifyMulti_ok H mp _ v hv
  intro vp hvp
  rw [hinner] at hvp
  obtain ⟨q, hq, hql, hqt⟩ := verifyRange_sound H hs _ _ _ _ _ _ r hr L 0 S hc hnode vp hvp
  simp only [List.nil_append] at hq
  rw [hq]; exact ⟨hql, hqt⟩

/-- keys below a prefix of themselves stay in the restriction -/
theorem mem_restrict_take (S : List (Key × VH)) (k : Key) (n : Nat) (x : VH) :
    (k, x) ∈ restrict 0 (k.take n) S ↔ (k, x) ∈ S := by
  rw [mem_restrict]
  constructor
  · exact fun h => h.1
  · intro h
    refine ⟨h, ?_⟩
    intro i hi
    simp only [Nat.zero_add]
    have hi' : i < n := by
      have := List.length_take_le n k
      omega
    exact (getD_take_lt k n i hi').symm

/-- the alignment condition: the path was hashed along the first `depth` bits of its own terminal path -/
def VPath.aligned (vp : VPath VH) : Prop := vp.route = vp.terminal.path.take vp.depth

theorem getIdx_some {ε α : Type} (site : String) (l : List α) (i : Nat) (a : α) (h : l[i]? = some a) :
    (getIdx site l i : Outcome ε α) = .ok a := by
  simp [getIdx, h]

/-- **multi-proof soundness (C08), modulo alignment**: an accepted multi-proof whose verified paths are
aligned only confirms true statements about `S`. -/
theorem multi_confirm_sound (hs : H.Sound) (L : Nat) (S : List (Key × VH)) (hc : Canon L 0 S)
    (mp : MultiProof Node VH) (v : VerifiedMulti Node VH)
    (hv : verifyMulti H mp (nodeAt H L 0 S) = .ok v)
    (hal : ∀ vp ∈ v.inner, vp.aligned) (k : Key) (vh : VH) :
    (confirmValue v k vh = .ok true → (k, vh) ∈ S) ∧
    (confirmValue v k vh = .ok false → (k, vh) ∉ S) ∧
    (confirmNonexistence v k = .ok true → ∀ vh', (k, vh') ∉ S) ∧
    (confirmNonexistence v k = .ok false → ∃ vh', (k, vh') ∈ S) := by
  have hroutes := verifyMulti_routes H hs L S hc mp v hv
  unfold confirmValue confirmNonexistence
  cases hfi : findIndexFor v k with
  | err e => simp
  | panic s => simp
  | ok i =>
    obtain ⟨vp, hget, _, _, hcov⟩ := findIndexFor_ok v k i hfi
    have hmem : vp ∈ v.inner := List.mem_of_getElem? hget
    obtain ⟨_, hterm⟩ := hroutes vp hmem
    rw [hal vp hmem, hcov] at hterm
    simp only [Outcome.ok_bind, confirmValueInner, confirmNonexistenceInner,
      getIdx_some _ _ _ _ hget, Outcome.pure_eq]
    cases ht : vp.terminal with
    | leaf k0 v0 =>
      rw [ht] at hterm
      simp only [TermOK] at hterm
      have hiff : ∀ x, (k, x) ∈ S ↔ (k, x) = (k0, v0) := by
        intro x; rw [← mem_restrict_take S k vp.depth x, hterm]; simp
      simp only [Outcome.ok.injEq, decide_eq_true_eq, decide_eq_false_iff_not]
      refine ⟨?_, ?_, ?_, ?_⟩
      · rintro ⟨rfl, rfl⟩; exact (hiff _).2 rfl
      · intro hne hin
        have := (hiff vh).1 hin
        simp only [Prod.mk.injEq] at this
        exact hne ⟨this.1.symm, this.2.symm⟩
      · intro hne vh' hin
        have := (hiff vh').1 hin
        simp only [Prod.mk.injEq] at this
        exact hne this.1.symm
      · intro heq
        have : k0 = k := Decidable.not_not.1 heq
        subst this
        exact ⟨v0, (hiff v0).2 rfl⟩
    | terminator p =>
      rw [ht] at hterm
      simp only [TermOK] at hterm
      have hnot : ∀ x, (k, x) ∉ S := by
        intro x hin
        rw [← mem_restrict_take S k vp.depth x, hterm] at hin
        simp at hin
      simp only [Outcome.ok.injEq]
      refine ⟨by simp, fun _ => hnot vh, fun _ => hnot, by simp⟩

end Nomt
