import NomtModel.Core.Basic
namespace Nomt
variable {Node VH : Type} (H : Hasher Node VH)

/-- restrict `s` to keys following `path` from depth `d` -/
def restrict : (d : Nat) → (path : List Bool) → List (Key × VH) → List (Key × VH)
  | _, [], s => s
  | d, b :: ps, s => restrict (d+1) ps (side d b s)

theorem nodeAt_kind_internal_cases (hs : H.Sound) (fuel d : Nat) (s : List (Key × VH)) (l r : Node)
    (h : nodeAt H fuel d s = H.internal l r) :
    ∃ f, fuel = f+1 ∧ l = nodeAt H f (d+1) (side d false s) ∧ r = nodeAt H f (d+1) (side d true s) := by
  match fuel, s, h with
  | _, [], h =>
      have := congrArg H.kind h
      simp [nodeAt, hs.kind_term, hs.kind_internal] at this
  | _, [(k,v)], h =>
      have := congrArg H.kind h
      simp [nodeAt, hs.kind_leaf, hs.kind_internal] at this
  | 0, (k,v) :: x :: xs, h =>
      have := congrArg H.kind h
      simp [nodeAt, hs.kind_leaf, hs.kind_internal] at this
  | f+1, a :: x :: xs, h =>
      simp only [nodeAt] at h
      have := hs.internal_inj _ _ _ _ h
      exact ⟨f, rfl, this.1.symm, this.2.symm⟩

theorem hashPath_sound (hs : H.Sound) (n : Node) :
    ∀ (path : List Bool) (sibs : List Node) (fuel d : Nat) (s : List (Key × VH)),
      sibs.length = path.length →
      hashPath H n path sibs = nodeAt H fuel d s →
      path.length ≤ fuel ∧ nodeAt H (fuel - path.length) (d + path.length) (restrict d path s) = n := by
  intro path
  induction path with
  | nil =>
      intro sibs fuel d s hl h
      cases sibs with
      | nil => simp [hashPath] at h; simp [restrict, h]
      | cons _ _ => simp at hl
  | cons b ps ih =>
      intro sibs fuel d s hl h
      cases sibs with
      | nil => simp at hl
      | cons sb ss =>
        simp only [hashPath] at h
        simp only [List.length_cons, Nat.add_right_cancel_iff] at hl
        cases b with
        | true =>
          simp only [if_true] at h
          obtain ⟨f, hf, hl', hr'⟩ := nodeAt_kind_internal_cases H hs fuel d s _ _ h.symm
          subst hf
          have := ih ss f (d+1) (side d true s) hl hr'
          refine ⟨by simp; omega, ?_⟩
          simp only [restrict, List.length_cons]
          have e1 : f + 1 - (ps.length + 1) = f - ps.length := by omega
          have e2 : d + (ps.length + 1) = d + 1 + ps.length := by omega
          rw [e1, e2]; exact this.2
        | false =>
          simp only [Bool.false_eq_true, if_false] at h
          obtain ⟨f, hf, hl', hr'⟩ := nodeAt_kind_internal_cases H hs fuel d s _ _ h.symm
          subst hf
          have := ih ss f (d+1) (side d false s) hl hl'
          refine ⟨by simp; omega, ?_⟩
          simp only [restrict, List.length_cons]
          have e1 : f + 1 - (ps.length + 1) = f - ps.length := by omega
          have e2 : d + (ps.length + 1) = d + 1 + ps.length := by omega
          rw [e1, e2]; exact this.2
end Nomt
