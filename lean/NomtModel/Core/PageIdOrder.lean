import NomtModel.Core.TriePosPage
/-!
# Order of page ids, descendants, key-path ranges and `PageIdsIterator`

* `pidLt` (the derived `Ord` of `PageId`) is a strict total order; an ancestor is smaller than its descendants;
* `q ∈ [p, max_descendant(p)]` iff `q` descends from `p` (what `PageRegion` relies on);
* `min_key_path(p) ≤ k ≤ max_key_path(p)` iff the bits of `p` are a prefix of `k`;
* `PageIdsIterator` yields the sextet prefixes of the key, root first, 43 items.
-/
namespace Nomt.TriePos

/-! ## `pidLt` is a strict total order -/

theorem pidLt_nil_right (a : PageId) : pidLt a [] = false := by cases a <;> rfl

theorem pidLt_cons (a b : Nat) (as bs : PageId) :
    pidLt (a :: as) (b :: bs) = (decide (a < b) || (a == b && pidLt as bs)) := rfl

theorem pidLt_irrefl (a : PageId) : pidLt a a = false := by
  induction a with
  | nil => rfl
  | cons x a ih => simp [pidLt_cons, ih]

theorem pidLe_refl (a : PageId) : pidLe a a = true := by simp [pidLe, pidLt_irrefl]

theorem pidLt_trichotomy : ∀ a b : PageId, pidLt a b = true ∨ a = b ∨ pidLt b a = true := by
  intro a
  induction a with
  | nil => intro b; cases b with
    | nil => exact Or.inr (Or.inl rfl)
    | cons y b => exact Or.inl rfl
  | cons x a ih =>
    intro b
    cases b with
    | nil => exact Or.inr (Or.inr rfl)
    | cons y b =>
      simp only [pidLt_cons]
      rcases Nat.lt_trichotomy x y with h | h | h
      · left; simp [h]
      · subst h
        rcases ih b with h' | h' | h'
        · left; simp [h']
        · right; left; rw [h']
        · right; right; simp [h']
      · right; right; simp [h]

theorem pidLt_asymm : ∀ a b : PageId, pidLt a b = true → pidLt b a = false := by
  intro a
  induction a with
  | nil => intro b _; exact pidLt_nil_right b
  | cons x a ih =>
    intro b h
    cases b with
    | nil => simp [pidLt] at h
    | cons y b =>
      simp only [pidLt_cons, Bool.or_eq_true, decide_eq_true_eq, Bool.and_eq_true, beq_iff_eq] at h
      simp only [pidLt_cons]
      rcases h with h | ⟨h1, h2⟩
      · have : ¬ y < x := by omega
        have : ¬ y = x := by omega
        simp [*]
      · subst h1
        simp [ih b h2]

theorem pidLt_trans : ∀ a b c : PageId, pidLt a b = true → pidLt b c = true → pidLt a c = true := by
  intro a
  induction a with
  | nil =>
    intro b c h1 h2
    cases c with
    | nil => rw [pidLt_nil_right] at h2; cases h2
    | cons z c => rfl
  | cons x a ih =>
    intro b c h1 h2
    cases b with
    | nil => simp [pidLt] at h1
    | cons y b =>
      cases c with
      | nil => rw [pidLt_nil_right] at h2; cases h2
      | cons z c =>
        simp only [pidLt_cons, Bool.or_eq_true, decide_eq_true_eq, Bool.and_eq_true, beq_iff_eq] at h1 h2 ⊢
        rcases h1 with h1 | ⟨e1, h1⟩ <;> rcases h2 with h2 | ⟨e2, h2⟩
        · left; omega
        · left; omega
        · left; omega
        · right; exact ⟨by omega, ih b c h1 h2⟩

theorem pidLe_trans (a b c : PageId) (h1 : pidLe a b = true) (h2 : pidLe b c = true) : pidLe a c = true := by
  unfold pidLe at *
  simp only [Bool.not_eq_true'] at *
  cases hca : pidLt c a with
  | false => rfl
  | true =>
    rcases pidLt_trichotomy a b with h | h | h
    · have := pidLt_trans c a b hca h
      rw [this] at h2; cases h2
    · subst h; rw [hca] at h2; cases h2
    · rw [h] at h1; cases h1

theorem pidLe_antisymm (a b : PageId) (h1 : pidLe a b = true) (h2 : pidLe b a = true) : a = b := by
  unfold pidLe at *
  simp only [Bool.not_eq_true'] at *
  rcases pidLt_trichotomy a b with h | h | h
  · rw [h] at h2; cases h2
  · exact h
  · rw [h] at h1; cases h1

theorem pidLt_of_lt_of_le (a b c : PageId) (h1 : pidLt a b = true) (h2 : pidLe b c = true) : pidLt a c = true := by
  unfold pidLe at h2
  simp only [Bool.not_eq_true'] at h2
  rcases pidLt_trichotomy b c with h | h | h
  · exact pidLt_trans a b c h1 h
  · subst h; exact h1
  · rw [h] at h2; cases h2

theorem pidLt_of_le_of_lt (a b c : PageId) (h1 : pidLe a b = true) (h2 : pidLt b c = true) : pidLt a c = true := by
  unfold pidLe at h1
  simp only [Bool.not_eq_true'] at h1
  rcases pidLt_trichotomy a b with h | h | h
  · exact pidLt_trans a b c h h2
  · subst h; exact h2
  · rw [h] at h1; cases h1

/-- a common prefix cancels -/
theorem pidLt_append_left (p x y : PageId) : pidLt (p ++ x) (p ++ y) = pidLt x y := by
  induction p with
  | nil => rfl
  | cons a p ih => simp [pidLt_cons, ih]

/-- an ancestor is not greater than its descendants -/
theorem pidLe_append (p x : PageId) : pidLe p (p ++ x) = true := by
  unfold pidLe
  have := pidLt_append_left p x []
  rw [List.append_nil] at this
  rw [this, pidLt_nil_right]; rfl

/-! ## descendants = the interval `[p, max_descendant p]` -/

theorem pidLt_replicate_max (M : Nat) : ∀ (q : PageId) (n : Nat), (∀ c ∈ q, c ≤ M) → q.length ≤ n →
    pidLt (List.replicate n M) q = false := by
  intro q
  induction q with
  | nil => intro n _ _; exact pidLt_nil_right _
  | cons c q ih =>
    intro n hq hl
    cases n with
    | zero => simp at hl
    | succ n =>
      have hc : c ≤ M := hq c (List.mem_cons_self ..)
      rw [List.replicate_succ, pidLt_cons, ih n (fun x hx => hq x (List.mem_cons_of_mem _ hx)) (by simpa using hl)]
      have : ¬ M < c := by omega
      simp [this]

theorem interval_iff_prefix (M : Nat) : ∀ (p q : PageId) (n : Nat), (∀ c ∈ q, c ≤ M) → q.length ≤ p.length + n →
    (pidLe p q && pidLe q (p ++ List.replicate n M)) = p.isPrefixOf q := by
  intro p
  induction p with
  | nil =>
    intro q n hq hl
    simp only [List.nil_append, List.isPrefixOf]
    unfold pidLe
    rw [pidLt_nil_right, pidLt_replicate_max M q n hq (by simpa using hl)]
    rfl
  | cons a p ih =>
    intro q n hq hl
    cases q with
    | nil => simp [pidLe, pidLt, List.isPrefixOf]
    | cons b q =>
      have ih' := ih q n (fun x hx => hq x (List.mem_cons_of_mem _ hx)) (by simp at hl; omega)
      simp only [List.cons_append, List.isPrefixOf, pidLe, pidLt_cons]
      rcases Nat.lt_trichotomy a b with h | h | h
      · have h1 : ¬ b < a := by omega
        have h2 : ¬ b = a := by omega
        have h3 : ¬ a = b := by omega
        simp [h, h1, h2, h3]
      · subst h
        simp only [Nat.lt_irrefl, decide_false, Bool.false_or, beq_self_eq_true, Bool.true_and]
        unfold pidLe at ih'
        exact ih'
      · have h1 : ¬ a < b := by omega
        have h2 : ¬ b = a := by omega
        have h3 : ¬ a = b := by omega
        simp [h, h1, h2, h3]

/-- a valid page id of the page tree: child indices `< 64`, depth `≤ 42` -/
def PidOk (p : PageId) : Prop := PidValid p ∧ p.length ≤ MAX_PAGE_DEPTH

/-- **`PageId::max_descendant` bounds exactly the descendants** -/
theorem descendant_iff_interval (p q : PageId) (hp : p.length ≤ MAX_PAGE_DEPTH) (hq : PidOk q) :
    (pidLe p q && pidLe q (maxDescendant p)) = isDescendantOf q p := by
  unfold maxDescendant isDescendantOf MAX_CHILD_INDEX
  apply interval_iff_prefix 63 p q _ (fun c hc => by have := hq.1 c hc; omega)
  have := hq.2
  omega

theorem isDescendantOf_iff (q p : PageId) : isDescendantOf q p = true ↔ p <+: q := by
  unfold isDescendantOf; exact List.isPrefixOf_iff_prefix

/-! ## key-path ranges -/

/-- lexicographic order on bit strings (`[u8; 32]` compares byte-wise = bit-wise, most significant first) -/
def bitsLt (a b : List Bool) : Bool := pidLt (a.map Bool.toNat) (b.map Bool.toNat)
def bitsLe (a b : List Bool) : Bool := !bitsLt b a

theorem pidLt_replicate_zero : ∀ (q : PageId) (n : Nat), q.length = n → pidLt q (List.replicate n 0) = false := by
  intro q
  induction q with
  | nil => intro n h; subst h; rfl
  | cons c q ih =>
    intro n hl
    cases n with
    | zero => simp at hl
    | succ n =>
      rw [List.replicate_succ, pidLt_cons, ih n (by simpa using hl)]
      simp

theorem bracket_iff_prefix (M : Nat) : ∀ (p q : List Nat) (n : Nat), (∀ c ∈ q, c ≤ M) → q.length = p.length + n →
    (pidLe (p ++ List.replicate n 0) q && pidLe q (p ++ List.replicate n M)) = p.isPrefixOf q := by
  intro p
  induction p with
  | nil =>
    intro q n hq hl
    simp only [List.nil_append, List.isPrefixOf]
    unfold pidLe
    rw [pidLt_replicate_zero q n (by simpa using hl), pidLt_replicate_max M q n hq (by simp at hl; omega)]
    rfl
  | cons a p ih =>
    intro q n hq hl
    cases q with
    | nil => simp only [List.length_cons, List.length_nil] at hl; omega
    | cons b q =>
      have ih' := ih q n (fun x hx => hq x (List.mem_cons_of_mem _ hx)) (by simp at hl; omega)
      simp only [List.cons_append, List.isPrefixOf, pidLe, pidLt_cons]
      rcases Nat.lt_trichotomy a b with h | h | h
      · have h1 : ¬ b < a := by omega
        have h2 : ¬ b = a := by omega
        have h3 : ¬ a = b := by omega
        simp [h, h1, h2, h3]
      · subst h
        simp only [Nat.lt_irrefl, decide_false, Bool.false_or, beq_self_eq_true, Bool.true_and]
        unfold pidLe at ih'
        exact ih'
      · have h1 : ¬ a < b := by omega
        have h2 : ¬ b = a := by omega
        have h3 : ¬ a = b := by omega
        simp [h, h1, h2, h3]

theorem isPrefixOf_map_toNat (a k : List Bool) :
    (a.map Bool.toNat).isPrefixOf (k.map Bool.toNat) = a.isPrefixOf k := by
  induction a generalizing k with
  | nil => rfl
  | cons x a ih =>
    cases k with
    | nil => rfl
    | cons y k =>
      simp only [List.map_cons, List.isPrefixOf, ih]
      cases x <;> cases y <;> rfl

theorem keyPathFill_eq (fill : Bool) (p : PageId) (h : p.length ≤ MAX_PAGE_DEPTH) :
    keyPathFill fill p = some (pidBits p ++ List.replicate (256 - 6 * p.length) fill) := by
  unfold keyPathFill KEY_BITS
  unfold MAX_PAGE_DEPTH at h
  rw [if_neg (by omega)]

/-- **`min_key_path(p) ≤ k ≤ max_key_path(p)` iff the page lies on the key's path** -/
theorem key_bracket_iff (p : PageId) (k lo hi : List Bool) (hp : p.length ≤ MAX_PAGE_DEPTH) (hk : k.length = 256)
    (hlo : minKeyPath p = some lo) (hhi : maxKeyPath p = some hi) :
    (bitsLe lo k && bitsLe k hi) = (pidBits p).isPrefixOf k := by
  unfold minKeyPath at hlo
  unfold maxKeyPath at hhi
  rw [keyPathFill_eq _ p hp] at hlo hhi
  injection hlo with hlo; injection hhi with hhi
  subst hlo; subst hhi
  unfold bitsLe bitsLt
  simp only [List.map_append, List.map_replicate, Bool.toNat_false, Bool.toNat_true]
  have := bracket_iff_prefix 1 ((pidBits p).map Bool.toNat) (k.map Bool.toNat) (256 - 6 * p.length)
    (by intro c hc; rw [List.mem_map] at hc; obtain ⟨b, _, rfl⟩ := hc; cases b <;> simp)
    (by simp [hk, pidBits_length]; unfold MAX_PAGE_DEPTH at hp; omega)
  unfold pidLe at this
  rw [this, isPrefixOf_map_toNat]

/-! ## parent / child -/

theorem parentPageId_child (p : PageId) (c : Nat) : parentPageId (p ++ [c]) = p := by
  unfold parentPageId
  rw [if_neg (by simp), List.dropLast_concat]

theorem childPageId_ok (p : PageId) (c : Nat) (h : p.length < MAX_PAGE_DEPTH) : childPageId p c = .ok (p ++ [c]) := by
  unfold childPageId; rw [if_neg (by omega)]

theorem childPageId_err (p : PageId) (c : Nat) (h : MAX_PAGE_DEPTH ≤ p.length) :
    childPageId p c = .error .pageIdOverflow := by
  unfold childPageId; rw [if_pos h]

theorem child_of_parent (q : PageId) (h : q ≠ []) (hl : q.length ≤ MAX_PAGE_DEPTH) :
    childPageId (parentPageId q) (q.getLast h) = .ok q := by
  unfold parentPageId
  rw [if_neg h, childPageId_ok _ _ (by rw [List.length_dropLast]; have := List.length_pos_iff.mpr h; omega),
    List.dropLast_concat_getLast]

/-! ## `PageIdsIterator` -/

/-- the iterator after `j` items -/
def iterState (key : List Bool) (j : Nat) : PidIter :=
  ⟨key.drop (6 * j) ++ List.replicate (6 * j) false, some (sextetsOf (key.take (6 * j)))⟩

theorem iterState_zero (key : List Bool) : iterState key 0 = PidIter.new key := by
  simp [iterState, PidIter.new, sextetsOf, chunks6]

theorem iter_next_inner (key : List Bool) (hk : key.length = 256) (j : Nat) (hj : j ≤ 41) :
    (iterState key j).next = some (some (sextetsOf (key.take (6 * j)), iterState key (j + 1))) := by
  have hlen : (key.drop (6 * j)).length ≥ 6 := by rw [List.length_drop]; omega
  have hchunk : ((key.drop (6 * j)).take 6).length = 6 := by rw [List.length_take]; omega
  unfold PidIter.next iterState
  simp only
  rw [List.take_append_of_le_length hlen]
  have hc : cpiNew (loadBE ((key.drop (6 * j)).take 6)) = some (loadBE ((key.drop (6 * j)).take 6)) := by
    unfold cpiNew MAX_CHILD_INDEX
    rw [if_neg (by have := loadBE_lt_64 _ hchunk; omega)]
  rw [hc]
  simp only
  rw [childPageId_ok _ _ (by rw [sextetsOf_length, List.length_take]; unfold MAX_PAGE_DEPTH; omega)]
  simp only
  have e1 : sextetsOf (key.take (6 * j)) ++ [loadBE ((key.drop (6 * j)).take 6)] = sextetsOf (key.take (6 * (j + 1))) := by
    have : key.take (6 * (j + 1)) = key.take (6 * j) ++ (key.drop (6 * j)).take 6 := by
      rw [show 6 * (j + 1) = 6 * j + 6 by omega, List.take_add]
    rw [this, sextetsOf_append _ _ (by rw [List.length_take]; omega)]
    congr 1
    have := sextetsOf_append6 ((key.drop (6 * j)).take 6) [] hchunk
    rw [List.append_nil] at this
    rw [this]; rfl
  have e2 : List.drop 6 (key.drop (6 * j) ++ List.replicate (6 * j) false) ++
      List.replicate (min 6 (key.drop (6 * j) ++ List.replicate (6 * j) false).length) false =
      key.drop (6 * (j + 1)) ++ List.replicate (6 * (j + 1)) false := by
    rw [List.drop_append_of_le_length hlen, List.drop_drop, List.append_assoc]
    have : min 6 (key.drop (6 * j) ++ List.replicate (6 * j) false).length = 6 := by
      simp; omega
    rw [this, List.replicate_append_replicate]
    congr 2
  rw [e1, e2]

theorem iter_next_last (key : List Bool) (hk : key.length = 256) :
    ∃ bits, (iterState key 42).next = some (some (sextetsOf (key.take (6 * 42)), ⟨bits, none⟩)) := by
  have hchunk : ((key.drop (6 * 42) ++ List.replicate (6 * 42) false).take 6).length = 6 := by
    rw [List.length_take, List.length_append, List.length_drop, List.length_replicate]; omega
  unfold PidIter.next iterState
  simp only
  have hc : cpiNew (loadBE ((key.drop (6 * 42) ++ List.replicate (6 * 42) false).take 6)) =
      some (loadBE ((key.drop (6 * 42) ++ List.replicate (6 * 42) false).take 6)) := by
    unfold cpiNew MAX_CHILD_INDEX
    rw [if_neg (by have := loadBE_lt_64 _ hchunk; omega)]
  rw [hc]
  simp only
  rw [childPageId_err _ _ (by rw [sextetsOf_length, List.length_take]; unfold MAX_PAGE_DEPTH; omega)]
  exact ⟨_, rfl⟩

theorem collect_exhausted (n : Nat) (bits : List Bool) : PidIter.collect n ⟨bits, none⟩ = some [] := by
  cases n <;> simp [PidIter.collect, PidIter.next]

theorem collect_iterState (key : List Bool) (hk : key.length = 256) : ∀ (n j : Nat), j ≤ 42 →
    PidIter.collect n (iterState key j) =
      some ((List.range' j (min n (43 - j))).map fun i => sextetsOf (key.take (6 * i))) := by
  intro n
  induction n with
  | zero => intro j _; simp [PidIter.collect]
  | succ n ih =>
    intro j hj
    unfold PidIter.collect
    by_cases h41 : j ≤ 41
    · rw [iter_next_inner key hk j h41]
      simp only
      rw [ih (j + 1) (by omega)]
      have : min (n + 1) (43 - j) = min n (43 - (j + 1)) + 1 := by omega
      rw [this, List.range'_succ]
      simp
    · have hj42 : j = 42 := by omega
      subst hj42
      obtain ⟨bits, hb⟩ := iter_next_last key hk
      rw [hb]
      simp only
      rw [collect_exhausted]
      have : min (n + 1) (43 - 42) = 1 := by omega
      rw [this]
      simp

/-- **`PageIdsIterator` yields the sextet prefixes of the key, root first, 43 of them** -/
theorem pidIter_collect (key : List Bool) (hk : key.length = 256) (n : Nat) :
    PidIter.collect n (PidIter.new key) =
      some ((List.range (min n 43)).map fun i => sextetsOf (key.take (6 * i))) := by
  rw [← iterState_zero, collect_iterState key hk n 0 (by omega), List.range_eq_range']

/-- the page of a position that contains a key is the key's page id at level `⌊(d−1)/6⌋` -/
theorem specPage_of_prefix (bs key : List Bool) (h : bs <+: key) :
    specPage bs = sextetsOf (key.take (6 * ((bs.length - 1) / 6))) := by
  unfold specPage specPageBits
  rw [Nat.mul_comm]
  congr 1
  obtain ⟨t, rfl⟩ := h
  rw [List.take_append_of_le_length (by omega)]

end Nomt.TriePos
