import NomtModel.Core.TriePosMoves
/-!
# Page ids of positions, sextets, and the bijection between positions and page slots
-/
namespace Nomt.TriePos

/-! ## sextets -/

theorem loadBE_bits6 : ∀ n, n < 64 → loadBE (bits6 n) = n := by decide

theorem bits6_length (n : Nat) : (bits6 n).length = 6 := rfl

theorem bits6_loadBE (c : List Bool) (h : c.length = 6) : bits6 (loadBE c) = c := by
  match c, h with
  | [a, b, c, d, e, f], _ =>
    cases a <;> cases b <;> cases c <;> cases d <;> cases e <;> cases f <;> rfl

theorem loadBE_lt_64 (c : List Bool) (h : c.length = 6) : loadBE c < 64 := by
  have := loadBE_lt c
  rw [h] at this
  exact this

theorem chunks6_of_lt (l : List Bool) (h : l.length < 6) : chunks6 l = [] := by
  match l, h with
  | [], _ => rfl
  | [_], _ => rfl
  | [_, _], _ => rfl
  | [_, _, _], _ => rfl
  | [_, _, _, _], _ => rfl
  | [_, _, _, _, _], _ => rfl
  | _ :: _ :: _ :: _ :: _ :: _ :: _, h => simp at h; omega

theorem chunks6_of_ge (l : List Bool) (h : 6 ≤ l.length) :
    chunks6 l = l.take 6 :: chunks6 (l.drop 6) := by
  match l, h with
  | [], h => simp at h
  | [_], h => simp at h
  | [_, _], h => simp at h
  | [_, _, _], h => simp at h
  | [_, _, _, _], h => simp at h
  | [_, _, _, _, _], h => simp at h
  | a :: b :: c :: d :: e :: f :: rest, _ => rfl

theorem chunks6_append (c rest : List Bool) (h : c.length = 6) : chunks6 (c ++ rest) = c :: chunks6 rest := by
  rw [chunks6_of_ge _ (by simp; omega)]
  rw [List.take_append_of_le_length (by omega), List.drop_append_of_le_length (by omega)]
  rw [← h, List.take_length, List.drop_length, List.nil_append]

theorem chunks6_all_len (l : List Bool) : ∀ c ∈ chunks6 l, c.length = 6 := by
  generalize hn : l.length = n
  induction n using Nat.strongRecOn generalizing l with
  | _ n ih =>
    intro c hc
    by_cases h : l.length < 6
    · rw [chunks6_of_lt l h] at hc; cases hc
    · rw [chunks6_of_ge l (by omega)] at hc
      rw [List.mem_cons] at hc
      rcases hc with e | hc
      · rw [e, List.length_take]; omega
      · exact ih (l.length - 6) (by omega) (l.drop 6) (by simp) c hc

theorem chunks6_length (l : List Bool) : (chunks6 l).length = l.length / 6 := by
  generalize hn : l.length = n
  induction n using Nat.strongRecOn generalizing l with
  | _ n ih =>
    by_cases h : l.length < 6
    · rw [chunks6_of_lt l h]; simp; omega
    · rw [chunks6_of_ge l (by omega), List.length_cons, ih (l.length - 6) (by omega) (l.drop 6) (by simp)]
      omega

theorem chunks6_take : ∀ (q : Nat) (l : List Bool), 6 * q ≤ l.length →
    chunks6 (l.take (6 * q)) = (chunks6 l).take q := by
  intro q
  induction q with
  | zero => intro l _; simp [chunks6]
  | succ q ih =>
    intro l h
    rw [chunks6_of_ge l (by omega), List.take_succ_cons, ← ih (l.drop 6) (by simp; omega)]
    rw [chunks6_of_ge _ (by rw [List.length_take]; omega), List.take_take, List.drop_take]
    have e1 : min 6 (6 * (q + 1)) = 6 := by omega
    have e2 : 6 * (q + 1) - 6 = 6 * q := by omega
    rw [e1, e2]

theorem sextetsOf_nil : sextetsOf [] = [] := rfl

theorem sextetsOf_append6 (c rest : List Bool) (h : c.length = 6) :
    sextetsOf (c ++ rest) = loadBE c :: sextetsOf rest := by
  unfold sextetsOf
  rw [chunks6_append c rest h, List.map_cons]

theorem sextetsOf_length (l : List Bool) : (sextetsOf l).length = l.length / 6 := by
  unfold sextetsOf; rw [List.length_map, chunks6_length]

theorem sextetsOf_lt_64 (l : List Bool) : ∀ c ∈ sextetsOf l, c < 64 := by
  intro c hc
  unfold sextetsOf at hc
  rw [List.mem_map] at hc
  obtain ⟨x, hx, rfl⟩ := hc
  exact loadBE_lt_64 x (chunks6_all_len l x hx)

theorem pidBits_nil : pidBits [] = [] := rfl
theorem pidBits_cons (x : Nat) (p : PageId) : pidBits (x :: p) = bits6 x ++ pidBits p := by
  simp [pidBits]
theorem pidBits_append (p q : PageId) : pidBits (p ++ q) = pidBits p ++ pidBits q := by
  simp [pidBits]
theorem pidBits_length (p : PageId) : (pidBits p).length = 6 * p.length := by
  induction p with
  | nil => rfl
  | cons x p ih => rw [pidBits_cons, List.length_append, ih, bits6_length, List.length_cons]; omega

/-- a valid page id: child indices below 64 -/
def PidValid (p : PageId) : Prop := ∀ c ∈ p, c < 64

theorem sextetsOf_pidBits (p : PageId) (h : PidValid p) : sextetsOf (pidBits p) = p := by
  induction p with
  | nil => rfl
  | cons x p ih =>
    rw [pidBits_cons, sextetsOf_append6 _ _ (bits6_length x), loadBE_bits6 x (h x (List.mem_cons_self ..)),
      ih (fun c hc => h c (List.mem_cons_of_mem _ hc))]

theorem pidBits_sextetsOf (bs : List Bool) (h : bs.length % 6 = 0) : pidBits (sextetsOf bs) = bs := by
  generalize hn : bs.length = n
  induction n using Nat.strongRecOn generalizing bs with
  | _ n ih =>
    by_cases h0 : bs.length = 0
    · have : bs = [] := List.length_eq_zero_iff.mp h0
      subst this; rfl
    · have h6 : 6 ≤ bs.length := by omega
      have e : bs = bs.take 6 ++ bs.drop 6 := (List.take_append_drop 6 bs).symm
      have hl : (bs.take 6).length = 6 := by rw [List.length_take]; omega
      conv => lhs; rw [e]
      rw [sextetsOf_append6 _ _ hl, pidBits_cons, bits6_loadBE _ hl,
        ih (bs.length - 6) (by omega) (bs.drop 6) (by simp; omega) (by simp)]
      exact e.symm

theorem sextetsOf_append (x y : List Bool) (h : x.length % 6 = 0) :
    sextetsOf (x ++ y) = sextetsOf x ++ sextetsOf y := by
  generalize hn : x.length = n
  induction n using Nat.strongRecOn generalizing x with
  | _ n ih =>
    by_cases h0 : x.length = 0
    · have : x = [] := List.length_eq_zero_iff.mp h0
      subst this; rfl
    · have e : x = x.take 6 ++ x.drop 6 := (List.take_append_drop 6 x).symm
      have hl : (x.take 6).length = 6 := by rw [List.length_take]; omega
      rw [e, List.append_assoc, sextetsOf_append6 _ _ hl, sextetsOf_append6 _ _ hl,
        ih (x.length - 6) (by omega) (x.drop 6) (by simp; omega) (by simp)]
      rfl

/-! ## `specPage` -/

theorem specPage_length (bs : List Bool) : (specPage bs).length = (bs.length - 1) / 6 := by
  unfold specPage
  rw [sextetsOf_length, List.length_take]
  unfold specPageBits
  omega

theorem specPage_valid (bs : List Bool) : PidValid (specPage bs) := sextetsOf_lt_64 _

theorem pidBits_specPage (bs : List Bool) : pidBits (specPage bs) = bs.take (specPageBits bs.length) := by
  unfold specPage
  apply pidBits_sextetsOf
  rw [List.length_take]
  unfold specPageBits
  omega

/-- a position splits into the bits of its page id and its in-page path -/
theorem pidBits_specPage_append_lp (bs : List Bool) : pidBits (specPage bs) ++ lp bs = bs := by
  rw [pidBits_specPage]; exact take_append_lp bs

theorem specPage_eq_take_chunks (bs : List Bool) :
    specPage bs = ((chunks6 bs).take ((bs.length - 1) / 6)).map loadBE := by
  unfold specPage sextetsOf specPageBits
  rw [Nat.mul_comm, chunks6_take _ _ (by omega)]

/-- entering a new page: the page of `bs ++ [b]` when `bs` ends at a page boundary -/
theorem specPage_snoc_boundary (bs : List Bool) (b : Bool) (h : bs.length % 6 = 0) :
    specPage (bs ++ [b]) = sextetsOf bs := by
  unfold specPage specPageBits
  simp only [List.length_append, List.length_singleton, Nat.add_sub_cancel]
  have : bs.length / 6 * 6 = bs.length := by omega
  rw [this, List.take_append_of_le_length (Nat.le_refl _), List.take_length]

/-- staying in the page -/
theorem specPage_snoc_inside (bs : List Bool) (b : Bool) (h : bs.length % 6 ≠ 0) :
    specPage (bs ++ [b]) = specPage bs := by
  unfold specPage specPageBits
  simp only [List.length_append, List.length_singleton, Nat.add_sub_cancel]
  have : bs.length / 6 * 6 = (bs.length - 1) / 6 * 6 := by omega
  rw [this, List.take_append_of_le_length (by omega)]

/-- for a position on the bottom layer of its page: the whole path as sextets = page id + child index -/
theorem sextetsOf_bottom (bs : List Bool) (h : bs.length % 6 = 0) (h1 : bs ≠ []) :
    sextetsOf bs = specPage bs ++ [loadBE (lp bs)] := by
  have hl := lp_length bs h1
  have h0 : 1 ≤ bs.length := List.length_pos_iff.mpr h1
  have hr : specR bs.length = 6 := by unfold specR; omega
  conv => lhs; rw [← take_append_lp bs]
  rw [sextetsOf_append _ _ (by rw [List.length_take]; unfold specPageBits; omega)]
  have : sextetsOf (lp bs) = [loadBE (lp bs)] := by
    have := sextetsOf_append6 (lp bs) [] (by rw [hl, hr])
    rw [List.append_nil] at this
    rw [this]; rfl
  rw [this]; rfl

/-! ## `TriePosition::page_id` -/

theorem pageIdGo_eq (d : Nat) (h1 : 1 ≤ d) (h2 : d ≤ 256) : ∀ (cs : List (List Bool)) (i : Nat) (pid : PageId),
    (∀ c ∈ cs, c.length = 6) → pid.length = i → i ≤ (d - 1) / 6 → cs.length = d / 6 - i →
    pageIdGo d i cs pid = some (pid ++ (cs.take ((d - 1) / 6 - i)).map loadBE) := by
  intro cs
  induction cs with
  | nil => intro i pid _ _ _ _; simp [pageIdGo]
  | cons c cs ih =>
    intro i pid hc hp hi hl
    have hc6 : c.length = 6 := hc c (List.mem_cons_self ..)
    simp only [List.length_cons] at hl
    unfold pageIdGo
    by_cases he : (i + 1) * 6 = d
    · rw [if_pos he]
      have : (d - 1) / 6 - i = 0 := by omega
      rw [this]; simp
    · rw [if_neg he]
      have hi' : i + 1 ≤ (d - 1) / 6 := by omega
      have hcpi : cpiNew (loadBE c) = some (loadBE c) := by
        unfold cpiNew MAX_CHILD_INDEX
        rw [if_neg (by have := loadBE_lt_64 c hc6; omega)]
      have hch : childPageId pid (loadBE c) = .ok (pid ++ [loadBE c]) := by
        unfold childPageId MAX_PAGE_DEPTH
        rw [if_neg (by omega)]
      simp only [hcpi, hch]
      rw [ih (i + 1) (pid ++ [loadBE c]) (fun x hx => hc x (List.mem_cons_of_mem _ hx)) (by simp [hp]) hi' (by omega)]
      have : (d - 1) / 6 - i = ((d - 1) / 6 - (i + 1)) + 1 := by omega
      rw [this, List.take_succ_cons, List.map_cons]
      simp

theorem pageId_eq (p : Pos) (hw : p.WF) (h1 : 1 ≤ p.depth) : p.pageId = some (some (specPage p.path)) := by
  have hl := p.path_length hw
  unfold Pos.pageId Pos.isRoot
  have : (p.depth == 0) = false := by simp; omega
  rw [this]
  simp only [Bool.false_eq_true, if_false]
  rw [pageIdGo_eq p.depth h1 hw.depthLe (chunks6 p.path) 0 [] (chunks6_all_len _) rfl (Nat.zero_le _)
    (by rw [chunks6_length, hl]; omega)]
  rw [specPage_eq_take_chunks, hl]
  simp

theorem pageId_root (p : Pos) (h : p.depth = 0) : p.pageId = some none := by
  simp [Pos.pageId, Pos.isRoot, h]

/-! ## slots: `(page id, node index)` ↔ bit path -/

/-- the in-page path of a node index (inverse of `nodeIndexOf`), `fuel` = number of layers -/
def idxBits : Nat → Nat → List Bool
  | 0, _ => []
  | f + 1, i => if i < 2 then [i == 1] else idxBits f ((i - 2) / 2) ++ [i % 2 == 1]

/-- the bit path of the position stored in slot `i` of page `p` -/
def slotPath (p : PageId) (i : Nat) : List Bool := pidBits p ++ idxBits 6 i

theorem idxBits_nodeIndexOf (l : List Bool) : ∀ f, 1 ≤ l.length → l.length ≤ f → l.length ≤ 6 →
    idxBits f (nodeIndexOf l) = l := by
  refine snoc_induction (P := fun l => ∀ f, 1 ≤ l.length → l.length ≤ f → l.length ≤ 6 →
    idxBits f (nodeIndexOf l) = l) ?_ ?_ l
  · intro f h; simp at h
  · intro l b ih f h1 hf h6
    simp only [List.length_append, List.length_singleton] at h1 hf h6
    cases f with
    | zero => omega
    | succ f =>
      by_cases hl : l.length = 0
      · have : l = [] := List.length_eq_zero_iff.mp hl
        subst this
        rw [List.nil_append, nodeIndexOf_single]
        cases b <;> rfl
      · rw [nodeIndexOf_snoc l b (by omega) (by omega)]
        unfold idxBits
        rw [if_neg (by omega)]
        have e1 : (2 * nodeIndexOf l + 2 + b.toNat - 2) / 2 = nodeIndexOf l := by
          cases b <;> simp <;> omega
        have e2 : ((2 * nodeIndexOf l + 2 + b.toNat) % 2 == 1) = b := by
          cases b <;> simp <;> omega
        rw [e1, e2, ih f (by omega) (by omega) (by omega)]

/-- **left inverse**: the slot of a position determines its path -/
theorem slotPath_spec (bs : List Bool) (h : bs ≠ []) : slotPath (specPage bs) (specIndex bs) = bs := by
  unfold slotPath
  have hl := lp_length bs h
  rw [specIndex_eq_nodeIndexOf_lp, idxBits_nodeIndexOf (lp bs) 6 (by rw [hl]; exact specR_pos _)
    (by rw [hl]; exact specR_le _) (by rw [hl]; exact specR_le _)]
  exact pidBits_specPage_append_lp bs

theorem idxBits_table : ∀ i, i < 126 →
    1 ≤ (idxBits 6 i).length ∧ (idxBits 6 i).length ≤ 6 ∧ nodeIndexOf (idxBits 6 i) = i := by decide

/-- the layer (1…6) of a node index inside its page -/
def layerOf (i : Nat) : Nat := (idxBits 6 i).length

/-- **right inverse**: every slot `i < 126` of every valid page id is the slot of `slotPath p i` -/
theorem spec_slotPath (p : PageId) (i : Nat) (hp : PidValid p) (hi : i < 126) :
    slotPath p i ≠ [] ∧ specPage (slotPath p i) = p ∧ specIndex (slotPath p i) = i ∧
      (slotPath p i).length = 6 * p.length + layerOf i := by
  obtain ⟨h1, h6, hn⟩ := idxBits_table i hi
  have hlen : (slotPath p i).length = 6 * p.length + layerOf i := by
    unfold slotPath layerOf; rw [List.length_append, pidBits_length]
  have hne : slotPath p i ≠ [] := by
    intro e; rw [e] at hlen; unfold layerOf at hlen; simp at hlen; omega
  have hpb : specPageBits (slotPath p i).length = 6 * p.length := by
    rw [hlen]; unfold specPageBits layerOf; omega
  refine ⟨hne, ?_, ?_, hlen⟩
  · unfold specPage
    rw [hpb]
    unfold slotPath
    rw [List.take_append_of_le_length (by rw [pidBits_length]; omega), ← pidBits_length p, List.take_length,
      sextetsOf_pidBits p hp]
  · rw [specIndex_eq_nodeIndexOf_lp]
    unfold lp
    rw [hpb]
    unfold slotPath
    rw [List.drop_append_of_le_length (by rw [pidBits_length]; omega), ← pidBits_length p, List.drop_length,
      List.nil_append, hn]

/-! ## bottom layer: child page index -/

theorem specIndex_bottom (bs : List Bool) (h : bs.length % 6 = 0) (h1 : bs ≠ []) :
    specIndex bs = 62 + loadBE (lp bs) := by
  have hl := lp_length bs h1
  have h0 : 1 ≤ bs.length := List.length_pos_iff.mpr h1
  have hr : specR bs.length = 6 := by unfold specR; omega
  rw [specIndex_eq_nodeIndexOf_lp, nodeIndexOf_eq _ (by rw [hl, hr]; decide) (by rw [hl, hr]; decide), hl, hr]

theorem specIndex_lt_62_of_inside (bs : List Bool) (h : bs.length % 6 ≠ 0) : specIndex bs < 62 := by
  have h1 : bs ≠ [] := by intro e; subst e; simp at h
  have := (specIndex_layer bs h1).2
  have hr : specR bs.length + 1 ≤ 6 := by unfold specR; omega
  have : 2 ^ (specR bs.length + 1) ≤ 2 ^ 6 := Nat.pow_le_pow_right (by decide) hr
  omega

theorem childPageIndex_eq (p : Pos) (hw : p.WF) (h1 : 1 ≤ p.depth) (h6 : p.depth % 6 = 0) :
    p.childPageIndex = some (loadBE (lp p.path)) := by
  have hl := p.path_length hw
  have hne : p.path ≠ [] := by intro e; rw [e] at hl; simp at hl; omega
  have hb := specIndex_bottom p.path (by rw [hl]; exact h6) hne
  have hlt := loadBE_lt_64 (lp p.path) (by rw [lp_length _ hne, hl]; unfold specR; omega)
  unfold Pos.childPageIndex bottomNodeIndex cpiNew MAX_CHILD_INDEX
  rw [hw.idx, hb, if_neg (by omega)]
  have e : (62 + loadBE (lp p.path)) % 256 = 62 + loadBE (lp p.path) := by omega
  simp only [e]
  rw [if_neg (by omega), Option.bind_some, if_neg (by omega)]
  congr 1
  omega

theorem childPageIndex_none_of_inside (p : Pos) (hw : p.WF) (h6 : p.depth % 6 ≠ 0) :
    p.childPageIndex = none := by
  have hl := p.path_length hw
  have := specIndex_lt_62_of_inside p.path (by rw [hl]; exact h6)
  unfold Pos.childPageIndex
  rw [hw.idx, if_pos this]

end Nomt.TriePos
