import NomtModel.Core.VMain
set_option linter.unusedSectionVars false
namespace Nomt
variable {Node VH : Type} [DecidableEq Node] [DecidableEq VH] (H : Hasher Node VH)

/-- **C06/C07/C08, update verification (path proofs)**: the left-to-right, compacting, stack-based
algorithm of `verify_update` returns the specified root of the new set `S'`, provided each path's
replacement root and its untouched siblings are the specified nodes of `S'` (which is what
verification of the paths against the old root plus "ops are in scope" give). -/
theorem verifyUpdate_eq_root (hs : H.Sound) (L : Nat) (S' : List (Key × VH)) (hc' : Canon L 0 S')
    (prevRoot : Node) (paths : List (PathUpd Node)) (hne : paths ≠ [])
    (hpc : PCanon L 0 paths)
    (hok : ∀ p ∈ paths, PathOK H L S' paths 0 p) :
    verifyUpdate H prevRoot paths = nodeAt H L 0 S' := by
  have hlast : ∃ pl, paths.getLast? = some pl := by
    cases h : paths.getLast? with
    | none => exact absurd (List.getLast?_eq_none_iff.mp h) hne
    | some pl => exact ⟨pl, rfl⟩
  obtain ⟨pl, hlast⟩ := hlast
  have h := runV_block H hs L S' hc' L 0 [] paths none [] pl (by omega) rfl hlast hpc
    (by intro p _; simp) hok (by intro c hc; cases hc) (by intro x hx; cases hx)
  simp only [verifyUpdate, h, blockResultV, tgtV, Nat.sub_self, hashUpV, restrict]

end Nomt

