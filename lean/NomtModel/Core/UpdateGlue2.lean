import NomtModel.Core.UpdateGlue
/-!
C08 / T8.3 glue, part 2: from `PathProof::verify` + the argument checks of `verify_update` to the hypotheses
(`PCanon`, `PathOK`) of `verifyUpdate_eq_root`, hence
`pathVerifyUpdate … = ok (root of the updated set)`.
-/
set_option linter.unusedSectionVars false
namespace Nomt
variable {Node VH : Type} [DecidableEq Node] [DecidableEq VH] (H : Hasher Node VH)

/-- `S'` is the key-value set `S` after the writes `ops` (meant for `ops` with distinct keys):
strictly ascending, containing exactly the `some` writes and the entries of `S` no write names. -/
structure UpdatedSet (S : List (Key × VH)) (ops : List (Key × Option VH)) (S' : List (Key × VH)) : Prop where
  sorted : S'.Pairwise KeyLt
  mem : ∀ k v, (k, v) ∈ S' ↔ ((k, some v) ∈ ops ∨ ((k, v) ∈ S ∧ ∀ o ∈ ops, o.1 ≠ k))

/-- all the ops of a `verify_update` call, in call order -/
def allOps (paths : List (PathUpdateIn Node VH)) : List (Key × Option VH) := paths.flatMap (·.ops)

theorem mem_allOps {paths : List (PathUpdateIn Node VH)} {o : Key × Option VH} :
    o ∈ allOps paths ↔ ∃ p ∈ paths, o ∈ p.ops := by
  simp [allOps, List.mem_flatMap]

/-- the verifier's situation: paths verified against the root of the canonical set `S` of `L`-bit keys,
`L`-bit op keys, argument checks passed -/
structure GlueCtx (L : Nat) (S : List (Key × VH)) (paths : List (PathUpdateIn Node VH)) : Prop where
  hs : H.Sound
  hc : Canon L 0 S
  hlen : ∀ kv ∈ S, kv.1.length = L
  hv : ∀ p ∈ paths, VerifiedFor H L S p.inner
  hol : ∀ p ∈ paths, ∀ o ∈ p.ops, o.1.length = L
  hchk : checkPaths (nodeAt H L 0 S) none paths = none

variable {H} {L : Nat} {S S' : List (Key × VH)} {paths : List (PathUpdateIn Node VH)}

theorem GlueCtx.sortedPaths (c : GlueCtx H L S paths) :
    paths.Pairwise (fun a b => bitsLt a.inner.path b.inner.path = true) :=
  (checkPaths_none _ paths none c.hchk).2.1

theorem GlueCtx.opsOK (c : GlueCtx H L S paths) (p : PathUpdateIn Node VH) (hp : p ∈ paths) :
    checkOps p.inner.path none p.ops = none :=
  ((checkPaths_none _ paths none c.hchk).1 p hp).2.2

theorem GlueCtx.opsPrefix (c : GlueCtx H L S paths) (p : PathUpdateIn Node VH) (hp : p ∈ paths) :
    ∀ o ∈ p.ops, p.inner.path <+: o.1 :=
  (checkOps_none p.inner.path p.ops none (c.opsOK p hp)).1

theorem GlueCtx.opsSorted (c : GlueCtx H L S paths) (p : PathUpdateIn Node VH) (hp : p ∈ paths) :
    p.ops.Pairwise KeyLt :=
  (checkOps_none p.inner.path p.ops none (c.opsOK p hp)).2.1

/-- one verified path is a prefix of another only if they are the same path of the call -/
theorem GlueCtx.path_inj (c : GlueCtx H L S paths) (p q : PathUpdateIn Node VH) (hp : p ∈ paths) (hq : q ∈ paths)
    (h : p.inner.path <+: q.inner.path) : p = q := by
  have e := VerifiedFor.prefix_eq H c.hs L S _ _ (c.hv p hp) (c.hv q hq) h
  exact pairwise_inj (fun x : PathUpdateIn Node VH => x.inner.path) _ (fun a b hab => bl_ne hab) paths
    c.sortedPaths p hp q hq e

/-- a key lies under at most one path of the call -/
theorem GlueCtx.same_ext (c : GlueCtx H L S paths) (p q : PathUpdateIn Node VH) (hp : p ∈ paths) (hq : q ∈ paths)
    (k : Key) (h1 : p.inner.path <+: k) (h2 : q.inner.path <+: k) : p = q := by
  rcases List.prefix_or_prefix_of_prefix h1 h2 with h | h
  · exact c.path_inj p q hp hq h
  · exact (c.path_inj q p hq hp h).symm

theorem GlueCtx.sortedS (c : GlueCtx H L S paths) : S.Pairwise KeyLt :=
  canon_sorted L 0 S [] c.hc (by intro kv h; rw [c.hlen kv h]; omega) (by intro kv _; rfl)

theorem GlueCtx.len' (c : GlueCtx H L S paths) (U : UpdatedSet S (allOps paths) S') :
    ∀ kv ∈ S', kv.1.length = L := by
  rintro ⟨k, v⟩ h
  rcases (U.mem k v).mp h with h | ⟨h, _⟩
  · obtain ⟨p, hp, ho⟩ := mem_allOps.mp h
    exact c.hol p hp _ ho
  · exact c.hlen _ h

theorem GlueCtx.canon' (c : GlueCtx H L S paths) (U : UpdatedSet S (allOps paths) S') : Canon L 0 S' :=
  canon_of_sorted L 0 S' [] (sortedKV_of_keyLt L S' U.sorted (c.len' U))
    (by intro kv h; rw [c.len' U kv h]; omega) (by intro kv _; rfl)

/-- `PathOK.sub`: the replacement sub-root of a path is the specified node of the updated set there -/
theorem GlueCtx.sub_ok (c : GlueCtx H L S paths) (U : UpdatedSet S (allOps paths) S')
    (p : PathUpdateIn Node VH) (hp : p ∈ paths) :
    buildTrie H p.inner.path.length (leafOpsSpliced p.inner.terminal p.ops) =
      nodeAt H (L - p.inner.path.length) p.inner.path.length (restrict 0 p.inner.path S') := by
  have hops := c.opsOK p hp
  have hpre := c.opsPrefix p hp
  have hsorted := c.opsSorted p hp
  obtain ⟨sp1, _, _⟩ := spliced_props H c.hs L S c.hc c.hlen p (c.hv p hp) hops (c.hol p hp)
  obtain ⟨hle, hleaf⟩ := VerifiedFor.leaf_spec H c.hs L S c.hc c.hlen p.inner (c.hv p hp)
  have heq : leafOpsSpliced p.inner.terminal p.ops = restrict 0 p.inner.path S' := by
    apply sorted_ext _ _ sp1 (List.Pairwise.sublist (restrict_sublist _ _ _) U.sorted)
    rintro ⟨k, v⟩
    rw [mem_leafOpsSpliced _ _ hsorted, mem_restrict_prefix L S' (c.len' U) _ hle, U.mem]
    constructor
    · rintro (h | ⟨ht, hne⟩)
      · exact ⟨Or.inl (mem_allOps.mpr ⟨p, hp, h⟩), hpre _ h⟩
      · rcases hleaf with ⟨k0, v0, ht0, hr, _, hk0⟩ | ⟨ht0, _⟩
        · rw [ht0] at ht
          simp only [Option.some.injEq, Prod.mk.injEq] at ht
          obtain ⟨rfl, rfl⟩ := ht
          have hS : (k0, v0) ∈ S := (restrict_sublist _ _ _).subset (by rw [hr]; simp)
          refine ⟨Or.inr ⟨hS, ?_⟩, hk0⟩
          intro o ho heq
          obtain ⟨q, hq, hoq⟩ := mem_allOps.mp ho
          have hqk : q.inner.path <+: k0 := heq ▸ (c.opsPrefix q hq o hoq)
          have := c.same_ext p q hp hq k0 hk0 hqk
          subst this
          exact hne o hoq heq
        · rw [ht0] at ht; cases ht
    · rintro ⟨h | ⟨hS, hne⟩, hk⟩
      · left
        obtain ⟨q, hq, hoq⟩ := mem_allOps.mp h
        have := c.same_ext p q hp hq k hk (c.opsPrefix q hq _ hoq)
        subst this; exact hoq
      · right
        have hm : (k, v) ∈ restrict 0 p.inner.path S :=
          (mem_restrict_prefix L S c.hlen _ hle _).mpr ⟨hS, hk⟩
        rcases hleaf with ⟨k0, v0, ht0, hr, _, _⟩ | ⟨_, hr⟩
        · rw [hr] at hm
          simp only [List.mem_singleton, Prod.mk.injEq] at hm
          obtain ⟨rfl, rfl⟩ := hm
          exact ⟨ht0, fun o ho => hne o (mem_allOps.mpr ⟨p, hp, ho⟩)⟩
        · rw [hr] at hm; cases hm
  rw [heq]
  have hcr := Canon_restrict p.inner.path (L - p.inner.path.length) 0 S'
    (by have : L - p.inner.path.length + p.inner.path.length = L := by omega
        rw [this]; exact c.canon' U)
  simp only [Nat.zero_add] at hcr
  apply buildTrie_eq_nodeAt H _ _ _ p.inner.path hcr
  · intro kv h
    rw [c.len' U kv ((restrict_sublist _ _ _).subset h)]; omega
  · intro kv h
    exact (bl_prefix_iff_take _ _).mp ((mem_restrict_prefix L S' (c.len' U) _ hle kv).mp h).2

/-- `PathOK.sib`: a sibling whose sub-trie contains no path of the call is the specified node of the
updated set there (the update does not touch it) -/
theorem GlueCtx.sib_ok (c : GlueCtx H L S paths) (U : UpdatedSet S (allOps paths) S')
    (p : PathUpdateIn Node VH) (hp : p ∈ paths) (j : Nat) (hj : j < p.inner.path.length)
    (hno : ∀ q ∈ paths, ¬ (p.inner.path.take j ++ [!(p.inner.path.getD j false)]) <+: q.inner.path) :
    p.inner.siblings.getD j H.term =
      nodeAt H (L - (j+1)) (j+1) (restrict 0 (p.inner.path.take j ++ [!(p.inner.path.getD j false)]) S') := by
  obtain ⟨P, kp, hv⟩ := c.hv p hp
  obtain ⟨l1, hle, _, hh⟩ := verify_ok_hash H L P kp _ p.inner hv
  have hsib := hashPath_sibs H c.hs _ p.inner.path p.inner.siblings L 0 S l1 hh j hj
  simp only [Nat.zero_add] at hsib
  rw [hsib]
  generalize hsp : p.inner.path.take j ++ [!(p.inner.path.getD j false)] = sp at *
  have hspl : sp.length ≤ L := by
    rw [← hsp]; simp only [List.length_append, List.length_take, List.length_singleton]; omega
  -- no op key lies under the sibling position
  have hclaim : ∀ k, sp <+: k → ∀ o ∈ allOps paths, o.1 ≠ k := by
    intro k hk o ho heq
    obtain ⟨q, hq, hoq⟩ := mem_allOps.mp ho
    have hqk : q.inner.path <+: k := heq ▸ (c.opsPrefix q hq o hoq)
    rcases List.prefix_or_prefix_of_prefix hk hqk with h | h
    · exact hno q hq h
    · rw [← hsp, List.prefix_concat_iff] at h
      rcases h with h | h
      · exact hno q hq (by rw [h, hsp]; exact List.prefix_refl _)
      · have hqp : q.inner.path <+: p.inner.path := h.trans (List.take_prefix _ _)
        have := c.path_inj q p hq hp hqp
        subst this
        have := h.length_le
        simp only [List.length_take] at this
        omega
  have : restrict 0 sp S' = restrict 0 sp S := by
    apply sorted_ext _ _ (List.Pairwise.sublist (restrict_sublist _ _ _) U.sorted)
      (List.Pairwise.sublist (restrict_sublist _ _ _) c.sortedS)
    rintro ⟨k, v⟩
    rw [mem_restrict_prefix L S' (c.len' U) _ hspl, mem_restrict_prefix L S c.hlen _ hspl, U.mem]
    constructor
    · rintro ⟨h | ⟨hS, _⟩, hk⟩
      · exact absurd rfl (hclaim k hk _ h)
      · exact ⟨hS, hk⟩
    · rintro ⟨hS, hk⟩
      exact ⟨Or.inr ⟨hS, hclaim k hk⟩, hk⟩
  rw [this]

/-- **T8.3 glue**: on paths verified against the root of `S`, once the argument checks pass,
`verify_update` returns the root of the updated set. -/
theorem pathVerifyUpdate_eq_root (c : GlueCtx H L S paths) (hne : paths ≠ [])
    (U : UpdatedSet S (allOps paths) S') :
    pathVerifyUpdate H L (nodeAt H L 0 S) paths = .ok (nodeAt H L 0 S') := by
  rw [pathVerifyUpdate_of_checks H c.hs L S c.hc c.hlen paths hne c.hv c.hol c.hchk]
  congr 1
  apply verifyUpdate_eq_root H c.hs L S' (c.canon' U) _ _ (by simpa using hne)
  · apply pcanon_of_sorted L 0 _ []
    · rw [List.pairwise_map]; exact c.sortedPaths
    · rw [List.pairwise_map]
      apply List.Pairwise.imp_of_mem _ c.sortedPaths
      intro a b ha hb hab
      constructor
      · intro h
        have := c.path_inj a b ha hb h
        subst this
        rw [bl_irrefl] at hab; cases hab
      · intro h
        have := c.path_inj b a hb ha h
        subst this
        rw [bl_irrefl] at hab; cases hab
    · rfl
    · intro x _; rfl
    · intro x hx
      obtain ⟨p, hp, rfl⟩ := List.mem_map.mp hx
      have := (VerifiedFor.leaf_spec H c.hs L S c.hc c.hlen p.inner (c.hv p hp)).1
      simp only [toUpd]; omega
  · intro x hx
    obtain ⟨p, hp, rfl⟩ := List.mem_map.mp hx
    refine ⟨(VerifiedFor.leaf_spec H c.hs L S c.hc c.hlen p.inner (c.hv p hp)).1, c.sub_ok U p hp, ?_⟩
    intro j _ hj hno
    apply c.sib_ok U p hp j hj
    intro q hq hpre
    exact hno (toUpd H q) (List.mem_map_of_mem hq) hpre

end Nomt
