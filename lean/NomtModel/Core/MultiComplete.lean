import NomtModel.Core.MultiUpdateSpec
/-!
Completeness of multi-proof verification, structural part: the pre-order layout of ANY well-formed,
aligned recursion tree (`PTree`) is accepted by `verify_range` / `verify`, with exactly the tree's
verified paths, bisections and hash (`verifyRange_complete`, `verifyMulti_complete`).
-/
set_option linter.unusedSectionVars false
namespace Nomt
variable {Node VH : Type} [DecidableEq Node] [DecidableEq VH] (H : Hasher Node VH)

namespace PTree

theorem mpaths_ne_nil : ∀ (T : PTree Node VH) (pos : List Bool), T.mpaths pos ≠ []
  | tip _ _ _, _ => by simp [mpaths]
  | fork _ _ l _, pos => by
    simp only [mpaths, ne_eq, List.append_eq_nil_iff, not_and]
    intro h; exact absurd h (mpaths_ne_nil l _)

/-- in an aligned tree every proof path extends the range's position, and its depth is within its path -/
theorem mpaths_prefix : ∀ (T : PTree Node VH) (pos : List Bool), T.Aligned pos →
    ∀ p ∈ T.mpaths pos, pos <+: p.terminal.path
  | tip _ _ _, pos, hal, p, hp => by
    simp only [mpaths, List.mem_singleton] at hp
    subst hp
    exact (List.prefix_append _ _).trans hal
  | fork seg cs l r, pos, hal, p, hp => by
    simp only [mpaths, List.mem_append] at hp
    rcases hp with h | h
    · exact (by simp [List.append_assoc] : pos <+: pos ++ seg ++ [false]).trans (mpaths_prefix l _ hal.1 p h)
    · exact (by simp [List.append_assoc] : pos <+: pos ++ seg ++ [true]).trans (mpaths_prefix r _ hal.2 p h)

theorem mpaths_sorted : ∀ (T : PTree Node VH) (pos : List Bool), T.Aligned pos →
    (T.mpaths pos).Pairwise (fun a b => bitsLt a.terminal.path b.terminal.path = true ∧
      ¬ a.terminal.path <+: b.terminal.path)
  | tip _ _ _, _, _ => by simp [mpaths]
  | fork seg cs l r, pos, hal => by
    simp only [mpaths]
    refine List.pairwise_append.2 ⟨mpaths_sorted l _ hal.1, mpaths_sorted r _ hal.2, ?_⟩
    intro a ha b hb
    obtain ⟨qa, hqa⟩ := mpaths_prefix l _ hal.1 a ha
    obtain ⟨qb, hqb⟩ := mpaths_prefix r _ hal.2 b hb
    have hnp : ¬ (pos ++ seg ++ [false]) <+: (pos ++ seg ++ [true]) := by simp
    refine ⟨bl_extend _ _ _ _ (bitsLt_snoc (pos ++ seg)) hnp ⟨qa, hqa⟩ ⟨qb, hqb⟩, ?_⟩
    rw [← hqa, ← hqb]; exact not_prefix_of_diverge (pos ++ seg) qa qb false

end PTree

theorem pathsAscending_of_pairwise : ∀ (paths : List (MultiPathProof VH)),
    paths.Pairwise (fun a b => bitsLt a.terminal.path b.terminal.path = true) → pathsAscending paths = true
  | [], _ => rfl
  | [_], _ => rfl
  | a :: b :: rest, h => by
    obtain ⟨h1, h2⟩ := List.pairwise_cons.1 h
    simp only [pathsAscending, bitsLe, Bool.not_not, Bool.and_eq_true]
    exact ⟨h1 b (by simp), pathsAscending_of_pairwise (b :: rest) h2⟩

theorem shared_append_diverge : ∀ (seg q1 q2 : List Bool),
    shared (seg ++ false :: q1) (seg ++ true :: q2) = seg.length
  | [], _, _ => by simp [shared]
  | x :: xs, q1, q2 => by simp [shared, shared_append_diverge xs q1 q2]

/-- **completeness of `verify_range`**: the pre-order layout of a well-formed aligned tree verifies, and
the call returns exactly the tree's output -/
theorem verifyRange_complete (M : Nat) :
    ∀ (T : PTree Node VH) (fuel : Nat) (pos : List Bool) (extra : List Node) (off : Nat),
      T.WF → T.Aligned pos → (∀ p ∈ T.mpaths pos, p.terminal.path.length ≤ M) →
      M + 2 ≤ fuel + pos.length →
      verifyRange H fuel pos pos.length (T.mpaths pos) (T.flat ++ extra) off = .ok (T.out H pos off) := by
  intro T
  induction T with
  | tip t seg us =>
    intro fuel pos extra off hwf hal hM hfuel
    simp only [PTree.WF] at hwf
    simp only [PTree.Aligned] at hal
    have hlen := hal.length_le
    simp only [List.length_append] at hlen
    have h0 := hM { terminal := t, depth := pos.length + seg.length } (by simp [PTree.mpaths])
    simp only at h0
    obtain ⟨f, rfl⟩ : ∃ f, fuel = f + 1 := ⟨fuel - 1, by omega⟩
    simp only [PTree.mpaths, PTree.flat, verifyRange, failIf, checkedSub, sliceFromTo, sliceUpTo,
      Nat.add_sub_cancel_left]
    have h1 : (decide (pos.length + seg.length < pos.length) || decide (pos.length + seg.length > t.path.length)) = false := by
      simp; omega
    have h2 : pos.length ≤ pos.length + seg.length := Nat.le_add_right _ _
    have h3 : decide ((us ++ extra).length < seg.length) = false := by simp; omega
    have h4 : pos.length ≤ pos.length + seg.length ∧ pos.length + seg.length ≤ t.path.length := ⟨h2, hlen⟩
    have h5 : seg.length ≤ (us ++ extra).length := by simp; omega
    have hseg : (t.path.drop pos.length).take seg.length = seg := by
      obtain ⟨q, hq⟩ := hal
      rw [← hq, List.append_assoc, List.drop_left, List.take_left]
    have hus : (us ++ extra).take seg.length = us := by rw [hwf, List.take_left]
    simp only [h1, Bool.false_eq_true, if_false, h2, if_true, Outcome.ok_bind, h3, h4, and_self, h5, hseg, hus,
      Outcome.pure_eq]
    have h3' : decide ((us ++ extra).length < us.length) = false := by simp
    simp only [PTree.out, PTree.hash, PTree.used, PTree.vpaths, PTree.vbis, hwf, h3', Bool.false_eq_true, if_false,
      Outcome.ok_bind]
  | fork seg cs l r ihl ihr =>
    intro fuel pos extra off hwf hal hM hfuel
    obtain ⟨hsc, hwl, hwr⟩ := hwf
    obtain ⟨hall, halr⟩ := hal
    generalize hposl : pos ++ seg ++ [false] = posl at *
    generalize hposr : pos ++ seg ++ [true] = posr at *
    have hposll : posl.length = pos.length + cs.length + 1 := by
      rw [← hposl]; simp only [List.length_append, List.length_cons, List.length_nil, hsc]
    have hposrl : posr.length = pos.length + cs.length + 1 := by
      rw [← hposr]; simp only [List.length_append, List.length_cons, List.length_nil, hsc]
    simp only [PTree.mpaths, hposl, hposr] at hM ⊢
    have hpl := PTree.mpaths_prefix l posl hall
    have hpr := PTree.mpaths_prefix r posr halr
    have hlnn := PTree.mpaths_ne_nil l posl
    have hrnn := PTree.mpaths_ne_nil r posr
    have hll := PTree.mpaths_length l posl
    have hrl := PTree.mpaths_length r posr
    have hlpos := PTree.size_pos l
    have hrpos := PTree.size_pos r
    -- every path is longer than `sd + cb` and has the branch bit of its side
    have hlong : ∀ p ∈ l.mpaths posl ++ r.mpaths posr, pos.length + cs.length < p.terminal.path.length := by
      intro p hp
      rcases List.mem_append.1 hp with h | h
      · have := (hpl p h).length_le; omega
      · have := (hpr p h).length_le; omega
    have hfuel' : 1 ≤ fuel := by
      have h1 := hlong _ (List.mem_append_left _ (List.getLast_mem hlnn))
      have h2 := hM _ (List.mem_append_left _ (List.getLast_mem hlnn))
      omega
    obtain ⟨f, rfl⟩ : ∃ f, fuel = f + 1 := ⟨fuel - 1, by omega⟩
    have hbitl : ∀ p ∈ l.mpaths posl, p.terminal.path[pos.length + cs.length]? = some false := by
      intro p hp
      obtain ⟨q, hq⟩ := hpl p hp
      rw [← hq, ← hposl, List.getElem?_append_left (by simp [hsc]),
        List.getElem?_append_right (by simp [hsc])]
      simp [hsc]
    have hbitr : ∀ p ∈ r.mpaths posr, p.terminal.path[pos.length + cs.length]? = some true := by
      intro p hp
      obtain ⟨q, hq⟩ := hpr p hp
      rw [← hq, ← hposr, List.getElem?_append_left (by simp [hsc]),
        List.getElem?_append_right (by simp [hsc])]
      simp [hsc]
    -- present the range as `first :: p2 :: rest`
    generalize hP : l.mpaths posl ++ r.mpaths posr = P at *
    have hPlen : P.length = l.size + r.size := by rw [← hP, List.length_append, hll, hrl]
    match P, hP, hPlen with
    | [], _, h => simp at h; omega
    | [_], _, h => simp at h; omega
    | first :: p2 :: rest, hP, _ =>
      have hfirst : first ∈ l.mpaths posl := by
        cases hlm : l.mpaths posl with
        | nil => exact absurd hlm hlnn
        | cons x xs =>
          rw [hlm] at hP
          simp only [List.cons_append, List.cons.injEq] at hP
          rw [← hP.1]; simp
      have hlastm : (p2 :: rest).getLast (by simp) ∈ r.mpaths posr := by
        have e1 : (first :: p2 :: rest).getLast (by simp) = (p2 :: rest).getLast (by simp) :=
          List.getLast_cons (by simp)
        rw [← e1]
        have e2 : (first :: p2 :: rest).getLast (by simp) = (r.mpaths posr).getLast hrnn := by
          have := List.getLast_append_right (l := l.mpaths posl) hrnn
          rw [← this]
          congr 1
          exact hP.symm
        rw [e2]; exact List.getLast_mem _
      generalize hlast : (p2 :: rest).getLast (by simp) = last at *
      -- the common bits
      obtain ⟨q1, hq1⟩ := hpl first hfirst
      obtain ⟨q2, hq2⟩ := hpr last hlastm
      have ha : first.terminal.path.drop pos.length = seg ++ false :: q1 := by
        rw [← hq1, ← hposl]; simp [List.append_assoc]
      have hb : last.terminal.path.drop pos.length = seg ++ true :: q2 := by
        rw [← hq2, ← hposr]; simp [List.append_assoc]
      have hshared : shared (first.terminal.path.drop pos.length) (last.terminal.path.drop pos.length) = cs.length := by
        rw [ha, hb, shared_append_diverge, hsc]
      have hfirstseg : (first.terminal.path.drop pos.length).take cs.length = seg := by
        rw [ha, ← hsc, List.take_left]
      -- the bisection search
      let g : MultiPathProof VH → Bool := fun p => p.terminal.path.getD (pos.length + cs.length) false
      have hbit : ∀ p ∈ first :: p2 :: rest, p.terminal.path[pos.length + cs.length]? = some (g p) := fun p hp =>
        getElem?_of_lt_length _ _ (hlong p hp)
      have hf : ∀ x ∈ first :: p2 :: rest, bisectCmp (pos.length + cs.length) x = .ok (if !g x then .lt else .gt) := by
        intro x hx
        simp only [bisectCmp, hbit x hx]
      have hgl : ∀ (j : Nat) (x : MultiPathProof VH), j < l.size → (first :: p2 :: rest)[j]? = some x → g x = false := by
        intro j x hj hx
        rw [← hP, List.getElem?_append_left (by omega)] at hx
        have := hbitl x (List.mem_of_getElem? hx)
        have h2 := hbit x (by rw [← hP]; exact List.mem_append_left _ (List.mem_of_getElem? hx))
        rw [this] at h2; injection h2 with h2; exact h2.symm
      have hgr : ∀ (j : Nat) (x : MultiPathProof VH), l.size ≤ j → (first :: p2 :: rest)[j]? = some x → g x = true := by
        intro j x hj hx
        rw [← hP, List.getElem?_append_right (by omega)] at hx
        have := hbitr x (List.mem_of_getElem? hx)
        have h2 := hbit x (by rw [← hP]; exact List.mem_append_right _ (List.mem_of_getElem? hx))
        rw [this] at h2; injection h2 with h2; exact h2.symm
      have hmono : ∀ (i j : Nat) (x y : MultiPathProof VH), i < j → (first :: p2 :: rest)[i]? = some x →
          (first :: p2 :: rest)[j]? = some y → g x = true → g y = true := by
        intro i j x y hij hx hy hgx
        rcases Nat.lt_or_ge j l.size with h | h
        · have := hgl i x (by omega) hx
          rw [hgx] at this; cases this
        · exact hgr j y h hy
      obtain ⟨idx, hbs, hidxle, hlo, hhi⟩ := binarySearchBy_partition _ (first :: p2 :: rest) g hf hmono
      have hidx : idx = l.size := by
        have hPl : (first :: p2 :: rest).length = l.size + r.size := by
          rw [← hP, List.length_append, hll, hrl]
        rcases Nat.lt_trichotomy idx l.size with h | h | h
        · exfalso
          have hx : (first :: p2 :: rest)[idx]? = some (first :: p2 :: rest)[idx] :=
            List.getElem?_eq_getElem (by omega)
          have h1 := hgl idx _ h hx
          have h2 := hhi idx _ (Nat.le_refl _) hx
          rw [h1] at h2; cases h2
        · exact h
        · exfalso
          have hx : (first :: p2 :: rest)[l.size]? = some (first :: p2 :: rest)[l.size] :=
            List.getElem?_eq_getElem (by omega)
          have h1 := hgr l.size _ (Nat.le_refl _) hx
          have h2 := hlo l.size _ h hx
          rw [h1] at h2; cases h2
      subst hidx
      -- the recursive calls
      have htake : (first :: p2 :: rest).take l.size = l.mpaths posl := by
        rw [← hP, ← hll, List.take_left]
      have hdrop : (first :: p2 :: rest).drop l.size = r.mpaths posr := by
        rw [← hP, ← hll, List.drop_left]
      have hrecl := ihl f posl (r.flat ++ extra) (off + cs.length) hwl hall
        (fun p hp => hM p (by rw [← hP]; exact List.mem_append_left _ hp)) (by omega)
      have hrecr := ihr f posr extra (off + cs.length + l.used) hwr halr
        (fun p hp => hM p (by rw [← hP]; exact List.mem_append_right _ hp)) (by omega)
      -- run
      have hg1 : (decide (first.terminal.path.length < pos.length) || decide (last.terminal.path.length < pos.length)) = false := by
        have h1 := hlong first (by simp)
        have h2 := hlong last (by rw [← hP]; exact List.mem_append_right _ hlastm)
        simp; omega
      have hg2 : ((first :: p2 :: rest).any (fun p => decide (p.terminal.path.length ≤ pos.length + cs.length))) = false := by
        rw [List.any_eq_false]
        intro p hp
        have := hlong p hp
        simp; omega
      have hg3 : decide ((cs ++ l.flat ++ r.flat ++ extra).length < cs.length) = false := by
        simp
      have hsl1 : pos.length ≤ first.terminal.path.length := by have := hlong first (by simp); omega
      have hsl2 : pos.length ≤ last.terminal.path.length := by
        have := hlong last (by rw [← hP]; exact List.mem_append_right _ hlastm); omega
      have hcl1 : pos.length + cs.length + 1 - 1 = pos.length + cs.length := by omega
      have hdropcs : (cs ++ l.flat ++ r.flat ++ extra).drop cs.length = l.flat ++ (r.flat ++ extra) := by
        simp [List.append_assoc]
      have hdropl : (cs ++ l.flat ++ r.flat ++ extra).drop (cs.length + l.used) = r.flat ++ extra := by
        rw [PTree.used_eq_flat, ← List.length_append, List.append_assoc (cs ++ l.flat), List.drop_left]
      have htakecs : (cs ++ l.flat ++ r.flat ++ extra).take cs.length = cs := by
        simp [List.append_assoc]
      have hc1 : cs.length ≤ (cs ++ l.flat ++ r.flat ++ extra).length := by
        simp only [List.length_append]; omega
      have hc2 : cs.length + l.used ≤ (cs ++ l.flat ++ r.flat ++ extra).length := by
        simp only [List.length_append, PTree.used_eq_flat]; omega
      rw [hposll] at hrecl
      rw [hposrl] at hrecr
      have hlu : (l.out H posl (off + cs.length)).used = l.used := rfl
      unfold verifyRange
      simp only [PTree.flat, hlast, failIf, sliceFrom, hg1, Bool.false_eq_true, if_false, Outcome.ok_bind, hsl1, hsl2,
        if_true, hshared, hg2, hg3, hcl1, hbs, Outcome.pure_eq, hfirstseg, hposl, hposr, htake, hdrop,
        hc1, hdropcs, hrecl, hlu, hc2, hdropl, hrecr, htakecs]
      simp only [PTree.out, PTree.hash, PTree.used, PTree.vpaths, PTree.vbis, PTree.ownBis, hposl, hposr,
        List.append_assoc]

/-- **completeness of `verify`**: the layout of a well-formed aligned tree is accepted against the tree's
hash, with the tree's verified paths -/
theorem verifyMulti_complete (T : PTree Node VH) (hwf : T.WF) (hal : T.Aligned []) :
    verifyMulti H { paths := T.mpaths [], siblings := T.flat } (T.hash H) =
      .ok { inner := T.vpaths [] 0, bisections := T.vbis [] 0, siblings := T.flat, root := T.hash H } := by
  have hasc : pathsAscending (T.mpaths []) = true :=
    pathsAscending_of_pairwise _ (List.Pairwise.imp (fun h => h.1) (PTree.mpaths_sorted T [] hal))
  have hr := verifyRange_complete H (maxPathLen (T.mpaths [])) T (verifyFuel (T.mpaths [])) [] [] 0 hwf hal
    (le_maxPathLen _) (by simp [verifyFuel])
  simp only [List.append_nil, List.length_nil] at hr
  simp only [verifyMulti, hasc, Bool.not_true, Bool.false_eq_true, if_false, hr, PTree.out, ne_eq,
    not_true_eq_false, PTree.used_eq_flat]

end Nomt
