import NomtModel.Core.UpdateNoPanic
import NomtModel.Core.VTop
import NomtModel.Core.Top
/-!
C08 / T8.3 glue, part 1: generic facts
* strictly ascending lists are determined by their members (`sorted_ext`);
* canonical sets of full-length keys are strictly ascending (`canon_sorted`);
* sibling-strength soundness of a hash chain (`hashPath_sibs`);
* ascending, pairwise prefix-incomparable paths are canonically arranged (`pcanon_of_sorted`).
-/
set_option linter.unusedSectionVars false
namespace Nomt
variable {Node VH : Type} [DecidableEq Node] [DecidableEq VH] (H : Hasher Node VH)

/-! ### strictly ascending association lists -/

theorem sorted_ext {α : Type} : ∀ (l1 l2 : List (Key × α)), l1.Pairwise KeyLt → l2.Pairwise KeyLt →
    (∀ x, x ∈ l1 ↔ x ∈ l2) → l1 = l2
  | [], [], _, _, _ => rfl
  | [], b :: _, _, _, h => absurd ((h b).mpr (by simp)) (by simp)
  | a :: _, [], _, _, h => absurd ((h a).mp (by simp)) (by simp)
  | a :: as, b :: bs, h1, h2, h => by
    rw [List.pairwise_cons] at h1 h2
    have hab : a = b := by
      by_cases hab : a = b
      · exact hab
      · exfalso
        have ha : a ∈ bs := by
          rcases List.mem_cons.mp ((h a).mp (by simp)) with e | e
          · exact absurd e hab
          · exact e
        have hb : b ∈ as := by
          rcases List.mem_cons.mp ((h b).mpr (by simp)) with e | e
          · exact absurd e.symm hab
          · exact e
        have := bl_asymm _ _ (h1.1 b hb)
        rw [h2.1 a ha] at this; cases this
    subst hab
    have : as = bs := by
      apply sorted_ext as bs h1.2 h2.2
      intro x
      constructor
      · intro hx
        rcases List.mem_cons.mp ((h x).mp (List.mem_cons_of_mem _ hx)) with e | e
        · subst e; have := h1.1 x hx; simp [KeyLt, bl_irrefl] at this
        · exact e
      · intro hx
        rcases List.mem_cons.mp ((h x).mpr (List.mem_cons_of_mem _ hx)) with e | e
        · subst e; have := h2.1 x hx; simp [KeyLt, bl_irrefl] at this
        · exact e
    rw [this]

/-- distinct positions of a strictly ascending list carry distinct keys -/
theorem pairwise_inj {α β : Type} (f : α → β) (R : α → α → Prop) (hR : ∀ a b, R a b → f a ≠ f b) :
    ∀ (l : List α), l.Pairwise R → ∀ a ∈ l, ∀ b ∈ l, f a = f b → a = b := by
  intro l
  induction l with
  | nil => intro _ a ha; cases ha
  | cons x xs ih =>
    intro hp a ha b hb hab
    rw [List.pairwise_cons] at hp
    rcases List.mem_cons.mp ha with ea | ha' <;> rcases List.mem_cons.mp hb with eb | hb'
    · rw [ea, eb]
    · rw [ea] at hab; exact absurd hab (hR _ _ (hp.1 b hb'))
    · rw [eb] at hab; exact absurd hab.symm (hR _ _ (hp.1 a ha'))
    · exact ih hp.2 a ha' b hb' hab

theorem side_sublist (d : Nat) (b : Bool) (S : List (Key × VH)) : (side d b S).Sublist S :=
  List.filter_sublist

theorem restrict_sublist : ∀ (path : List Bool) (d : Nat) (S : List (Key × VH)), (restrict d path S).Sublist S := by
  intro path
  induction path with
  | nil => intro d S; exact List.Sublist.refl _
  | cons b ps ih => intro d S; exact (ih (d+1) _).trans (side_sublist d b S)

/-- membership in a restriction, for keys at least as long as the position -/
theorem mem_restrict_prefix (L : Nat) (S : List (Key × VH)) (hlen : ∀ kv ∈ S, kv.1.length = L)
    (path : List Bool) (hp : path.length ≤ L) (kv : Key × VH) :
    kv ∈ restrict 0 path S ↔ kv ∈ S ∧ path <+: kv.1 := by
  rw [mem_restrict]
  constructor
  · rintro ⟨hS, hb⟩
    refine ⟨hS, bl_prefix_of_getD _ _ (by rw [hlen kv hS]; exact hp) ?_⟩
    intro i hi; simpa using hb i hi
  · rintro ⟨hS, hpre⟩
    refine ⟨hS, ?_⟩
    intro i hi; simpa using bl_getD_of_prefix _ _ hpre i hi

theorem bl_of_bit : ∀ (d : Nat) (x y : List Bool), x.take d = y.take d → d < x.length → d < y.length →
    x.getD d false = false → y.getD d false = true → bitsLt x y = true := by
  intro d
  induction d with
  | zero =>
    intro x y _ hx hy h0 h1
    match x, y, hx, hy with
    | a :: as, b :: bs, _, _ =>
      simp only [List.getD_cons_zero] at h0 h1
      subst h0 h1; rfl
  | succ d ih =>
    intro x y ht hx hy h0 h1
    match x, y, hx, hy with
    | a :: as, b :: bs, hx, hy =>
      simp only [List.take_succ_cons, List.cons.injEq] at ht
      obtain ⟨rfl, ht⟩ := ht
      simp only [bitsLt, beq_self_eq_true, if_true]
      exact ih as bs ht (by simpa using hx) (by simpa using hy) (by simpa using h0) (by simpa using h1)

/-- a canonical set of full-length keys (below a common position) is strictly ascending -/
theorem canon_sorted : ∀ (fuel d : Nat) (S : List (Key × VH)) (p : List Bool),
    Canon fuel d S → (∀ kv ∈ S, kv.1.length = d + fuel) → (∀ kv ∈ S, kv.1.take d = p) →
    S.Pairwise KeyLt := by
  intro fuel
  induction fuel with
  | zero =>
    intro d S p hc _ _
    match S, hc with
    | [], _ => exact List.Pairwise.nil
    | [_], _ => exact List.pairwise_singleton _ _
  | succ f ih =>
    intro d S p hc hlen hp
    match S, hc with
    | [], _ => exact List.Pairwise.nil
    | [_], _ => exact List.pairwise_singleton _ _
    | a :: b :: rest, hc =>
      obtain ⟨hX, c0, c1⟩ := hc
      have hmem : ∀ bit, ∀ kv ∈ side d bit (a :: b :: rest), kv ∈ (a :: b :: rest) :=
        fun bit kv h => (mem_side.mp h).1
      have hside : ∀ bit, (side d bit (a :: b :: rest)).Pairwise KeyLt := by
        intro bit
        apply ih (d+1) _ (p ++ [bit]) (by cases bit; exact c0; exact c1)
        · intro kv h; have := hlen kv (hmem bit kv h); omega
        · intro kv h
          have hm := mem_side.mp h
          rw [take_succ_of_getD kv.1 d (by have := hlen kv hm.1; omega), hp kv hm.1, hm.2]
      have := List.pairwise_append.mpr ⟨hside false, hside true, by
        intro x hx y hy
        have hx' := mem_side.mp hx
        have hy' := mem_side.mp hy
        exact bl_of_bit d x.1 y.1 (by rw [hp x hx'.1, hp y hy'.1])
          (by have := hlen x hx'.1; omega) (by have := hlen y hy'.1; omega) hx'.2 hy'.2⟩
      rwa [← hX] at this

theorem sortedKV_of_keyLt (L : Nat) (S : List (Key × VH)) (hs : S.Pairwise KeyLt)
    (hlen : ∀ kv ∈ S, kv.1.length = L) : SortedKV S := by
  apply List.Pairwise.imp_of_mem _ hs
  intro a b ha hb hab
  exact bl_lexLt _ _ (by rw [hlen a ha, hlen b hb]) hab

/-! ### sibling-strength soundness of a hash chain -/

/-- every sibling of a hash chain that reaches the specified node of `s` is the specified node of the
corresponding sibling sub-trie of `s` -/
theorem hashPath_sibs (hs : H.Sound) (n : Node) :
    ∀ (path : List Bool) (sibs : List Node) (fuel d : Nat) (s : List (Key × VH)),
      sibs.length = path.length →
      hashPath H n path sibs = nodeAt H fuel d s →
      ∀ j, j < path.length →
        sibs.getD j H.term =
          nodeAt H (fuel - (j+1)) (d + (j+1)) (restrict d (path.take j ++ [!(path.getD j false)]) s) := by
  intro path
  induction path with
  | nil => intro sibs fuel d s _ _ j hj; simp at hj
  | cons b ps ih =>
    intro sibs fuel d s hl h j hj
    cases sibs with
    | nil => simp at hl
    | cons sb ss =>
      simp only [List.length_cons, Nat.add_right_cancel_iff] at hl
      simp only [hashPath] at h
      cases b with
      | true =>
        simp only [if_true] at h
        obtain ⟨f, hf, hl', hr'⟩ := nodeAt_kind_internal_cases H hs fuel d s _ _ h.symm
        subst hf
        cases j with
        | zero =>
          simp only [List.getD_cons_zero, List.take_zero, List.nil_append, Bool.not_true, restrict,
            Nat.zero_add, Nat.add_sub_cancel]
          exact hl'
        | succ j =>
          have := ih ss f (d+1) (side d true s) hl hr' j (by simpa using hj)
          simp only [List.getD_cons_succ, List.take_succ_cons, List.cons_append, restrict]
          have e1 : f + 1 - (j + 1 + 1) = f - (j + 1) := by omega
          have e2 : d + (j + 1 + 1) = d + 1 + (j + 1) := by omega
          rw [e1, e2]; exact this
      | false =>
        simp only [Bool.false_eq_true, if_false] at h
        obtain ⟨f, hf, hl', hr'⟩ := nodeAt_kind_internal_cases H hs fuel d s _ _ h.symm
        subst hf
        cases j with
        | zero =>
          simp only [List.getD_cons_zero, List.take_zero, List.nil_append, Bool.not_false, restrict,
            Nat.zero_add, Nat.add_sub_cancel]
          exact hr'
        | succ j =>
          have := ih ss f (d+1) (side d false s) hl hl' j (by simpa using hj)
          simp only [List.getD_cons_succ, List.take_succ_cons, List.cons_append, restrict]
          have e1 : f + 1 - (j + 1 + 1) = f - (j + 1) := by omega
          have e2 : d + (j + 1 + 1) = d + 1 + (j + 1) := by omega
          rw [e1, e2]; exact this

/-! ### `PCanon` from the order on paths -/

abbrev PathLt (a b : PathUpd Node) : Prop := bitsLt a.path b.path = true
abbrev PathIncomp (a b : PathUpd Node) : Prop := ¬ a.path <+: b.path ∧ ¬ b.path <+: a.path

theorem length_of_take_eq (l pfx : List Bool) (e : Nat) (h : l.take e = pfx) (hp : pfx.length = e) :
    e ≤ l.length := by
  have := congrArg List.length h
  simp only [List.length_take] at this
  omega

/-- strictly ascending, pairwise prefix-incomparable paths (all below `pfx`) are canonically arranged -/
theorem pcanon_of_sorted : ∀ (fuel e : Nat) (Q : List (PathUpd Node)) (pfx : List Bool),
    Q.Pairwise PathLt → Q.Pairwise PathIncomp → pfx.length = e → (∀ x ∈ Q, x.path.take e = pfx) →
    (∀ x ∈ Q, x.path.length ≤ e + fuel) → PCanon fuel e Q := by
  intro fuel
  induction fuel with
  | zero =>
    intro e Q pfx hlt hinc hpl hpre hlen
    match Q, hlt with
    | [], _ => simp [PCanon]
    | [p], _ =>
      have := length_of_take_eq _ _ _ (hpre p (by simp)) hpl
      have := hlen p (by simp)
      simp only [PCanon, true_and]; omega
    | p :: q :: rest, hlt =>
      exfalso
      have hp1 := length_of_take_eq _ _ _ (hpre p (by simp)) hpl
      have hp2 := hlen p (by simp)
      have hq1 := length_of_take_eq _ _ _ (hpre q (by simp)) hpl
      have hq2 := hlen q (by simp)
      have e1 : p.path = pfx := by rw [← hpre p (by simp), List.take_of_length_le (by omega)]
      have e2 : q.path = pfx := by rw [← hpre q (by simp), List.take_of_length_le (by omega)]
      have : PathLt p q := (List.pairwise_cons.mp hlt).1 q (by simp)
      simp [PathLt, e1, e2, bl_irrefl] at this
  | succ f ih =>
    intro e Q pfx hlt hinc hpl hpre hlen
    match Q, hlt, hinc with
    | [], _, _ => simp [PCanon]
    | p :: rest, hlt, hinc =>
      have hinc' := List.pairwise_cons.mp hinc
      by_cases hpe : p.path.length = e
      · -- `p` sits exactly at `pfx`: no other path can be below it
        have e1 : p.path = pfx := by rw [← hpre p (by simp), List.take_of_length_le (by omega)]
        cases rest with
        | nil => simp [PCanon, hpe]
        | cons q rest =>
          exfalso
          apply (hinc'.1 q (by simp)).1
          rw [e1, ← hpre q (by simp)]
          exact List.take_prefix _ _
      · have hall : ∀ x ∈ p :: rest, e < x.path.length := by
          intro x hx
          have h1 := length_of_take_eq _ _ _ (hpre x hx) hpl
          by_cases hxe : x.path.length = e
          · exfalso
            have ex : x.path = pfx := by rw [← hpre x hx, List.take_of_length_le (by omega)]
            rcases List.mem_cons.mp hx with rfl | hx'
            · exact hpe hxe
            · apply (hinc'.1 x hx').2
              rw [ex, ← hpre p (by simp)]
              exact List.take_prefix _ _
          · omega
        have hpart := filter_partition (fun x : PathUpd Node => x.path.getD e false) (p :: rest)
          (by
            apply List.Pairwise.imp_of_mem _ hlt
            intro x y hx hy hxy
            exact bl_bit e x.path y.path (by rw [hpre x hx, hpre y hy]) (hall x hx) (hall y hy) hxy)
        have hrec : ∀ bit, PCanon f (e+1) (sideP e bit (p :: rest)) := by
          intro bit
          apply ih (e+1) _ (pfx ++ [bit])
          · exact List.Pairwise.sublist List.filter_sublist hlt
          · exact List.Pairwise.sublist List.filter_sublist hinc
          · simp [hpl]
          · intro x hx
            have hm := mem_sideP.mp hx
            rw [take_succ_of_getD x.path e (hall x hm.1), hpre x hm.1, hm.2]
          · intro x hx
            have := hlen x (mem_sideP.mp hx).1
            omega
        simp only [PCanon]
        right
        exact ⟨hall, hpart, hrec false, hrec true⟩

end Nomt
