import NomtModel.Core.Lemmas2
namespace Nomt
variable {Node VH : Type} (H : Hasher Node VH)

/-- canonical arrangement: equals "strictly sorted" for equal-length keys -/
def Canon : (fuel d : Nat) → List (Key × VH) → Prop
  | _, _, [] => True
  | _, _, [_] => True
  | 0, _, _ :: _ :: _ => False
  | fuel+1, d, a :: b :: rest =>
      (a :: b :: rest) = side d false (a :: b :: rest) ++ side d true (a :: b :: rest)
      ∧ Canon fuel (d+1) (side d false (a :: b :: rest))
      ∧ Canon fuel (d+1) (side d true (a :: b :: rest))

def tgt (skip : Nat) (next : Option Key) (k : Key) : Nat :=
  match next with
  | none => 0
  | some c => sharedRel skip c k + 1

def leafDepth (skip : Nat) (prev : Option Key) (k : Key) (next : Option Key) : Nat :=
  match prev.map (fun p => sharedRel skip p k), next.map (fun c => sharedRel skip c k) with
  | none, none => 0
  | none, some n2 => n2 + 1
  | some n1, none => n1 + 1
  | some n1, some n2 => max n1 n2 + 1

theorem stepKey_eq (skip : Nat) (prev : Option Key) (k : Key) (v : VH) (next : Option Key) (st : Stack Node) :
    stepKey H skip prev k v next st =
      (let r := hashUp H k skip (leafDepth skip prev k next - tgt skip next k) (leafDepth skip prev k next) (H.leaf k v) st
       (r.1, r.2.1) :: r.2.2) := by
  cases prev <;> cases next <;> simp [stepKey, leafDepth, tgt]
  · rename_i a c
    have : sharedRel skip a k - sharedRel skip c k = max (sharedRel skip a k) (sharedRel skip c k) - sharedRel skip c k := by
      omega
    rw [this]
    exact ⟨⟨rfl, rfl⟩, rfl⟩

def blockResult (skip e fuel : Nat) (B : List (Key × VH)) (next : Option Key) (σ : Stack Node) : Stack Node :=
  match B with
  | [] => σ
  | (k, _) :: _ =>
      let t := tgt skip next k
      let r := hashUp H k skip (e - t) e (nodeAt H fuel (skip + e) B) σ
      (r.1, r.2.1) :: r.2.2

/-- one step of `hashUp` when the top of the stack is not at the current layer -/
theorem hashUp_peel_term (k : Key) (skip up e : Nat) (N : Node) (σ : Stack Node)
    (hσ : ∀ x ∈ σ, x.2 ≤ e) :
    hashUp H k skip (up+1) (e+1) N σ =
      hashUp H k skip up e (if k.getD (skip + e) false then H.internal H.term N else H.internal N H.term) σ := by
  simp only [hashUp, Nat.add_sub_cancel]
  cases σ with
  | nil => simp
  | cons x xs =>
    obtain ⟨n, l⟩ := x
    have : l ≤ e := hσ (n, l) (by simp)
    have hne : (l == e + 1) = false := by simp; omega
    simp [hne]

/-- one step of `hashUp` when the top of the stack is the pending left sibling -/
theorem hashUp_peel_pop (k : Key) (skip up e : Nat) (N N0 : Node) (σ : Stack Node) :
    hashUp H k skip (up+1) (e+1) N ((N0, e+1) :: σ) =
      hashUp H k skip up e (if k.getD (skip + e) false then H.internal N0 N else H.internal N N0) σ := by
  simp [hashUp]

end Nomt
