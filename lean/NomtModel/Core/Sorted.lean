import NomtModel.Core.Block2
set_option linter.unusedSectionVars false
namespace Nomt
variable {Node VH : Type}

/-- strict lexicographic order on equal-length bit strings (the `Ord` of `[u8; 32]` read MSB-first) -/
def lexLt : List Bool → List Bool → Prop
  | a :: as, b :: bs => (a = false ∧ b = true) ∨ (a = b ∧ lexLt as bs)
  | _, _ => False

theorem lexLt_irrefl : ∀ (a : List Bool), ¬ lexLt a a
  | [] => by simp [lexLt]
  | x :: xs => by
      simp only [lexLt, not_or, not_and, true_and]
      exact ⟨by cases x <;> simp, lexLt_irrefl xs⟩

/-- with a common `d`-bit prefix, `x < y` forbids `x_d = 1 ∧ y_d = 0` -/
theorem lexLt_bit : ∀ (d : Nat) (x y : List Bool), x.take d = y.take d → lexLt x y →
    ¬ (x.getD d false = true ∧ y.getD d false = false) := by
  intro d
  induction d with
  | zero =>
    intro x y _ hlt
    match x, y, hlt with
    | a :: as, b :: bs, hlt =>
      simp only [lexLt] at hlt
      rcases hlt with ⟨ha, hb⟩ | ⟨hab, _⟩
      · simp [ha, hb]
      · subst hab; cases a <;> simp
  | succ d ih =>
    intro x y ht hlt
    match x, y, hlt with
    | a :: as, b :: bs, hlt =>
      simp only [List.take_succ_cons, List.cons.injEq] at ht
      simp only [lexLt] at hlt
      rcases hlt with ⟨ha, hb⟩ | ⟨_, hlt⟩
      · rw [ha, hb] at ht; cases ht.1
      · simpa using ih as bs ht.2 hlt

/-- a list sorted by a Boolean key is its false part followed by its true part -/
theorem filter_partition {α : Type} (f : α → Bool) : ∀ (l : List α),
    l.Pairwise (fun x y => ¬ (f x = true ∧ f y = false)) →
    l = l.filter (fun x => f x == false) ++ l.filter (fun x => f x == true) := by
  intro l
  induction l with
  | nil => intro _; rfl
  | cons x xs ih =>
    intro hp
    rw [List.pairwise_cons] at hp
    obtain ⟨hx, hxs⟩ := hp
    have ih' := ih hxs
    cases hfx : f x with
    | false =>
      simp only [List.filter_cons, hfx, beq_self_eq_true, if_true]
      simp only [show (false == true) = false from rfl, Bool.false_eq_true, if_false, List.cons_append]
      rw [← ih']
    | true =>
      -- then every later element has key true, so the false part of the tail is empty
      have hall : ∀ y ∈ xs, f y = true := by
        intro y hy
        have := hx y hy
        rw [hfx] at this
        cases hfy : f y with
        | true => rfl
        | false => exact absurd ⟨rfl, hfy⟩ this
      have hf0 : xs.filter (fun x => f x == false) = [] := by
        rw [List.filter_eq_nil_iff]; intro y hy; simp [hall y hy]
      have hf1 : xs.filter (fun x => f x == true) = xs := by
        rw [List.filter_eq_self]; intro y hy; simp [hall y hy]
      simp only [List.filter_cons, hfx, show (true == false) = false from rfl,
        show (true == true) = true from rfl, Bool.false_eq_true, if_false, if_true]
      rw [hf0, hf1]; rfl

def SortedKV (S : List (Key × VH)) : Prop := S.Pairwise (fun x y => lexLt x.1 y.1)

/-- **the Rust precondition implies the structural one**: strictly sorted equal-length keys with a
common prefix are canonically arranged -/
theorem canon_of_sorted : ∀ (fuel d : Nat) (S : List (Key × VH)) (p : List Bool),
    SortedKV S → (∀ kv ∈ S, kv.1.length = d + fuel) → (∀ kv ∈ S, kv.1.take d = p) →
    Canon fuel d S := by
  intro fuel
  induction fuel with
  | zero =>
    intro d S p hs hlen hp
    match S, hs with
    | [], _ => simp [Canon]
    | [_], _ => simp [Canon]
    | a :: b :: rest, hs =>
      exfalso
      have hab : lexLt a.1 b.1 := (List.pairwise_cons.mp hs).1 b (by simp)
      have ha : a.1.take d = a.1 := List.take_of_length_le (by rw [hlen a (by simp)]; omega)
      have hb : b.1.take d = b.1 := List.take_of_length_le (by rw [hlen b (by simp)]; omega)
      have : a.1 = b.1 := by rw [← ha, ← hb, hp a (by simp), hp b (by simp)]
      rw [this] at hab
      exact lexLt_irrefl _ hab
  | succ f ih =>
    intro d S p hs hlen hp
    match S, hs with
    | [], _ => simp [Canon]
    | [_], _ => simp [Canon]
    | a :: b :: rest, hs =>
      have hpart := filter_partition (fun kv : Key × VH => kv.1.getD d false) (a :: b :: rest)
        (by
          apply List.Pairwise.imp_of_mem _ hs
          intro x y hx hy hlt
          exact lexLt_bit d x.1 y.1 (by rw [hp x hx, hp y hy]) hlt)
      have hside : ∀ bit, ∀ kv ∈ side d bit (a :: b :: rest), kv ∈ (a :: b :: rest) :=
        fun bit kv h => (mem_side.mp h).1
      refine ⟨hpart, ?_, ?_⟩
      · apply ih (d+1) _ (p ++ [false])
        · exact List.Pairwise.sublist (List.filter_sublist) hs
        · intro kv h; have := hlen kv (hside false kv h); omega
        · intro kv h
          have hm := mem_side.mp h
          rw [take_succ_of_getD kv.1 d (by have := hlen kv hm.1; omega), hp kv hm.1, hm.2]
      · apply ih (d+1) _ (p ++ [true])
        · exact List.Pairwise.sublist (List.filter_sublist) hs
        · intro kv h; have := hlen kv (hside true kv h); omega
        · intro kv h
          have hm := mem_side.mp h
          rw [take_succ_of_getD kv.1 d (by have := hlen kv hm.1; omega), hp kv hm.1, hm.2]

end Nomt

