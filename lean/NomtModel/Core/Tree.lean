import NomtModel.Core.Complete
/-!
The reference trie as a data structure with cached node hashes: `mkTree` follows the recursion of
`nodeAt`, so that many path proofs over one set cost one hashing pass (`treeProve` reads the cached
sibling hashes).  `mkTree_hash` and `treeProve_eq` tie it to the specification functions `nodeAt` and
`proveAux` — the driver may therefore use it wherever it needs `proveSpec` for many keys.
-/
namespace Nomt
variable {Node VH : Type} [DecidableEq Node] [DecidableEq VH] (H : Hasher Node VH)

inductive Tree (Node VH : Type) where
  | term
  | leaf (k : Key) (v : VH)
  | node (l r : Tree Node VH) (h : Node)

def Tree.hash : Tree Node VH → Node
  | .term => H.term
  | .leaf k v => H.leaf k v
  | .node _ _ h => h

def mkTree : (fuel d : Nat) → List (Key × VH) → Tree Node VH
  | _, _, [] => .term
  | _, _, [(k, v)] => .leaf k v
  | 0, _, (k, v) :: _ => .leaf k v
  | fuel+1, d, s =>
    let l := mkTree fuel (d+1) (side d false s)
    let r := mkTree fuel (d+1) (side d true s)
    .node l r (H.internal (l.hash H) (r.hash H))

theorem mkTree_hash : ∀ (fuel d : Nat) (s : List (Key × VH)), (mkTree H fuel d s).hash H = nodeAt H fuel d s := by
  intro fuel
  induction fuel with
  | zero =>
    intro d s
    match s with
    | [] => simp [mkTree, Tree.hash, nodeAt]
    | [(k, v)] => simp [mkTree, Tree.hash, nodeAt]
    | (k, v) :: b :: rest => simp [mkTree, Tree.hash, nodeAt]
  | succ f ih =>
    intro d s
    match s with
    | [] => simp [mkTree, Tree.hash, nodeAt]
    | [(k, v)] => simp [mkTree, Tree.hash, nodeAt]
    | a :: b :: rest =>
      have e : mkTree H (f+1) d (a :: b :: rest) =
          .node (mkTree H f (d+1) (side d false (a :: b :: rest))) (mkTree H f (d+1) (side d true (a :: b :: rest)))
            (H.internal ((mkTree H f (d+1) (side d false (a :: b :: rest))).hash H) ((mkTree H f (d+1) (side d true (a :: b :: rest))).hash H)) := by
        simp only [mkTree]
      rw [e]
      show H.internal _ _ = _
      rw [ih, ih, nodeAt_two]

def treeProve : Tree Node VH → Nat → Key → Terminal VH × List Node
  | .term, d, k => (.terminator (k.take d), [])
  | .leaf k0 v0, _, _ => (.leaf k0 v0, [])
  | .node l r _, d, k =>
    if k.getD d false then
      let sub := treeProve r (d+1) k
      (sub.1, l.hash H :: sub.2)
    else
      let sub := treeProve l (d+1) k
      (sub.1, r.hash H :: sub.2)

theorem treeProve_eq : ∀ (fuel d : Nat) (s : List (Key × VH)) (k : Key), Canon fuel d s →
    treeProve H (mkTree H fuel d s) d k = proveAux H fuel d s k := by
  intro fuel
  induction fuel with
  | zero =>
    intro d s k hc
    match s, hc with
    | [], _ => simp [mkTree, treeProve, proveAux]
    | [(k0, v0)], _ => simp [mkTree, treeProve, proveAux]
  | succ f ih =>
    intro d s k hc
    match s, hc with
    | [], _ => simp [mkTree, treeProve, proveAux]
    | [(k0, v0)], _ => simp [mkTree, treeProve, proveAux]
    | a :: b :: rest, hc =>
      obtain ⟨_, c0, c1⟩ := hc
      simp only [mkTree, treeProve, proveAux]
      cases hb : k.getD d false
      · simp only [Bool.false_eq_true, if_false, Bool.not_false]
        rw [ih (d+1) _ k c0, mkTree_hash]
      · simp only [if_true, Bool.not_true]
        rw [ih (d+1) _ k c1, mkTree_hash]

/-- the path proof read off the tree; equals `proveSpec` for canonical sets (`treeProve_eq`) -/
def treeProof (t : Tree Node VH) (k : Key) : PathProof Node VH :=
  let r := treeProve H t 0 k
  { terminal := r.1, siblings := r.2 }

theorem treeProof_eq (L : Nat) (s : List (Key × VH)) (k : Key) (hc : Canon L 0 s) :
    treeProof H (mkTree H L 0 s) k = proveSpec H L s k := by
  simp [treeProof, proveSpec, treeProve_eq H L 0 s k hc]

end Nomt
