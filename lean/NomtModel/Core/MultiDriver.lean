import NomtModel.Core.MultiBlock
/-!
The driver loop of `verify_update` (multi_proof.rs:688-815) on an accepted multi-proof:

* `verifyMulti_tree`: what `verify` accepted is a recursion tree (`PTree`) laid out in pre-order;
* `ingest_all`: ingesting all verified terminals, each with an arbitrary list of ops for which `build_trie`
  does not slice out of range, never reaches a panic site and leaves the root the single-path algorithm
  computes on the reconstructed path proofs;
* `multiVerifyUpdate_spec`: the `for (i, (key, op))` loop is such an ingestion — **no panic site is
  reachable**, and an `ok` verdict is `verifyUpdate` on the reconstructed path proofs with the ops split
  by covering terminal.
-/
set_option linter.unusedSectionVars false
namespace Nomt
variable {Node VH : Type} [DecidableEq Node] [DecidableEq VH] (H : Hasher Node VH)

/-! ### an accepted multi-proof is a tree in pre-order -/

/-- `v` is the pre-order layout of the recursion tree `T` -/
structure TreeOf (v : VerifiedMulti Node VH) (T : PTree Node VH) : Prop where
  wf : T.WF
  al : T.Aligned []
  inner : v.inner = T.vpaths [] 0
  bis : v.bisections = T.vbis [] 0
  sibs : v.siblings = T.flat
  root : v.root = T.hash H

theorem verifyMulti_tree (mp : MultiProof Node VH) (root : Node) (v : VerifiedMulti Node VH)
    (hv : verifyMulti H mp root = .ok v) :
    ∃ T : PTree Node VH, TreeOf H v T ∧ (mp.paths ≠ [] → T.mpaths [] = mp.paths) := by
  obtain ⟨hasc, r, hr, hnode, hused, hinner, hbis, hsibs, hroot⟩ := verifyMulti_ok H mp root v hv
  by_cases hne : mp.paths = []
  · rw [hne] at hr
    simp only [verifyFuel, maxPathLen, verifyRange] at hr
    injection hr with hr
    subst hr
    refine ⟨.tip (.terminator []) [] [], ⟨rfl, List.prefix_refl _, ?_, ?_, ?_, ?_⟩, fun h => absurd hne h⟩
    · rw [hinner]; rfl
    · rw [hbis]; rfl
    · rw [hsibs]
      simp only at hused
      exact List.eq_nil_of_length_eq_zero hused.symm
    · rw [hroot, ← hnode]; rfl
  · obtain ⟨T, hwf, hal, hout, hflat, hle, hmp⟩ := verifyRange_tree H _ [] 0 mp.paths mp.siblings 0 r hr rfl hne
      (by intro p _; simp) (pathsAscending_pairwise mp.paths hasc)
    have hu : T.used = mp.siblings.length := by rw [← hused, hout]; rfl
    refine ⟨T, ⟨hwf, hal, ?_, ?_, ?_, ?_⟩, fun _ => hmp⟩
    · rw [hinner, hout]; rfl
    · rw [hbis, hout]; rfl
    · rw [hsibs, ← hflat, hu, List.take_length]
    · rw [hroot, ← hnode, hout]; rfl

/-! ### ingesting everything -/

/-- `build_trie` does not slice out of range for the ops `A i` under terminal `i` -/
def SafeA (L : Nat) (v : VerifiedMulti Node VH) (A : Nat → List (Key × Option VH)) : Prop :=
  ∀ i t, v.inner[i]? = some t →
    buildTrieSlicePanics L t.depth (leafOpsSpliced t.terminal.asLeaf (A i)) = false

/-- the initial loop state of `verify_update` -/
abbrev MSt.init : MSt Node := ([], {})

/-- **all terminals**: from the initial state, ingesting every verified terminal succeeds and computes
the single-path algorithm's stack on the reconstructed path proofs -/
theorem ingest_all (L : Nat) (v : VerifiedMulti Node VH) (T : PTree Node VH) (hT : TreeOf H v T)
    (A : Nat → List (Key × Option VH)) (hsafe : SafeA L v A) :
    ∃ cs', ingestN H L v A v.inner.length 0 MSt.init = .ok (runV H (T.upds H A [] [] 0) none [], cs') := by
  have hlen : v.inner.length = T.size := by rw [hT.inner, PTree.vpaths_length]
  have hpos := PTree.size_pos T
  have hin : SegAt v.inner 0 (T.vpaths [] 0) := by rw [hT.inner]; exact SegAt.of_eq _
  have hbis : SegAt v.bisections 0 (T.vbis [] 0) := by rw [hT.bis]; exact SegAt.of_eq _
  have hsib : SegAt v.siblings 0 T.flat := by rw [hT.sibs]; exact SegAt.of_eq _
  obtain ⟨tl, hfirst⟩ := PTree.vpaths_eq_first T [] 0
  have h0 : v.inner[0]? = some (T.first [] 0) := by rw [hT.inner, hfirst]; rfl
  obtain ⟨cs1, hadv, hs1, ht1, hb1, hti1⟩ := advanceLoop_first H v T [] 0 [] 0 (v.bisections.length + 1) true
    ({} : CommonSiblings Node) hT.wf rfl hbis hsib rfl rfl rfl (by intro _ e he; cases he)
    (by
      have h1 := PTree.leftBisN_le T [] 0
      have h2 := hbis.length_le
      omega)
  have hadv' : ({} : CommonSiblings Node).advance v = .ok cs1 := by
    rw [advance_eq]
    show (getIdx _ v.inner 0 >>= _) = _
    rw [getIdx_some _ _ _ _ h0]
    exact hadv
  have hnone : v.inner[0 + T.size]? = none := by
    rw [List.getElem?_eq_none_iff]; omega
  obtain ⟨cs', hr, _, _, _, _, _⟩ := ingest_block H L v A hsafe T [] [] 0 0 0 0 [] cs1 hT.wf hT.al rfl hin hbis hsib
    (by simpa using hs1) ht1 (by simpa using hb1) (by simpa using hti1)
    ⟨Nat.le_refl _, by rw [hnone]⟩
    ⟨List.Pairwise.nil, (by intro e he; cases he), (by intro d h1 h2; simp at h2; omega)⟩
  rw [hnone] at hr
  refine ⟨cs', ?_⟩
  have e : v.inner.length = (T.size - 1) + 1 := by omega
  rw [e]
  simp only [ingestN, ingestOne, hadv', Outcome.ok_bind]
  exact hr

theorem ingestN_prefix_ok (L : Nat) (v : VerifiedMulti Node VH) (A : Nat → List (Key × Option VH)) :
    ∀ (m n ti : Nat) (st st' : MSt Node), ingestN H L v A (m + n) ti st = .ok st' →
      ∃ s, ingestN H L v A m ti st = .ok s ∧ ingestN H L v A n (ti + m) s = .ok st' := by
  intro m n ti st st' h
  rw [ingestN_add] at h
  exact Outcome.bind_eq_ok h

/-- from any reachable state, further terminals can be ingested -/
theorem reach_extend (L : Nat) (v : VerifiedMulti Node VH) (T : PTree Node VH) (hT : TreeOf H v T)
    (A : Nat → List (Key × Option VH)) (hsafe : SafeA L v A) (k m : Nat) (st : MSt Node)
    (hk : ingestN H L v A k 0 MSt.init = .ok st) (hkm : k + m ≤ v.inner.length) :
    ∃ st', ingestN H L v A m k st = .ok st' ∧ ingestN H L v A (k + m) 0 MSt.init = .ok st' := by
  obtain ⟨cs', hall⟩ := ingest_all H L v T hT A hsafe
  have e : v.inner.length = (k + m) + (v.inner.length - (k + m)) := by omega
  rw [e] at hall
  obtain ⟨s, hs, _⟩ := ingestN_prefix_ok H L v A _ _ _ _ _ hall
  obtain ⟨s0, hs0, hs1⟩ := ingestN_prefix_ok H L v A _ _ _ _ _ hs
  rw [hk] at hs0
  injection hs0 with hs0
  subst hs0
  rw [Nat.zero_add] at hs1
  exact ⟨s, hs1, hs⟩

/-! ### the loops of `verify_update` are ingestions -/

theorem ingestRange_eq (L : Nat) (v : VerifiedMulti Node VH) :
    ∀ (n ti : Nat) (st : MSt Node), ti + n < v.inner.length →
      ingestRange H L v n ti st = ingestN H L v (fun _ => []) n ti st := by
  intro n
  induction n with
  | zero => intro ti st _; rfl
  | succ n ih =>
    intro ti st h
    have h1 : ti < v.inner.length := by omega
    have h2 : ti + 1 < v.inner.length := by omega
    simp only [ingestRange, ingestN, ingestOne, hctOne,
      getIdx_some _ _ _ _ (List.getElem?_eq_getElem h1), getIdx_some _ _ _ _ (List.getElem?_eq_getElem h2),
      Outcome.ok_bind, List.getElem?_eq_getElem h2, Outcome.bind_assoc]
    congr 1
    funext cs
    congr 1
    funext st'
    exact ih (ti + 1) st' (by omega)

theorem ingestFinal_eq (L : Nat) (v : VerifiedMulti Node VH) (ui : Nat) (W : List (Key × Option VH)) :
    ∀ (n ti : Nat) (st : MSt Node), ti + n ≤ v.inner.length →
      ingestFinal H L v ui W n ti st = ingestN H L v (fun i => if i = ui then W else []) n ti st := by
  intro n
  induction n with
  | zero => intro ti st _; rfl
  | succ n ih =>
    intro ti st h
    have h1 : ti < v.inner.length := by omega
    simp only [ingestFinal, ingestN, ingestOne, hctOne,
      getIdx_some _ _ _ _ (List.getElem?_eq_getElem h1), Outcome.ok_bind, Outcome.bind_assoc]
    have hif : (if (ti == ui) = true then W else []) = (if ti = ui then W else []) := by
      by_cases hh : ti = ui <;> simp [hh]
    rw [hif]
    congr 1
    funext cs
    congr 1
    funext st'
    exact ih (ti + 1) st' (by omega)

/-- the ops handed to the terminals below `k`, in order -/
def opsUpTo (A : Nat → List (Key × Option VH)) : Nat → List (Key × Option VH)
  | 0 => []
  | k+1 => opsUpTo A k ++ A k

theorem opsUpTo_congr (A A' : Nat → List (Key × Option VH)) : ∀ (k : Nat), (∀ i, i < k → A i = A' i) →
    opsUpTo A k = opsUpTo A' k
  | 0, _ => rfl
  | k+1, h => by
    simp only [opsUpTo]
    rw [opsUpTo_congr A A' k (fun i hi => h i (by omega)), h k (by omega)]

theorem opsUpTo_empty (A : Nat → List (Key × Option VH)) (a : Nat) : ∀ (b : Nat), a ≤ b →
    (∀ i, a ≤ i → i < b → A i = []) → opsUpTo A b = opsUpTo A a := by
  intro b
  induction b with
  | zero => intro h _; have : a = 0 := by omega
            subst this; rfl
  | succ b ih =>
    intro h hA
    by_cases hab : a = b + 1
    · subst hab; rfl
    · simp only [opsUpTo]
      rw [hA b (by omega) (by omega), List.append_nil]
      exact ih (by omega) (fun i h1 h2 => hA i h1 (by omega))

theorem mem_opsUpTo (A : Nat → List (Key × Option VH)) (o : Key × Option VH) : ∀ (k : Nat),
    o ∈ opsUpTo A k ↔ ∃ i, i < k ∧ o ∈ A i
  | 0 => by simp [opsUpTo]
  | k+1 => by
    simp only [opsUpTo, List.mem_append, mem_opsUpTo A o k]
    constructor
    · rintro (⟨i, hi, ho⟩ | ho)
      · exact ⟨i, by omega, ho⟩
      · exact ⟨k, by omega, ho⟩
    · rintro ⟨i, hi, ho⟩
      by_cases hik : i = k
      · subst hik; exact Or.inr ho
      · exact Or.inl ⟨i, by omega, ho⟩

/-! ### `terminal_contains` and the terminal search -/

theorem findTerminalFrom_ok (key : Key) : ∀ (ts : List (VPath VH)) (i j : Nat),
    findTerminalFrom key ts i = .ok j →
    i ≤ j ∧ ∃ t, ts[j - i]? = some t ∧ terminalContains t key = .ok true
  | [], _, _, h => by simp [findTerminalFrom] at h
  | t :: rest, i, j, h => by
    unfold findTerminalFrom at h
    obtain ⟨b, hb, h⟩ := Outcome.bind_eq_ok h
    cases b with
    | true =>
      simp only [if_true, Outcome.pure_eq] at h
      injection h with h
      subst h
      exact ⟨Nat.le_refl _, t, by simp, hb⟩
    | false =>
      simp only [Bool.false_eq_true, if_false] at h
      obtain ⟨h1, t', ht', hc⟩ := findTerminalFrom_ok key rest (i + 1) j h
      refine ⟨by omega, t', ?_, hc⟩
      have : j - i = (j - (i + 1)) + 1 := by omega
      rw [this, List.getElem?_cons_succ]
      exact ht'

theorem terminalContains_true (t : VPath VH) (key : Key) (h : terminalContains t key = .ok true) :
    key.take t.depth = t.terminal.path.take t.depth := by
  unfold terminalContains at h
  obtain ⟨a, ha, h⟩ := Outcome.bind_eq_ok h
  obtain ⟨b, hb, h⟩ := Outcome.bind_eq_ok h
  simp only [Outcome.pure_eq] at h
  injection h with h
  rw [(sliceUpTo_ok ha).2, (sliceUpTo_ok hb).2] at h
  simpa using h

/-- ops under one verified terminal: `build_trie` stays in range -/
theorem safe_of_covered (L : Nat) (t : VPath VH) (W : List (Key × Option VH))
    (hleaf : ∀ k x, t.terminal = .leaf k x → k.length = L)
    (hs : W.Pairwise KeyLt) (hl : ∀ o ∈ W, o.1.length = L)
    (hc : ∀ o ∈ W, o.1.take t.depth = t.terminal.path.take t.depth) :
    buildTrieSlicePanics L t.depth (leafOpsSpliced t.terminal.asLeaf W) = false := by
  apply buildTrieSlicePanics_false L t.depth (t.terminal.path.take t.depth) _ (leafOpsSpliced_sorted _ _ hs)
  · intro o ho
    rcases (mem_leafOpsSpliced _ _ hs o).1 ho with h | ⟨h, _⟩
    · exact hl _ h
    · cases ht : t.terminal with
      | leaf k x =>
        rw [ht] at h
        simp only [Terminal.asLeaf, Option.some.injEq] at h
        rw [← h]; exact hleaf k x ht
      | terminator p => rw [ht] at h; cases h
  · intro o ho
    rcases (mem_leafOpsSpliced _ _ hs o).1 ho with h | ⟨h, _⟩
    · exact hc _ h
    · cases ht : t.terminal with
      | leaf k x =>
        rw [ht] at h
        simp only [Terminal.asLeaf, Option.some.injEq] at h
        rw [← h]; rfl
      | terminator p => rw [ht] at h; cases h

theorem safe_nil (L : Nat) (t : VPath VH) :
    buildTrieSlicePanics L t.depth (leafOpsSpliced t.terminal.asLeaf []) = false := by
  cases t.terminal <;> rfl

end Nomt
