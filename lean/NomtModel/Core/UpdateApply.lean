import NomtModel.Core.UpdateGlue2
import NomtModel.Api.KV
/-!
C08 / T8.3 glue, part 3: the updated set of `pathVerifyUpdate_eq_root` is the sequential model's
`kvApply` (Api/KV.lean) of all the ops of the call.
(Lemma names are prefixed `glue_` — order/sortedness lemmas about `kvInsert`/`kvErase` are also being proved
elsewhere.)
-/
set_option linter.unusedSectionVars false
namespace Nomt
variable {Node VH : Type} [DecidableEq Node] [DecidableEq VH]

theorem glue_mem_kvInsert (k : Key) (v : VH) : ∀ (m : KVL VH), m.Pairwise KeyLt → ∀ k' v',
    (k', v') ∈ kvInsert m k v ↔ ((k' = k ∧ v' = v) ∨ (k' ≠ k ∧ (k', v') ∈ m)) := by
  intro m
  induction m with
  | nil => intro _ k' v'; simp [kvInsert]
  | cons x rest ih =>
    intro hp k' v'
    obtain ⟨k0, v0⟩ := x
    rw [List.pairwise_cons] at hp
    obtain ⟨h0, hrest⟩ := hp
    simp only [kvInsert]
    by_cases h1 : k0 = k
    · subst h1
      have hne : (k', v') ∈ rest → k' ≠ k0 := fun h => (bl_ne (h0 _ h)).symm
      simp only [beq_self_eq_true, if_true, List.mem_cons, Prod.mk.injEq]
      constructor
      · rintro (h | h)
        · exact Or.inl h
        · exact Or.inr ⟨hne h, Or.inr h⟩
      · rintro (h | ⟨hk, h | h⟩)
        · exact Or.inl h
        · exact absurd h.1 hk
        · exact Or.inr h
    · have h1' : (k0 == k) = false := by simpa using h1
      simp only [h1', Bool.false_eq_true, if_false]
      by_cases h2 : bitsLt k k0 = true
      · have hne : (k', v') ∈ (k0, v0) :: rest → k' ≠ k := by
          intro h
          rcases List.mem_cons.mp h with e | e
          · simp only [Prod.mk.injEq] at e; rw [e.1]; exact (bl_ne h2).symm
          · exact (bl_ne (bl_trans _ _ _ h2 (h0 _ e))).symm
        simp only [h2, if_true]
        rw [List.mem_cons]
        simp only [Prod.mk.injEq]
        constructor
        · rintro (h | h)
          · exact Or.inl h
          · exact Or.inr ⟨hne h, h⟩
        · rintro (h | ⟨_, h⟩)
          · exact Or.inl h
          · exact Or.inr h
      · simp only [h2, Bool.false_eq_true, if_false]
        rw [List.mem_cons, ih hrest k' v', List.mem_cons]
        simp only [Prod.mk.injEq]
        constructor
        · rintro (⟨rfl, rfl⟩ | h | ⟨hk, h⟩)
          · exact Or.inr ⟨h1, Or.inl ⟨rfl, rfl⟩⟩
          · exact Or.inl h
          · exact Or.inr ⟨hk, Or.inr h⟩
        · rintro (h | ⟨hk, h | h⟩)
          · exact Or.inr (Or.inl h)
          · exact Or.inl h
          · exact Or.inr (Or.inr ⟨hk, h⟩)

theorem glue_kvInsert_sorted (k : Key) (v : VH) : ∀ (m : KVL VH), m.Pairwise KeyLt →
    (kvInsert m k v).Pairwise KeyLt := by
  intro m
  induction m with
  | nil => intro _; simp [kvInsert]
  | cons x rest ih =>
    intro hp
    obtain ⟨k0, v0⟩ := x
    have hp' := List.pairwise_cons.mp hp
    obtain ⟨h0, hrest⟩ := hp'
    simp only [kvInsert]
    by_cases h1 : k0 = k
    · subst h1
      simp only [beq_self_eq_true, if_true]
      exact List.pairwise_cons.mpr ⟨fun a ha => h0 a ha, hrest⟩
    · have h1' : (k0 == k) = false := by simpa using h1
      simp only [h1', Bool.false_eq_true, if_false]
      by_cases h2 : bitsLt k k0 = true
      · simp only [h2, if_true]
        refine List.pairwise_cons.mpr ⟨?_, hp⟩
        intro a ha
        rcases List.mem_cons.mp ha with rfl | ha
        · exact h2
        · exact bl_trans _ _ _ h2 (h0 a ha)
      · simp only [h2, Bool.false_eq_true, if_false]
        refine List.pairwise_cons.mpr ⟨?_, ih hrest⟩
        rintro ⟨k', v'⟩ ha
        rcases (glue_mem_kvInsert k v rest hrest k' v').mp ha with ⟨rfl, _⟩ | ⟨_, ha⟩
        · exact bl_total _ _ (by simpa using h2) (fun e => h1 e.symm)
        · exact h0 _ ha

theorem glue_mem_kvErase (k : Key) : ∀ (m : KVL VH), m.Pairwise KeyLt → ∀ k' v',
    (k', v') ∈ kvErase m k ↔ (k' ≠ k ∧ (k', v') ∈ m) := by
  intro m
  induction m with
  | nil => intro _ k' v'; simp [kvErase]
  | cons x rest ih =>
    intro hp k' v'
    obtain ⟨k0, v0⟩ := x
    rw [List.pairwise_cons] at hp
    obtain ⟨h0, hrest⟩ := hp
    simp only [kvErase]
    by_cases h1 : k0 = k
    · subst h1
      have hne : (k', v') ∈ rest → k' ≠ k0 := fun h => (bl_ne (h0 _ h)).symm
      simp only [beq_self_eq_true, if_true, List.mem_cons, Prod.mk.injEq]
      constructor
      · intro h; exact ⟨hne h, Or.inr h⟩
      · rintro ⟨hk, h | h⟩
        · exact absurd h.1 hk
        · exact h
    · have h1' : (k0 == k) = false := by simpa using h1
      simp only [h1', Bool.false_eq_true, if_false]
      rw [List.mem_cons, ih hrest k' v', List.mem_cons]
      simp only [Prod.mk.injEq]
      constructor
      · rintro (⟨rfl, rfl⟩ | ⟨hk, h⟩)
        · exact ⟨h1, Or.inl ⟨rfl, rfl⟩⟩
        · exact ⟨hk, Or.inr h⟩
      · rintro ⟨hk, h | h⟩
        · exact Or.inl h
        · exact Or.inr ⟨hk, h⟩

theorem glue_kvErase_sorted (k : Key) : ∀ (m : KVL VH), m.Pairwise KeyLt → (kvErase m k).Pairwise KeyLt := by
  intro m
  induction m with
  | nil => intro _; simp [kvErase]
  | cons x rest ih =>
    intro hp
    obtain ⟨k0, v0⟩ := x
    rw [List.pairwise_cons] at hp
    obtain ⟨h0, hrest⟩ := hp
    simp only [kvErase]
    by_cases h1 : k0 = k
    · subst h1; simp only [beq_self_eq_true, if_true]; exact hrest
    · have h1' : (k0 == k) = false := by simpa using h1
      simp only [h1', Bool.false_eq_true, if_false]
      refine List.pairwise_cons.mpr ⟨?_, ih hrest⟩
      rintro ⟨k', v'⟩ ha
      exact h0 _ ((glue_mem_kvErase k rest hrest k' v').mp ha).2

theorem glue_kvWrite_sorted (k : Key) (w : Option VH) (m : KVL VH) (h : m.Pairwise KeyLt) :
    (kvWrite m k w).Pairwise KeyLt := by
  cases w with
  | none => exact glue_kvErase_sorted k m h
  | some v => exact glue_kvInsert_sorted k v m h

theorem glue_mem_kvWrite (k : Key) (w : Option VH) (m : KVL VH) (h : m.Pairwise KeyLt) (k' : Key) (v' : VH) :
    (k', v') ∈ kvWrite m k w ↔ ((k' = k ∧ w = some v') ∨ (k' ≠ k ∧ (k', v') ∈ m)) := by
  cases w with
  | none => simp only [kvWrite, glue_mem_kvErase k m h]; simp
  | some v =>
    simp only [kvWrite, glue_mem_kvInsert k v m h, Option.some.injEq]
    constructor
    · rintro (⟨h1, h2⟩ | h) ; exact Or.inl ⟨h1, h2.symm⟩; exact Or.inr h
    · rintro (⟨h1, h2⟩ | h) ; exact Or.inl ⟨h1, h2.symm⟩; exact Or.inr h

/-- the sequential model's batch application meets the specification `UpdatedSet` (distinct write keys) -/
theorem kvApply_updatedSet : ∀ (ops : List (Key × Option VH)) (m : KVL VH), m.Pairwise KeyLt →
    ops.Pairwise (fun a b => a.1 ≠ b.1) → UpdatedSet m ops (kvApply m ops) := by
  intro ops
  induction ops with
  | nil =>
    intro m hm _
    exact ⟨hm, by intro k v; simp [kvApply]⟩
  | cons o rest ih =>
    intro m hm hd
    rw [List.pairwise_cons] at hd
    obtain ⟨k0, w0⟩ := o
    have hstep : kvApply m ((k0, w0) :: rest) = kvApply (kvWrite m k0 w0) rest := rfl
    have U := ih (kvWrite m k0 w0) (glue_kvWrite_sorted k0 w0 m hm) hd.2
    rw [hstep]
    refine ⟨U.sorted, ?_⟩
    intro k v
    rw [U.mem, glue_mem_kvWrite k0 w0 m hm]
    constructor
    · rintro (h | ⟨⟨rfl, rfl⟩ | ⟨hk, hm'⟩, hne⟩)
      · exact Or.inl (List.mem_cons_of_mem _ h)
      · exact Or.inl (by simp)
      · refine Or.inr ⟨hm', ?_⟩
        intro o ho
        rcases List.mem_cons.mp ho with rfl | ho
        · exact fun e => hk e.symm
        · exact hne o ho
    · rintro (h | ⟨hm', hne⟩)
      · rcases List.mem_cons.mp h with e | h
        · simp only [Prod.mk.injEq] at e
          obtain ⟨rfl, rfl⟩ := e
          refine Or.inr ⟨Or.inl ⟨rfl, rfl⟩, ?_⟩
          intro o ho e
          exact hd.1 o ho e.symm
        · exact Or.inl h
      · refine Or.inr ⟨Or.inr ⟨fun e => hne (k0, w0) (by simp) e.symm, hm'⟩, ?_⟩
        intro o ho
        exact hne o (List.mem_cons_of_mem _ ho)

variable {H : Hasher Node VH} {L : Nat} {S : List (Key × VH)} {paths : List (PathUpdateIn Node VH)}

/-- the ops of a checked call have pairwise distinct keys -/
theorem GlueCtx.allOps_distinct (c : GlueCtx H L S paths) :
    (allOps paths).Pairwise (fun a b => a.1 ≠ b.1) := by
  rw [allOps, List.pairwise_flatMap]
  constructor
  · intro p hp
    exact List.Pairwise.imp (fun h => bl_ne h) (c.opsSorted p hp)
  · apply List.Pairwise.imp_of_mem _ c.sortedPaths
    intro a b ha hb hab x hx y hy e
    have := c.same_ext a b ha hb x.1 (c.opsPrefix a ha x hx) (e ▸ c.opsPrefix b hb y hy)
    subst this
    rw [bl_irrefl] at hab; cases hab

theorem GlueCtx.updatedSet (c : GlueCtx H L S paths) : UpdatedSet S (allOps paths) (kvApply S (allOps paths)) :=
  kvApply_updatedSet _ S c.sortedS c.allOps_distinct

/-- **T8.3**: when the checks pass, `verify_update` returns the root of `kvApply S ops` -/
theorem pathVerifyUpdate_eq_kvApply (c : GlueCtx H L S paths) (hne : paths ≠ []) :
    pathVerifyUpdate H L (nodeAt H L 0 S) paths = .ok (nodeAt H L 0 (kvApply S (allOps paths))) :=
  pathVerifyUpdate_eq_root c hne c.updatedSet

/-- **T8.3, soundness form**: whatever ops/paths order the caller supplies, an `ok` verdict of `verify_update`
on paths verified against the root of `S` is the root of `kvApply S ops`. -/
theorem pathVerifyUpdate_sound (hs : H.Sound) (hc : Canon L 0 S) (hlen : ∀ kv ∈ S, kv.1.length = L)
    (hv : ∀ p ∈ paths, VerifiedFor H L S p.inner) (hol : ∀ p ∈ paths, ∀ o ∈ p.ops, o.1.length = L)
    (r : Node) (h : pathVerifyUpdate H L (nodeAt H L 0 S) paths = .ok r) :
    r = nodeAt H L 0 (kvApply S (allOps paths)) := by
  by_cases hne : paths = []
  · subst hne
    simp only [pathVerifyUpdate, List.isEmpty_nil, if_true, Outcome.ok.injEq] at h
    rw [← h]; rfl
  · have hemp : paths.isEmpty = false := by cases paths <;> simp_all
    cases hchk : checkPaths (nodeAt H L 0 S) none paths with
    | some e => simp [pathVerifyUpdate, hemp, hchk] at h
    | none =>
      rw [pathVerifyUpdate_eq_kvApply ⟨hs, hc, hlen, hv, hol, hchk⟩ hne] at h
      injection h with h; exact h.symm

end Nomt
