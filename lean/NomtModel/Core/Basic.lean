namespace Nomt

abbrev Key := List Bool

inductive Kind where | terminator | leaf | internal
deriving DecidableEq, Repr

structure Hasher (Node : Type) (VH : Type) where
  term : Node
  leaf : Key → VH → Node
  internal : Node → Node → Node
  kind : Node → Kind

structure Hasher.Sound {Node VH} (H : Hasher Node VH) : Prop where
  kind_term : H.kind H.term = .terminator
  kind_leaf : ∀ k v, H.kind (H.leaf k v) = .leaf
  kind_internal : ∀ l r, H.kind (H.internal l r) = .internal
  term_only : ∀ n, H.kind n = .terminator → n = H.term
  leaf_inj : ∀ k v k' v', H.leaf k v = H.leaf k' v' → k = k' ∧ v = v'
  internal_inj : ∀ l r l' r', H.internal l r = H.internal l' r' → l = l' ∧ r = r'

variable {Node VH : Type} (H : Hasher Node VH)

/-- entries whose key has bit `d` equal to `b` -/
def side (d : Nat) (b : Bool) (s : List (Key × VH)) : List (Key × VH) :=
  s.filter (fun kv => kv.1.getD d false == b)

/-- the specified node at depth `d` for the set `s` (all sharing the first d bits); `fuel` = remaining bits -/
def nodeAt : (fuel : Nat) → (d : Nat) → List (Key × VH) → Node
  | _, _, [] => H.term
  | _, _, [(k, v)] => H.leaf k v
  | 0, _, (k, v) :: _ => H.leaf k v   -- unreachable for distinct keys of length d
  | fuel+1, d, s => H.internal (nodeAt fuel (d+1) (side d false s)) (nodeAt fuel (d+1) (side d true s))

def hashPath (node : Node) : (path : List Bool) → (siblingsTopDown : List Node) → Node
  | b :: ps, s :: ss =>
      let below := hashPath node ps ss
      if b then H.internal s below else H.internal below s
  | _, _ => node

end Nomt
