import NomtModel.Core.Basic
/-! Bit-string order (Rust `BitSlice: Ord`, `[u8; 32]: Ord` on the MSB-first bit view). -/
namespace Nomt

/-- lexicographic order on bit strings, a proper prefix being smaller -/
def bitsLt : List Bool → List Bool → Bool
  | [], [] => false
  | [], _ :: _ => true
  | _ :: _, [] => false
  | a :: as, b :: bs => if a == b then bitsLt as bs else (!a && b)

/-- `bitsLt` is irreflexive (stated once, next to the definition: `Core/MultiSound.lean` and `Api/KVLemmas.lean` both need it and
must stay co-importable) -/
theorem bitsLt_irrefl : ∀ (a : List Bool), bitsLt a a = false
  | [] => rfl
  | x :: xs => by simp [bitsLt, bitsLt_irrefl xs]

def bitsLe (a b : List Bool) : Bool := !bitsLt b a

end Nomt
