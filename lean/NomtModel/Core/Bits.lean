import NomtModel.Core.Basic
/-! Bit-string order (Rust `BitSlice: Ord`, `[u8; 32]: Ord` on the MSB-first bit view). -/
namespace Nomt

/-- lexicographic order on bit strings, a proper prefix being smaller -/
def bitsLt : List Bool → List Bool → Bool
  | [], [] => false
  | [], _ :: _ => true
  | _ :: _, [] => false
  | a :: as, b :: bs => if a == b then bitsLt as bs else (!a && b)

def bitsLe (a b : List Bool) : Bool := !bitsLt b a

end Nomt
