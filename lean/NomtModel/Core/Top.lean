import NomtModel.Core.Main
namespace Nomt
variable {Node VH : Type} (H : Hasher Node VH)

/-- `build_trie` (mirror of core/src/update.rs) computes the specified sub-trie root. -/
theorem buildTrie_eq_nodeAt (skip fuel : Nat) (B : List (Key × VH)) (p : List Bool)
    (hcan : Canon fuel skip B)
    (hlen : ∀ kv ∈ B, kv.1.length = skip + fuel)
    (hp : ∀ kv ∈ B, kv.1.take skip = p) :
    buildTrie H skip B = nodeAt H fuel skip B := by
  match B, hcan with
  | [], _ => simp [buildTrie, nodeAt_nil]
  | [(k, v)], _ => simp [buildTrie, nodeAt_single]
  | a :: b :: rest, hcan =>
    have h := run_block H skip fuel 0 (a :: b :: rest) none none [] p (by simp)
      (by simpa using hcan) (by simpa using hlen) (by simpa using hp)
      (by intro x hx; cases hx) (by intro x hx; cases hx)
      (by intro k v h; simp at h) (by intro x hx; cases hx)
    obtain ⟨ka, va⟩ := a
    simp only [buildTrie, h, blockResult, tgt, Nat.sub_self, hashUp, Nat.add_zero]

end Nomt


