import NomtModel.Core.Basic
/-! The free (term-building) hasher: it satisfies `Hasher.Sound`, so every theorem with a `Sound`
hypothesis is non-vacuous. -/
namespace Nomt

inductive T where
  | term | leaf (k : Key) (v : Nat) | node (l r : T)
deriving DecidableEq, Repr

def TH : Hasher T Nat where
  term := .term
  leaf := .leaf
  internal := .node
  kind := fun | .term => .terminator | .leaf .. => .leaf | .node .. => .internal

theorem TH_sound : TH.Sound where
  kind_term := rfl
  kind_leaf := fun _ _ => rfl
  kind_internal := fun _ _ => rfl
  term_only := by intro n h; cases n <;> simp_all [TH]
  leaf_inj := by intro k v k' v' h; simp [TH] at h; exact h
  internal_inj := by intro l r l' r' h; simp [TH] at h; exact h

end Nomt
