import NomtModel.Driver.Parse
import NomtModel.Store.RbModel
/-!
Driver mode `delta` (C09 / C11 / C12): the mirrors of the reverse-delta builder (`Api/DeltaBuild.lean`: `start_load`
over the overlay chain + store, `ReverseDeltaBuilder::finalize`) and of `Rollback` (`Store/RbModel.lean`: `InMemory`,
`commit`, `commit_nonblocking`, `truncate`, `writeout_start / writeout_end`, `read`) behind a line protocol.

Store level (harness command `delta`, the REAL `Nomt` with real sessions, overlays and `StoreLoadValueAsync`; values
travel as value hashes):
* `reset <maxlen>` → `ok`
* `sess <sid> <overlay ids youngest first|->` → `ok` / `err notancestor` / `err incomplete`   (`LiveOverlay::new`)
* `hint <sid> <key>` → `ok`                                                     (`Session::preserve_prior_value`)
* `finish <sid> <fid> <actuals>` → `priors <key:value,…|->`      (`Session::finish`: the priors of the delta built)
  actuals: `key:r:<v|->`, `key:w:<v|->`, `key:x:<prior|->:<v|->`, comma separated, ascending by key
* `overlay <fid> <oid>` → `ok delta=<priors>`                                  (`FinishedSession::into_overlay`)
* `commitfin <fid>` / `commitov <oid>` → `ok <view>`                   (commit: delta appended, one sync)
* `trycommitfin <fid> <hold 0|1|2>` → `busy <view>` / `ok <view>`      (`try_commit_nonblocking`, lock `hold` taken)
* `rollback <n>` → `ok <view>` / `err`                                        (`Nomt::rollback`)
* `reopen` → `ok <view>`                        (`Rollback::read` with the range the last sync published)
* `dump <key,…>` → `key:value,…`                                                 (committed values)
* `dropfin <fid>` → `ok`
`<view>` = `log=<id>=<priors ; separated>|… pend=<n|-> seg=<start>,<end>`.

Log level (harness command `delta-log`, the REAL `Rollback` alone on a scratch directory, values raw bytes):
* `rb-open <maxlen> <start> <end>` → `ok <view>` (`Rollback::read`; the first one of a case on an empty directory)
* `rb-commit <priors>` → `ok <view>`; `rb-try <hold> <priors>` → `busy <priors> <view>` / `ok <view>`
* `rb-truncate <n>` → `none <view>` / `some <traceback> <view>` / `panic`
* `rb-sync` → `ok range=<s>,<e> <view>` / `err` / `panic`
-/
namespace Nomt.Driver
open Nomt Nomt.Ovl Nomt.Dlt Nomt.Rb

abbrev DV := ByteArray

structure DFin where
  id : Nat
  live : Live
  writes : Writes DV
  delta : PMap DV

structure DSt where
  store : KVL DV := []
  heap : Heap DV := []
  committed : List Nat := []
  ovInfo : List (Nat × Writes DV × PMap DV) := []      -- overlay id ↦ (changes, delta)
  lives : List (Nat × Live × List Key) := []            -- session id ↦ live overlay, hints so far
  fins : List DFin := []
  rb : Rb DV := { maxLen := 100 }
  published : Nat × Nat := (0, 0)

def dShowOpt : Option DV → String | some v => hexOfBytes v | none => "-"

def dShowPriors (sep : String) (l : List (Key × Option DV)) : String :=
  if l.isEmpty then "-" else sep.intercalate (l.map (fun (k, v) => s!"{hexOfKey k}:{dShowOpt v}"))

def dShowView (r : Rb DV) : String :=
  let log := if r.log.isEmpty then "-" else "|".intercalate (r.log.map (fun (id, d) => s!"{id}={dShowPriors ";" d}"))
  let pend := match r.pending with | some n => toString n | none => "-"
  s!"log={log} pend={pend} seg={r.seg.startLive},{r.seg.endLive}"

def dParseVal (s : String) : Option (Option DV) := if s == "-" then some none else (bytesOfHex s).map some

def dParseActuals (s : String) : Option (Actuals DV) :=
  (optList s ",").mapM (fun item =>
    match item.splitOn ":" with
    | [k, "r", v] => do let k ← keyOfHex k; let v ← dParseVal v; pure (k, RW.read v)
    | [k, "w", v] => do let k ← keyOfHex k; let v ← dParseVal v; pure (k, RW.write v)
    | [k, "x", p, v] => do let k ← keyOfHex k; let p ← dParseVal p; let v ← dParseVal v; pure (k, RW.rtw p v)
    | _ => none)

/-- the priors of a harness line become a canonical map the way `HashMap::from_iter` builds one -/
def dPriorsOf (l : List (Key × Option DV)) : PMap DV := Dlt.extend [] l

def dParseIds (s : String) : Option (List Nat) := (optList s ",").mapM (·.toNat?)

/-- append the delta and run the sync of a commit -/
def dCommit (s : DSt) (writes : Writes DV) (delta : PMap DV) : DSt × String :=
  let rb1 := s.rb.commit delta
  match rb1.sync with
  | .ok (range, rb2) => ({ s with store := kvApply s.store writes, rb := rb2, published := range }, s!"ok {dShowView rb2}")
  | .err _ => (s, "err")
  | .panic m => (s, "panic")

def deltaStep (s : DSt) (line : String) : DSt × String :=
  match fields line with
  | ["reset", m] =>
    match m.toNat? with
    | some m => ({ rb := { maxLen := m } }, "ok")
    | none => (s, "bad-op")
  | ["sess", sid, ids] =>
    match sid.toNat?, dParseIds ids with
    | some sid, some ids =>
      (match Live.new s.heap (fun a => !s.committed.contains a) (fun a => s.committed.contains a) ids with
       | .ok l => ({ s with lives := (sid, l, []) :: s.lives.filter (·.1 != sid) }, "ok")
       | .err .notAncestor => (s, "err notancestor")
       | .err .incomplete => (s, "err incomplete")
       | .panic m => (s, "panic"))
    | _, _ => (s, "bad-op")
  | ["hint", sid, k] =>
    match sid.toNat?, keyOfHex k with
    | some sid, some k =>
      (match s.lives.find? (·.1 == sid) with
       | some (_, l, hs) => ({ s with lives := (sid, l, hs ++ [k]) :: s.lives.filter (·.1 != sid) }, "ok")
       | none => (s, "bad-op"))
    | _, _ => (s, "bad-op")
  | ["finish", sid, fid, acts] =>
    match sid.toNat?, fid.toNat?, dParseActuals acts with
    | some sid, some fid, some acts =>
      (match s.lives.find? (·.1 == sid) with
       | some (_, l, hs) =>
         (match finalize (startLoad s.heap l s.store) hs acts with
          | .ok d =>
            ({ s with lives := s.lives.filter (·.1 != sid),
                      fins := { id := fid, live := l, writes := writesOf acts, delta := d } :: s.fins },
             s!"priors {dShowPriors "," d}")
          | .err _ => (s, "err")
          | .panic m => (s, "panic"))
       | none => (s, "bad-op"))
    | _, _, _ => (s, "bad-op")
  | ["overlay", fid, oid] =>
    match fid.toNat?.bind (fun i => s.fins.find? (·.id == i)), oid.toNat? with
    | some f, some oid =>
      if oid != s.heap.length then (s, "bad-op") else
      (match Live.finish s.heap f.live f.writes with
       | .ok o =>
         ({ s with heap := s.heap ++ [o], ovInfo := (oid, f.writes, f.delta) :: s.ovInfo,
                   fins := s.fins.filter (·.id != f.id) },
          s!"ok delta={dShowPriors "," f.delta}")
       | .err _ => (s, "err")
       | .panic m => (s, "panic"))
    | _, _ => (s, "bad-op")
  | ["commitfin", fid] =>
    match fid.toNat?.bind (fun i => s.fins.find? (·.id == i)) with
    | some f => dCommit { s with fins := s.fins.filter (·.id != f.id) } f.writes f.delta
    | none => (s, "bad-op")
  | ["trycommitfin", fid, hold] =>
    match fid.toNat?.bind (fun i => s.fins.find? (·.id == i)), hold.toNat? with
    | some f, some hold =>
      (match s.rb.commitNonblocking (hold != 1) (hold != 2) f.delta with
       | (some _, rb') => ({ s with rb := rb' }, s!"busy {dShowView rb'}")
       | (none, rb') =>
         (match rb'.sync with
          | .ok (range, rb2) =>
            ({ s with store := kvApply s.store f.writes, rb := rb2, published := range,
                      fins := s.fins.filter (·.id != f.id) }, s!"ok {dShowView rb2}")
          | .err _ => (s, "err")
          | .panic m => (s, "panic")))
    | _, _ => (s, "bad-op")
  | ["commitov", oid] =>
    match oid.toNat?.bind (fun i => s.ovInfo.find? (·.1 == i)) with
    | some (oid, ws, d) => dCommit { s with committed := oid :: s.committed } ws d
    | none => (s, "bad-op")
  | ["dropfin", fid] =>
    match fid.toNat? with
    | some fid => ({ s with fins := s.fins.filter (·.id != fid) }, "ok")
    | none => (s, "bad-op")
  | ["rollback", n] =>
    match n.toNat? with
    | some 0 => (s, s!"ok {dShowView s.rb}")
    | some n =>
      (match s.rb.truncate n with
       | .ok (none, _) => (s, "err")
       | .ok (some tb, rb1) =>
         (match rb1.sync with
          | .ok (range, rb2) =>
            ({ s with store := kvApply s.store tb, rb := rb2, published := range }, s!"ok {dShowView rb2}")
          | .err _ => (s, "err")
          | .panic m => (s, "panic"))
       | .err _ => (s, "err")
       | .panic m => (s, "panic"))
    | none => (s, "bad-op")
  | ["reopen"] =>
    (match Rb.read s.rb.maxLen s.published s.rb.seg.recs with
     | .ok rb' => ({ s with rb := rb' }, s!"ok {dShowView rb'}")
     | _ => (s, "err"))
  | ["dump", keys] =>
    match (optList keys ",").mapM keyOfHex with
    | some ks => (s, dShowPriors "," (ks.map (fun k => (k, kvGet s.store k))))
    | none => (s, "bad-op")
  -- the real `Rollback` alone
  | ["rb-open", m, a, b] =>
    match m.toNat?, a.toNat?, b.toNat? with
    | some m, some a, some b =>
      (match Rb.read m (a, b) s.rb.seg.recs with
       | .ok rb' => ({ s with rb := rb' }, s!"ok {dShowView rb'}")
       | _ => (s, "err"))
    | _, _, _ => (s, "bad-op")
  | ["rb-commit", p] =>
    match parseOps p with
    | some p => let rb' := s.rb.commit (dPriorsOf p); ({ s with rb := rb' }, s!"ok {dShowView rb'}")
    | none => (s, "bad-op")
  | ["rb-try", hold, p] =>
    match hold.toNat?, parseOps p with
    | some hold, some p =>
      (match s.rb.commitNonblocking (hold != 1) (hold != 2) (dPriorsOf p) with
       | (some d, rb') => ({ s with rb := rb' }, s!"busy {dShowPriors "," d} {dShowView rb'}")
       | (none, rb') => ({ s with rb := rb' }, s!"ok {dShowView rb'}"))
    | _, _ => (s, "bad-op")
  | ["rb-truncate", n] =>
    match n.toNat? with
    | some n =>
      (match s.rb.truncate n with
       | .ok (none, rb') => ({ s with rb := rb' }, s!"none {dShowView rb'}")
       | .ok (some tb, rb') => ({ s with rb := rb' }, s!"some {dShowPriors "," tb} {dShowView rb'}")
       | .err _ => (s, "err")
       | .panic _ => (s, "panic"))
    | none => (s, "bad-op")
  | ["rb-sync"] =>
    (match s.rb.sync with
     | .ok (range, rb') => ({ s with rb := rb', published := range }, s!"ok range={range.1},{range.2} {dShowView rb'}")
     | .err _ => (s, "err")
     | .panic _ => (s, "panic"))
  | _ => (s, "bad-op")

end Nomt.Driver
